#!/bin/sh
# sweep_seeds.sh [outfile]: run every kept seed (seeded/<id>/patch.diff) through the quick check of the property in its
# name, in scratch worktrees of /repo; one line "<seed> <property> rc=<n>" per seed. rc=1: reported; rc=0: not reported by
# THAT property's check (see meta.json: some seeds are reported by a sibling property's check); rc=2: patch no longer
# applies to the current /repo HEAD (seeds written against a tree before a fix) or no verdict.
OUT=${1:-/tmp/sweep.out}; : > $OUT
cd /verif
for d in seeded/*/; do
  s=$(basename $d); [ -f $d/patch.diff ] || continue
  p=$(echo $s | cut -c1-3)
  r=$(sh /verif/tools/try_seed.sh /verif/seeded/$s/patch.diff $p quick 2>&1 | grep -E "^rc=|BROKEN" | tr '\n' ' ')
  echo "$s $p $r" >> $OUT
done
