#!/bin/sh
# runs blind_batch for ids appended to /tmp/blind_queue9.txt, one at a time; stop with: touch /tmp/blind_queue.stop
touch /tmp/blind_queue9.txt; : > /tmp/blind_queue9.done
while [ ! -f /tmp/blind_queue.stop ]; do
  next=$(grep -v -x -F -f /tmp/blind_queue9.done /tmp/blind_queue9.txt | head -1)
  if [ -n "$next" ]; then
    ROUND=9 /tmp/blind_batch.sh $next > /tmp/blind9_$next.out 2>&1
    echo $next >> /tmp/blind_queue9.done
  else
    sleep 15
  fi
done
