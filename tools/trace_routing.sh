#!/bin/sh
# trace_routing.sh <ndjson> : validate a recorded Routing trace against RoutingTrace.tla, print verdict
D=$(mktemp -d /tmp/trr.XXXX); cp /verif/spec/Routing/*.tla /verif/spec/Routing/trace.cfg $D; cp "$1" $D/trace.ndjson; cd $D
timeout ${2:-60} java -Dtlc2.tool.queue.IStateQueue=StateDeque -XX:+UseParallelGC -cp /opt/veriftools/tla/tla2tools.jar:/opt/veriftools/tla/CommunityModules-deps.jar tlc2.TLC -workers 1 -metadir $D/m -config trace.cfg RoutingTrace > o.txt 2>&1
grep -E "TRACE_|states generated|rror" o.txt | grep -v "Invariant NotAccepted\|behavior up to" | tail -4
rm -rf $D
