#!/bin/sh
# try_seed.sh <patch.diff> <Cxx> [tier]: apply a seeded change to /repo, run the check, undo it straight afterwards.
P=$1; ID=$2; TIER=${3:-quick}
cd /repo && git diff --quiet || { echo "/repo dirty"; exit 2; }
git -C /repo apply "$P" || exit 2
cd /verif && ./check $ID --tier $TIER > /tmp/try_seed.out 2>&1; RC=$?
git -C /repo checkout -- .
grep -E "^VIOLATION|^KNOWN-FINDING|BROKEN" /tmp/try_seed.out | head -5
echo "rc=$RC"
