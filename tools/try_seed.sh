#!/bin/sh
# try_seed.sh <patch.diff> <Cxx> [tier]: run a check against a scratch worktree of /repo with the seeded change applied.
# /repo itself and the committed evidence are not touched (VERIF_REPO / VERIF_OUT_DIR).
P=$1; ID=$2; TIER=${3:-quick}
W=/tmp/seedrepo-$$; O=/tmp/seedout-$$
git -C /repo worktree add -q --detach $W HEAD || exit 2
git -C $W apply "$P" || { git -C /repo worktree remove --force $W; exit 2; }
mkdir -p $O
cd /verif && VERIF_REPO=$W VERIF_OUT_DIR=$O ./check $ID --tier $TIER > $O/out.txt 2>&1; RC=$?
grep -E "^VIOLATION|^KNOWN-FINDING|BROKEN" $O/out.txt | cut -c1-220 | head -6
echo "rc=$RC"
git -C /repo worktree remove --force $W; rm -rf $O
