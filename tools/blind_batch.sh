#!/bin/sh
# usage: blind_batch.sh id...   : confirm + first-run (check as it stands) each blind seed; results to /tmp/blind_<id>.out
for id in "$@"; do
  M=/tmp/mut/$id
  for i in 1 2; do
    [ -d $M/MUTATION$i ] || continue
    pkg=$(python3 -c "import json;print(json.load(open('$M/MUTATION$i/meta.json'))['pkg'])")
    dest=$(python3 -c "import json;print(json.load(open('$M/MUTATION$i/meta.json'))['demo_dest'])")
    d=/verif/seeded/$id-r${ROUND:-3}m$i; mkdir -p $d
    cp $M/MUTATION$i/patch.diff $d/; cp $M/MUTATION$i/demo_test.go $d/; cp $M/MUTATION$i/meta.json $d/agent_meta.json
    echo "== $id r${ROUND:-3}m$i confirm"; sh /verif/tools/confirm_seed.sh $M $M/MUTATION$i "$pkg" "$dest" 2>&1 | tail -3
    echo "== $id r${ROUND:-3}m$i first run"; sh /verif/tools/try_seed.sh $d/patch.diff $id quick 2>&1 | tail -2
  done
done
