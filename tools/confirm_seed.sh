#!/bin/sh
# confirm_seed.sh <worktree> <mutation-dir> <pkg> <demo-dest>: confirm a seeded change in a scratch worktree:
# (1) applies cleanly, builds, existing pkg tests pass, demo FAILS; (2) without it demo PASSES.
W=$1; M=$2; PKG=$3; DEST=$4
export GOFLAGS=-mod=mod GOPROXY=off
cd "$W" || exit 2
git checkout -q -- . ; rm -f "$DEST"
git apply "$M/patch.diff" || { echo "APPLY FAILED"; exit 2; }
go build ./... || { echo "BUILD FAILED"; git checkout -q -- .; exit 2; }
if go test -vet=off -count=1 -timeout 600s $PKG >/tmp/confirm_existing.out 2>&1; then echo "existing tests: pass"; else echo "existing tests: FAIL"; tail -5 /tmp/confirm_existing.out; fi
cp "$M/demo_test.go" "$DEST"
if go test -vet=off -count=1 -timeout 300s -run 'Demo' $PKG >/tmp/confirm_demo.out 2>&1; then echo "demo with patch: PASS (unexpected)"; else echo "demo with patch: fail (expected)"; fi
git checkout -q -- .
if go test -vet=off -count=1 -timeout 300s -run 'Demo' $PKG >/tmp/confirm_demo2.out 2>&1; then echo "demo without patch: pass (expected)"; else echo "demo without patch: FAIL (unexpected)"; tail -5 /tmp/confirm_demo2.out; fi
rm -f "$DEST"
