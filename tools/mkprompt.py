import json,glob,os,re,subprocess,sys
ids=sys.argv[1:]
head=subprocess.check_output(["git","-C","/repo","rev-parse","HEAD"]).decode().strip()
tmpl=open("/tmp/mut/C16.prompt6.txt").read()
# split template: before property block, after "Ideas that have ALREADY" list
pre=tmpl.split("---\n")[0]
post=tmpl[tmpl.index("For each mutation i create"):]
mid=tmpl[tmpl.index("Your task: produce"):tmpl.index("Ideas that have ALREADY")]
for i in ids:
    prop=open(f"/tmp/mut/{i}.prop.txt").read().strip()
    used=[]
    for d in sorted(glob.glob(f"/verif/seeded/{i}-*")+glob.glob(f"/verif/seeded/{i}m*")):
        for f in ("agent_meta.json","meta.json"):
            p=os.path.join(d,f)
            if os.path.exists(p):
                try: m=json.load(open(p))
                except Exception: continue
                sm=m.get("summary") or m.get("change") or m.get("what")
                if sm: used.append(re.sub(r"\s+"," ",sm)[:260]); break
    txt=pre.replace("/tmp/mut/C16",f"/tmp/mut/{i}")+"---\n"+prop+"\n\n---\n\n"+mid+"Ideas that have ALREADY been used for this property (do not repeat them or close variants; find different mechanisms, different code sites, different kinds of trigger):\n"+"".join("- "+u+"\n" for u in used)+"\n"+post.replace("/tmp/mut/C16",f"/tmp/mut/{i}").replace('"property":"C16"',f'"property":"{i}"')
    open(f"/tmp/mut/{i}.prompt9.txt","w").write(txt)
    wt=f"/tmp/mut/{i}"
    if os.path.isdir(wt):
        subprocess.call(["git","-C",wt,"checkout","-q","--","."])
        subprocess.call(["git","-C",wt,"clean","-fdq"])
        subprocess.call(["git","-C",wt,"checkout","-q","--detach",head])
    else:
        subprocess.call(["git","-C","/repo","worktree","add","-q","--detach",wt,head])
    print(i,len(used),subprocess.check_output(["git","-C",wt,"rev-parse","--short","HEAD"]).decode().strip())
