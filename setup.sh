#!/bin/sh
# Run once after a fresh restore, offline: warm the Go build cache for /repo and the harness packages.
set -e
cd "$(dirname "$0")"
export GOFLAGS=-mod=mod GOPROXY=off
unset GOSUMDB
mkdir -p scratch evidence replays
( cd /repo && go build ./... && go test -tags verif -count=1 -vet=off -run '^$' ./proxy ./transport/... ./interceptor ./encryption ./proto/... ./common >/dev/null 2>&1 || true )
java -version >/dev/null 2>&1
echo setup ok
