INIT SimInit
NEXT SimNext
CONSTANTS
  NInc = 3
  MaxNotify = 2
  MaxDeliver = 2
  WindowFix = TRUE
  GuardFix = TRUE
  CleanupFix = FALSE
  SerialReg = FALSE
  MaxBatch = 0
  RetryEnds = TRUE
  MaxAck = 0
  Depth = 52
CHECK_DEADLOCK FALSE
