SPECIFICATION Spec
CONSTANTS
  NInc = 2
  MaxNotify = 1
  MaxDeliver = 1
  WindowFix = TRUE
  GuardFix = TRUE
  CleanupFix = TRUE
  SerialReg = TRUE
  MaxBatch = 0
  RetryEnds = TRUE
  MaxAck = 0
INVARIANTS AllGone NoCrash OwnCleanupOnly NewestSender NewestReceiver
CHECK_DEADLOCK FALSE
