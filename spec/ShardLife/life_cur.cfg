SPECIFICATION Spec
CONSTANTS
  NInc = 2
  MaxNotify = 1
  MaxDeliver = 1
  WindowFix = TRUE
  GuardFix = TRUE
  CleanupFix = FALSE
  SerialReg = TRUE
  MaxBatch = 0
  RetryEnds = TRUE
  MaxAck = 0
INVARIANTS AllGone NoCrash NewestSender
CHECK_DEADLOCK FALSE
