SPECIFICATION Spec
CONSTANTS
  NInc = 3
  MaxNotify = 2
  MaxDeliver = 1
  WindowFix = TRUE
  GuardFix = TRUE
  CleanupFix = FALSE
  SerialReg = FALSE
  MaxBatch = 0
  RetryEnds = TRUE
  MaxAck = 0
INVARIANTS AllGone NoCrash
CHECK_DEADLOCK FALSE
