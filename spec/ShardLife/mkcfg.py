#!/usr/bin/env python3
def cfg(name, ninc=2, notify=1, deliver=1, window="TRUE", guard="TRUE", cleanup="FALSE", serial="FALSE", invs=None, depth=None, batch=0, retryends="TRUE", ack=0):
    out = "INIT SimInit\nNEXT SimNext\n" if depth else "SPECIFICATION Spec\n"
    out += "CONSTANTS\n  NInc = %d\n  MaxNotify = %d\n  MaxDeliver = %d\n  WindowFix = %s\n  GuardFix = %s\n  CleanupFix = %s\n  SerialReg = %s\n  MaxBatch = %d\n  RetryEnds = %s\n  MaxAck = %d\n" % (
        ninc, notify, deliver, window, guard, cleanup, serial, batch, retryends, ack)
    if depth:
        out += "  Depth = %d\n" % depth
    else:
        out += "INVARIANTS %s\n" % invs
    out += "CHECK_DEADLOCK FALSE\n"
    open(name + ".cfg", "w").write(out)
ALL = "AllGone NoCrash OwnCleanupOnly NewestSender NewestReceiver"
# the pinned tree (documentation: TLC refutes every clause but AllGone)
cfg("life_pinned", window="FALSE", guard="FALSE", invs=ALL)
# current tree: repairs a (window) and c (guard) in; known findings b (cleanup), d, e (concurrent registration) remain
cfg("life_cur", serial="TRUE", invs="AllGone NoCrash NewestSender")      # sender side must be clean when registrations are serial
cfg("life_cur_full", invs="AllGone NoCrash")                             # nothing crashes / leaks in any interleaving
cfg("life_ideal", cleanup="TRUE", serial="TRUE", invs=ALL)               # the three known classes are the ONLY causes
cfg("life_cur3", ninc=3, serial="TRUE", invs="AllGone NoCrash NewestSender")
cfg("life_cur_full3", ninc=3, notify=2, invs="AllGone NoCrash")
cfg("life_ideal3", ninc=3, cleanup="TRUE", serial="TRUE", invs=ALL)
# task batches for a target shard whose sender is between incarnations: the receiver's retry loop
cfg("life_batch", serial="TRUE", batch=2, ack=1, invs="AllGone NoCrash NewestSender RetryCanEnd")
cfg("life_batch_mut", serial="TRUE", batch=1, retryends="FALSE", invs="RetryCanEnd")      # violated: vacuity guard
cfg("life_ack_mut", serial="TRUE", ack=1, retryends="FALSE", invs="RetryCanEnd")          # violated: vacuity guard (sender side)
cfg("sim_b", batch=2, ack=2, depth=38)
cfg("sim_q", depth=34)
cfg("sim_t", ninc=3, notify=2, deliver=2, depth=52)
