SPECIFICATION Spec
CONSTANTS
  NInc = 2
  MaxNotify = 1
  MaxDeliver = 1
  WindowFix = FALSE
  GuardFix = FALSE
  CleanupFix = FALSE
  SerialReg = FALSE
  MaxBatch = 0
  RetryEnds = TRUE
  MaxAck = 0
INVARIANTS AllGone NoCrash OwnCleanupOnly NewestSender NewestReceiver
CHECK_DEADLOCK FALSE
