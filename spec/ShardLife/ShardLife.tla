------------------------------ MODULE ShardLife ------------------------------
(***************************************************************************)
(* C08: successive incarnations of the replication stream of ONE target     *)
(* shard (proxyStreamSender.Run, incarnations k = 1..NInc) and of ONE source *)
(* shard (proxyStreamReceiver.Run), sharing a shardManagerImpl, plus        *)
(*  - a Notifier: a remote "register" announcement for the target shard     *)
(*    arriving on a memberlist goroutine (shardDelegate.NotifyMsg ->         *)
(*    notifyReceiversOfNewShard -> sendPendingWatermarkToShard);             *)
(*  - a Deliverer: a receiver goroutine handing a message to the target      *)
(*    shard (DeliverMessagesToShardOwner: guarded by recover).               *)
(* Each action is one critical section of the code; the in-method windows    *)
(* are where the build-tag-guarded hooks sit:                                *)
(*   SSet       SetRemoteSendChan                 | hook sender.run.afterSetChan   *)
(*   SAdd       RegisterShard: addLocalShard      | hook sm.register.afterAdd      *)
(*   SNLookup   -> notifyReceiversOfNewShard -> sendPendingWatermarkToShard:       *)
(*              GetRemoteSendChan                 | hook rcv.pendingwm.afterLookup *)
(*   SNSend     send on the looked-up channel                                      *)
(*   SClose     (shutdown) close(sendMsgChan)     | hook sender.run.afterClose     *)
(*   SUnreg     UnregisterShard: delete if Created matches, unlock                 *)
(*                                                | hook sm.unregister.window      *)
(*   SUnreg2    removeLocalShard: delete by key   (removed by the repair)          *)
(*   SRmChan    RemoveRemoteSendChan if identical                                  *)
(*   RTerm      TerminatePreviousLocalReceiver    | gate: stream open in the fake  *)
(*   RSetAck    SetLocalAckChan                   | hook rcv.run.afterSetAck       *)
(*   RSetRest   SetLocalReceiverCancelFunc, RegisterActiveReceiver                 *)
(*   RExit      receiver loops end (cancelled / stream ended) | gate: Recv return  *)
(*   RCleanup   RemoveLocalAckChan(if identical), RemoveLocalReceiverCancelFunc,   *)
(*              UnregisterActiveReceiver                                            *)
(*                                                                          *)
(* Repair switches (TRUE = repaired tree):                                  *)
(*   WindowFix   UnregisterShard no longer deletes a second time by key     *)
(*   GuardFix    the pending-watermark send is guarded by recover            *)
(*   CleanupFix  receiver cleanup removes cancel func / active receiver only *)
(*               when they are its own                                       *)
(***************************************************************************)
EXTENDS Integers, Sequences, FiniteSets, TLC

CONSTANTS NInc, MaxNotify, MaxDeliver, WindowFix, GuardFix, CleanupFix,
          MaxAck,     \* target acknowledgements handed to senders (0: none)
          MaxBatch,   \* task batches handed to receivers (0: none - the instances of the first version of this module)
          RetryEnds,  \* the code: TRUE. the receiver's routing retry loop (no delivery channel and no remote owner for the target
                      \* shard: its sender is between incarnations) and the sender's acknowledgement retry loops (no ack channel for
                      \* the source shard: its receiver is between incarnations) look at their shutdown handle every round
          SerialReg   \* TRUE: a stream of a shard is opened only after its predecessor finished registering
                      \* (factors out the known findings C08-d / C08-e: concurrent registration)
Inc == 1..NInc
None == 0

VARIABLES
  pcS, pcR,         \* program counters of the incarnations
  localShard,       \* incarnation whose registration (timestamp) is in localShards, or None
  sendReg,          \* incarnation whose channel is in remoteSendChannels, or None
  chanOpen,         \* k -> sendMsgChan of k not yet closed
  ended,            \* k -> the stream of sender incarnation k has ended (its shutdown is triggered)
  ackReg, cancelReg, activeReg,   \* receiver registries
  cancelled,        \* k -> the context of receiver k has been cancelled
  lk,               \* k -> channel looked up by sender k's notification path
  npc, ntarget, ncount,           \* Notifier
  dpc, dtarget, dcount,           \* Deliverer
  rb,               \* k -> "retry": receiver k holds a task batch for the target shard and is in the routing retry loop
  bcount,
  sb,               \* k -> "retry": sender k holds an acknowledgement for the source shard and is in its retry loop
  acount,
  crashed,          \* a send hit a closed channel outside a recover guard (process crash)
  stole             \* a cleanup step removed an entry that names another, live incarnation
vars == <<pcS, pcR, localShard, sendReg, chanOpen, ended, ackReg, cancelReg, activeReg, cancelled, lk,
          npc, ntarget, ncount, dpc, dtarget, dcount, crashed, stole, rb, bcount, sb, acount>>

Init == /\ pcS = [k \in Inc |-> "init"] /\ pcR = [k \in Inc |-> "init"]
        /\ localShard = None /\ sendReg = None /\ chanOpen = [k \in Inc |-> FALSE] /\ ended = [k \in Inc |-> FALSE]
        /\ ackReg = None /\ cancelReg = None /\ activeReg = None /\ cancelled = [k \in Inc |-> FALSE]
        /\ lk = [k \in Inc |-> None] /\ npc = "idle" /\ ntarget = None /\ ncount = 0
        /\ dpc = "idle" /\ dtarget = None /\ dcount = 0 /\ crashed = FALSE /\ stole = FALSE
        /\ rb = [k \in Inc |-> "none"] /\ bcount = 0 /\ sb = [k \in Inc |-> "none"] /\ acount = 0

(* ---------------- sender incarnation k ------------------------------------ *)
\* streams of one shard are opened one after the other
Started(pc, k) == IF k = 1 THEN TRUE
                  ELSE IF SerialReg THEN pc[k - 1] \notin {"init", "add", "setack", "setrest"} ELSE pc[k - 1] # "init"
\* a stream for the shard is re-established while the previous incarnation is (at least) shutting down
SSet(k) == /\ pcS[k] = "init" /\ Started(pcS, k) /\ (k > 1 => ended[k - 1])
           /\ sendReg' = k /\ chanOpen' = [chanOpen EXCEPT ![k] = TRUE] /\ pcS' = [pcS EXCEPT ![k] = "add"]
           /\ UNCHANGED <<ended, pcR, localShard, ackReg, cancelReg, activeReg, cancelled, lk, npc, ntarget, ncount, dpc, dtarget, dcount, crashed, stole, rb, bcount, sb, acount>>
SAdd(k) == /\ pcS[k] = "add" /\ localShard' = k       \* unconditional overwrite, Created = now
           /\ pcS' = [pcS EXCEPT ![k] = IF activeReg # None THEN "nlookup" ELSE "running"]
           /\ UNCHANGED <<ended, pcR, sendReg, chanOpen, ackReg, cancelReg, activeReg, cancelled, lk, npc, ntarget, ncount, dpc, dtarget, dcount, crashed, stole, rb, bcount, sb, acount>>
SNLookup(k) == /\ pcS[k] = "nlookup" /\ lk' = [lk EXCEPT ![k] = sendReg]
               /\ pcS' = [pcS EXCEPT ![k] = IF sendReg = None THEN "running" ELSE "nsend"]
               /\ UNCHANGED <<ended, pcR, localShard, sendReg, chanOpen, ackReg, cancelReg, activeReg, cancelled, npc, ntarget, ncount, dpc, dtarget, dcount, crashed, stole, rb, bcount, sb, acount>>
SNSend(k) == /\ pcS[k] = "nsend" /\ crashed' = (crashed \/ (~GuardFix /\ ~chanOpen[lk[k]]))
             /\ pcS' = [pcS EXCEPT ![k] = "running"]
             /\ UNCHANGED <<ended, pcR, localShard, sendReg, chanOpen, ackReg, cancelReg, activeReg, cancelled, lk, npc, ntarget, ncount, dpc, dtarget, dcount, stole, rb, bcount, sb, acount>>
\* environment: the stream of incarnation k ends (Recv/Send fail); Run notices once it is in its main wait
EndS(k) == /\ pcS[k] \notin {"init", "done"} /\ ~ended[k] /\ ended' = [ended EXCEPT ![k] = TRUE]
           /\ UNCHANGED <<pcS, pcR, localShard, sendReg, chanOpen, ackReg, cancelReg, activeReg, cancelled, lk, npc, ntarget, ncount, dpc, dtarget, dcount, crashed, stole, rb, bcount, sb, acount>>
SClose(k) == /\ pcS[k] = "running" /\ ended[k] /\ chanOpen' = [chanOpen EXCEPT ![k] = FALSE] /\ pcS' = [pcS EXCEPT ![k] = "unreg"]
             /\ (RetryEnds \/ sb[k] # "retry") /\ sb' = [sb EXCEPT ![k] = "none"]      \* an acknowledgement held at shutdown is dropped
             /\ UNCHANGED <<ended, pcR, localShard, sendReg, ackReg, cancelReg, activeReg, cancelled, lk, npc, ntarget, ncount, dpc, dtarget, dcount, crashed, stole, rb, bcount, acount>>
\* an acknowledgement of the target arrives on sender k's stream (recvAck): translated and handed to the source shard's
\* registered ack channel, or - none registered, no remote owner - the retry loop with back-off
SAck(k) == /\ pcS[k] = "running" /\ ~ended[k] /\ sb[k] = "none" /\ acount < MaxAck /\ acount' = acount + 1
           /\ sb' = IF ackReg # None THEN sb ELSE [sb EXCEPT ![k] = "retry"]
           /\ UNCHANGED <<ended, pcS, pcR, localShard, sendReg, chanOpen, ackReg, cancelReg, activeReg, cancelled, lk, npc, ntarget, ncount, dpc, dtarget, dcount, crashed, stole, rb, bcount>>
SRetry(k) == /\ pcS[k] = "running" /\ sb[k] = "retry" /\ ackReg # None /\ sb' = [sb EXCEPT ![k] = "none"]
             /\ UNCHANGED <<ended, pcS, pcR, localShard, sendReg, chanOpen, ackReg, cancelReg, activeReg, cancelled, lk, npc, ntarget, ncount, dpc, dtarget, dcount, crashed, stole, rb, bcount, acount>>
SUnreg(k) == /\ pcS[k] = "unreg"
             /\ IF localShard = k THEN localShard' = None /\ pcS' = [pcS EXCEPT ![k] = IF WindowFix THEN "rmchan" ELSE "window"]
                                  ELSE localShard' = localShard /\ pcS' = [pcS EXCEPT ![k] = "rmchan"]
             /\ UNCHANGED <<ended, pcR, sendReg, chanOpen, ackReg, cancelReg, activeReg, cancelled, lk, npc, ntarget, ncount, dpc, dtarget, dcount, crashed, stole, rb, bcount, sb, acount>>
SUnreg2(k) == /\ pcS[k] = "window" /\ stole' = (stole \/ (localShard # None /\ localShard # k)) /\ localShard' = None
              /\ pcS' = [pcS EXCEPT ![k] = "rmchan"]
              /\ UNCHANGED <<ended, pcR, sendReg, chanOpen, ackReg, cancelReg, activeReg, cancelled, lk, npc, ntarget, ncount, dpc, dtarget, dcount, crashed, rb, bcount, sb, acount>>
SRmChan(k) == /\ pcS[k] = "rmchan" /\ sendReg' = (IF sendReg = k THEN None ELSE sendReg) /\ pcS' = [pcS EXCEPT ![k] = "done"]
              /\ UNCHANGED <<ended, pcR, localShard, chanOpen, ackReg, cancelReg, activeReg, cancelled, lk, npc, ntarget, ncount, dpc, dtarget, dcount, crashed, stole, rb, bcount, sb, acount>>

(* ---------------- receiver incarnation k ---------------------------------- *)
RTerm(k) == /\ pcR[k] = "init" /\ Started(pcR, k)
            /\ IF cancelReg # None
                 THEN cancelled' = [cancelled EXCEPT ![cancelReg] = TRUE] /\ cancelReg' = None /\ ackReg' = None
                 ELSE UNCHANGED <<ended, cancelled, cancelReg, ackReg, rb, bcount, sb, acount>>
            /\ pcR' = [pcR EXCEPT ![k] = "setack"]
            /\ UNCHANGED <<ended, pcS, localShard, sendReg, chanOpen, activeReg, lk, npc, ntarget, ncount, dpc, dtarget, dcount, crashed, stole, rb, bcount, sb, acount>>
RSetAck(k) == /\ pcR[k] = "setack" /\ ackReg' = k /\ pcR' = [pcR EXCEPT ![k] = "setrest"]
              /\ UNCHANGED <<ended, pcS, localShard, sendReg, chanOpen, cancelReg, activeReg, cancelled, lk, npc, ntarget, ncount, dpc, dtarget, dcount, crashed, stole, rb, bcount, sb, acount>>
RSetRest(k) == /\ pcR[k] = "setrest" /\ cancelReg' = k /\ activeReg' = k /\ pcR' = [pcR EXCEPT ![k] = "running"]
               /\ UNCHANGED <<ended, pcS, localShard, sendReg, chanOpen, ackReg, cancelled, lk, npc, ntarget, ncount, dpc, dtarget, dcount, crashed, stole, rb, bcount, sb, acount>>
\* the loops end: cancelled by a successor, or the stream was ended from outside
RExit(k) == /\ pcR[k] = "running" /\ pcR' = [pcR EXCEPT ![k] = "cleanup"]
            /\ (RetryEnds \/ rb[k] # "retry") /\ rb' = [rb EXCEPT ![k] = "none"]      \* a batch held at shutdown is dropped
            /\ UNCHANGED <<ended, pcS, localShard, sendReg, chanOpen, ackReg, cancelReg, activeReg, cancelled, lk, npc, ntarget, ncount, dpc, dtarget, dcount, crashed, stole, bcount, sb, acount>>
\* a task batch for the target shard arrives on receiver k's stream (recvReplicationMessages): handed to the registered delivery
\* channel, or - none registered / it is closed (recovered), and no remote owner - the retry loop with back-off
CanDeliver == sendReg # None /\ chanOpen[sendReg]
RBatch(k) == /\ pcR[k] = "running" /\ rb[k] = "none" /\ bcount < MaxBatch /\ bcount' = bcount + 1
             /\ rb' = IF CanDeliver THEN rb ELSE [rb EXCEPT ![k] = "retry"]
             /\ UNCHANGED <<ended, pcS, pcR, localShard, sendReg, chanOpen, ackReg, cancelReg, activeReg, cancelled, lk, npc, ntarget, ncount, dpc, dtarget, dcount, crashed, stole, sb, acount>>
RRetry(k) == /\ pcR[k] = "running" /\ rb[k] = "retry" /\ CanDeliver /\ rb' = [rb EXCEPT ![k] = "none"]
             /\ UNCHANGED <<ended, pcS, pcR, localShard, sendReg, chanOpen, ackReg, cancelReg, activeReg, cancelled, lk, npc, ntarget, ncount, dpc, dtarget, dcount, crashed, stole, bcount, sb, acount>>
Live(j) == pcR[j] \in {"setrest", "running"}
RCleanup(k) ==
  /\ pcR[k] = "cleanup"
  /\ ackReg' = (IF ackReg = k THEN None ELSE ackReg)
  /\ cancelReg' = (IF CleanupFix /\ cancelReg # k THEN cancelReg ELSE None)
  /\ activeReg' = (IF CleanupFix /\ activeReg # k THEN activeReg ELSE None)
  /\ stole' = (stole \/ (~CleanupFix /\ ((cancelReg \notin {None, k} /\ Live(cancelReg)) \/ (activeReg \notin {None, k} /\ Live(activeReg)))))
  /\ pcR' = [pcR EXCEPT ![k] = "done"]
  /\ UNCHANGED <<ended, pcS, localShard, sendReg, chanOpen, cancelled, lk, npc, ntarget, ncount, dpc, dtarget, dcount, crashed, rb, bcount, sb, acount>>

(* ---------------- Notifier: remote register announcement for the target shard (old timestamp: no eviction) --- *)
NLookup == /\ npc = "idle" /\ ncount < MaxNotify /\ activeReg # None
           /\ ntarget' = sendReg /\ npc' = (IF sendReg = None THEN "idle" ELSE "send") /\ ncount' = ncount + 1
           /\ UNCHANGED <<ended, pcS, pcR, localShard, sendReg, chanOpen, ackReg, cancelReg, activeReg, cancelled, lk, dpc, dtarget, dcount, crashed, stole, rb, bcount, sb, acount>>
NSend == /\ npc = "send" /\ crashed' = (crashed \/ (~GuardFix /\ ~chanOpen[ntarget])) /\ npc' = "idle"
         /\ UNCHANGED <<ended, pcS, pcR, localShard, sendReg, chanOpen, ackReg, cancelReg, activeReg, cancelled, lk, ntarget, ncount, dpc, dtarget, dcount, stole, rb, bcount, sb, acount>>
(* ---------------- Deliverer: DeliverMessagesToShardOwner (send guarded by recover) --------------------------- *)
DLookup == /\ dpc = "idle" /\ dcount < MaxDeliver
           /\ dtarget' = sendReg /\ dpc' = (IF sendReg = None THEN "idle" ELSE "send") /\ dcount' = dcount + 1
           /\ UNCHANGED <<ended, pcS, pcR, localShard, sendReg, chanOpen, ackReg, cancelReg, activeReg, cancelled, lk, npc, ntarget, ncount, crashed, stole, rb, bcount, sb, acount>>
DSend == /\ dpc = "send" /\ dpc' = "idle"     \* closed channel: the panic is recovered, the call returns false
         /\ UNCHANGED <<ended, pcS, pcR, localShard, sendReg, chanOpen, ackReg, cancelReg, activeReg, cancelled, lk, npc, ntarget, ncount, dtarget, dcount, crashed, stole, rb, bcount, sb, acount>>

SenderStep(k) == SSet(k) \/ EndS(k) \/ SAdd(k) \/ SNLookup(k) \/ SNSend(k) \/ SClose(k) \/ SAck(k) \/ SRetry(k) \/ SUnreg(k) \/ SUnreg2(k) \/ SRmChan(k)
ReceiverStep(k) == RTerm(k) \/ RSetAck(k) \/ RSetRest(k) \/ RExit(k) \/ RCleanup(k) \/ RBatch(k) \/ RRetry(k)
Next == (\E k \in Inc : SenderStep(k) \/ ReceiverStep(k)) \/ NLookup \/ NSend \/ DLookup \/ DSend
Spec == Init /\ [][Next]_vars

(* ---------------- C08 ------------------------------------------------------------------------------------------ *)
Settled == npc = "idle" /\ dpc = "idle" /\ \A k \in Inc : pcS[k] \in {"init", "running", "done"} /\ pcR[k] \in {"init", "running", "done"}
LiveS == {k \in Inc : pcS[k] = "running" /\ ~ended[k]}
LiveR == {k \in Inc : pcR[k] = "running" /\ ~cancelled[k]}
MaxOf(S) == CHOOSE x \in S : \A y \in S : y <= x
NoCrash == ~crashed
\* a receiver whose stream ends can always leave its loops - also out of the routing retry loop ("no stuck worker")
RetryCanEnd == \A k \in Inc : (pcR[k] = "running" => ENABLED RExit(k)) /\ ((pcS[k] = "running" /\ ended[k]) => ENABLED SClose(k))
OwnCleanupOnly == ~stole
NewestSender == (Settled /\ LiveS # {}) => (localShard = MaxOf(LiveS) /\ sendReg = MaxOf(LiveS))
NewestReceiver == (Settled /\ LiveR # {}) => (ackReg = MaxOf(LiveR) /\ cancelReg = MaxOf(LiveR) /\ activeReg = MaxOf(LiveR))
AllGone == ((\A k \in Inc : pcS[k] = "done" /\ pcR[k] = "done") /\ npc = "idle" /\ dpc = "idle")
             => (localShard = None /\ sendReg = None /\ ackReg = None /\ cancelReg = None /\ activeReg = None)
=============================================================================
