---------------------------- MODULE ShardLifeObs ----------------------------
(***************************************************************************)
(* Observation monitor for C08 on what the REAL shardManagerImpl /           *)
(* proxyStreamSender.Run / proxyStreamReceiver.Run did (trace.ndjson).       *)
(* The harness logs, for every step it let an incarnation take, the          *)
(* registries before and after as incarnation numbers (0 = empty,            *)
(* -1 = present but not attributable).  Violated clauses go to register 1    *)
(* as <<line, clause, action, incarnation>>.                                 *)
(*   crash    a send hit a closed channel outside a recover guard            *)
(*   stole    a cleanup step of incarnation k removed an entry naming k'#k   *)
(*   newest   at quiescence the newest live incarnation is not the one       *)
(*            registered (ownership, delivery channel / ack channel,         *)
(*            watermark replay, cancel function)                             *)
(*   killed   a step of incarnation k ended the upstream stream (its context  *)
(*            is done) of a NEWER receiver incarnation: terminating the       *)
(*            previous incarnation is the successor's job, never the reverse  *)
(*   leftover after all streams ended something is still registered or a     *)
(*            worker is still running                                        *)
(***************************************************************************)
EXTENDS Integers, Sequences, FiniteSets, TLC, Json
Trace == ndJsonDeserialize("trace.ndjson")
ASSUME TLCSet(1, {})
VARIABLES l, crashSeen
FlagAll(S) == IF S = {} THEN TRUE ELSE TLCSet(1, TLCGet(1) \cup S)
MaxSeq(q) == IF Len(q) = 0 THEN 0 ELSE LET S == {q[i] : i \in 1..Len(q)} IN CHOOSE x \in S : \A y \in S : y <= x
Init == l = 1 /\ crashSeen = FALSE
SenderCleanup == {"SUnreg", "SUnreg2", "SRmChan"}
ReceiverCleanup == {"RExit", "RCleanup"}
OnStep(e) ==
  LET b == e.before
      a == e.after
      k == e.k
      taken(x, y) == x \notin {0, k} /\ y = 0      \* an entry naming somebody else disappeared
      stoleS == e.a \in SenderCleanup /\ (taken(b.local, a.local) \/ taken(b.send, a.send))
      stoleR == e.a \in ReceiverCleanup /\ (taken(b.active, a.active) \/ taken(b.ack, a.ack)
                                            \/ (b.cancel # 0 /\ a.cancel = 0 /\ b.active \notin {0, k}))
      \* mid-run form of "newest" for receivers: once the newest receiver incarnation ever started has completed its registration
      \* (pc running) the ack-channel and active-receiver registries name it - also while older incarnations are still around
      D == DOMAIN a.pcR
      \* the newest incarnation ever started (older ones are terminated by it, whatever the harness' pc says about them)
      Started == {"1", "2", "3"} \cap D
      Num(x) == IF x = "1" THEN 1 ELSE IF x = "2" THEN 2 ELSE 3
      newestR == IF "3" \in Started THEN "3" ELSE IF "2" \in Started THEN "2" ELSE "1"
      midBad == e.ok /\ Started # {} /\ a.pcR[newestR] = "running"
                /\ (a.ack # Num(newestR) \/ a.active # Num(newestR))
      Dead(x) == {x.dead[i] : i \in 1..Len(x.dead)}
      killedSet == {j \in Dead(a) \ Dead(b) : j > k /\ e.a \in ReceiverCleanup \cup {"RTerm", "RSetAck", "RSetRest"}}
  IN /\ FlagAll((IF e.crash # "" /\ ~crashSeen THEN {<<l, "crash", e.a, k>>} ELSE {})
                \cup {<<l, "killed", e.a, j>> : j \in killedSet}
                \cup (IF stoleS \/ stoleR THEN {<<l, "stole", e.a, k>>} ELSE {})
                \cup (IF midBad THEN {<<l, "newest", "R", Num(newestR)>>} ELSE {}))
     /\ crashSeen' = (crashSeen \/ e.crash # "")
OnSettled(e) ==
  LET s == e.snap
      ms == MaxSeq(e.liveS)
      mr == MaxSeq(e.liveR)
      badS == ms # 0 /\ (s.local # ms \/ s.send # ms)
      badR == mr # 0 /\ (s.ack # mr \/ s.active # mr \/ e.cancelProbe # mr)
  IN /\ FlagAll((IF badS THEN {<<l, "newest", "S", ms>>} ELSE {}) \cup (IF badR THEN {<<l, "newest", "R", mr>>} ELSE {})
                \cup (IF e.crash # "" /\ ~crashSeen THEN {<<l, "crash", "settle", 0>>} ELSE {}))
     /\ crashSeen' = (crashSeen \/ e.crash # "")
OnEnd(e) ==
  LET s == e.snap IN
  /\ FlagAll((IF s.local # 0 \/ s.send # 0 \/ s.ack # 0 \/ s.active # 0 \/ s.cancel # 0 \/ e.workers # 0 \/ ~e.clean
              THEN {<<l, "leftover", "End", e.workers>>} ELSE {})
             \cup (IF e.crash # "" /\ ~crashSeen THEN {<<l, "crash", "end", 0>>} ELSE {}))
  /\ crashSeen' = crashSeen
Next == /\ l <= Len(Trace) /\ l' = l + 1
        /\ LET e == Trace[l] IN
           CASE e.ev = "Config" -> crashSeen' = FALSE
             [] e.ev = "Step" -> OnStep(e)
             [] e.ev = "Settled" -> OnSettled(e)
             [] e.ev = "End" -> OnEnd(e)
             [] OTHER -> UNCHANGED crashSeen
Spec == Init /\ [][Next]_<<l, crashSeen>>
Report == PrintT(<<"OBS_VIOLATIONS", TLCGet(1)>>) /\ PrintT(<<"OBS_TRACE_LEN", Len(Trace)>>)
=============================================================================
