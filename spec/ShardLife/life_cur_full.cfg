SPECIFICATION Spec
CONSTANTS
  NInc = 2
  MaxNotify = 1
  MaxDeliver = 1
  WindowFix = TRUE
  GuardFix = TRUE
  CleanupFix = FALSE
  SerialReg = FALSE
  MaxBatch = 0
  RetryEnds = TRUE
INVARIANTS AllGone NoCrash
CHECK_DEADLOCK FALSE
