INIT SimInit
NEXT SimNext
CONSTANTS
  NInc = 2
  MaxNotify = 1
  MaxDeliver = 1
  WindowFix = TRUE
  GuardFix = TRUE
  CleanupFix = FALSE
  SerialReg = FALSE
  MaxBatch = 0
  RetryEnds = TRUE
  MaxAck = 0
  Depth = 34
CHECK_DEADLOCK FALSE
