SPECIFICATION Spec
CONSTANTS
  NInc = 2
  MaxNotify = 1
  MaxDeliver = 1
  WindowFix = TRUE
  GuardFix = TRUE
  CleanupFix = FALSE
  SerialReg = TRUE
  MaxBatch = 1
  RetryEnds = FALSE
  MaxAck = 0
INVARIANTS RetryCanEnd
CHECK_DEADLOCK FALSE
