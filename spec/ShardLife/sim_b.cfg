INIT SimInit
NEXT SimNext
CONSTANTS
  NInc = 2
  MaxNotify = 1
  MaxDeliver = 1
  WindowFix = TRUE
  GuardFix = TRUE
  CleanupFix = FALSE
  SerialReg = FALSE
  MaxBatch = 2
  RetryEnds = TRUE
  MaxAck = 2
  Depth = 38
CHECK_DEADLOCK FALSE
