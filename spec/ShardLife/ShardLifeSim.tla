---------------------------- MODULE ShardLifeSim ----------------------------
(* Behaviour generator: ShardLife plus the history of actions.  Every step of *)
(* this module is a gate release in the harness, so the history IS the        *)
(* schedule.  Prints each behaviour of exactly Depth steps and every shorter  *)
(* maximal one (padded).                                                       *)
EXTENDS ShardLife, Json
CONSTANT Depth
VARIABLE hist
Cmd(a, k) == hist' = Append(hist, [a |-> a, k |-> k])
SimInit == Init /\ hist = <<>>
SimStep ==
  \/ \E k \in Inc : SSet(k) /\ Cmd("SSet", k)
  \/ \E k \in Inc : EndS(k) /\ Cmd("EndS", k)
  \/ \E k \in Inc : SAdd(k) /\ Cmd("SAdd", k)
  \/ \E k \in Inc : SNLookup(k) /\ Cmd("SNLookup", k)
  \/ \E k \in Inc : SNSend(k) /\ Cmd("SNSend", k)
  \/ \E k \in Inc : SClose(k) /\ Cmd("SClose", k)
  \/ \E k \in Inc : SAck(k) /\ Cmd(IF ackReg # None THEN "SAck" ELSE "SAckRetry", k)
  \/ \E k \in Inc : SRetry(k) /\ Cmd("SRetry", k)
  \/ \E k \in Inc : SUnreg(k) /\ Cmd("SUnreg", k)
  \/ \E k \in Inc : SUnreg2(k) /\ Cmd("SUnreg2", k)
  \/ \E k \in Inc : SRmChan(k) /\ Cmd("SRmChan", k)
  \/ \E k \in Inc : RTerm(k) /\ Cmd("RTerm", k)
  \/ \E k \in Inc : RSetAck(k) /\ Cmd("RSetAck", k)
  \/ \E k \in Inc : RSetRest(k) /\ Cmd("RSetRest", k)
  \/ \E k \in Inc : RExit(k) /\ Cmd("RExit", k)
  \/ \E k \in Inc : RCleanup(k) /\ Cmd("RCleanup", k)
  \/ \E k \in Inc : RBatch(k) /\ Cmd(IF CanDeliver THEN "RBatch" ELSE "RBatchRetry", k)
  \/ \E k \in Inc : RRetry(k) /\ Cmd("RRetry", k)
  \/ (NLookup /\ Cmd("NLookup", 0))
  \/ (NSend /\ Cmd("NSend", 0))
  \/ (DLookup /\ Cmd("DLookup", 0))
  \/ (DSend /\ Cmd("DSend", 0))
Pad == ~ENABLED Next /\ Cmd("Pad", 0) /\ UNCHANGED vars
SimNext == /\ Len(hist) < Depth
           /\ (SimStep \/ Pad)
           /\ (Len(hist') = Depth => PrintT(ToJson(hist')))
=============================================================================
