SPECIFICATION Spec
CONSTANTS
  NInc = 2
  MaxNotify = 1
  MaxDeliver = 1
  WindowFix = TRUE
  GuardFix = TRUE
  CleanupFix = FALSE
  SerialReg = TRUE
  MaxBatch = 2
  RetryEnds = TRUE
  MaxAck = 1
INVARIANTS AllGone NoCrash NewestSender RetryCanEnd
CHECK_DEADLOCK FALSE
