----------------------------- MODULE IntraProxy -----------------------------
(***************************************************************************)
(* C09, clause "a message or acknowledgement addressed to a shard is handed *)
(* ... to the known remote owner, and is reported undelivered - never       *)
(* silently dropped or delivered twice": the intra-proxy peer streams of    *)
(* proxy/intra_proxy_router.go.                                             *)
(*                                                                          *)
(* An instance i keeps, per peer p, two tables keyed by <<target, source>>: *)
(*   rtab[<<i,p,k>>]  peers[p].receivers[k]: the client stream i opened to  *)
(*                    p (k[1] local to i, k[2] owned by p in i's view)      *)
(*   stab[<<i,p,k>>]  peers[p].senders[k]: the server side of a stream p    *)
(*                    opened to i, registered by intraProxyStreamSender.Run *)
(* A stream n has a client end (st[n].c) and a server end (st[n].s):        *)
(*   c: free -> opening -> open -> exiting -> gone                          *)
(*        opening  ensureStream put the receiver into the table and spawned *)
(*                 the goroutine; Run is in client.Stream...(ctx) (blocks   *)
(*                 while the connection to the peer is not ready: hold)     *)
(*        open     r.streamClient set, recvReplicationMessages loops        *)
(*        exiting  Recv returned (cancel / break / EOF), Run is returning   *)
(*        gone     ensureStream's goroutine deleted receivers[key]          *)
(*   s: none -> accepted -> exiting -> gone                                 *)
(*        accepted streamIntraProxyRouting let it in, RegisterSender done   *)
(*        exiting  recvAck's Recv returned an error                         *)
(*        gone     deferred UnregisterSender done / the handler refused     *)
(*                                                                          *)
(* Actions (file proxy/intra_proxy_router.go unless noted):                 *)
(*   AddLocal/RemoveLocal  shard_manager.go:RegisterShard / UnregisterShard *)
(*   SetView/Leave   shard_manager.go:MergeRemoteState / NotifyLeave (the   *)
(*                   only writers of remoteNodeStates)                      *)
(*   Hold/Unhold     a peer's server is unreachable for a while: connections *)
(*                   to it die and new ones are slow to get ready           *)
(*   Break           the transport between two instances breaks            *)
(*   Begin(i)        Start loop (timer tick or Notify) -> Reconcile-        *)
(*                   PeerStreams: GetLocalShards x GetRemoteShardsForPeer   *)
(*                   -> desiredReceivers / desiredSenders (maps key -> peer)*)
(*   Ensure(i)       EnsureReceiverForPeerShard -> ensureStream (fast path  *)
(*                   "receiver exists and streamClient != nil", else new    *)
(*                   receiver overwrites receivers[key]) -> ensurePeer      *)
(*   Prune(i)        ReconcilePeerStreams check(): closePeerShardLocked for *)
(*                   every key not in the desired KEY set, under streamsMu  *)
(*   CliOpen         intraProxyStreamReceiver.Run: stream created           *)
(*   CliOpenFail     Run: stream creation failed (context cancelled)        *)
(*   SrvArrive       admin_stream_transfer.go:streamIntraProxyRouting:      *)
(*                   source local and target not local -> Sender.Run ->     *)
(*                   RegisterSender (overwrites senders[key]); else refuse  *)
(*   CliEnd          recvReplicationMessages: Recv returned                 *)
(*   CliExit         ensureStream goroutine: delete(ps.receivers, key)      *)
(*   SrvEnd          intraProxyStreamSender.recvAck: Recv returned an error *)
(*   SrvExit         Sender.Run: deferred UnregisterSender (delete key);    *)
(*                   the handler returns (client sees EOF)                  *)
(*   RouteMsg        shard_manager.go:DeliverMessagesToShardOwner ->        *)
(*                   intraProxyManager.sendReplicationMessages (senders)    *)
(*   RouteAck        shard_manager.go:DeliverAckToShardOwner ->             *)
(*                   intraProxyManager.sendAck (receivers, streamClient)    *)
(*   Deliver         the other end of the stream reads the oldest entry and *)
(*                   hands it to the local channel (blocking: needs room);  *)
(*                   what is in flight when that end stops reading is lost  *)
(*   AckNoChan       recvAck at an owner without a local ack channel: error,*)
(*                   the stream is shut down (variant: dropped silently)    *)
(*   Stall/Unstall   the shard's local stream stops / resumes consuming     *)
(*   Consume         ... and takes the oldest entry out of the channel      *)
(*                                                                          *)
(* Repairs (proposed/C09-intraproxy-streams.diff), each behind a constant:  *)
(*   FixSenderPrune    pruning a sender also ends its stream                *)
(*   FixGuardedDelete  CliExit / SrvExit delete the table entry only if it  *)
(*                     is still their own                                   *)
(*   FixOpening        ensureStream reuses a receiver that is still opening *)
(*   FixPeerKey        pruning compares <<key, peer>>, not the key alone    *)
(***************************************************************************)
EXTENDS Integers, FiniteSets, Sequences, TLC

CONSTANTS Inst, Shard, MaxStreams, MaxEnv, MaxMsg,
          AllowHold, AllowBreak, AllowRemove, AllowStall, Cap, Warm, AllowTopo, AckDropSilently,
          FixSenderPrune, FixGuardedDelete, FixOpening, FixPeerKey

Cluster(sh) == sh \div 10
Keys == {k \in Shard \X Shard : Cluster(k[1]) # Cluster(k[2])}     \* <<target shard, source shard>>
Sid == 1..MaxStreams
TabDom == {<<i, p, k>> : i \in Inst, p \in Inst, k \in Keys}
AnyInst == CHOOSE i \in Inst : TRUE
AnyKey == CHOOSE k \in Keys : TRUE
FreeRec == [cli |-> AnyInst, srv |-> AnyInst, key |-> AnyKey, c |-> "free", s |-> "none",
            cancel |-> FALSE, brk |-> FALSE, eof |-> FALSE, sshut |-> FALSE]

VARIABLES
  local,    \* [Inst -> SUBSET Shard]            shardManager.localShards
  view,     \* [Inst -> [Inst -> SUBSET Shard]]  shardManager.remoteNodeStates
  st,       \* [Sid -> stream record]
  rtab, stab,
  pc,       \* [Inst -> "idle" | "run"]          ReconcilePeerStreams in progress
  des,      \* [Inst -> [r, s : sets of <<key, peer>>]]  desired maps of the running reconciliation
  todo,     \* [Inst -> desired receivers not ensured yet]
  hold,     \* [Inst -> BOOLEAN]  connections to this instance's server do not get ready
  frozen,   \* the environment has stopped changing and every view is accurate
  nenv,
  msgs,     \* set of [id, kind, n, key, to, state]  routed messages / acks handed to a stream
  stall,    \* set of <<instance, shard>>: the local consumer of that shard's channels (the shard's own stream) does not take
            \* anything out at the moment (back-pressure); the channels hold Cap entries
  wire      \* [<<client, server>> -> Seq(Sid)]  streams created by the client whose handler has not started yet: the
            \* streams of one connection reach the server in the order they were created
vars == <<local, view, st, rtab, stab, pc, des, todo, hold, frozen, nenv, msgs, wire, stall>>

Min(S) == CHOOSE x \in S : \A y \in S : x <= y
FreeSids == {n \in Sid : st[n].c = "free"}
Norm(rec) == IF rec.c = "gone" /\ rec.s \in {"gone"} THEN FreeRec ELSE rec

InitRest ==
        /\ st = [n \in Sid |-> FreeRec]
        /\ rtab = [x \in TabDom |-> 0] /\ stab = [x \in TabDom |-> 0]
        /\ pc = [i \in Inst |-> "idle"] /\ des = [i \in Inst |-> [r |-> {}, s |-> {}]] /\ todo = [i \in Inst |-> {}]
        /\ hold = [i \in Inst |-> FALSE] /\ frozen = FALSE /\ nenv = 0 /\ msgs = {}
        /\ wire = [x \in Inst \X Inst |-> <<>>] /\ stall = {}
\* Warm: the run starts with one shard of either cluster local to each of the first two instances and accurate views (the
\* commands that produce this state are the first four of the schedule), so that most of the schedule is spent on streams
WA == CHOOSE i \in Inst : TRUE
WB == CHOOSE i \in Inst \ {WA} : TRUE
W1 == CHOOSE sh \in Shard : \A x \in Shard : sh <= x
W2 == CHOOSE sh \in Shard : Cluster(sh) # Cluster(W1) /\ \A x \in Shard : Cluster(x) # Cluster(W1) => sh <= x
Init == /\ InitRest
        /\ IF Warm THEN /\ local = [i \in Inst |-> IF i = WA THEN {W1} ELSE IF i = WB THEN {W2} ELSE {}]
                         /\ view = [i \in Inst |-> [p \in Inst |-> IF i = WA /\ p = WB THEN {W2} ELSE IF i = WB /\ p = WA THEN {W1} ELSE {}]]
           ELSE local = [i \in Inst |-> {}] /\ view = [i \in Inst |-> [p \in Inst |-> {}]]

----------------------------------------------------------------------------
(* environment *)
Env == ~frozen /\ nenv < MaxEnv /\ nenv' = nenv + 1
AddLocal(i, sh) ==
  /\ Env /\ AllowTopo /\ \A j \in Inst : sh \notin local[j]          \* ownership conflicts are the business of spec/Gossip
  /\ local' = [local EXCEPT ![i] = @ \cup {sh}]
  /\ UNCHANGED <<view, st, rtab, stab, pc, des, todo, hold, frozen, msgs, wire, stall>>
RemoveLocal(i, sh) ==
  /\ Env /\ AllowRemove /\ sh \in local[i] /\ <<i, sh>> \notin stall
  /\ local' = [local EXCEPT ![i] = @ \ {sh}]
  /\ UNCHANGED <<view, st, rtab, stab, pc, des, todo, hold, frozen, msgs, wire, stall>>
\* a state push of p (current or stale, or of a shard set p never held) is merged at i; at most one owner per shard in a view
SetView(i, p, S) ==
  /\ Env /\ AllowTopo /\ i # p /\ S # view[i][p] /\ S # {}
  /\ \A q \in Inst \ {p} : S \cap view[i][q] = {}
  /\ view' = [view EXCEPT ![i][p] = S]
  /\ UNCHANGED <<local, st, rtab, stab, pc, des, todo, hold, frozen, msgs, wire, stall>>
Leave(i, p) ==
  /\ Env /\ AllowTopo /\ i # p /\ view[i][p] # {}
  /\ view' = [view EXCEPT ![i][p] = {}]
  /\ UNCHANGED <<local, st, rtab, stab, pc, des, todo, hold, frozen, msgs, wire, stall>>
\* the server of j becomes unreachable: established connections to it die, new ones do not get ready until Unhold
Hold(j) ==
  /\ Env /\ AllowHold /\ ~hold[j] /\ hold' = [hold EXCEPT ![j] = TRUE]
  /\ st' = [n \in Sid |-> IF st[n].srv = j /\ (st[n].c \in {"open", "exiting"} \/ st[n].s \in {"accepted", "exiting"})
                           THEN [st[n] EXCEPT !.brk = TRUE] ELSE st[n]]
  /\ UNCHANGED <<local, view, rtab, stab, pc, des, todo, frozen, msgs, wire, stall>>
Unhold(j) ==
  /\ ~frozen /\ hold[j] /\ hold' = [hold EXCEPT ![j] = FALSE]
  /\ UNCHANGED <<local, view, st, rtab, stab, pc, des, todo, frozen, nenv, msgs, wire, stall>>
OnWire(n) == st[n].c \in {"open", "exiting"} \/ st[n].s \in {"accepted", "exiting"}
Break(i, j) ==
  /\ Env /\ AllowBreak /\ i # j
  /\ \E n \in Sid : st[n].cli = i /\ st[n].srv = j /\ OnWire(n) /\ ~st[n].brk
  /\ st' = [n \in Sid |-> IF st[n].cli = i /\ st[n].srv = j /\ OnWire(n) THEN [st[n] EXCEPT !.brk = TRUE] ELSE st[n]]
  /\ UNCHANGED <<local, view, rtab, stab, pc, des, todo, hold, frozen, msgs, wire, stall>>
\* gossip converges (every instance holds every other instance's state), nothing is held back any more
Freeze ==
  /\ ~frozen /\ frozen' = TRUE
  /\ view' = [i \in Inst |-> [p \in Inst |-> IF p = i THEN {} ELSE local[p]]]
  /\ hold' = [i \in Inst |-> FALSE] /\ stall' = {}
  /\ UNCHANGED <<local, st, rtab, stab, pc, des, todo, nenv, msgs, wire>>

\* back-pressure: the local stream of a shard stops / resumes taking entries out of the shard's local channels
Stall(i, sh) ==
  /\ Env /\ AllowStall /\ sh \in local[i] /\ <<i, sh>> \notin stall /\ stall' = stall \cup {<<i, sh>>}
  /\ UNCHANGED <<local, view, st, rtab, stab, pc, des, todo, hold, frozen, msgs, wire>>
Unstall(i, sh) ==
  /\ <<i, sh>> \in stall /\ stall' = stall \ {<<i, sh>>}
  /\ UNCHANGED <<local, view, st, rtab, stab, pc, des, todo, hold, frozen, nenv, msgs, wire>>

----------------------------------------------------------------------------
(* reconciliation *)
DesR(i) == {kp \in Keys \X (Inst \ {i}) : kp[1][1] \in local[i] /\ kp[1][2] \in view[i][kp[2]]}
DesS(i) == {kp \in Keys \X (Inst \ {i}) : kp[1][2] \in local[i] /\ kp[1][1] \in view[i][kp[2]]}
Begin(i) ==
  /\ pc[i] = "idle" /\ pc' = [pc EXCEPT ![i] = "run"]
  /\ des' = [des EXCEPT ![i] = [r |-> DesR(i), s |-> DesS(i)]]
  /\ todo' = [todo EXCEPT ![i] = DesR(i)]
  /\ UNCHANGED <<local, view, st, rtab, stab, hold, frozen, nenv, msgs, wire, stall>>
EnsureSkip(i, k) == k[1] \notin local[i] /\ k[2] \notin local[i]       \* EnsureReceiverForPeerShard: neither shard is local
EnsureReuse(i, p, k) == LET cur == rtab[<<i, p, k>>] IN
  cur # 0 /\ (st[cur].c \in {"open", "exiting"} \/ (FixOpening /\ st[cur].c = "opening"))
NewStream(i, p, k) == [FreeRec EXCEPT !.cli = i, !.srv = p, !.key = k, !.c = "opening"]
Ensure(i) ==
  /\ pc[i] = "run" /\ todo[i] # {}
  /\ \E kp \in todo[i] :
       LET k == kp[1]  p == kp[2] IN
       /\ todo' = [todo EXCEPT ![i] = @ \ {kp}]
       /\ IF EnsureSkip(i, k) \/ EnsureReuse(i, p, k) THEN UNCHANGED <<st, rtab, wire>>
          ELSE /\ FreeSids # {}
               /\ LET n == Min(FreeSids) IN
                    /\ st' = [st EXCEPT ![n] = NewStream(i, p, k)]
                    /\ rtab' = [rtab EXCEPT ![<<i, p, k>>] = n]
  /\ UNCHANGED <<local, view, stab, pc, des, hold, frozen, nenv, msgs, wire, stall>>
\* the keys check() closes at instance i given desired maps d: closePeerShardLocked(peer, ps, key) closes the receiver AND the
\* sender of the key; "desired" looks at the key only (the peer a key is desired for is ignored) unless FixPeerKey
CloseSet(i, d) ==
  LET keysR == {kp[1] : kp \in d.r}
      keysS == {kp[1] : kp \in d.s}
      notR(p, k) == IF FixPeerKey THEN <<k, p>> \notin d.r ELSE k \notin keysR
      notS(p, k) == IF FixPeerKey THEN <<k, p>> \notin d.s ELSE k \notin keysS
  IN {pk \in (Inst \ {i}) \X Keys : \/ rtab[<<i, pk[1], pk[2]>>] # 0 /\ notR(pk[1], pk[2])
                                    \/ stab[<<i, pk[1], pk[2]>>] # 0 /\ notS(pk[1], pk[2])}
Prune(i) ==
  /\ pc[i] = "run" /\ todo[i] = {}
  /\ LET close == CloseSet(i, des[i])
         rclosed == {rtab[<<i, pk[1], pk[2]>>] : pk \in close} \ {0}
         sclosed == {stab[<<i, pk[1], pk[2]>>] : pk \in close} \ {0}
     IN /\ rtab' = [x \in TabDom |-> IF x[1] = i /\ <<x[2], x[3]>> \in close THEN 0 ELSE rtab[x]]
        /\ stab' = [x \in TabDom |-> IF x[1] = i /\ <<x[2], x[3]>> \in close THEN 0 ELSE stab[x]]
        /\ st' = [n \in Sid |-> IF n \in rclosed THEN [st[n] EXCEPT !.cancel = TRUE]      \* shut.Shutdown(), r.cancel(), CloseSend
                                ELSE IF n \in sclosed /\ FixSenderPrune THEN [st[n] EXCEPT !.sshut = TRUE, !.eof = TRUE]
                                ELSE st[n]]                                               \* delete(ps.senders, key) only
  /\ pc' = [pc EXCEPT ![i] = "idle"]
  /\ UNCHANGED <<local, view, des, todo, hold, frozen, nenv, msgs, wire, stall>>

----------------------------------------------------------------------------
(* the two ends of a stream *)
\* what is still in flight when the reading end of the stream stops reading is lost with the stream (not judged here)
LostAt(n, kind) == {IF m.n = n /\ m.kind = kind /\ m.state = "flight" THEN [m EXCEPT !.state = "lost"] ELSE m : m \in msgs}
DelR(n) == LET x == <<st[n].cli, st[n].srv, st[n].key>> IN
  IF FixGuardedDelete /\ rtab[x] # n THEN rtab ELSE [rtab EXCEPT ![x] = 0]
DelS(n) == LET x == <<st[n].srv, st[n].cli, st[n].key>> IN
  IF FixGuardedDelete /\ stab[x] # n THEN stab ELSE [stab EXCEPT ![x] = 0]
CliOpen(n) ==
  /\ st[n].c = "opening" /\ ~st[n].cancel /\ ~hold[st[n].srv]
  /\ st' = [st EXCEPT ![n].c = "open"]
  /\ wire' = [wire EXCEPT ![<<st[n].cli, st[n].srv>>] = Append(@, n)]
  /\ UNCHANGED <<local, view, rtab, stab, pc, des, todo, hold, frozen, nenv, msgs, stall>>
CliOpenFail(n) ==
  /\ st[n].c = "opening" /\ st[n].cancel
  /\ st' = [st EXCEPT ![n] = FreeRec] /\ rtab' = DelR(n)
  /\ UNCHANGED <<local, view, stab, pc, des, todo, hold, frozen, nenv, msgs, wire, stall>>
Accepts(n) == st[n].key[2] \in local[st[n].srv] /\ st[n].key[1] \notin local[st[n].srv]
SrvArrive(n) ==
  /\ st[n].s = "none" /\ ~st[n].brk
  /\ wire[<<st[n].cli, st[n].srv>>] # <<>> /\ Head(wire[<<st[n].cli, st[n].srv>>]) = n
  /\ wire' = [wire EXCEPT ![<<st[n].cli, st[n].srv>>] = Tail(@)]
  /\ IF Accepts(n)
     THEN /\ st' = [st EXCEPT ![n].s = "accepted"]
          /\ stab' = [stab EXCEPT ![<<st[n].srv, st[n].cli, st[n].key>>] = n]
     ELSE /\ st' = [st EXCEPT ![n] = Norm([st[n] EXCEPT !.s = "gone", !.eof = TRUE])] /\ UNCHANGED stab
  /\ UNCHANGED <<local, view, rtab, pc, des, todo, hold, frozen, nenv, msgs, stall>>
SrvSkip(n) ==    \* the transport broke before the server saw the stream
  /\ st[n].s = "none" /\ st[n].brk /\ st[n].c \in {"open", "exiting", "gone"}
  /\ st' = [st EXCEPT ![n] = Norm([st[n] EXCEPT !.s = "gone", !.eof = TRUE])]
  /\ wire' = [wire EXCEPT ![<<st[n].cli, st[n].srv>>] = SelectSeq(@, LAMBDA x : x # n)]
  /\ UNCHANGED <<local, view, rtab, stab, pc, des, todo, hold, frozen, nenv, msgs, stall>>
CliEnd(n) ==
  /\ st[n].c = "open" /\ (st[n].cancel \/ st[n].brk \/ st[n].eof)
  /\ st' = [st EXCEPT ![n].c = "exiting"] /\ msgs' = LostAt(n, "msg")
  /\ UNCHANGED <<local, view, rtab, stab, pc, des, todo, hold, frozen, nenv, wire, stall>>
CliExit(n) ==
  /\ st[n].c = "exiting"
  /\ st' = [st EXCEPT ![n] = Norm([st[n] EXCEPT !.c = "gone"])] /\ rtab' = DelR(n)
  /\ UNCHANGED <<local, view, stab, pc, des, todo, hold, frozen, nenv, msgs, wire, stall>>
SrvEnd(n) ==
  /\ st[n].s = "accepted" /\ (st[n].cancel \/ st[n].brk \/ st[n].sshut)
  /\ st' = [st EXCEPT ![n].s = "exiting"] /\ msgs' = LostAt(n, "ack")
  /\ UNCHANGED <<local, view, rtab, stab, pc, des, todo, hold, frozen, nenv, wire, stall>>
SrvExit(n) ==
  /\ st[n].s = "exiting"
  /\ st' = [st EXCEPT ![n] = Norm([st[n] EXCEPT !.s = "gone", !.eof = TRUE])] /\ stab' = DelS(n)
  /\ UNCHANGED <<local, view, rtab, pc, des, todo, hold, frozen, nenv, msgs, wire, stall>>

----------------------------------------------------------------------------
(* routed messages and acknowledgements on the streams *)
Owner(j, sh) == {p \in Inst \ {j} : sh \in view[j][p]}
SrvSendOK(n) == st[n].s = "accepted" /\ ~st[n].cancel /\ ~st[n].brk /\ ~st[n].sshut
CliSendOK(n) == st[n].c = "open" /\ ~st[n].cancel /\ ~st[n].brk /\ ~st[n].eof
NextId == Cardinality(msgs) + 1
\* outcome of DeliverMessagesToShardOwner(k[1], msg from k[2]) at j when k[1] has no local channel: the stream it goes to, or 0
MsgStream(j, k) == IF Owner(j, k[1]) = {} THEN 0
                   ELSE LET p == CHOOSE q \in Owner(j, k[1]) : TRUE  n == stab[<<j, p, k>>] IN
                        IF n # 0 /\ SrvSendOK(n) THEN n ELSE 0
AckStream(i, k) == IF Owner(i, k[2]) = {} THEN 0
                   ELSE LET p == CHOOSE q \in Owner(i, k[2]) : TRUE  n == rtab[<<i, p, k>>] IN
                        IF n # 0 /\ CliSendOK(n) THEN n ELSE 0
Handoff(id, kind, from, k, owner, n) ==
  [id |-> id, kind |-> kind, n |-> n, key |-> k, from |-> from, owner |-> owner,
   skey |-> IF n = 0 THEN k ELSE st[n].key,                                  \* the pair of the stream it was handed to
   rend |-> IF n = 0 THEN owner ELSE IF kind = "msg" THEN st[n].cli ELSE st[n].srv,   \* the instance at the other end
   state |-> IF n = 0 THEN "undelivered" ELSE "flight"]
RouteMsg(j, k) ==
  /\ Cardinality(msgs) < MaxMsg /\ k[1] \notin local[j] /\ Owner(j, k[1]) # {}
  /\ msgs' = msgs \cup {Handoff(NextId, "msg", j, k, CHOOSE q \in Owner(j, k[1]) : TRUE, MsgStream(j, k))}
  /\ UNCHANGED <<local, view, st, rtab, stab, pc, des, todo, hold, frozen, nenv, wire, stall>>
RouteAck(i, k) ==
  /\ Cardinality(msgs) < MaxMsg /\ k[2] \notin local[i] /\ Owner(i, k[2]) # {}
  /\ msgs' = msgs \cup {Handoff(NextId, "ack", i, k, CHOOSE q \in Owner(i, k[2]) : TRUE, AckStream(i, k))}
  /\ UNCHANGED <<local, view, st, rtab, stab, pc, des, todo, hold, frozen, nenv, wire, stall>>
\* the local channel an entry goes to at the reading end: the target shard's send channel (messages), the source shard's ack channel
ChanOf(m) == <<m.rend, m.kind, IF m.kind = "msg" THEN m.key[1] ELSE m.key[2]>>
\* the reading end has the local channel of the shard (it exists exactly while the shard's local stream is registered)
HasChan(m) == ChanOf(m)[3] \in local[m.rend]
Queued(ch) == {x \in msgs : x.state = "queued" /\ ChanOf(x) = ch}
\* the other end reads the oldest entry of the stream and hands it to the local channel (recvReplicationMessages: ch <- msg /
\* recvAck -> DeliverAckToShardOwner: ackCh <- ack, both blocking): needs room in the channel
Deliver(m) ==
  /\ m.state = "flight"
  /\ IF m.kind = "msg" THEN CliSendOK(m.n) ELSE SrvSendOK(m.n)
  /\ \A x \in msgs : (x.n = m.n /\ x.kind = m.kind /\ x.state = "flight") => m.id <= x.id
  /\ HasChan(m)       \* (a message for a shard without a local send channel waits in the receiver's retry loop)
  /\ Cardinality(Queued(ChanOf(m))) < Cap
  /\ msgs' = (msgs \ {m}) \cup {[m EXCEPT !.state = "queued"]}
  /\ UNCHANGED <<local, view, st, rtab, stab, pc, des, todo, hold, frozen, nenv, wire, stall>>
\* intraProxyStreamSender.recvAck: the acknowledgement reached the recorded owner over the stream, but that instance has no local
\* ack channel for the source shard (DeliverAckToShardOwner(..., allowForward=false) returns false): recvAck returns an error, the
\* stream is shut down - the forwarding side, whose send had succeeded, learns of it by its stream ending. Variant AckDropSilently:
\* log and go on with the next Recv (nobody learns that the acknowledgement is gone).
AckNoChan(m) ==
  /\ m.state = "flight" /\ m.kind = "ack" /\ SrvSendOK(m.n) /\ ~HasChan(m)
  /\ \A x \in msgs : (x.n = m.n /\ x.kind = m.kind /\ x.state = "flight") => m.id <= x.id
  /\ IF AckDropSilently
     THEN msgs' = (msgs \ {m}) \cup {[m EXCEPT !.state = "dropped"]} /\ UNCHANGED st
     ELSE /\ msgs' = (msgs \ {m}) \cup {[m EXCEPT !.state = "refused"]}
          /\ st' = [st EXCEPT ![m.n] = [@ EXCEPT !.sshut = TRUE, !.eof = TRUE]]
  /\ UNCHANGED <<local, view, rtab, stab, pc, des, todo, hold, frozen, nenv, wire, stall>>
\* the shard's local stream takes the oldest entry out of the channel
Consume(m) ==
  /\ m.state = "queued" /\ <<m.rend, ChanOf(m)[3]>> \notin stall
  /\ \A x \in Queued(ChanOf(m)) : m.id <= x.id
  /\ msgs' = (msgs \ {m}) \cup {[m EXCEPT !.state = "arrived"]}
  /\ UNCHANGED <<local, view, st, rtab, stab, pc, des, todo, hold, frozen, nenv, wire, stall>>

----------------------------------------------------------------------------
EnvNext ==
  \/ \E i \in Inst, sh \in Shard : AddLocal(i, sh) \/ RemoveLocal(i, sh)
  \/ \E i, p \in Inst : (\E S \in SUBSET Shard : SetView(i, p, S)) \/ Leave(i, p) \/ Break(i, p)
  \/ \E j \in Inst : Hold(j) \/ Unhold(j)
  \/ \E i \in Inst, sh \in Shard : Stall(i, sh) \/ Unstall(i, sh)
  \/ Freeze
RecNext == \E i \in Inst : Begin(i) \/ Ensure(i) \/ Prune(i)
StreamNext == \E n \in Sid : CliOpen(n) \/ CliOpenFail(n) \/ SrvArrive(n) \/ SrvSkip(n) \/ CliEnd(n) \/ CliExit(n)
                             \/ SrvEnd(n) \/ SrvExit(n)
MsgNext == \/ \E j \in Inst, k \in Keys : RouteMsg(j, k) \/ RouteAck(j, k)
           \/ \E m \in msgs : Deliver(m) \/ Consume(m) \/ AckNoChan(m)
Next == EnvNext \/ RecNext \/ StreamNext \/ MsgNext
Fair == /\ \A i \in Inst : WF_vars(Begin(i)) /\ WF_vars(Ensure(i)) /\ WF_vars(Prune(i))
        /\ \A n \in Sid : /\ WF_vars(CliOpen(n)) /\ WF_vars(CliOpenFail(n)) /\ WF_vars(SrvArrive(n)) /\ WF_vars(SrvSkip(n))
                          /\ WF_vars(CliEnd(n)) /\ WF_vars(CliExit(n)) /\ WF_vars(SrvEnd(n)) /\ WF_vars(SrvExit(n))
        /\ WF_vars(Freeze)
Spec == Init /\ [][Next]_vars
FairSpec == Spec /\ Fair

----------------------------------------------------------------------------
(* properties *)
Healthy(n) == /\ st[n].c = "open" /\ st[n].s = "accepted"
              /\ ~st[n].cancel /\ ~st[n].brk /\ ~st[n].eof /\ ~st[n].sshut
ClientLive(n) == st[n].c \in {"opening", "open"} /\ ~st[n].cancel /\ ~st[n].brk /\ ~st[n].eof

TypeOK ==
  /\ \A n \in Sid : st[n].c \in {"free", "opening", "open", "exiting", "gone"} /\ st[n].s \in {"none", "accepted", "exiting", "gone"}
  /\ \A x \in TabDom : rtab[x] \in 0..MaxStreams /\ stab[x] \in 0..MaxStreams
\* a table entry names a stream of its own pair and instances: a message never goes onto another pair's stream
TableSound ==
  \A x \in TabDom :
    /\ rtab[x] # 0 => LET r == st[rtab[x]] IN r.cli = x[1] /\ r.srv = x[2] /\ r.key = x[3] /\ r.c \in {"opening", "open", "exiting"}
    /\ stab[x] # 0 => LET r == st[stab[x]] IN r.srv = x[1] /\ r.cli = x[2] /\ r.key = x[3] /\ r.s \in {"accepted", "exiting"}
\* an open stream is the one both tables name: what is routed to a known owner with an open stream goes onto it
HealthyListed ==
  \A n \in Sid : Healthy(n) => /\ rtab[<<st[n].cli, st[n].srv, st[n].key>>] = n
                               /\ stab[<<st[n].srv, st[n].cli, st[n].key>>] = n
\* never two live streams of one (client, server, pair)
NoDup == \A n, m \in Sid : (n # m /\ ClientLive(n) /\ ClientLive(m)) =>
            <<st[n].cli, st[n].srv, st[n].key>> # <<st[m].cli, st[m].srv, st[m].key>>
\* reported delivered only onto a stream of the pair whose other end is the owner; never twice (ids are unique by construction)
MsgSound ==
  \A m \in msgs : m.state # "undelivered" => m.n # 0 /\ m.skey = m.key /\ m.rend = m.owner
\* every entry comes out of the local channel exactly once (one record per id) and in the order of the hand-offs: nothing that was
\* handed to a stream later is out (or in the channel) while an earlier entry of the same stream is still in flight
\* no silent loss: what the forwarder's send accepted is handed to a local channel, or is still on its way / waiting, or was lost
\* with its stream, or was refused BY ENDING THE STREAM - never dropped while the stream goes on
NoSilentLoss == \A m \in msgs : m.state # "dropped"
MsgOrder ==
  \A m1, m2 \in msgs : (m1.n = m2.n /\ m1.kind = m2.kind /\ m1.n # 0 /\ m1.id < m2.id /\ m1.state = "flight")
                         => m2.state \in {"flight", "lost"}
StreamBusy(n) ==
  \/ st[n].c = "opening" /\ (st[n].cancel \/ ~hold[st[n].srv])
  \/ st[n].s = "none" /\ st[n].c \in {"open", "exiting", "gone"}
  \/ st[n].c = "open" /\ (st[n].cancel \/ st[n].brk \/ st[n].eof)
  \/ st[n].c = "exiting"
  \/ st[n].s = "accepted" /\ (st[n].cancel \/ st[n].brk \/ st[n].sshut)
  \/ st[n].s = "exiting"
ReconcileNoop(i) ==
  /\ \A kp \in DesR(i) : EnsureSkip(i, kp[1]) \/ EnsureReuse(i, kp[2], kp[1])
  /\ CloseSet(i, [r |-> DesR(i), s |-> DesS(i)]) = {}
Quiescent == /\ \A i \in Inst : pc[i] = "idle" /\ ReconcileNoop(i)
             /\ \A n \in Sid : ~StreamBusy(n)
\* nothing missing, nothing extra, nothing outside the tables, no stream to an instance that is not the owner
Converged ==
  /\ \A i \in Inst : \A p \in Inst \ {i} : \A k \in Keys :
       /\ (<<k, p>> \in DesR(i)) <=> (rtab[<<i, p, k>>] # 0)
       /\ (<<k, p>> \in DesS(i)) <=> (stab[<<i, p, k>>] # 0)
       /\ rtab[<<i, p, k>>] # 0 => Healthy(rtab[<<i, p, k>>]) /\ stab[<<p, i, k>>] = rtab[<<i, p, k>>]
       /\ stab[<<i, p, k>>] # 0 => Healthy(stab[<<i, p, k>>]) /\ rtab[<<p, i, k>>] = stab[<<i, p, k>>]
  /\ \A n \in Sid : st[n].c # "free" => Healthy(n) /\ rtab[<<st[n].cli, st[n].srv, st[n].key>>] = n
FixpointOK == (frozen /\ Quiescent) => Converged
\* under fairness (the environment eventually stops, ticks keep coming): from some point on the tables are the desired ones for good
Converges == <>[]Converged
=============================================================================
