INIT SimInit
NEXT SimNext
CONSTANTS
  Inst = {a, b, c}
  Shard = {11, 21}
  MaxStreams = 6
  MaxEnv = 8
  MaxMsg = 5
  AllowHold = TRUE
  AllowBreak = TRUE
  AllowStall = TRUE
  Cap = 1
  AckDropSilently = FALSE
  AllowTopo = TRUE
  AllowRemove = TRUE
  FixSenderPrune = TRUE
  FixGuardedDelete = TRUE
  FixOpening = TRUE
  FixPeerKey = TRUE
  Depth = 20
  MaxSlow = 0
  Warm = TRUE
CHECK_DEADLOCK FALSE
