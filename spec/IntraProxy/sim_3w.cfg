INIT SimInit
NEXT SimNext
CONSTANTS
  Inst = {a, b, c}
  Shard = {11, 21}
  MaxStreams = 6
  MaxEnv = 8
  MaxMsg = 3
  AllowHold = TRUE
  AllowBreak = TRUE
  AllowStall = TRUE
  Cap = 1
  AllowRemove = TRUE
  FixSenderPrune = FALSE
  FixGuardedDelete = FALSE
  FixOpening = FALSE
  FixPeerKey = FALSE
  Depth = 20
  MaxSlow = 0
  Warm = TRUE
CHECK_DEADLOCK FALSE
