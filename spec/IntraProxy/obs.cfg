SPECIFICATION Spec
POSTCONDITION Report
CHECK_DEADLOCK FALSE
