SPECIFICATION Spec
CONSTANTS
  Inst = {a, b}
  Shard = {11, 21}
  MaxStreams = 3
  MaxEnv = 3
  MaxMsg = 0
  AllowHold = TRUE
  AllowBreak = TRUE
  AllowStall = FALSE
  Cap = 1
  AckDropSilently = FALSE
  AllowTopo = TRUE
  Warm = FALSE
  AllowRemove = TRUE
  FixSenderPrune = TRUE
  FixGuardedDelete = TRUE
  FixOpening = TRUE
  FixPeerKey = TRUE
INVARIANTS NoSilentLoss TypeOK TableSound HealthyListed NoDup MsgSound FixpointOK
CHECK_DEADLOCK FALSE
