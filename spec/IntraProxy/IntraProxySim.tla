--------------------------- MODULE IntraProxySim ---------------------------
(* Behaviour generator for the replay on the real intraProxyManagers: IntraProxy plus the history of the COMMANDS the       *)
(* harness executes. What the real code does by itself between two commands (stream creation, the peer's handler, the rest  *)
(* of a reconciliation pass, a Recv that returns) is run to completion before the next command, as the harness does         *)
(* (settle). The two cleanup steps the harness can schedule (CliExit, SrvExit) and everything the environment does are      *)
(* commands. hist is printed as ONE JSON line.                                                                               *)
EXTENDS IntraProxy, Json
CONSTANTS Depth, MaxSlow
VARIABLES hist, nslow
svars == <<vars, hist, nslow>>
Cmd(r) == hist' = Append(hist, r)
SimInit == /\ nslow = 0 /\ InitRest
           /\ IF Warm THEN /\ local = [i \in Inst |-> IF i = WA THEN {W1} ELSE IF i = WB THEN {W2} ELSE {}]
                            /\ view = [i \in Inst |-> [p \in Inst |-> IF i = WA /\ p = WB THEN {W2} ELSE IF i = WB /\ p = WA THEN {W1} ELSE {}]]
                            /\ hist = << [a |-> "AddLocal", i |-> WA, sh |-> W1], [a |-> "AddLocal", i |-> WB, sh |-> W2],
                                         [a |-> "SetView", i |-> WA, j |-> WB, set |-> {W2}], [a |-> "SetView", i |-> WB, j |-> WA, set |-> {W1}] >>
              ELSE hist = <<>> /\ local = [i \in Inst |-> {}] /\ view = [i \in Inst |-> [p \in Inst |-> {}]]

Auto == \/ \E i \in Inst : Ensure(i) \/ Prune(i)
        \/ \E n \in Sid : CliOpen(n) \/ CliOpenFail(n) \/ SrvArrive(n) \/ SrvSkip(n) \/ CliEnd(n) \/ SrvEnd(n)
        \/ \E m \in msgs : Deliver(m) \/ Consume(m) \/ AckNoChan(m)
\* while a local consumer is stalled the schedule only hands messages / acks over and releases it (a pure back-pressure window)
Explicit0 ==
  \/ \E i \in Inst, sh \in Shard : \/ AddLocal(i, sh) /\ Cmd([a |-> "AddLocal", i |-> i, sh |-> sh])
                                   \/ RemoveLocal(i, sh) /\ Cmd([a |-> "RemoveLocal", i |-> i, sh |-> sh])
  \* a push of p's current state, or a stale / wrong one of at most one shard
  \/ \E i, p \in Inst : \/ \E S \in {local[p]} \cup {{sh} : sh \in Shard} : SetView(i, p, S) /\ Cmd([a |-> "SetView", i |-> i, j |-> p, set |-> S])
                        \/ Leave(i, p) /\ Cmd([a |-> "Leave", i |-> i, j |-> p])
                        \/ Break(i, p) /\ Cmd([a |-> "Break", i |-> i, j |-> p])
  \/ \E j \in Inst : \/ Hold(j) /\ Cmd([a |-> "Hold", j |-> j])
                     \/ Unhold(j) /\ Cmd([a |-> "Unhold", j |-> j])
  \/ \E i \in Inst : /\ Cardinality(FreeSids) >= Cardinality(DesR(i))     \* the model's stream bound never blocks a pass
                     /\ Begin(i) /\ Cmd([a |-> "Reconcile", i |-> i])
  \/ \E n \in Sid : \/ CliExit(n) /\ Cmd([a |-> "CliExit", i |-> st[n].cli, j |-> st[n].srv, t |-> st[n].key[1], s |-> st[n].key[2]])
                    \/ SrvExit(n) /\ Cmd([a |-> "SrvExit", i |-> st[n].cli, j |-> st[n].srv, t |-> st[n].key[1], s |-> st[n].key[2]])
Explicit == stall = {} /\ Explicit0
SlowOK(n) == IF n = 0 THEN nslow < MaxSlow /\ nslow' = nslow + 1 ELSE nslow' = nslow   \* a hand-off without a sender waits 2 s
Routes ==
  \/ \E j \in Inst, k \in Keys : /\ RouteMsg(j, k) /\ SlowOK(MsgStream(j, k))
                                 /\ Cmd([a |-> "RouteMsg", i |-> j, t |-> k[1], s |-> k[2]])
  \/ \E i \in Inst, k \in Keys : /\ RouteAck(i, k) /\ nslow' = nslow
                                 /\ Cmd([a |-> "RouteAck", i |-> i, t |-> k[1], s |-> k[2]])
\* a consumer is stalled only while an open stream can hand something to its channels
Feeds(i, sh) == \E n \in Sid : Healthy(n) /\ ((st[n].cli = i /\ st[n].key[1] = sh) \/ (st[n].srv = i /\ st[n].key[2] = sh))
Stalls ==
  \E i \in Inst, sh \in Shard : \/ (stall = {} /\ Feeds(i, sh) /\ Stall(i, sh) /\ Cmd([a |-> "Stall", i |-> i, sh |-> sh]))
                                  \/ (Unstall(i, sh) /\ Cmd([a |-> "Unstall", i |-> i, sh |-> sh]))
SimNext == /\ Len(hist) < Depth
           /\ IF ENABLED Auto THEN Auto /\ UNCHANGED <<hist, nslow>>
              ELSE (Explicit /\ nslow' = nslow) \/ Routes \/ (Stalls /\ nslow' = nslow)
           /\ (Len(hist') = Depth => PrintT(ToJson(hist')))
=============================================================================
