INIT SimInit
NEXT SimNext
CONSTANTS
  Inst = {a, b}
  Shard = {11, 21}
  MaxStreams = 6
  MaxEnv = 9
  MaxMsg = 3
  AllowHold = TRUE
  AllowBreak = TRUE
  AllowStall = TRUE
  Cap = 1
  AllowRemove = TRUE
  FixSenderPrune = FALSE
  FixGuardedDelete = FALSE
  FixOpening = FALSE
  FixPeerKey = FALSE
  Depth = 18
  MaxSlow = 1
  Warm = FALSE
CHECK_DEADLOCK FALSE
