INIT SimInit
NEXT SimNext
CONSTANTS
  Inst = {a, b}
  Shard = {11, 21}
  MaxStreams = 6
  MaxEnv = 9
  MaxMsg = 5
  AllowHold = TRUE
  AllowBreak = TRUE
  AllowStall = TRUE
  Cap = 1
  AckDropSilently = FALSE
  AllowTopo = TRUE
  AllowRemove = TRUE
  FixSenderPrune = TRUE
  FixGuardedDelete = TRUE
  FixOpening = TRUE
  FixPeerKey = TRUE
  Depth = 18
  MaxSlow = 1
  Warm = FALSE
CHECK_DEADLOCK FALSE
