SPECIFICATION Spec
CONSTANTS
  Inst = {a, b, c}
  Shard = {11, 21}
  MaxStreams = 3
  MaxEnv = 3
  MaxMsg = 0
  AllowHold = FALSE
  AllowBreak = FALSE
  AllowStall = FALSE
  Cap = 1
  AllowTopo = TRUE
  Warm = FALSE
  AllowRemove = TRUE
  FixSenderPrune = TRUE
  FixGuardedDelete = TRUE
  FixOpening = TRUE
  FixPeerKey = TRUE
INVARIANTS TypeOK TableSound HealthyListed NoDup MsgSound FixpointOK
CHECK_DEADLOCK FALSE
