--------------------------- MODULE IntraProxyObs ---------------------------
(***************************************************************************)
(* Observation monitor for C09 / IntraProxy on what 2-3 REAL                *)
(* intraProxyManagers did over real gRPC (trace.ndjson, one event per       *)
(* command with a snapshot of all peer tables and of both ends of every     *)
(* stream). History only; nothing of the generator's state is used.         *)
(*                                                                          *)
(* every event                                                              *)
(*   stuck      a bounded wait of the harness expired: some stream end did  *)
(*              not reach running / parked / gone                           *)
(*   spin       a receiver that is in no table any more keeps waiting for a *)
(*              local channel of its target shard                           *)
(*   leak       (Teardown) goroutines of stream ends outlive the run        *)
(*   twice      a routed message / ack arrived more than once               *)
(*   ghost      it arrived although the hand-off was reported undelivered   *)
(*   wrongpair  it arrived elsewhere than at the known owner's channel of   *)
(*              its (target, source) pair                                   *)
(*   order      entries of one pair come out of a local channel in another  *)
(*              order than they were handed over                            *)
(*   wm         a pending watermark that was never handed to a stream from   *)
(*              that source to this instance                                *)
(* Route events (DeliverMessagesToShardOwner / DeliverAckToShardOwner)      *)
(*   unrouted   reported undelivered although a stream of the pair between  *)
(*              the router and the known owner is open at both ends         *)
(*   lost       reported delivered, the owner has the local channel, nothing*)
(*              arrived (if the owner's consumer is stalled - back-pressure *)
(*              - judged when it is released: Unstall / Freeze "missing")   *)
(*   dropped    an ack that the forwarder's send accepted was read by an    *)
(*              owner without a local ack channel and the stream goes on    *)
(*              (neither handed over nor answered by the stream ending)     *)
(* after Reconcile(i)                                                       *)
(*   extra      i's tables hold a receiver / sender that is not desired for *)
(*              that peer by i's own local shards x remote view             *)
(* Quiet (views accurate, whatever was parked has finished, reconciliation  *)
(* has run to a fixpoint on every instance)                                 *)
(*   missing / extra   tables differ from the desired sets                  *)
(*   unhealthy  a table entry whose stream is not open / serving            *)
(*   orphan     a stream end that runs but is not the one its table names   *)
(*   dup        two running streams of one (client, server, pair)           *)
(*   unstable   no fixpoint within the bound                                *)
(***************************************************************************)
EXTENDS Integers, Sequences, FiniteSets, TLC, Json
Trace == ndJsonDeserialize("trace.ndjson")
ASSUME TLCSet(1, {})
VARIABLES l, routed, count, last
vars == <<l, routed, count, last>>
FlagAll(S) == IF S = {} THEN TRUE ELSE TLCSet(1, TLCGet(1) \cup S)
Put(f, k, v) == [x \in DOMAIN f \cup {k} |-> IF x = k THEN v ELSE f[x]]
Range(q) == {q[x] : x \in 1..Len(q)}
Cluster(sh) == sh \div 10
Init == l = 1 /\ routed = <<>> /\ count = <<>> /\ last = <<>>

Local(e) == {<<x[1], x[2]>> : x \in Range(e.local)}                       \* <<i, shard>>
View(e) == {<<x[1], x[2], x[3]>> : x \in Range(e.view)}                   \* <<i, peer, shard>>
RecvTab(e) == {<<x[1], x[2], x[3], x[4]>> : x \in Range(e.recv)}          \* <<i, peer, t, s>>
SendTab(e) == {<<x[1], x[2], x[3], x[4]>> : x \in Range(e.send)}
\* desired sets from local shards x remote view: receivers (t local, s at the peer), senders (s local, t at the peer)
DesR(e) == {<<lo[1], v[2], lo[2], v[3]>> : <<lo, v>> \in {y \in Local(e) \X View(e) : y[1][1] = y[2][1] /\ Cluster(y[1][2]) # Cluster(y[2][3])}}
DesS(e) == {<<lo[1], v[2], v[3], lo[2]>> : <<lo, v>> \in {y \in Local(e) \X View(e) : y[1][1] = y[2][1] /\ Cluster(y[1][2]) # Cluster(y[2][3])}}
Running(e, i, p, t, s) ==     \* a stream of the pair from client i to server p runs at both ends
  /\ \E c \in Range(e.cli) : c[1] = i /\ c[2] = p /\ c[3] = t /\ c[4] = s /\ c[5] = "run"
  /\ \E w \in Range(e.srv) : w[1] = i /\ w[2] = p /\ w[3] = t /\ w[4] = s /\ w[5] = "serve"

Stuck(e) == (IF Len(e.unsettled) > 0 \/ "stuck" \in DOMAIN e THEN {<<l, "stuck", 0, 0>>} ELSE {})
            \* a receiver that was pruned (it is in no table any more) still waits for a local channel of its target shard
            \cup {<<l, "spin", c[3], c[4]>> : c \in {x \in Range(e.cli) : x[5] = "spin" /\ ~x[6]}}
\* arrivals: <<inst, kind, chan, t, s, id>>
ArrBad(e, rt, cn) ==
  UNION {LET id == a[6] IN
         IF a[2] = "wm"
         THEN IF id \in DOMAIN rt /\ rt[id].kind = "msg" /\ rt[id].result /\ rt[id].s = a[5] /\ rt[id].owner = a[1] THEN {}
              ELSE {<<l, "wm", a[4], a[5]>>}
         ELSE IF id \notin DOMAIN rt THEN {<<l, "ghost", a[4], a[5]>>}
         ELSE (IF ~rt[id].result THEN {<<l, "ghost", a[4], a[5]>>} ELSE {})
              \cup (IF a[1] # rt[id].owner \/ a[2] # rt[id].kind \/ a[4] # rt[id].t \/ a[5] # rt[id].s
                       \/ a[3] # (IF a[2] = "msg" THEN a[4] ELSE a[5]) THEN {<<l, "wrongpair", a[4], a[5]>>} ELSE {})
              \cup (IF id \in DOMAIN cn \/ Cardinality({x \in 1..Len(e.arr) : e.arr[x][6] = id /\ e.arr[x][2] # "wm"}) > 1
                    THEN {<<l, "twice", a[4], a[5]>>} ELSE {})
         : a \in Range(e.arr)}
\* order: what comes out of one local channel for one pair comes out in the order it was handed over (ids grow with the hand-offs)
RECURSIVE Walk(_, _, _)
Walk(arr, k, la) ==
  IF k > Len(arr) THEN [bad |-> {}, la |-> la]
  ELSE LET a == arr[k]
           key == <<a[1], a[2], a[3], a[4], a[5]>>
       IN IF a[2] = "wm" THEN Walk(arr, k + 1, la)
          ELSE LET r == Walk(arr, k + 1, Put(la, key, a[6])) IN
               [bad |-> r.bad \cup (IF key \in DOMAIN la /\ la[key] > a[6] THEN {<<l, "order", a[4], a[5]>>} ELSE {}), la |-> r.la]
Missing(e) == IF "missing" \in DOMAIN e /\ Len(e.missing) > 0 THEN {<<l, "lost", 0, 0>>} ELSE {}
CountAfter(e, cn) == [id \in DOMAIN cn \cup {a[6] : a \in {x \in Range(e.arr) : x[2] # "wm"}} |-> 1]
IsRoute(e) == e.a \in {"RouteMsg", "RouteAck"}
RouteRec(e) == [kind |-> IF e.a = "RouteMsg" THEN "msg" ELSE "ack", from |-> e.i, t |-> e.t, s |-> e.s,
                result |-> e.result, owner |-> e.owner]
RouteBad(e) ==
  LET open == IF e.a = "RouteMsg" THEN Running(e, e.owner, e.i, e.t, e.s) ELSE Running(e, e.i, e.owner, e.t, e.s)
      arrived == \E a \in Range(e.arr) : a[6] = e.id /\ a[2] # "wm"
  IN (IF e.owner # "" /\ open /\ ~e.result THEN {<<l, "unrouted", e.t, e.s>>} ELSE {})
     \cup (IF e.result /\ e.ownerHas /\ ~e.stalled /\ ~arrived THEN {<<l, "lost", e.t, e.s>>} ELSE {})
     \* an acknowledgement the forwarder's send accepted reached an owner WITHOUT a local ack channel: it is not handed over, so the
     \* owner has to answer by ending the stream (that is how the forwarding side learns of it); read and the stream goes on = dropped silently
     \cup (IF e.a = "RouteAck" /\ e.result /\ ~e.ownerHas /\ "received" \in DOMAIN e /\ e.received /\ ~arrived /\ open
           THEN {<<l, "dropped", e.t, e.s>>} ELSE {})
ExtraAt(e, i) == {<<l, "extra", x[3], x[4]>> : x \in {y \in (RecvTab(e) \ DesR(e)) \cup (SendTab(e) \ DesS(e)) : y[1] = i}}

OnStep(e) ==
  LET rt == IF IsRoute(e) /\ e.ok THEN Put(routed, e.id, RouteRec(e)) ELSE routed IN
  /\ FlagAll(Stuck(e) \cup ArrBad(e, rt, count) \cup Walk(e.arr, 1, last).bad \cup Missing(e)
             \cup (IF IsRoute(e) /\ e.ok THEN RouteBad(e) ELSE {})
             \cup (IF e.a = "Reconcile" THEN ExtraAt(e, e.i) ELSE {}))
  /\ routed' = rt /\ count' = CountAfter(e, count) /\ last' = Walk(e.arr, 1, last).la

OnQuiet(e) ==
  LET insts == {x : x \in Range(e.inst)}
      acc == View(e) = {<<i, lo[1], lo[2]>> : <<i, lo>> \in {y \in insts \X Local(e) : y[1] # y[2][1]}}
      dupc == {c \in Range(e.cli) : \E x, y \in 1..Len(e.cli) : x # y /\ e.cli[x][5] = "run" /\ e.cli[y][5] = "run"
                                       /\ <<e.cli[x][1], e.cli[x][2], e.cli[x][3], e.cli[x][4]>> = <<c[1], c[2], c[3], c[4]>>
                                       /\ <<e.cli[y][1], e.cli[y][2], e.cli[y][3], e.cli[y][4]>> = <<c[1], c[2], c[3], c[4]>>}
  IN
  /\ FlagAll(Stuck(e) \cup ArrBad(e, routed, count) \cup Walk(e.arr, 1, last).bad
       \cup (IF ~acc THEN {<<l, "view", 0, 0>>} ELSE {})
       \cup (IF ~e.stable THEN {<<l, "unstable", 0, 0>>} ELSE {})
       \cup {<<l, "missing", x[3], x[4]>> : x \in (DesR(e) \ RecvTab(e)) \cup (DesS(e) \ SendTab(e))}
       \cup {<<l, "extra", x[3], x[4]>> : x \in (RecvTab(e) \ DesR(e)) \cup (SendTab(e) \ DesS(e))}
       \cup {<<l, "unhealthy", x[3], x[4]>> : x \in {y \in Range(e.recv) : ~y[5]} \cup {y \in Range(e.send) : y[5] # "serve"}}
       \cup {<<l, "orphan", x[3], x[4]>> : x \in {y \in Range(e.cli) : ~y[6] /\ y[5] # "spin"} \cup {y \in Range(e.srv) : ~y[6]}}
       \cup {<<l, "dup", c[3], c[4]>> : c \in dupc})
  /\ UNCHANGED <<routed, count, last>>

Next == /\ l <= Len(Trace) /\ l' = l + 1
        /\ LET e == Trace[l] IN
           CASE e.ev = "Config" -> routed' = <<>> /\ count' = <<>> /\ last' = <<>>
             [] e.ev = "Step" -> OnStep(e)
             [] e.ev = "Quiet" -> OnQuiet(e)
             [] e.ev = "Teardown" -> /\ (IF e.receivers > 0 \/ e.senders > 0 THEN FlagAll({<<l, "leak", e.receivers, e.senders>>}) ELSE TRUE)
                                     /\ UNCHANGED <<routed, count, last>>
             [] OTHER -> UNCHANGED <<routed, count, last>>
Spec == Init /\ [][Next]_vars
Report == PrintT(<<"OBS_VIOLATIONS", TLCGet(1)>>) /\ PrintT(<<"OBS_TRACE_LEN", Len(Trace)>>)
=============================================================================
