SPECIFICATION Spec
CONSTANTS
  Inst = {a, b}
  Shard = {11, 21}
  MaxStreams = 2
  MaxEnv = 1
  MaxMsg = 1
  AllowHold = FALSE
  AllowBreak = FALSE
  AllowStall = FALSE
  Cap = 1
  AckDropSilently = TRUE
  AllowTopo = FALSE
  Warm = TRUE
  AllowRemove = TRUE
  FixSenderPrune = TRUE
  FixGuardedDelete = TRUE
  FixOpening = TRUE
  FixPeerKey = TRUE
INVARIANTS NoSilentLoss MsgOrder TypeOK TableSound HealthyListed NoDup MsgSound FixpointOK
CHECK_DEADLOCK FALSE
