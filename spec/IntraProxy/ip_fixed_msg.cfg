SPECIFICATION Spec
CONSTANTS
  Inst = {a, b}
  Shard = {11, 21}
  MaxStreams = 2
  MaxEnv = 2
  MaxMsg = 2
  AllowHold = FALSE
  AllowBreak = FALSE
  AllowStall = TRUE
  Cap = 1
  AckDropSilently = FALSE
  AllowTopo = FALSE
  Warm = TRUE
  AllowRemove = FALSE
  FixSenderPrune = TRUE
  FixGuardedDelete = TRUE
  FixOpening = TRUE
  FixPeerKey = TRUE
INVARIANTS NoSilentLoss MsgOrder TypeOK TableSound HealthyListed NoDup MsgSound FixpointOK
CHECK_DEADLOCK FALSE
