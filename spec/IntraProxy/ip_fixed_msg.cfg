SPECIFICATION Spec
CONSTANTS
  Inst = {a, b}
  Shard = {11, 21}
  MaxStreams = 3
  MaxEnv = 4
  MaxMsg = 2
  AllowHold = FALSE
  AllowBreak = FALSE
  AllowStall = TRUE
  Cap = 1
  AllowRemove = FALSE
  FixSenderPrune = TRUE
  FixGuardedDelete = TRUE
  FixOpening = TRUE
  FixPeerKey = TRUE
INVARIANTS MsgOrder TypeOK TableSound HealthyListed NoDup MsgSound FixpointOK
CHECK_DEADLOCK FALSE
