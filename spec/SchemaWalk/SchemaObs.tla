------------------------------ MODULE SchemaObs ------------------------------
(***************************************************************************)
(* Observation monitor for the schema family on what the REAL interceptor   *)
(* code did with one concrete message per obligation (trace.ndjson).        *)
(*  Oblig records (translation, C12 / C13 / C14):                           *)
(*    untranslated  a namespace leaf did not leave as the mapped name       *)
(*    sa            a search-attribute container of an AdminService message *)
(*                  did not have exactly the mapped key renamed with the    *)
(*                  value untouched and the unmapped key preserved          *)
(*    sawf          a WorkflowService message had its search attributes     *)
(*                  touched (they carry aliases)                            *)
(*    changedelse   something other than the leaf changed (C13)             *)
(*    error         the interceptor returned an error / panicked            *)
(*  Acl records (translation then access control, C16):                     *)
(*    acl           denied # (the name the local cluster would see is not   *)
(*                  allowed), or a denied request reached the handler, or   *)
(*                  the handler saw a name other than the translated one    *)
(***************************************************************************)
EXTENDS Integers, Sequences, FiniteSets, TLC, Json
Trace == ndJsonDeserialize("trace.ndjson")
ASSUME TLCSet(1, {})
VARIABLE l
FlagAll(S) == IF S = {} THEN TRUE ELSE TLCSet(1, TLCGet(1) \cup S)
NsMap(x) == IF x = "ns-local" THEN "ns-remote" ELSE x
AclMap(x) == IF x = "ns-remote-ok" THEN "ns-allowed" ELSE IF x = "ns-remote-bad" THEN "ns-forbidden" ELSE x
Allowed == {"ns-allowed"}
\* (an identity-mapped key - sa-same -> sa-same - must survive like any other)
SaExpected == << "sa-remote=\"v-sa-local\"", "sa-same=\"v-sa-same\"", "sa-unmapped=\"v-sa-unmapped\"" >>
\* chained one-to-one mapping a->b, b->c (C13): exactly one step each, no value lost
NsChain(x) == IF x = "ns-a" THEN "ns-b" ELSE IF x = "ns-b" THEN "ns-c" ELSE x
SaChainExpected == << "sa-b=\"v-sa-a\"", "sa-c=\"v-sa-b\"", "sa-same=\"v-sa-same\"" >>
IsChain(e) == "mode" \in DOMAIN e /\ e.mode = "chain"
IsNs(e) == e.leaf \in {"ns-info", "ns-recognised", "ns-unrecognised"}
OnOblig(e) ==
  FlagAll((IF e.err # "" THEN {<<l, "error">>} ELSE {})
          \cup (IF e.err = "" /\ IsNs(e) /\ ~IsChain(e) /\ e.out # <<NsMap(e.in[1])>> THEN {<<l, "untranslated">>} ELSE {})
          \cup (IF e.err = "" /\ IsNs(e) /\ IsChain(e) /\ e.out # <<NsChain(e.in[1])>> THEN {<<l, "chain">>} ELSE {})
          \cup (IF e.err = "" /\ ~IsNs(e) /\ e.service = "admin" /\ ~IsChain(e) /\ e.out # SaExpected THEN {<<l, "sa">>} ELSE {})
          \cup (IF e.err = "" /\ ~IsNs(e) /\ e.service = "admin" /\ IsChain(e) /\ e.out # SaChainExpected THEN {<<l, "chain">>} ELSE {})
          \cup (IF e.err = "" /\ ~IsNs(e) /\ e.service = "workflow" /\ e.out # e.in THEN {<<l, "sawf">>} ELSE {})
          \cup (IF e.err = "" /\ ~e.rest_equal THEN {<<l, "changedelse">>} ELSE {}))
OnAcl(e) ==
  LET final == IF e.bypass THEN e.value ELSE AclMap(e.value)
      \* "fillbad": every other namespace field of the messages on the path holds a forbidden name (combination clause)
      mustDeny == final \notin Allowed \/ (e.variant = "fillbad" /\ e.siblings > 0)
      \* "dirty2": the blob also holds invalid UTF-8 that the repair cannot fix (a non-failure string). Such a request may be refused
      \* with an error whatever it names; what it must not do is get through with a forbidden name
      unfix == e.variant = "dirty2"
      bad == IF unfix THEN mustDeny /\ e.forwarded
             ELSE e.err # "" \/ e.denied # mustDeny \/ (e.denied /\ e.forwarded) \/ (~e.denied /\ ~e.forwarded)
             \/ (e.forwarded /\ e.seen # final)
  IN FlagAll(IF bad THEN {<<l, "acl">>} ELSE {})
\* every namespace leaf of a root type populated in ONE message: after the translation a descriptor-driven scan (which also opens
\* event blobs) finds no local name at any namespace field and as many remote names as local ones went in - nothing missed,
\* nothing lost
OnPopulate(e) ==
  FlagAll((IF e.err # "" THEN {<<l, "error">>} ELSE {})
          \cup (IF e.err = "" /\ (e.outLocal # 0 \/ e.outRemote # e.inLocal \/ e.outOther # 0) THEN {<<l, "untranslated">>} ELSE {}))
Next == /\ l <= Len(Trace) /\ l' = l + 1
        /\ LET e == Trace[l] IN
           CASE e.ev = "Oblig" /\ e.built -> OnOblig(e)
             [] e.ev = "Acl" /\ e.built -> OnAcl(e)
             [] e.ev = "Populate" /\ e.built -> OnPopulate(e)
             [] OTHER -> TRUE
Spec == l = 1 /\ [][Next]_l
Report == PrintT(<<"OBS_VIOLATIONS", TLCGet(1)>>) /\ PrintT(<<"OBS_TRACE_LEN", Len(Trace)>>)
=============================================================================
