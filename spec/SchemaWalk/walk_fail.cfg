SPECIFICATION Spec
CONSTANTS
  MaxRepeat = 2
  MaxDepth = 10
  Want = {"fail"}
CHECK_DEADLOCK FALSE
