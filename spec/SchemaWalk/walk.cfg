SPECIFICATION Spec
CONSTANTS
  MaxRepeat = 2
  MaxDepth = 9
  Want = {"ns", "sa"}
CHECK_DEADLOCK FALSE
