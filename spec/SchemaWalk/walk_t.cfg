SPECIFICATION Spec
CONSTANTS
  MaxRepeat = 2
  MaxDepth = 11
  Want = {"ns", "sa"}
CHECK_DEADLOCK FALSE
