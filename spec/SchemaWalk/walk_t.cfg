SPECIFICATION Spec
CONSTANTS
  MaxRepeat = 4
  MaxDepth = 16
  Want = {"ns", "sa"}
CHECK_DEADLOCK FALSE
