SPECIFICATION Spec
CONSTANTS
  MaxRepeat = 2
  MaxDepth = 9
  Want = {"ns", "sa"}
INVARIANTS CompleteNS CompleteSA NamingOK
CHECK_DEADLOCK FALSE
