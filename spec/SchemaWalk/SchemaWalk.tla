----------------------------- MODULE SchemaWalk -----------------------------
(***************************************************************************)
(* C12 / C14 (and the path clause of C13, C16): every structural path from  *)
(* a request / response / stream message type of WorkflowService and        *)
(* AdminService to a field that carries a namespace name or a               *)
(* search-attribute container - through nested messages, repeated fields,   *)
(* maps, oneofs, failure chains, links and serialized history-event blobs.  *)
(*                                                                          *)
(* SchemaGen (generated at check time from the REAL protobuf descriptors    *)
(* and the REAL walker tables of interceptor/reflection.go) gives Roots,    *)
(* Fields and the tables.  A state is a position of the explorer: root,     *)
(* node type, path; `reached`, `inSkipped` record what the real walker      *)
(* (visitNamespace / visitSearchAttributes) would have done on the way:     *)
(*   - it gets through a DataBlob only if the Go field name is in           *)
(*     dataBlobFieldNames;                                                  *)
(*   - a history event whose attributes member is on the skip list          *)
(*     (namespaceTranslationSkippableHistoryEvents) is not visited at all;  *)
(*   - a string leaf is translated only if its Go field name is in          *)
(*     namespaceFieldNames (or it is NamespaceInfo.name).                   *)
(* What a field carries (oNS / oBlob / oSA) is decided by the descriptor    *)
(* rule of DESIGN 3.11, independently of those tables.                      *)
(* Every leaf state is printed as one JSON obligation; the harness builds   *)
(* the concrete message and runs the real interceptor code on it.           *)
(***************************************************************************)
EXTENDS Integers, Sequences, FiniteSets, TLC, Json, SchemaGen
CONSTANTS MaxRepeat, MaxDepth, Want    \* Want \subseteq {"ns", "sa", "fail"}
HistoryEvent == "temporal.api.history.v1.HistoryEvent"
History == "temporal.api.history.v1.History"
NamespaceInfo == "temporal.api.namespace.v1.NamespaceInfo"
DataBlob == "temporal.api.common.v1.DataBlob"

VARIABLES root, node, path, types, reached, inSkipped, inBlob, leaf
vars == <<root, node, path, types, reached, inSkipped, inBlob, leaf>>
Init == /\ root \in Roots /\ node = root.type /\ path = <<>> /\ types = <<root.type>>
        /\ reached = TRUE /\ inSkipped = FALSE /\ inBlob = FALSE /\ leaf = ""
Count(seq, x) == Cardinality({i \in 1..Len(seq) : seq[i] = x})

Descend(f) ==
  /\ leaf = "" /\ f.kind = "msg" /\ Len(path) < MaxDepth
  /\ LET viaBlob == f.target = DataBlob
         next == IF viaBlob THEN History ELSE f.target
     IN /\ (viaBlob => f.oBlob)                  \* only event blobs are opened (descriptor rule)
        /\ ~f.oSA                                \* a search-attribute container is a leaf
        /\ Count(types, next) < MaxRepeat
        /\ node' = next /\ types' = Append(types, next)
        /\ path' = IF viaBlob THEN path \o <<f.name, "@blob">> ELSE Append(path, f.name)
        /\ reached' = (reached /\ (viaBlob => f.go \in DataBlobFieldNames))
        /\ inBlob' = (inBlob \/ viaBlob)
        /\ inSkipped' = (IF node = HistoryEvent
                         THEN (f.oneof = "attributes" /\ f.name \in SkippableAttrFields)
                         ELSE inSkipped)
  /\ UNCHANGED <<root, leaf>>
StopNS(f) ==
  /\ leaf = "" /\ "ns" \in Want /\ f.oNS
  /\ leaf' = (IF node = NamespaceInfo THEN "ns-info"
              ELSE IF f.go \in NamespaceFieldNames THEN "ns-recognised" ELSE "ns-unrecognised")
  /\ path' = Append(path, f.name)
  /\ UNCHANGED <<root, node, types, reached, inSkipped, inBlob>>
StopSA(f) ==
  /\ leaf = "" /\ "sa" \in Want /\ f.oSA
  /\ leaf' = (IF f.go \in SearchAttributeFieldNames THEN "sa-recognised" ELSE "sa-unrecognised")
  /\ path' = Append(path, f.name)
  /\ UNCHANGED <<root, node, types, reached, inSkipped, inBlob>>
\* C18: a failure message (legacy struct graph): the generated repair visitor must reach it
StopFail(f) ==
  /\ leaf = "" /\ "fail" \in Want /\ f.oFail
  /\ leaf' = "fail" /\ path' = Append(path, f.name)
  /\ UNCHANGED <<root, node, types, reached, inSkipped, inBlob>>
Emit == (leaf' # "") => PrintT(ToJson([root |-> root, path |-> path', leaf |-> leaf', reached |-> reached',
                                        skipped |-> inSkipped', inblob |-> inBlob', card |-> "x"]))
Next == (\E i \in 1..Len(Fields[node]) : Descend(Fields[node][i]) \/ StopNS(Fields[node][i]) \/ StopSA(Fields[node][i])
                                        \/ StopFail(Fields[node][i])) /\ Emit
Spec == Init /\ [][Next]_vars

\* C12 on the tables (design level): a namespace leaf is reached, recognised and not hidden by the skip shortcut.
\* (the links of an event are always visited: isSkippableForNamespaceTranslation looks at them first)
ViaLinks == \E i \in 1..Len(path) : path[i] = "links"
NsLeaf == leaf \in {"ns-info", "ns-recognised", "ns-unrecognised"}
CompleteNS == NsLeaf => (reached /\ leaf # "ns-unrecognised" /\ (inSkipped => ViaLinks))
\* C14 on the tables: a search-attribute container reachable from an AdminService message is reached and recognised
SaLeaf == leaf \in {"sa-recognised", "sa-unrecognised"}
CompleteSA == (SaLeaf /\ root.service = "admin") => (reached /\ leaf = "sa-recognised")
NamingOK == UnknownSkippable = {}
=============================================================================
