------------------------------ MODULE Utf8Codec ------------------------------
(* enumeration of the abstract wire classes (printed once); definitions in Utf8CodecDefs *)
EXTENDS Utf8CodecDefs
VARIABLE x
Init == x = 0 /\ \A c \in Classes : PrintT(ToJson(c))
Next == UNCHANGED x
=============================================================================
