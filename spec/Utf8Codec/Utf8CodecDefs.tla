---------------------------- MODULE Utf8CodecDefs ------------------------------
(***************************************************************************)
(* C17: the decision procedure of RepairUTF8Codec.Unmarshal                 *)
(* (proto/compat/codec.go, repair_utf8.go) over abstract wire classes:      *)
(*   Delegate -> [invalid-UTF-8 error?] -> Convert to the legacy type ->    *)
(*   legacy decode -> RepairInvalidUTF8 (failure chains, depth bound) ->    *)
(*   re-encode -> decode again.                                             *)
(* A class: root convertible or not; number of invalid failure messages;   *)
(* invalid UTF-8 in another string field; failure chain depth in / at /     *)
(* over the supported maximum; wire intact or truncated; and what the same  *)
(* process decoded for the same message type just before (nothing, a        *)
(* message whose failure chain is too deep, a message that was repaired):   *)
(* the codec is a function of the bytes - Outcome does not read `prior`.    *)
(***************************************************************************)
EXTENDS Integers, TLC, Json
Classes == [root : {"conv", "unconv"}, fail : 0..2, other : BOOLEAN, depth : {"in", "at", "over"}, wire : {"ok", "truncated"},
            prior : {"none", "overdeep", "repaired"}]
\* the standard codec accepts the message
StdOk(c) == c.wire = "ok" /\ c.fail = 0 /\ ~c.other
\* outcome of the codec: "same" (exactly what the standard codec yields), "repaired", "error"
Outcome(c) ==
  IF c.wire # "ok" THEN "error"
  ELSE IF StdOk(c) THEN "same"                                  \* Transparent: the legacy path is not entered
  ELSE IF c.root = "unconv" THEN "error"                        \* cannot convert to a legacy type
  ELSE IF c.depth = "over" THEN "error"                         \* failure chain beyond the supported depth
  ELSE IF c.other THEN "error"                                  \* re-decode still fails: reported, not passed on
  ELSE "repaired"
=============================================================================
