------------------------------- MODULE Utf8Obs -------------------------------
(* Judges what the REAL RepairUTF8Codec did (trace.ndjson).                   *)
(*  path records (C18): invalid UTF-8 at one failure message of a convertible *)
(*    type must be repaired: decode succeeds, every string valid, the message *)
(*    equals the reference (offending bytes -> U+FFFD, everything else intact)*)
(*  class records (C17): the outcome must be the one Utf8Codec!Outcome gives;  *)
(*    "same" = identical to the standard codec's result; "repaired" = valid    *)
(*    and equal to the reference; "error" = an error, never a corrupted value  *)
EXTENDS Utf8CodecDefs, Sequences
Trace == ndJsonDeserialize("trace.ndjson")
ASSUME TLCSet(1, {})
VARIABLE l
FlagAll(S) == IF S = {} THEN TRUE ELSE TLCSet(1, TLCGet(1) \cup S)
OnPath(e) == FlagAll(IF e.ok /\ e.all_valid /\ e.equals_reference THEN {} ELSE {<<l, "unrepaired">>})
OnClass(e) ==
  LET want == Outcome(e.class)
      bad == \/ (want = "same" /\ ~(e.ok /\ e.std_ok /\ e.same_as_std))
             \/ (want = "repaired" /\ ~(e.ok /\ e.all_valid /\ e.equals_reference))
             \/ (want = "error" /\ e.ok)
  IN FlagAll(IF bad THEN {<<l, "class">>} ELSE {})
\* valid records (C17 transparency): a message the standard codec accepts decodes to exactly what the standard codec yields
OnValid(e) == FlagAll(IF e.ok /\ e.std_ok /\ e.same_as_std THEN {} ELSE {<<l, "nottransparent">>})
ONext == /\ l <= Len(Trace) /\ l' = l + 1
         /\ LET e == Trace[l] IN
            IF e.ev = "Utf8" /\ e.built THEN (IF e.kind \in {"path", "all"} THEN OnPath(e) ELSE IF e.kind = "valid" THEN OnValid(e) ELSE OnClass(e))
                                           ELSE TRUE
OSpec == l = 1 /\ [][ONext]_l
Report == PrintT(<<"OBS_VIOLATIONS", TLCGet(1)>>) /\ PrintT(<<"OBS_TRACE_LEN", Len(Trace)>>)
=============================================================================
