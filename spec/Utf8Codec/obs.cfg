SPECIFICATION OSpec
POSTCONDITION Report
CHECK_DEADLOCK FALSE
