INIT InitMethods
NEXT Next
CHECK_DEADLOCK FALSE
