----------------------------- MODULE PipelineObs -----------------------------
(* Judges one record per case: what the REAL assembled servers did.           *)
(*   c15   a call that must be refused reached the serving cluster / was not  *)
(*         refused with PermissionDenied, or a call that must pass was not    *)
(*         forwarded (exactly once)                                           *)
(*   c16   same, decided by the namespace the local cluster would see         *)
(*   c13   the serving cluster saw / the caller got back a name other than    *)
(*         the direction rules give (round trip restores the caller's name)   *)
EXTENDS Pipeline
Trace == ndJsonDeserialize("trace.ndjson")
ASSUME TLCSet(1, {})
VARIABLE l
FlagAll(S) == IF S = {} THEN TRUE ELSE TLCSet(1, TLCGet(1) \cup S)
Judge(e) ==
  LET c == e.case
      mustDeny == Denied(c)
      byNs == mustDeny /\ ~((c.m.service = "workflow" /\ c.m.method \in AlwaysDenied)
                            \/ (c.m.service = "admin" /\ HasMethodPolicy(c) /\ c.m.method \notin AllowedAdminOf(c.policy)))
      \* on the mux transport the caller talks to the PEER proxy, whose pass-through forwarder ends a stream with nil whatever its
      \* upstream answered (C06): a refused stream is then visible only as "never reached the serving cluster"
      statusSeen == ~(c.transport = "mux" /\ c.m.stream)
      aclBad == \/ (mustDeny /\ ((statusSeen /\ e.status # "PermissionDenied") \/ e.calls # 0))
                \/ (~mustDeny /\ (e.status # "OK" \/ e.calls # 1))
      nameBad == ~mustDeny /\ e.status = "OK" /\ c.m.hasns /\ ~c.m.stream
                 /\ (e.seen # SeenName(c) \/ (e.echoed /\ e.resp # RespName(c)))
  IN FlagAll((IF aclBad THEN {<<l, IF byNs \/ (~mustDeny /\ HasNsPolicy(c) /\ ~HasMethodPolicy(c)) THEN "c16" ELSE "c15">>} ELSE {})
             \cup (IF nameBad THEN {<<l, "c13">>} ELSE {}))
\* a mapping list is rejected at start-up iff it is not one-to-one
JudgeMap(e) == FlagAll(IF e.rejected = OneToOne(e.list) THEN {<<l, "badmap">>} ELSE {})
\* search-attribute direction on the assembled servers
JudgeSa(e) == FlagAll(IF e.ran /\ e.keys = SaWant(e.case) THEN {} ELSE {<<l, "sadir">>})
JudgeList(e) == FlagAll(IF e.ran /\ e.names = ListWant(e.case) THEN {} ELSE {<<l, "list">>})
PNext == /\ l <= Len(Trace) /\ l' = l + 1
         /\ LET e == Trace[l] IN IF e.ev = "Case" /\ e.ran THEN Judge(e)
                                 ELSE IF e.ev = "BadMap" THEN JudgeMap(e)
                                 ELSE IF e.ev = "SaCase" THEN JudgeSa(e)
                                 ELSE IF e.ev = "ListCase" THEN JudgeList(e) ELSE TRUE
PSpec == l = 1 /\ [][PNext]_l
Report == PrintT(<<"OBS_VIOLATIONS", TLCGet(1)>>) /\ PrintT(<<"OBS_TRACE_LEN", Len(Trace)>>)
=============================================================================
