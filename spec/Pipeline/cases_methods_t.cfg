INIT InitMethodsT
NEXT Next
CHECK_DEADLOCK FALSE
