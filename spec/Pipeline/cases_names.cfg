INIT InitNames
NEXT Next
CHECK_DEADLOCK FALSE
