INIT InitMaps
NEXT Next
CHECK_DEADLOCK FALSE
