INIT InitList
NEXT Next
CHECK_DEADLOCK FALSE
