INIT InitSa
NEXT Next
CHECK_DEADLOCK FALSE
