---------------------------- MODULE PipelineCases ----------------------------
EXTENDS Pipeline
(* ---------------- case enumeration (printed once) ------------------------ *)
VARIABLE x
Emit(S) == \A c \in S : PrintT(ToJson(c))
InitMethods == x = 0 /\ Emit(MethodCases)
InitNames == x = 0 /\ Emit(NameCases)
Next == UNCHANGED x
=============================================================================
