---------------------------- MODULE PipelineCases ----------------------------
EXTENDS Pipeline
(* ---------------- case enumeration (printed once) ------------------------ *)
VARIABLE x
Emit(S) == \A c \in S : PrintT(ToJson(c))
InitMethods == x = 0 /\ Emit(MethodCases) /\ Emit(SingletonCases({"tcp"})) /\ Emit(FreshCases)
InitMethodsT == x = 0 /\ Emit(MethodCases) /\ Emit(SingletonCases(Transports)) /\ Emit(FreshCases)
InitNames == x = 0 /\ Emit(NameCases)
InitMaps == x = 0 /\ \A ls \in MappingLists : PrintT(ToJson([list |-> ls]))
InitList == x = 0 /\ Emit(ListCases)
InitSa == x = 0 /\ Emit(SaCases)
Next == UNCHANGED x
=============================================================================
