------------------------------ MODULE Pipeline ------------------------------
(***************************************************************************)
(* C15 / C16 / C13 on the ASSEMBLED servers of a cluster connection          *)
(* (proxy/cluster_connection.go: makeServerOptions, NewClusterConnection):   *)
(* interceptor order metrics -> translation -> access control; the inbound   *)
(* (remote-facing) server gets the inverse namespace mapping and the policy, *)
(* the outbound (local-facing) server the forward mapping and no policy.     *)
(*                                                                          *)
(* A case is one RPC: [side, service, method, stream, policy, mapping,       *)
(* bypass, name].  `Cases` enumerates the cross product over the REAL method *)
(* lists (MethodsGen is generated at check time from the service            *)
(* descriptors); Expect gives the outcome the design requires.  The harness  *)
(* performs every case as a real RPC against a real ClusterConnection with   *)
(* fake local and remote clusters; PipelineObs compares.                     *)
(***************************************************************************)
EXTENDS Integers, Sequences, FiniteSets, TLC, Json, MethodsGen

Sides == {"inbound", "outbound"}
\* policy classes: none | methods (an allow-list of admin methods: AllowedAdmin) | namespaces (AllowedNs) | both
\* methods2: an allow-list that does NOT contain the streaming method (the stream interceptor's refusal path)
\* empty: a policy that is present but lists nothing (aclPolicy: {}): only the static deny-list applies
Policies == {"none", "methods", "methods2", "namespaces", "both", "empty"}
\* "only:<m>": the allow-list is the singleton {m}, for every admin method m (the property: every allow-list drawn from the method
\* set, singleton lists included - a listed method admits itself and nothing else, e.g. not its ...V2 sibling)
SinglePolicy(m) == "only:" \o m
SinglePolicies == {SinglePolicy(m) : m \in AdminMethods}
AllowedAdminOf(p) == IF p = "methods2" THEN {"DescribeCluster"}
                     ELSE IF p \in SinglePolicies THEN {m \in AdminMethods : SinglePolicy(m) = p}
                     ELSE {"DescribeCluster", "GetNamespace", "StreamWorkflowReplicationMessages"}
AlwaysDenied == {"RegisterNamespace", "DeprecateNamespace"}
\* names the caller may put into the request's namespace field ("-" = the request has no such field / leave it empty)
\* mapping (local -> remote): ns-allowed <-> ns-remote-ok, ns-forbidden <-> ns-remote-bad
\* "Ns-Allowed" / "ns-allowed " : near misses of the allowed name (letter case, trailing blank). Names are compared exactly:
\* neither is mapped, neither is on the allow-list.
Names == {"ns-remote-ok", "ns-remote-bad", "ns-allowed", "ns-unmapped", "Ns-Allowed", "ns-allowed "}
ToLocal(x) == IF x = "ns-remote-ok" THEN "ns-allowed" ELSE IF x = "ns-remote-bad" THEN "ns-forbidden" ELSE x
ToRemote(x) == IF x = "ns-allowed" THEN "ns-remote-ok" ELSE IF x = "ns-forbidden" THEN "ns-remote-bad" ELSE x
AllowedNs == {"ns-allowed"}

Methods == {[service |-> "admin", method |-> m, stream |-> m \in AdminStreamMethods, hasns |-> m \in AdminNsRequests] : m \in AdminMethods}
           \cup {[service |-> "workflow", method |-> m, stream |-> FALSE, hasns |-> m \in WorkflowNsRequests] : m \in WorkflowMethods}

\* quick: C15 method matrix with a fixed name; C16/C13 name matrix on the methods that have a namespace field
\* "whichever transport": the remote-facing side of the proxy is a TCP server or a mux session
Transports == {"tcp", "mux"}
\* hdr: which of the headers the proxy itself gives a meaning to the caller sends along - none, the translation-bypass header,
\* the intra-proxy marker (x-s2s-intra-proxy: 1). They are ordinary client metadata: no verdict (Denied) reads them.
Hdrs == {"none", "bypass", "intra"}
MethodCases == {[side |-> s, m |-> m, policy |-> p, mapping |-> TRUE, bypass |-> (h = "bypass"), intra |-> (h = "intra"),
                 name |-> "ns-remote-ok", transport |-> tr, fresh |-> FALSE] :
                  s \in Sides, m \in Methods, p \in {"none", "methods", "methods2", "empty"}, h \in Hdrs, tr \in Transports}
               \* a namespace allow-list next to the method policy must not soften a method-level refusal (only the cases the method
               \* policy refuses: what the namespace walk says about the other requests is C16's subject)
               \cup {[side |-> "inbound", m |-> m, policy |-> "both", mapping |-> TRUE, bypass |-> (h = "bypass"), intra |-> (h = "intra"),
                      name |-> "ns-remote-ok", transport |-> tr, fresh |-> FALSE] :
                       m \in {x \in Methods : (x.service = "workflow" /\ x.method \in AlwaysDenied)
                                              \/ (x.service = "admin" /\ x.method \notin AllowedAdminOf("both"))},
                       h \in Hdrs, tr \in Transports}
\* every singleton allow-list x every admin method (SingleTransports: tcp in the quick tier, both in the thorough tier)
SingletonCases(trs) == {[side |-> "inbound", m |-> m, policy |-> SinglePolicy(a), mapping |-> TRUE, bypass |-> FALSE, intra |-> FALSE,
                         name |-> "ns-remote-ok", transport |-> tr, fresh |-> FALSE] :
                          a \in AdminMethods, m \in {x \in Methods : x.service = "admin"}, tr \in trs}
\* fresh: the call is the FIRST one a newly started remote-facing server sees (nothing the server builds lazily exists yet):
\* the streaming method, an unlisted and a listed unary method, under each policy class
FreshCases == {[side |-> "inbound", m |-> m, policy |-> p, mapping |-> TRUE, bypass |-> FALSE, intra |-> FALSE,
                name |-> "ns-remote-ok", transport |-> tr, fresh |-> TRUE] :
                 m \in {x \in Methods : x.service = "admin" /\ (x.stream \/ x.method \in {"DescribeCluster", "AddOrUpdateRemoteCluster"})},
                 p \in {"methods", "methods2", "empty", "both"}, tr \in Transports}
NameCases == {[side |-> s, m |-> m, policy |-> p, mapping |-> mp, bypass |-> b, name |-> n, transport |-> "tcp"] :
                  s \in Sides, m \in {x \in Methods : x.hasns /\ ~x.stream}, p \in {"none", "namespaces", "both"}, mp \in BOOLEAN,
                  b \in BOOLEAN, n \in Names}

(* ---------------- start-up: mapping lists must be one-to-one (C13) ------- *)
MapNames == {"a", "b", "c"}
Pairs == [local : MapNames, remote : MapNames]
MappingLists == {<<p>> : p \in Pairs} \cup {<<p, q>> : p \in Pairs, q \in Pairs} \cup
                {<<p, q, r>> : p \in {x \in Pairs : x.local = "a"}, q \in Pairs, r \in Pairs}
OneToOne(ls) == \A i, j \in 1..Len(ls) : i # j => (ls[i].local # ls[j].local /\ ls[i].remote # ls[j].remote)

(* ---------------- the outcome the design requires ------------------------ *)
\* the name the next hop sees in the request
SeenName(c) == IF ~c.m.hasns THEN "" ELSE
               IF ~c.mapping \/ c.bypass THEN c.name
               ELSE IF c.side = "inbound" THEN ToLocal(c.name) ELSE ToRemote(c.name)
HasMethodPolicy(c) == c.policy \in {"methods", "methods2", "both"} \cup SinglePolicies
HasNsPolicy(c) == c.policy \in {"namespaces", "both"}
Denied(c) ==
  /\ c.side = "inbound" /\ c.policy # "none"
  /\ \/ (c.m.service = "workflow" /\ c.m.method \in AlwaysDenied)
     \/ (c.m.service = "admin" /\ HasMethodPolicy(c) /\ c.m.method \notin AllowedAdminOf(c.policy))
     \/ (HasNsPolicy(c) /\ ~c.m.stream /\ c.m.hasns /\ SeenName(c) \notin AllowedNs)
\* the name the caller sees in a response that echoes the name the serving cluster saw
RespName(c) == IF ~c.mapping \/ c.bypass THEN SeenName(c)
               ELSE IF c.side = "inbound" THEN ToRemote(SeenName(c)) ELSE ToLocal(SeenName(c))

(* ---------------- listing namespaces returns only allowed ones (C16) ------- *)
\* the local cluster answers ListNamespaces with a page of allowed ("a"), forbidden ("f") and near-miss ("c": the allowed name in
\* another letter case, which is a different namespace and not on the list) namespaces in some order;
\* the remote caller sees exactly the allowed ones, in order (under their remote names when a mapping is configured)
ListShapes == UNION {[1..n -> {"a", "f", "c"}] : n \in 0..4}
ListCases == [shape : ListShapes, mapping : BOOLEAN, transport : {"tcp", "mux"}]
SelectSeq2(q, T(_)) == LET F[i \in 0..Len(q)] == IF i = 0 THEN <<>> ELSE IF T(q[i]) THEN Append(F[i - 1], q[i]) ELSE F[i - 1] IN F[Len(q)]
IsA(x) == x = "a"
ListWant(c) == LET kept == SelectSeq2(c.shape, IsA)
               IN [i \in 1..Len(kept) |-> IF c.mapping THEN "ns-remote-ok" ELSE "ns-allowed"]

(* ---------------- search-attribute direction (C14) ------------------------ *)
\* mapping: local sa-l <-> remote sa-r, identity entry sa-same, sa-free unmapped. Each cluster speaks its own names; whatever
\* leaves the proxy is in the vocabulary of the cluster it goes to (same direction rules as namespaces), values untouched.
SaCases == [side : {"inbound", "outbound"}, transport : {"tcp", "mux"}, leg : {"req", "resp"}]
\* inbound: the remote cluster calls, the local one serves
SaReceiver(c) == IF (c.side = "inbound") = (c.leg = "req") THEN "local" ELSE "remote"
SaSenderKey(c) == IF SaReceiver(c) = "local" THEN "sa-r" ELSE "sa-l"
SaReceiverKey(c) == IF SaReceiver(c) = "local" THEN "sa-l" ELSE "sa-r"
KV(k, from) == k \o "=\"v-" \o from \o "\""
\* sorted as the harness sorts them
SaWant(c) == << KV("sa-free", "sa-free"), KV(SaReceiverKey(c), SaSenderKey(c)), KV("sa-same", "sa-same") >>
=============================================================================
