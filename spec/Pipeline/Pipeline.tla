------------------------------ MODULE Pipeline ------------------------------
(***************************************************************************)
(* C15 / C16 / C13 on the ASSEMBLED servers of a cluster connection          *)
(* (proxy/cluster_connection.go: makeServerOptions, NewClusterConnection):   *)
(* interceptor order metrics -> translation -> access control; the inbound   *)
(* (remote-facing) server gets the inverse namespace mapping and the policy, *)
(* the outbound (local-facing) server the forward mapping and no policy.     *)
(*                                                                          *)
(* A case is one RPC: [side, service, method, stream, policy, mapping,       *)
(* bypass, name].  `Cases` enumerates the cross product over the REAL method *)
(* lists (MethodsGen is generated at check time from the service            *)
(* descriptors); Expect gives the outcome the design requires.  The harness  *)
(* performs every case as a real RPC against a real ClusterConnection with   *)
(* fake local and remote clusters; PipelineObs compares.                     *)
(***************************************************************************)
EXTENDS Integers, Sequences, FiniteSets, TLC, Json, MethodsGen

Sides == {"inbound", "outbound"}
\* policy classes: none | methods (an allow-list of admin methods: AllowedAdmin) | namespaces (AllowedNs) | both
Policies == {"none", "methods", "namespaces", "both"}
AllowedAdmin == {"DescribeCluster", "GetNamespace", "StreamWorkflowReplicationMessages"}
AlwaysDenied == {"RegisterNamespace", "DeprecateNamespace"}
\* names the caller may put into the request's namespace field ("-" = the request has no such field / leave it empty)
\* mapping (local -> remote): ns-allowed <-> ns-remote-ok, ns-forbidden <-> ns-remote-bad
Names == {"ns-remote-ok", "ns-remote-bad", "ns-allowed", "ns-unmapped"}
ToLocal(x) == IF x = "ns-remote-ok" THEN "ns-allowed" ELSE IF x = "ns-remote-bad" THEN "ns-forbidden" ELSE x
ToRemote(x) == IF x = "ns-allowed" THEN "ns-remote-ok" ELSE IF x = "ns-forbidden" THEN "ns-remote-bad" ELSE x
AllowedNs == {"ns-allowed"}

Methods == {[service |-> "admin", method |-> m, stream |-> m \in AdminStreamMethods, hasns |-> m \in AdminNsRequests] : m \in AdminMethods}
           \cup {[service |-> "workflow", method |-> m, stream |-> FALSE, hasns |-> m \in WorkflowNsRequests] : m \in WorkflowMethods}

\* quick: C15 method matrix with a fixed name; C16/C13 name matrix on the methods that have a namespace field
MethodCases == {[side |-> s, m |-> m, policy |-> p, mapping |-> TRUE, bypass |-> b, name |-> "ns-remote-ok"] :
                  s \in Sides, m \in Methods, p \in {"none", "methods"}, b \in BOOLEAN}
NameCases == {[side |-> s, m |-> m, policy |-> p, mapping |-> mp, bypass |-> b, name |-> n] :
                  s \in Sides, m \in {x \in Methods : x.hasns /\ ~x.stream}, p \in {"none", "namespaces", "both"}, mp \in BOOLEAN,
                  b \in BOOLEAN, n \in Names}

(* ---------------- the outcome the design requires ------------------------ *)
\* the name the next hop sees in the request
SeenName(c) == IF ~c.m.hasns THEN "" ELSE
               IF ~c.mapping \/ c.bypass THEN c.name
               ELSE IF c.side = "inbound" THEN ToLocal(c.name) ELSE ToRemote(c.name)
HasMethodPolicy(c) == c.policy \in {"methods", "both"}
HasNsPolicy(c) == c.policy \in {"namespaces", "both"}
Denied(c) ==
  /\ c.side = "inbound" /\ c.policy # "none"
  /\ \/ (c.m.service = "workflow" /\ c.m.method \in AlwaysDenied)
     \/ (c.m.service = "admin" /\ HasMethodPolicy(c) /\ c.m.method \notin AllowedAdmin)
     \/ (HasNsPolicy(c) /\ ~c.m.stream /\ c.m.hasns /\ SeenName(c) \notin AllowedNs)
\* the name the caller sees in a response that echoes the name the serving cluster saw
RespName(c) == IF ~c.mapping \/ c.bypass THEN SeenName(c)
               ELSE IF c.side = "inbound" THEN ToRemote(SeenName(c)) ELSE ToLocal(SeenName(c))

=============================================================================
