SPECIFICATION PSpec
POSTCONDITION Report
CHECK_DEADLOCK FALSE
