\* pinned tree: everything except AdmittedOnlyAcceptable holds
SPECIFICATION Spec
CONSTANTS ClientAuthFix = FALSE
INVARIANTS TypeOK NoOverRejection StartupRejectsBundleWithoutCA
CHECK_DEADLOCK FALSE
