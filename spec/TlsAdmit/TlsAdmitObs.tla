----------------------------- MODULE TlsAdmitObs -----------------------------
(***************************************************************************)
(* Observation monitor for C19.  trace.ndjson holds one record per executed *)
(* case: what a REAL endpoint of the proxy (built by the code under test    *)
(* from cfg) and a raw crypto/tls peer with credential cred observed:       *)
(*   startup   "ready" / "reject" (constructor returned an error) /         *)
(*             "disabled" (TLS not enabled for this configuration)          *)
(*   proxy.hs, proxy.byte   handshake completed / application byte received *)
(*                          and answered, seen at the proxy's end           *)
(*   peer.hs,  peer.byte    the same at the raw peer's end                  *)
(* Judged against the property-level definitions of TlsAdmitRules:          *)
(*   admitted-unacceptable   Admitted /\ ~Acceptable(cfg, cred)             *)
(*   rejected-acceptable     Acceptable /\ WellFormed /\ ~Admitted          *)
(*   started-without-ca      MustRejectStartup(cfg) /\ startup # "reject"   *)
(*   plaintext-although-verify  TLS configured with verification, endpoint  *)
(*                           came up with TLS disabled                      *)
(* Register 1: property violations <<line, clause>>.  Register 2: bookkeeping*)
(* <<line, what>>: "malformed" / "inconsistent" (the two ends disagree about *)
(* the byte exchange: harness trouble, never a verdict), and conformance of *)
(* the record with the two code models ("pinned", "fixed" = differs from    *)
(* CodeStartup / CodeAdmits with ClientAuthFix = FALSE / TRUE).             *)
(***************************************************************************)
EXTENDS TlsAdmitRules, Integers, Sequences, TLC, Json
Trace == ndJsonDeserialize("trace.ndjson")
ASSUME TLCSet(1, {}) /\ TLCSet(2, {})
VARIABLE l
Flag(r, S) == IF S = {} THEN TRUE ELSE TLCSet(r, TLCGet(r) \cup S)
Init == l = 1

OnCase(e) ==
  LET cfg  == [role |-> e.cfg.role, verify |-> e.cfg.verify, ownCert |-> e.cfg.ownCert, ca |-> e.cfg.ca,
               name |-> e.cfg.name]
      cred == [class |-> e.cred.class, send |-> e.cred.send, ver |-> e.cred.ver, sni |-> e.cred.sni]
      typed == /\ cfg \in Cfgs /\ cred \in Creds(cfg.role) /\ e.after \in Envs(cfg) /\ e.startup \in {"ready", "reject", "disabled"}
               /\ e.proxy.hs \in BOOLEAN /\ e.proxy.byte \in BOOLEAN /\ e.peer.hs \in BOOLEAN /\ e.peer.byte \in BOOLEAN
               /\ (e.startup # "ready" => ~e.proxy.hs /\ ~e.proxy.byte /\ ~e.peer.byte)
      started  == e.startup = "ready"
      admitted == started /\ e.proxy.hs /\ e.proxy.byte
      clauses ==
        {k \in {"admitted-unacceptable", "rejected-acceptable", "started-without-ca", "plaintext-although-verify"} :
           CASE k = "admitted-unacceptable" -> admitted /\ ~Acceptable(cfg, cred)
             [] k = "rejected-acceptable"   -> Acceptable(cfg, cred) /\ WellFormed(cfg, cred) /\ ~admitted
             [] k = "started-without-ca"    -> MustRejectStartup(cfg) /\ e.startup # "reject"
             [] k = "plaintext-although-verify" -> TlsConfigured(cfg) /\ cfg.verify /\ e.startup = "disabled"}
      model(fix) == e.startup = CodeStartup(cfg) /\ (started => (admitted <=> CodeAdmits(fix, cfg, cred)))
      book == (IF e.proxy.byte # e.peer.byte THEN {"inconsistent"} ELSE {})
              \cup (IF model(FALSE) THEN {} ELSE {"pinned"}) \cup (IF model(TRUE) THEN {} ELSE {"fixed"})
  IN IF ~typed THEN Flag(2, {<<l, "malformed">>})
     ELSE Flag(1, {<<l, k>> : k \in clauses}) /\ Flag(2, {<<l, b>> : b \in book})

Next == /\ l <= Len(Trace) /\ l' = l + 1
        /\ LET e == Trace[l] IN IF e.ev = "Case" THEN OnCase(e) ELSE TRUE
Spec == Init /\ [][Next]_l
Report == /\ PrintT(<<"OBS_VIOLATIONS", TLCGet(1)>>) /\ PrintT(<<"OBS_BOOK", TLCGet(2)>>)
          /\ PrintT(<<"OBS_TRACE_LEN", Len(Trace)>>)
=============================================================================
