\* with proposed/C19-clientauth.diff
SPECIFICATION Spec
CONSTANTS ClientAuthFix = TRUE
INVARIANTS TypeOK AdmittedOnlyAcceptable NoOverRejection StartupRejectsBundleWithoutCA
CHECK_DEADLOCK FALSE
