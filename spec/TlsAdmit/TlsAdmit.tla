------------------------------ MODULE TlsAdmit ------------------------------
(***************************************************************************)
(* C19 design: one endpoint of the proxy (mux receiver / TCP inbound server *)
(* = role "server", mux establisher / TCP client = role "client") is built  *)
(* from a configuration, then one peer with some credential connects, the   *)
(* handshake is decided, and one application byte travels each way.         *)
(* The state space is the finite cross product Cfgs x Creds; TLC explores   *)
(* all of it.  ClientAuthFix selects the code model (TlsAdmitRules).        *)
(*   encryption/tls.go:GetServerTLSConfig, GetClientTLSConfig               *)
(*   encryption/tls.go:fetchCACert, certificate.go:validateHasCA            *)
(*   transport/mux/receiver.go, establisher.go: tlsWrapper                  *)
(*   proxy/cluster_connection.go: makeServerOptions, buildTLSTCPClient      *)
(***************************************************************************)
EXTENDS TlsAdmitRules
CONSTANT ClientAuthFix
VARIABLES cfg, st, cred, conn, files
vars == <<cfg, st, cred, conn, files>>
NoPeer == [class |-> "-", send |-> "-", ver |-> "-", sni |-> "-"]

TypeOK == /\ cfg \in Cfgs /\ st \in {"new", "disabled", "reject", "ready"}
          /\ cred \in Creds(cfg.role) \cup {NoPeer}
          /\ conn \in {"idle", "refused", "open", "data"}
          /\ (conn # "idle" => st = "ready" /\ cred # NoPeer)
          /\ files \in Envs(cfg) /\ (files # "intact" => st = "ready")

Init == cfg \in Cfgs /\ st = "new" /\ cred = NoPeer /\ conn = "idle" /\ files = "intact"
\* GetServerTLSConfig / GetClientTLSConfig (called by NewMuxReceiverProvider, NewMuxEstablisherProvider,
\* makeServerOptions, buildTLSTCPClient)
Start == st = "new" /\ st' = CodeStartup(cfg) /\ UNCHANGED <<cfg, cred, conn, files>>
\* environment: the CA bundle file disappears under the running endpoint, before the peer dials
RemoveCA == /\ st = "ready" /\ conn = "idle" /\ files = "intact" /\ Removable(cfg)
            /\ files' = "caRemoved" /\ UNCHANGED <<cfg, st, cred, conn>>
\* crypto/tls handshake driven by the assembled tls.Config (first write: yamux Ping / gRPC transport)
Dial(c) == /\ st = "ready" /\ conn = "idle" /\ cred' = c
           /\ conn' = IF CodeAdmits(ClientAuthFix, cfg, c) THEN "open" ELSE "refused"
           /\ UNCHANGED <<cfg, st, files>>
\* one application byte each way
Exchange == conn = "open" /\ conn' = "data" /\ UNCHANGED <<cfg, st, cred, files>>
Next == Start \/ RemoveCA \/ (\E c \in Creds(cfg.role) : Dial(c)) \/ Exchange
Spec == Init /\ [][Next]_vars

Admitted == conn \in {"open", "data"}
\* C19: a connection completes only with an acceptable peer
AdmittedOnlyAcceptable == Admitted => Acceptable(cfg, cred)
\* no over-rejection: a well-formed configuration starts, and an acceptable peer gets through
NoOverRejection == /\ (st = "reject" => ~WellFormedCfg(cfg))
                   /\ (conn = "refused" => ~(Acceptable(cfg, cred) /\ WellFormed(cfg, cred)))
\* a CA bundle without a CA certificate never yields a running endpoint
StartupRejectsBundleWithoutCA == MustRejectStartup(cfg) => st \in {"new", "reject"}
\* sanity of the property-level definitions themselves: every well-formed verifying configuration has an
\* acceptable and an unacceptable peer class (the property is neither vacuous nor unsatisfiable)
ASSUME \A c \in Cfgs : WellFormedCfg(c) /\ c.verify /\ (c.role = "client" => c.ca = "caA" /\ c.name = "match") =>
         /\ \E k \in Creds(c.role) : Acceptable(c, k) /\ WellFormed(c, k)
         /\ \E k \in Creds(c.role) : ~Acceptable(c, k)
=============================================================================
