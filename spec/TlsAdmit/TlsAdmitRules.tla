--------------------------- MODULE TlsAdmitRules ---------------------------
(***************************************************************************)
(* C19 -- TLS endpoints admit only peers authenticated by the configured    *)
(* CA.  Shared definitions: the configuration record, the peer credential   *)
(* classes (what the run-time certificate factory of the harness makes),    *)
(* the PROPERTY-level decision Acceptable(cfg, cred) of DESIGN 3.7, and the *)
(* CODE-level model of what encryption/tls.go assembles.  No state here:    *)
(* a handshake evaluates a static tls.Config, connections are independent.  *)
(* Extended by TlsAdmit (design check), TlsAdmitCases (case enumeration)    *)
(* and TlsAdmitObs (judges what the real endpoints did).                    *)
(***************************************************************************)
EXTENDS Naturals, FiniteSets

Roles    == {"server", "client"}        \* role of the PROXY end (the peer is a raw crypto/tls endpoint)
CaKinds  == {"none",                    \* RemoteCAPath empty
             "caA",                     \* bundle = certificate of CA-A
             "leafOnly",                \* bundle = one non-CA certificate (the peer's valid leaf): no CA certificate
             "garbage"}                 \* bundle without any PEM certificate
Names    == {"unset", "match", "mismatch"}   \* CAServerName: empty / the name in the peer's certificate / another name

\* encryption.TLSConfig: verify = ~SkipCAVerification, ownCert = CertificatePath+KeyPath set (a leaf of CA-A)
AllCfgs == [role : Roles, verify : BOOLEAN, ownCert : BOOLEAN, ca : CaKinds, name : Names]
Cfgs    == {c \in AllCfgs : c.role = "server" => c.name # "mismatch"}    \* a server never compares the name

\* what the peer presents in a TLS handshake (its tls.Certificate: the leaf first, then whatever else it ships)
TlsClasses == {"valid",        \* leaf issued by CA-A, in date, EKU clientAuth+serverAuth, SAN = the "match" name
               "validchain",   \* the same kind of leaf FOLLOWED BY CA-A's certificate
               "selfsigned",   \* self-signed leaf
               "selfsigned2",  \* a self-signed leaf sent twice (leaf, then itself as its own "issuer")
               "otherCA",      \* leaf issued by CA-B
               "otherCAchain", \* leaf issued by CA-B followed by CA-B's certificate (the peer ships its own trust anchor)
               "sameNameCA",   \* leaf issued by a foreign CA that carries CA-A's subject name (matches the CA hint)
               "expired",      \* leaf issued by CA-A, notAfter in the past (an hour ago)
               "expiredJust",  \* leaf issued by CA-A, notAfter a few seconds before the endpoint was started
               "notYetValid",  \* leaf issued by CA-A, notBefore an hour in the future
               "wrongEKU",     \* leaf issued by CA-A, EKU codeSigning only
               "none"}         \* no certificate
\* "plaintext": a peer that does not speak TLS at all (raw bytes / raw yamux / plaintext gRPC on the TCP connection)
Classes  == TlsClasses \cup {"plaintext"}
SendModes == {"always",      \* client peer presents its certificate regardless of the server's CA hint
              "hint"}        \* client peer obeys certificate_authorities (stock crypto/tls client behaviour)
Versions == {"tls12", "tls13"}
\* the server name a client peer puts into its ClientHello: none, the name in the proxy's own certificate, a name that certificate
\* does not cover.  No decision - property or code - reads it: a server admits by the CLIENT's certificate only.
Snis == {"none", "own", "foreign"}
TlsCreds(role) == [class : TlsClasses, send : IF role = "server" THEN SendModes ELSE {"always"}, ver : Versions,
                   sni : IF role = "server" THEN Snis ELSE {"none"}]
PlainCred == [class |-> "plaintext", send |-> "always", ver |-> "-", sni |-> "none"]
Creds(role) == TlsCreds(role) \cup {PlainCred}

\* ---- facts about the credentials (true by construction of the certificate factory)
IssuedByA(k)   == k \in {"valid", "validchain", "expired", "expiredJust", "notYetValid", "wrongEKU"}    \* the LEAF is signed by CA-A's key
Expired(k)     == k \in {"expired", "expiredJust", "notYetValid"}      \* outside its validity period, by however little
UsageOk(k)     == k # "wrongEKU"
SpeaksTls(k)   == k # "plaintext"
Presents(k)    == k \notin {"none", "plaintext"}
\* some certificate of what the peer ships names CA-A as its issuer (CertificateRequestInfo.SupportsCertificate)
HintMatches(k) == k \in {"valid", "validchain", "expired", "expiredJust", "notYetValid", "wrongEKU", "sameNameCA"}

\* ---- PROPERTY level -------------------------------------------------------
\* TLS is configured at all (TLSConfig.IsEnabled's documented meaning); otherwise the endpoint is plaintext and
\* outside C19
TlsConfigured(cfg) == cfg.ownCert \/ cfg.name # "unset"
ChainsTo(cfg, cred) == cfg.ca = "caA" /\ IssuedByA(cred.class)
NameMatches(cfg) == cfg.name = "match"
\* DESIGN 3.7: explicitly disabling verification is the only way to relax
\* (it relaxes the certificate check, not the encryption: a peer that does not speak TLS is never acceptable to an
\* endpoint with TLS configured).  Only what the configuration named counts as a trust anchor - never what the peer ships.
Acceptable(cfg, cred) ==
  /\ SpeaksTls(cred.class)
  /\ \/ ~cfg.verify
     \/ /\ ChainsTo(cfg, cred) /\ ~Expired(cred.class) /\ UsageOk(cred.class)
        /\ (cfg.role = "client" => NameMatches(cfg))
\* a CA bundle without a CA certificate must be refused when the endpoint is built
MustRejectStartup(cfg) == TlsConfigured(cfg) /\ cfg.verify /\ cfg.ca \in {"leafOnly", "garbage"}
\* configurations an operator may legitimately write: for these an acceptable peer MUST get through
WellFormedCfg(cfg) ==
  /\ TlsConfigured(cfg)
  /\ cfg.role = "server" => cfg.ownCert /\ (cfg.verify => cfg.ca = "caA")
  /\ cfg.role = "client" => cfg.ca \in {"none", "caA"} /\ (cfg.verify => cfg.name # "unset")
WellFormed(cfg, cred) == WellFormedCfg(cfg) /\ (cfg.role = "client" => Presents(cred.class))
\* what happens to the endpoint's files AFTER it started and before the peer dials: nothing / the CA bundle file
\* disappears (rotation gone wrong, unmounted secret).  No decision reads it: the configuration was valid when the
\* endpoint was built, so still only acceptable peers may get through.  Enumerated where a bundle file exists and the
\* endpoint is one an operator would run.
Afters == {"intact", "caRemoved"}
Removable(cfg) == WellFormedCfg(cfg) /\ cfg.ca # "none"
Envs(cfg) == IF Removable(cfg) THEN Afters ELSE {"intact"}

\* ---- CODE level -----------------------------------------------------------
\* encryption/tls.go:GetServerTLSConfig / GetClientTLSConfig, certificate.go:fetchCACert / validateHasCA
CodeStartup(cfg) ==
  IF ~TlsConfigured(cfg) THEN "disabled"                                   \* IsEnabled() = false: (nil, nil)
  ELSE IF cfg.role = "server"
       THEN IF cfg.verify /\ cfg.ca # "caA" THEN "reject" ELSE "ready"      \* fetchCACert only when verifying
       ELSE IF cfg.verify /\ cfg.name = "unset" THEN "reject"               \* "CAServerName must be set"
            ELSE IF cfg.ca \in {"leafOnly", "garbage"} THEN "reject"        \* RemoteCAPath is read even when skipping
            ELSE "ready"
\* does the client peer's certificate reach a server that asks for one
Sends(cred) == Presents(cred.class) /\ (cred.send = "always" \/ HintMatches(cred.class))
ChainChecks(cred) == IssuedByA(cred.class) /\ ~Expired(cred.class) /\ UsageOk(cred.class)
\* fix = FALSE: the pinned tree -- tls.RequireAnyClientCert + VerifyPeerCertificate that returns nil
\* fix = TRUE : proposed/C19-clientauth.diff -- tls.RequireAndVerifyClientCert against ClientCAs
\* (only evaluated for CodeStartup(cfg) = "ready", hence verify => ca = "caA" on the server).  The tls.Config is built
\* once: what happens to the files afterwards (Afters) is not an argument.
CodeAdmits(fix, cfg, cred) ==
  IF cfg.role = "server"
  THEN /\ cfg.ownCert                                                      \* no certificate: every handshake fails
       /\ SpeaksTls(cred.class)                                            \* tls.Server on every accepted connection
       /\ \/ ~cfg.verify                                                   \* tls.NoClientCert
          \/ Sends(cred) /\ (fix => ChainChecks(cred))
  ELSE /\ Presents(cred.class)
       /\ \/ ~cfg.verify                                                   \* InsecureSkipVerify
          \/ cfg.ca = "caA" /\ ChainChecks(cred) /\ NameMatches(cfg)       \* ca = "none": system roots, never ours
=============================================================================
