\* pinned tree: expected to be violated (finding 6 of DESIGN section 5); the counterexample must be reproduced on the real code
SPECIFICATION Spec
CONSTANTS ClientAuthFix = FALSE
INVARIANTS AdmittedOnlyAcceptable
CHECK_DEADLOCK FALSE
