---------------------------- MODULE TlsAdmitCases ----------------------------
(* Case enumeration for C19: the complete cross product configuration x peer  *)
(* credential x what happens to the files after start-up, one line per case.  *)
(* No expectation is printed: the harness holds no oracle, TlsAdmitObs judges *)
(* what the real endpoints did.                                               *)
(* Cases are enumerated for EVERY configuration, also those the code model    *)
(* refuses at start-up, so a tree that wrongly starts them is still dialled.  *)
EXTENDS TlsAdmitRules, TLC, Json
VARIABLE x
Init == x = 0 /\ \A c \in Cfgs : \A f \in Envs(c) : \A k \in Creds(c.role) :
                      PrintT(ToJson([cfg |-> c, cred |-> k, after |-> f]))
Next == UNCHANGED x
=============================================================================
