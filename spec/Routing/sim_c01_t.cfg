INIT SimInit
NEXT SimNext
CONSTANTS
  Src = {s1, s2}
  Tgt = {t1, t2}
  MaxId = 3
  MaxBatch = 2
  MaxWm = 2
  ChanCap = 4
  AckCap = 2
  MaxFaults = 0
  SrcFaults = FALSE
  LateTgt = {}
  SeedFix = TRUE
  Depth = 14
  MaxIdle = 0
  HoldClose = FALSE
  HoldAck = FALSE
CHECK_DEADLOCK FALSE
