---------------------------- MODULE RoutingTrace ----------------------------
(***************************************************************************)
(* Implementation trace spec (code -> spec conformance): the events the Go  *)
(* harness recorded on the REAL streamRouting must be a behaviour of        *)
(* Routing.  Each logged event is Routing's own action with the logged      *)
(* fields bound; the proxy's internal steps (channel hand-offs between its  *)
(* goroutines, which the harness cannot see) are inferred: at most          *)
(* MaxSilent of them between two events.  Many runs per file: a Config      *)
(* line resets the state.                                                   *)
(*                                                                          *)
(* Acceptance: TLC register 1 holds the high-water mark of consumed lines   *)
(* (-workers 1, depth-first queue); the trace is accepted iff it reaches    *)
(* Len(Trace)+1.  On a rejection the orchestrator records the run that      *)
(* contains the first unmatched line as non-conformant, removes it and      *)
(* validates the rest again, so one divergence does not hide the others.    *)
(***************************************************************************)
EXTENDS Routing, Json
CONSTANT MaxSilent
VARIABLES l, sc, held
TraceLog == ndJsonDeserialize("trace.ndjson")
tvars == <<vars, l, sc, held>>
Ev == TraceLog[l]
ASSUME TLCSet(1, 0)

DefaultRoute == [s \in Src |-> [i \in 1..MaxId |-> CHOOSE t \in Tgt : TRUE]]
TraceInit == InitWith(DefaultRoute) /\ l = 1 /\ sc = 0 /\ held = {}

IsEvent(e) == l <= Len(TraceLog) /\ Ev.ev = e /\ l' = l + 1 /\ sc' = 0
Stutter(names) == l <= Len(TraceLog) /\ Ev.ev \in names /\ l' = l + 1 /\ sc' = 0 /\ UNCHANGED <<vars, held>>

ResetTo(rt, late) ==
  /\ route' = rt
  /\ srcNext' = [s \in Src |-> 1] /\ wmCount' = [s \in Src |-> 0] /\ srcAck' = [s \in Src |-> 0]
  /\ srcUp' = [s \in Src |-> "up"]
  /\ rpc' = [s \in Src |-> "idle"] /\ pending' = [s \in Src |-> [t \in Tgt |-> <<>>]]
  /\ bcastTo' = [s \in Src |-> {}]
  /\ lastHigh' = [s \in Src |-> 0] /\ lastWm' = [s \in Src |-> 0]
  /\ ackByTarget' = [s \in Src |-> [t \in Tgt |-> Absent]]
  /\ lastSentMin' = [s \in Src |-> 0] /\ ackChan' = [s \in Src |-> <<>>]
  /\ up' = [t \in Tgt |-> IF t \in late THEN "down" ELSE "up"]
  /\ chan' = [t \in Tgt |-> <<>>] /\ nextPid' = [t \in Tgt |-> 0] /\ ring' = [t \in Tgt |-> <<>>]
  /\ prevAck' = [t \in Tgt |-> [s \in Src |-> Absent]]
  /\ spc' = [t \in Tgt |-> "idle"] /\ fwd' = [t \in Tgt |-> [s \in Src |-> Absent]]
  /\ fallback' = [t \in Tgt |-> FALSE] /\ discardN' = [t \in Tgt |-> 0] /\ tackWire' = [t \in Tgt |-> <<>>]
  /\ inflight' = [t \in Tgt |-> NoFlight] /\ replayTo' = [t \in Tgt |-> {}] /\ lastSent' = [t \in Tgt |-> 0]
  /\ trkHigh' = [t \in Tgt |-> 0] /\ trkQ' = [t \in Tgt |-> <<>>]
  /\ pidMap' = [t \in Tgt |-> <<>>] /\ conf' = {} /\ delivered' = {}
  /\ received' = [s \in Src |-> {}] /\ lastAck' = [s \in Src |-> 0] /\ faults' = 0
  /\ lost' = {} /\ viol' = {}

\* ids beyond the listed ones are owned by the last listed owner (the harness does the same)
RouteOf(e) == [s \in Src |-> [i \in 1..MaxId |->
                 IF ToString(s) \in DOMAIN e.route /\ Len(e.route[ToString(s)]) > 0
                 THEN (IF i <= Len(e.route[ToString(s)]) THEN e.route[ToString(s)][i]
                                                        ELSE e.route[ToString(s)][Len(e.route[ToString(s)])])
                 ELSE CHOOSE t \in Tgt : TRUE]]
TConfig == IsEvent("Config") /\ ResetTo(RouteOf(Ev), {Ev.late[i] : i \in 1..Len(Ev.late)}) /\ held' = {}
H(A) == A /\ UNCHANGED held

TSrcBatch ==
  /\ IsEvent("SrcBatch")
  /\ IF Len(Ev.ids) > 0
       THEN RecvTasks(Ev.s, Len(Ev.ids)) /\ Ev.ids[1] = srcNext[Ev.s] /\ Ev.high = srcNext'[Ev.s]
       ELSE RecvWm(Ev.s) /\ Ev.high = lastWm'[Ev.s]
TTgtMsg ==
  /\ IsEvent("TgtMsg") /\ SenderSend(Ev.t)
  /\ LET n == inflight[Ev.t].n
         high == inflight[Ev.t].high IN
       /\ n = Len(Ev.pids) /\ Ev.high = high
       /\ \A i \in 1..n : Ev.pids[i] = high - n + i - 1
       \* the tasks carry the original ids the design says they carry
       /\ \A i \in 1..n : \E j \in 1..Len(pidMap[Ev.t]) :
             LET e == pidMap[Ev.t][j] IN e.pid = Ev.pids[i] /\ e.task /\ e.src = Ev.tasks[i].s /\ e.orig = Ev.tasks[i].id
\* keep-alive of the sender (1 s idle): the last exclusive high again, no tasks, no ring entry
TTgtKeepAlive == /\ IsEvent("TgtMsg") /\ Ev.ka /\ Len(Ev.pids) = 0 /\ KeepAliveMsg(Ev.t) /\ Ev.high = lastSent[Ev.t]
\* keep-alive of the receiver (1 s idle): the last aggregated ack again
TSrcKeepAlive == /\ IsEvent("SrcAck") /\ Ev.ka /\ KeepAliveAck(Ev.s) /\ lastAck[Ev.s] = Ev.a
TTgtDone == IsEvent("TgtDone") /\ \E i \in 1..Len(trkQ[Ev.t]) : trkQ[Ev.t][i] = Ev.pid /\ TgtDone(Ev.t, i)
TTgtAck == IsEvent("TgtAck") /\ TgtAck(Ev.t) /\ tackWire'[Ev.t][Len(tackWire'[Ev.t])] = Ev.w
Emits(s) == srcAck'[s] # srcAck[s] \/ lastAck'[s] # lastAck[s] \/ lastSentMin'[s] # lastSentMin[s]
TSrcAck == /\ IsEvent("SrcAck") /\ ~Ev.ka /\ Aggregate(Ev.s)
           /\ LET m == Head(ackChan[Ev.s])
                  abt == [ackByTarget[Ev.s] EXCEPT ![m.tgt] = m.a]
                  mn == Min({abt[t] : t \in {u \in Tgt : abt[u] # Absent}})
              IN mn >= lastSentMin[Ev.s] /\ lastAck'[Ev.s] = Ev.a
AggregateQuiet(s) ==
  /\ Aggregate(s)
  /\ LET m == Head(ackChan[s])
         abt == [ackByTarget[s] EXCEPT ![m.tgt] = m.a]
         mn == Min({abt[t] : t \in {u \in Tgt : abt[u] # Absent}})
     IN mn < lastSentMin[s]
TTgtOpen == /\ IsEvent("TgtOpen")
            /\ IF up[Ev.t] = "down" THEN ReopenTgt(Ev.t) ELSE (Ev.inc = 1 /\ UNCHANGED vars)
TTgtClose == IsEvent("TgtClose") /\ BreakTgt(Ev.t)
TTgtGone == IsEvent("TgtGone") /\ up[Ev.t] = "down" /\ UNCHANGED vars
\* the harness holds S[t] right after close(sendMsgChan) (hook sender.run.afterClose) ... and lets it go again
TTgtHeld == IsEvent("TgtHeld") /\ up[Ev.t] = "closed" /\ held' = held \cup {Ev.t} /\ UNCHANGED vars
TTgtRelease == IsEvent("TgtRelease") /\ held' = held \ {Ev.t} /\ UNCHANGED vars
TSrcOpen == /\ IsEvent("SrcOpen")
            /\ IF srcUp[Ev.s] = "down" THEN ReopenSrc(Ev.s) ELSE (Ev.inc = 1 /\ UNCHANGED vars)
TSrcClose == IsEvent("SrcClose") /\ BreakSrc(Ev.s)
TSrcGone == IsEvent("SrcGone") /\ srcUp[Ev.s] = "down" /\ UNCHANGED vars
\* at a successful settle the proxy has nothing left to do
\* what the proxy can still do by itself (a sender the harness holds in its close window cannot deregister)
InternalNow == \/ \E s \in Src, t \in Tgt : Deliver(s, t) \/ Bcast(s, t) \/ ForwardAck(t, s) \/ ReplayWm(t, s)
               \/ \E t \in Tgt : SenderDequeue(t) \/ SenderRecvAck(t) \/ FinishAck(t) \/ SenderClose(t)
               \/ \E t \in Tgt \ held : SenderGone(t)
               \/ \E s \in Src : Aggregate(s) \/ SrcStop(s)
TQuiet == /\ IsEvent("Quiet") /\ UNCHANGED vars
          /\ (Ev.ok => ~ENABLED InternalNow)
TOther == Stutter({"End", "Unrealised", "Stuck", "Final", "Tick", "Idle"})

TSilent == /\ l <= Len(TraceLog) /\ sc < MaxSilent /\ sc' = sc + 1 /\ l' = l /\ UNCHANGED held
           /\ \/ \E s \in Src, t \in Tgt : Deliver(s, t) \/ Bcast(s, t) \/ ForwardAck(t, s) \/ ReplayWm(t, s)
              \/ \E t \in Tgt : SenderDequeue(t) \/ SenderRecvAck(t) \/ FinishAck(t) \/ SenderClose(t)
              \/ \E t \in Tgt \ held : SenderGone(t)
              \/ \E s \in Src : AggregateQuiet(s) \/ SrcStop(s)
Matching == TConfig \/ TTgtHeld \/ TTgtRelease
            \/ H(TSrcBatch \/ TTgtMsg \/ TTgtKeepAlive \/ TSrcKeepAlive \/ TTgtDone \/ TTgtAck \/ TSrcAck \/ TTgtOpen
                 \/ TTgtClose \/ TTgtGone \/ TSrcOpen \/ TSrcClose \/ TSrcGone \/ TQuiet) \/ TOther
TraceNext == Matching \/ TSilent
TraceSpec == TraceInit /\ [][TraceNext]_tvars

HighWater == TLCSet(1, IF TLCGet(1) < l THEN l ELSE TLCGet(1))
Accepted == IF TLCGet(1) = Len(TraceLog) + 1 THEN PrintT(<<"TRACE_ACCEPTED", Len(TraceLog)>>)
            ELSE PrintT(<<"TRACE_REJECTED_AT", TLCGet(1), "OF", Len(TraceLog)>>)
\* acceptance as a (deliberately) violated invariant: with the depth-first queue TLC stops at the first accepting path
NotAccepted == l <= Len(TraceLog)
Brief == [l |-> l, sc |-> sc]
TView == <<route, srcVars, rcvVars, sndVars, tgtVars, pidMap, l, sc, held>>
=============================================================================
