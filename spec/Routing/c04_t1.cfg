SPECIFICATION Spec
CONSTANTS
  Src = {s1}
  Tgt = {t1, t2}
  MaxId = 2
  MaxBatch = 2
  MaxWm = 0
  ChanCap = 2
  AckCap = 1
  MaxFaults = 2
  SrcFaults = TRUE
  LateTgt = {}
  SeedFix = TRUE
SYMMETRY Sym
INVARIANTS NoUnexplainedEarlyAck WellFormed
CHECK_DEADLOCK FALSE
