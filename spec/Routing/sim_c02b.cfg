INIT SimInit
NEXT SimNext
CONSTANTS
  Src = {s1, s2}
  Tgt = {t1, t2}
  MaxId = 1
  MaxBatch = 2
  MaxWm = 1
  ChanCap = 2
  AckCap = 1
  MaxFaults = 0
  SrcFaults = FALSE
  LateTgt = {}
  SeedFix = TRUE
  Depth = 8
  MaxIdle = 0
  HoldClose = FALSE
  HoldAck = FALSE
CHECK_DEADLOCK FALSE
