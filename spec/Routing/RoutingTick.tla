----------------------------- MODULE RoutingTick -----------------------------
(***************************************************************************)
(* C03 liveness as bounded safety.  Virtual time: `Tick` is one second of   *)
(* Temporal's periodic behaviour - every source sends its watermark-only    *)
(* batch, every target that has received anything re-sends its low          *)
(* watermark - and is enabled only when `Prompt` is not (maximal progress:  *)
(* everything the proxy and a prompt, cooperative environment do takes no   *)
(* virtual time).  Targets in `Slow` accept messages whenever they like     *)
(* (queues fill up, broadcasts are dropped), so completeness is demanded N  *)
(* ticks after everything has been delivered and completed.                 *)
(***************************************************************************)
EXTENDS Routing
CONSTANTS N, MaxTicks, Slow
VARIABLES ticks, doneAt
tv == <<vars, ticks, doneAt>>
Prompt == \/ Internal
          \/ \E t \in Tgt \ Slow : SenderSend(t)
          \/ \E t \in Tgt : \E i \in 1..MaxId : TgtDone(t, i)
AllDone == /\ \A s \in Src : srcNext[s] = MaxId + 1 /\ rpc[s] = "idle"
           /\ \A t \in Tgt : trkQ[t] = <<>> /\ chan[t] = <<>> /\ inflight[t] = NoFlight
FinalAcked == \A s \in Src : lastAck[s] = srcNext[s]
RECURSIVE Bc(_, _)
Bc(S, q) == IF S = {} THEN q ELSE LET s == CHOOSE x \in S : TRUE IN
              Bc(S \ {s}, IF Len(q) < ChanCap THEN Append(q, WmMsg(s, srcNext[s])) ELSE q)
Tick ==
  /\ ~ENABLED Prompt /\ ticks < MaxTicks
  /\ \A s \in Src : srcNext[s] > 1
  /\ ticks' = ticks + 1
  \* doneAt = the tick since which everything has been delivered and completed at every tick (a slow target that
  \* still sits on a message restarts the clock: it has not yet "acknowledged what it has received")
  /\ doneAt' = IF AllDone THEN (IF doneAt = -1 THEN ticks ELSE doneAt) ELSE -1
  /\ lastHigh' = [s \in Src |-> srcNext[s]] /\ lastWm' = [s \in Src |-> srcNext[s]]
  /\ chan' = [t \in Tgt |-> Bc(Src, chan[t])]
  /\ tackWire' = [t \in Tgt |-> IF trkHigh[t] # 0 /\ Len(tackWire[t]) < AckCap THEN Append(tackWire[t], LowWm(t)) ELSE tackWire[t]]
  /\ conf' = conf \cup UNION {IF trkHigh[t] # 0 /\ Len(tackWire[t]) < AckCap
                                THEN {<<pidMap[t][i].src, pidMap[t][i].orig>> :
                                        i \in {j \in 1..Len(pidMap[t]) : pidMap[t][j].task /\ pidMap[t][j].pid < LowWm(t)}}
                                ELSE {} : t \in Tgt}
  /\ UNCHANGED <<route, srcVars, rpc, pending, bcastTo, ackByTarget, lastSentMin, ackChan,
                 up, nextPid, ring, prevAck, spc, fwd, fallback, discardN, inflight, replayTo, lastSent,
                 tgtVars, pidMap, delivered, received, lastAck, faults, lost, viol>>
TNext == \/ (Prompt /\ UNCHANGED <<ticks, doneAt>>)
         \/ ((\E s \in Src : \E k \in 1..MaxBatch : RecvTasks(s, k)) /\ UNCHANGED <<ticks, doneAt>>)
         \/ ((\E t \in Slow : SenderSend(t)) /\ UNCHANGED <<ticks, doneAt>>)
         \/ Tick
TSpec == Init /\ ticks = 0 /\ doneAt = -1 /\ [][TNext]_tv
\* within N virtual seconds after everything was delivered and completed, every source has its final watermark
BoundedComplete == (doneAt # -1 /\ ticks >= doneAt + N /\ ~ENABLED Prompt) => FinalAcked
=============================================================================
