#!/usr/bin/env python3
"""Generates the bounded-instance configs of Routing (one per property family / tier)."""
ALL = "NoEarlyAck WellFormed NoDup SourceOrder AllDelivered AckMonotone AckBounded"
FAULT = "NoUnexplainedEarlyAck WellFormed"
def cfg(name, src="{s1}", tgt="{t1, t2}", maxid=2, maxbatch=2, maxwm=1, chancap=2, ackcap=1, faults=0,
        srcfaults="FALSE", late="{}", invs=ALL, depth=None, seedfix="TRUE", idle=0, hold="FALSE", holdack="FALSE"):
    sim = depth is not None
    out = ("INIT SimInit\nNEXT SimNext\n" if sim else "SPECIFICATION Spec\n")
    out += "CONSTANTS\n  Src = %s\n  Tgt = %s\n  MaxId = %d\n  MaxBatch = %d\n  MaxWm = %d\n  ChanCap = %d\n  AckCap = %d\n" % (
        src, tgt, maxid, maxbatch, maxwm, chancap, ackcap)
    out += "  MaxFaults = %d\n  SrcFaults = %s\n  LateTgt = %s\n  SeedFix = %s\n" % (faults, srcfaults, late, seedfix)
    if sim:
        out += "  Depth = %d\n  MaxIdle = %d\n  HoldClose = %s\n  HoldAck = %s\n" % (depth, idle, hold, holdack)
    else:
        out += "SYMMETRY Sym\nINVARIANTS %s\n" % invs
    out += "CHECK_DEADLOCK FALSE\n"
    open(name + ".cfg", "w").write(out)

# ---- design configs (exhaustive)
cfg("c01")                                                     # 1x2, 2 ids, 1 wm
cfg("c01_t1", maxid=3, maxwm=1)                                # thorough
cfg("c01_t2", tgt="{t1, t2, t3}", maxid=2, maxwm=1, chancap=1)
cfg("c01_pre", seedfix="FALSE")                                # the pinned tree before the fix (documentation)
cfg("c02_q", late="{t2}", maxwm=0)
cfg("c02", late="{t2}")                                        # a target that connects late
cfg("c02b_q", src="{s1, s2}", maxid=1, maxwm=0)                # two sources feed one target (quick)
cfg("c02b", src="{s1, s2}", maxid=1, maxwm=1)                  # two sources feed one target
cfg("c02_t1", late="{t2}", maxid=3, maxwm=0)
cfg("c04", faults=1, invs=FAULT, maxwm=1)                      # target-stream faults
cfg("c04s", faults=1, srcfaults="TRUE", invs=FAULT, maxwm=0)   # source-stream faults
cfg("c04_q", faults=1, srcfaults="TRUE", invs=FAULT, maxid=1, maxwm=1)
cfg("c04_t1", faults=2, srcfaults="TRUE", invs=FAULT, maxid=2, maxwm=0)
# ---- behaviour generation (RoutingSim)
cfg("sim_c01", depth=7)
cfg("sim_c01_t", src="{s1, s2}", maxid=3, maxwm=2, chancap=4, ackcap=2, depth=14)
cfg("sim_c03", maxid=2, maxbatch=1, maxwm=2, depth=14)          # two watermarks: late first acks, clamps
cfg("sim_c03i", maxid=2, maxbatch=1, maxwm=2, depth=15, idle=1)  # ... followed by an idle second (receiver keep-alive)
cfg("sim_c01a", src="{s1, s2}", tgt="{t1}", maxid=2, maxbatch=1, maxwm=0, chancap=4, ackcap=2, depth=14, holdack="TRUE")  # a receiver held in Send
cfg("sim_c02", late="{t2}", depth=8)
cfg("sim_c02b", src="{s1, s2}", maxid=1, depth=8)
cfg("sim_c02i", maxid=3, maxwm=1, depth=9, idle=1)           # with one idle second (keep-alives fire)
cfg("sim_c02_t", src="{s1, s2}", tgt="{t1, t2, t3}", late="{t3}", maxid=3, maxwm=2, chancap=4, ackcap=2, depth=16)
cfg("sim_c04", faults=1, srcfaults="FALSE", depth=8)
cfg("sim_c04s", faults=1, srcfaults="TRUE", maxwm=0, depth=7)
cfg("sim_c04h", faults=1, srcfaults="FALSE", maxwm=1, depth=8, hold="TRUE")   # sender held in the close window
cfg("sim_c04a", src="{s1, s2}", tgt="{t1}", faults=1, srcfaults="TRUE", maxid=2, maxbatch=1, maxwm=0, chancap=4, ackcap=2, depth=16, holdack="TRUE")  # a receiver held in Send while a source stream breaks / reconnects
cfg("sim_c04_t", src="{s1, s2}", faults=2, srcfaults="TRUE", maxid=3, maxwm=2, chancap=4, ackcap=2, depth=16)
