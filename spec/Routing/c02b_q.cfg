SPECIFICATION Spec
CONSTANTS
  Src = {s1, s2}
  Tgt = {t1, t2}
  MaxId = 1
  MaxBatch = 2
  MaxWm = 0
  ChanCap = 2
  AckCap = 1
  MaxFaults = 0
  SrcFaults = FALSE
  LateTgt = {}
  SeedFix = TRUE
SYMMETRY Sym
INVARIANTS NoEarlyAck WellFormed NoDup SourceOrder AllDelivered AckMonotone AckBounded
CHECK_DEADLOCK FALSE
