------------------------------ MODULE Routing ------------------------------
(***************************************************************************)
(* Replication-stream routing of s2s-proxy (shard-count mode "routing"),    *)
(* one direction of data flow: source cluster shards Src -> target cluster  *)
(* shards Tgt.  Properties C01 (no early ack), C02 (exactly once, owner,    *)
(* well-formed stream), C03 (ack monotone / bounded / complete), C04 (no    *)
(* early ack under stream breaks).                                          *)
(*                                                                          *)
(* One action per critical section of the code (file proxy/proxy_streams.go *)
(* unless noted).  R[s] = proxyStreamReceiver pulling from source shard s;  *)
(* S[t] = proxyStreamSender serving target shard t.                          *)
(*                                                                          *)
(*   RecvTasks/RecvWm  recvReplicationMessages: Recv() returned a batch      *)
(*   Deliver           retry loop -> shardManager.DeliverMessagesToShardOwner*)
(*                     (local branch: blocking send on remoteSendChannels[t])*)
(*   SenderDequeue     sendReplicationMessages first half, under s.mu:       *)
(*                     allocate proxy ids, idRing.Append, rewrite high       *)
(*   SenderSend        sourceStreamServer.Send returned = the target cluster *)
(*                     has the message (tracker rules of Temporal v1.31.2)   *)
(*   TgtDone/TgtAck    target cluster completes a task / sends its low wm    *)
(*   SenderRecvAck     recvAck: AggregateUpTo(w) (or prevAckBySource fallback)*)
(*   ForwardAck        DeliverAckToShardOwner local branch (blocking send)   *)
(*   FinishAck         idRing.Discard(pendingDiscard)                        *)
(*   Aggregate         sendAck: ackByTarget[t] := a; min over PRESENT        *)
(*                     entries; monotone guard; clamp; Send to the source    *)
(*   BreakTgt/SenderClose/SenderGone/ReopenTgt/ReplayWm,                    *)
(*   BreakSrc/SrcStop/ReopenSrc                                             *)
(*                     stream faults (C04).  A break is noticed by the proxy *)
(*                     only when a goroutine next touches the stream, so the *)
(*                     shutdown of an incarnation is a separate internal     *)
(*                     step ("closing" -> "down") and internal steps keep    *)
(*                     running in between.                                   *)
(*                                                                          *)
(* SeedFix = TRUE models the repaired tree ("fix: seed the per-target ack    *)
(* level before handing a batch to a target that has not acknowledged yet"): *)
(* RecvTasks sets ackByTarget[t] to the first id routed to t when absent.    *)
(* With SeedFix = FALSE (pinned tree) TLC refutes NoEarlyAck in 8 steps.     *)
(***************************************************************************)
EXTENDS Integers, Sequences, FiniteSets, TLC

CONSTANTS Src, Tgt,     \* source / target shards
          MaxId,        \* source task ids 1..MaxId per source
          MaxBatch,     \* largest task batch
          MaxWm,        \* watermark-only batches per source (0 = none)
          ChanCap,      \* capacity of sendMsgChan (real: 100)
          AckCap,       \* capacity of ackChan / of the target->proxy ack wire
          MaxFaults,    \* number of stream breaks allowed in one behaviour
          SrcFaults,    \* TRUE: source streams may break as well
          LateTgt,      \* set of targets that are NOT connected initially
          SeedFix

Absent == 0
\* stream life cycle: "up" -> (break) "closing" -> (proxy notices, incarnation torn down) "down" -> (reopen) "up"
Min(S) == CHOOSE x \in S : \A y \in S : x <= y
Max(S) == CHOOSE x \in S : \A y \in S : x >= y
SeqToSet(q) == {q[i] : i \in 1..Len(q)}
NoFlight == [n |-> -1, high |-> 0]

VARIABLES
  route,                                  \* [Src -> [1..MaxId -> Tgt]]  owner of each task (hash of its workflow)
  \* --- source cluster
  srcNext, wmCount, srcAck, srcUp,
  \* --- receiver R[s]
  rpc, pending, bcastTo, lastHigh, lastWm, ackByTarget, lastSentMin, ackChan,
  \* --- sender S[t]
  up, chan, nextPid, ring, prevAck, spc, fwd, fallback, discardN, tackWire, inflight, replayTo, lastSent,
  \* --- target cluster (ExecutableTaskTracker + StreamReceiver)
  trkHigh, trkQ,
  \* --- history (hidden by VIEW)
  pidMap,      \* [Tgt -> Seq(entry)] every entry assigned on the CURRENT incarnation of t
  conf,        \* set of <<s, id>> confirmed: delivered on a target incarnation that later acked past its pid
  delivered,   \* set of [s, id, t] : every task the target cluster accepted
  received,    \* [Src -> set of ids the proxy has read]
  lastAck,     \* [Src -> last acknowledgement emitted on the current source-stream incarnation]
 faults,
  lost,        \* set of <<s, id>> that died with a stream incarnation before being confirmed (known finding C04)
  viol         \* sticky set of violated clauses: "early","malformed","dropped","dup","disorder","nonmono","overhigh"

srcVars == <<srcNext, wmCount, srcAck, srcUp>>
rcvVars == <<rpc, pending, bcastTo, lastHigh, lastWm, ackByTarget, lastSentMin, ackChan>>
sndVars == <<up, chan, nextPid, ring, prevAck, spc, fwd, fallback, discardN, tackWire, inflight, replayTo, lastSent>>
tgtVars == <<trkHigh, trkQ>>
histVars == <<pidMap, conf, delivered, received, lastAck, faults, lost, viol>>
vars == <<route, srcVars, rcvVars, sndVars, tgtVars, histVars>>

InitWith(rt) ==
  /\ route = rt
  /\ srcNext = [s \in Src |-> 1] /\ wmCount = [s \in Src |-> 0] /\ srcAck = [s \in Src |-> 0]
  /\ srcUp = [s \in Src |-> "up"]
  /\ rpc = [s \in Src |-> "idle"] /\ pending = [s \in Src |-> [t \in Tgt |-> <<>>]]
  /\ bcastTo = [s \in Src |-> {}]
  /\ lastHigh = [s \in Src |-> 0] /\ lastWm = [s \in Src |-> 0]
  /\ ackByTarget = [s \in Src |-> [t \in Tgt |-> Absent]]
  /\ lastSentMin = [s \in Src |-> 0] /\ ackChan = [s \in Src |-> <<>>]
  /\ up = [t \in Tgt |-> IF t \in LateTgt THEN "down" ELSE "up"]
  /\ chan = [t \in Tgt |-> <<>>] /\ nextPid = [t \in Tgt |-> 0] /\ ring = [t \in Tgt |-> <<>>]
  /\ prevAck = [t \in Tgt |-> [s \in Src |-> Absent]]
  /\ spc = [t \in Tgt |-> "idle"] /\ fwd = [t \in Tgt |-> [s \in Src |-> Absent]]
  /\ fallback = [t \in Tgt |-> FALSE] /\ discardN = [t \in Tgt |-> 0] /\ tackWire = [t \in Tgt |-> <<>>]
  /\ inflight = [t \in Tgt |-> NoFlight] /\ replayTo = [t \in Tgt |-> {}] /\ lastSent = [t \in Tgt |-> 0]
  /\ trkHigh = [t \in Tgt |-> 0] /\ trkQ = [t \in Tgt |-> <<>>]
  /\ pidMap = [t \in Tgt |-> <<>>] /\ conf = {} /\ delivered = {}
  /\ received = [s \in Src |-> {}] /\ lastAck = [s \in Src |-> 0] /\ faults = 0
  /\ lost = {} /\ viol = {}
Init == \E rt \in [Src -> [1..MaxId -> Tgt]] : InitWith(rt)

(* ---------------- receiver R[s]: read a batch from the source ------------ *)
\* a task batch of k tasks, ids srcNext..srcNext+k-1, exclusive high srcNext+k
RecvTasks(s, k) ==
  /\ srcUp[s] = "up" /\ rpc[s] = "idle" /\ srcNext[s] + k - 1 <= MaxId
  /\ LET ids  == [i \in 1..k |-> srcNext[s] + i - 1]
         high == srcNext[s] + k
         grp  == [t \in Tgt |-> SelectSeq(ids, LAMBDA id : route[s][id] = t)]
     IN /\ srcNext' = [srcNext EXCEPT ![s] = high]
        /\ lastHigh' = [lastHigh EXCEPT ![s] = high]
        /\ pending' = [pending EXCEPT ![s] = grp]
        /\ rpc' = [rpc EXCEPT ![s] = "deliver"]
        /\ received' = [received EXCEPT ![s] = @ \cup SeqToSet(ids)]
        /\ ackByTarget' = IF SeedFix
             THEN [ackByTarget EXCEPT ![s] =
                     [t \in Tgt |-> IF @[t] = Absent /\ grp[t] # <<>> THEN grp[t][1] ELSE @[t]]]
             ELSE ackByTarget
  /\ UNCHANGED <<route, wmCount, srcAck, srcUp, bcastTo, lastWm, lastSentMin, ackChan, sndVars, tgtVars,
                 pidMap, conf, delivered, lastAck, faults, lost, viol>>

\* a watermark-only batch: recorded as lastWatermark and broadcast (non-blocking) to every registered channel
WmMsg(s, high) == [src |-> s, ids |-> <<>>, high |-> high]
\* life cycle of S[t]:  "up" -(stream breaks)-> "closing" -(Run notices: close(sendMsgChan))-> "closed"
\*                     -(UnregisterShard, RemoveRemoteSendChan)-> "down" -(new stream)-> "up"
Reg(t) == up[t] # "down"                  \* S[t]'s channel is in the registry (possibly already closed)
Open(t) == up[t] \in {"up", "closing"}     \* ... and not yet closed: sends on it succeed, S[t]'s goroutines run
Live(t) == up[t] = "up"                   \* the target cluster is connected
\* non-blocking send: dropped when the channel is full, closed (recovered panic) or not registered
Offer(t, m) == IF Open(t) /\ Len(chan[t]) < ChanCap THEN Append(chan[t], m) ELSE chan[t]
RecvWm(s) ==
  /\ srcUp[s] = "up" /\ rpc[s] = "idle" /\ wmCount[s] < MaxWm /\ srcNext[s] > 1
  /\ LET high == srcNext[s]
         snap == {t \in Tgt : Reg(t)}          \* GetRemoteSendChansByCluster: snapshot of the registered channels
     IN /\ wmCount' = [wmCount EXCEPT ![s] = @ + 1]
        /\ lastHigh' = [lastHigh EXCEPT ![s] = high] /\ lastWm' = [lastWm EXCEPT ![s] = high]
        /\ bcastTo' = [bcastTo EXCEPT ![s] = snap]
        /\ rpc' = [rpc EXCEPT ![s] = IF snap = {} THEN "idle" ELSE "bcast"]
  /\ UNCHANGED <<route, srcNext, srcAck, srcUp, pending, ackByTarget, lastSentMin, ackChan, sndVars, tgtVars, histVars>>
\* one non-blocking send of the broadcast loop (dropped when the channel is full or was closed meanwhile)
Bcast(s, t) ==
  /\ rpc[s] = "bcast" /\ t \in bcastTo[s]
  /\ chan' = [chan EXCEPT ![t] = Offer(t, WmMsg(s, lastWm[s]))]
  /\ bcastTo' = [bcastTo EXCEPT ![s] = @ \ {t}]
  /\ rpc' = [rpc EXCEPT ![s] = IF bcastTo'[s] = {} THEN "idle" ELSE "bcast"]
  /\ UNCHANGED <<route, srcVars, pending, lastHigh, lastWm, ackByTarget, lastSentMin, ackChan,
                 up, nextPid, ring, prevAck, spc, fwd, fallback, discardN, tackWire, inflight, replayTo, lastSent,
                 tgtVars, histVars>>

\* hand-off of target t's part of the current batch (blocking send; retried until the channel exists)
Deliver(s, t) ==
  /\ rpc[s] = "deliver" /\ pending[s][t] # <<>> /\ Open(t) /\ Len(chan[t]) < ChanCap
  /\ chan' = [chan EXCEPT ![t] = Append(@, [src |-> s, ids |-> pending[s][t], high |-> 0])]
  /\ pending' = [pending EXCEPT ![s][t] = <<>>]
  /\ rpc' = [rpc EXCEPT ![s] = IF \A u \in Tgt : pending'[s][u] = <<>> THEN "idle" ELSE "deliver"]
  /\ UNCHANGED <<route, srcVars, bcastTo, lastHigh, lastWm, ackByTarget, lastSentMin, ackChan,
                 up, nextPid, ring, prevAck, spc, fwd, fallback, discardN, tackWire, inflight, replayTo, lastSent,
                 tgtVars, histVars>>

(* ---------------- sender S[t] -------------------------------------------- *)
SenderDequeue(t) ==
  /\ Open(t) /\ chan[t] # <<>> /\ inflight[t] = NoFlight
  /\ LET m == Head(chan[t])
         n == Len(m.ids)
         ents == IF n > 0
                 THEN [i \in 1..n |-> [pid |-> nextPid[t] + i, src |-> m.src, orig |-> m.ids[i], task |-> TRUE]]
                 ELSE << [pid |-> nextPid[t] + 1, src |-> m.src, orig |-> m.high, task |-> FALSE] >>
         newNext == nextPid[t] + (IF n > 0 THEN n ELSE 1)
         high == IF n > 0 THEN newNext + 1 ELSE newNext
     IN /\ chan' = [chan EXCEPT ![t] = Tail(@)]
        /\ nextPid' = [nextPid EXCEPT ![t] = newNext]
        /\ ring' = [ring EXCEPT ![t] = @ \o ents]
        /\ pidMap' = [pidMap EXCEPT ![t] = @ \o ents]
        /\ inflight' = [inflight EXCEPT ![t] = [n |-> n, high |-> high]]
  /\ UNCHANGED <<route, srcVars, rcvVars, up, prevAck, spc, fwd, fallback, discardN, tackWire, replayTo, lastSent,
                 tgtVars, conf, delivered, received, lastAck, faults, lost, viol>>

\* Send returned: the target's tracker applies TrackTasks(high, tasks)
SenderSend(t) ==
  /\ Live(t) /\ inflight[t] # NoFlight
  /\ LET n == inflight[t].n
         high == inflight[t].high
         first == IF n > 0 THEN high - n ELSE high
         accept == ~(trkHigh[t] # 0 /\ high <= trkHigh[t])
         lastQ == IF trkQ[t] = <<>> THEN -1 ELSE trkQ[t][Len(trkQ[t])]
         ents == SelectSeq(pidMap[t], LAMBDA e : e.task /\ e.pid >= first /\ e.pid < first + n)
         new == IF accept /\ n > 0 THEN {[s |-> ents[i].src, id |-> ents[i].orig, t |-> t] : i \in 1..Len(ents)} ELSE {}
     IN /\ trkHigh' = [trkHigh EXCEPT ![t] = IF accept THEN high ELSE @]
        /\ trkQ' = [trkQ EXCEPT ![t] = IF accept /\ n > 0 THEN @ \o [i \in 1..n |-> first + i - 1] ELSE @]
        /\ delivered' = delivered \cup new
        \* a Temporal receiver would panic (high <= last task id) or silently drop tasks
        /\ viol' = viol
             \cup (IF n > 0 /\ high <= first + n - 1 THEN {"malformed"} ELSE {})
             \cup (IF (n > 0 /\ ~accept) \/ (n > 0 /\ accept /\ first <= lastQ) THEN {"dropped"} ELSE {})
             \cup (IF faults = 0 /\ \E d \in new : \E e \in delivered : e.s = d.s /\ e.id = d.id THEN {"dup"} ELSE {})
             \cup (IF faults = 0 /\ \E d \in new : \E e \in delivered : e.s = d.s /\ e.t = d.t /\ e.id >= d.id
                   THEN {"disorder"} ELSE {})
  /\ inflight' = [inflight EXCEPT ![t] = NoFlight]
  /\ lastSent' = [lastSent EXCEPT ![t] = inflight[t].high]
  /\ UNCHANGED <<route, srcVars, rcvVars, up, chan, nextPid, ring, prevAck, spc, fwd, fallback, discardN,
                 tackWire, replayTo, pidMap, conf, received, lastAck, faults, lost>>

TgtDone(t, i) ==
  /\ Live(t) /\ i \in 1..Len(trkQ[t])
  /\ trkQ' = [trkQ EXCEPT ![t] = [j \in 1..(Len(@) - 1) |-> IF j < i THEN @[j] ELSE @[j + 1]]]
  /\ UNCHANGED <<route, srcVars, rcvVars, sndVars, trkHigh, histVars>>

LowWm(t) == IF trkQ[t] # <<>> THEN trkQ[t][1] ELSE trkHigh[t]
TgtAck(t) ==
  /\ Live(t) /\ trkHigh[t] # 0 /\ Len(tackWire[t]) < AckCap
  /\ LET w == LowWm(t) IN
     /\ tackWire' = [tackWire EXCEPT ![t] = Append(@, w)]
     /\ conf' = conf \cup {<<pidMap[t][i].src, pidMap[t][i].orig>> :
                             i \in {j \in 1..Len(pidMap[t]) : pidMap[t][j].task /\ pidMap[t][j].pid < w}}
  /\ UNCHANGED <<route, srcVars, rcvVars, up, chan, nextPid, ring, prevAck, spc, fwd, fallback, discardN,
                 inflight, replayTo, lastSent, tgtVars, pidMap, delivered, received, lastAck, faults, lost, viol>>

\* keep-alives after 1 s without traffic (timers): the sender repeats its last exclusive high watermark with no
\* tasks and no ring entry; the receiver repeats its last aggregated ack.  With correct code both change nothing.
KeepAliveMsg(t) ==
  /\ Live(t) /\ inflight[t] = NoFlight /\ lastSent[t] > 0
  /\ trkHigh' = [trkHigh EXCEPT ![t] = IF lastSent[t] > @ THEN lastSent[t] ELSE @]
  /\ UNCHANGED <<route, srcVars, rcvVars, sndVars, trkQ, histVars>>
KeepAliveAck(s) ==
  /\ srcUp[s] = "up" /\ lastAck[s] > 0
  /\ UNCHANGED vars

SenderRecvAck(t) ==
  /\ Open(t) /\ spc[t] = "idle" /\ tackWire[t] # <<>>
  /\ LET w == Head(tackWire[t])
         cov == SelectSeq(ring[t], LAMBDA e : e.pid <= w)
         agg == [s \in Src |-> LET vs == {cov[i].orig : i \in {j \in 1..Len(cov) : cov[j].src = s}} IN
                                 IF vs = {} THEN Absent ELSE Max(vs)]
         none == \A s \in Src : agg[s] = Absent
     IN /\ tackWire' = [tackWire EXCEPT ![t] = Tail(@)]
        /\ fwd' = [fwd EXCEPT ![t] = IF none THEN prevAck[t] ELSE agg]
        /\ fallback' = [fallback EXCEPT ![t] = none]
        /\ discardN' = [discardN EXCEPT ![t] = Len(cov)]
        /\ spc' = [spc EXCEPT ![t] = "fwd"]
  /\ UNCHANGED <<route, srcVars, rcvVars, up, chan, nextPid, ring, prevAck, inflight, replayTo, lastSent, tgtVars, histVars>>

\* blocking hand-off of one per-source ack; retried while the source's receiver is not registered
ForwardAck(t, s) ==
  /\ Open(t) /\ spc[t] = "fwd" /\ fwd[t][s] # Absent /\ srcUp[s] # "down" /\ Len(ackChan[s]) < AckCap
  /\ ackChan' = [ackChan EXCEPT ![s] = Append(@, [tgt |-> t, a |-> fwd[t][s]])]
  /\ prevAck' = IF fallback[t] THEN prevAck ELSE [prevAck EXCEPT ![t][s] = fwd[t][s]]
  /\ fwd' = [fwd EXCEPT ![t][s] = Absent]
  /\ UNCHANGED <<route, srcVars, rpc, pending, bcastTo, lastHigh, lastWm, ackByTarget, lastSentMin,
                 up, chan, nextPid, ring, spc, fallback, discardN, tackWire, inflight, replayTo, lastSent, tgtVars, histVars>>

FinishAck(t) ==
  /\ Open(t) /\ spc[t] = "fwd" /\ \A s \in Src : fwd[t][s] = Absent
  /\ ring' = [ring EXCEPT ![t] = SubSeq(@, discardN[t] + 1, Len(@))]
  /\ spc' = [spc EXCEPT ![t] = "idle"] /\ discardN' = [discardN EXCEPT ![t] = 0]
  /\ UNCHANGED <<route, srcVars, rcvVars, up, chan, nextPid, prevAck, fwd, fallback, tackWire, inflight, replayTo, lastSent,
                 tgtVars, histVars>>

(* ---------------- receiver R[s]: aggregate and acknowledge --------------- *)
Confirmed(s, id) == <<s, id>> \in conf
Aggregate(s) ==
  /\ srcUp[s] = "up" /\ ackChan[s] # <<>>
  /\ LET m == Head(ackChan[s])
         abt == [ackByTarget[s] EXCEPT ![m.tgt] = m.a]
         present == {abt[t] : t \in {u \in Tgt : abt[u] # Absent}}
         mn == Min(present)
         out == IF lastHigh[s] > 0 /\ mn > lastHigh[s] THEN lastHigh[s] ELSE mn
     IN /\ ackChan' = [ackChan EXCEPT ![s] = Tail(@)]
        /\ ackByTarget' = [ackByTarget EXCEPT ![s] = abt]
        /\ IF mn >= lastSentMin[s]
             THEN /\ lastAck' = [lastAck EXCEPT ![s] = out]
                  /\ lastSentMin' = [lastSentMin EXCEPT ![s] = out]
                  /\ srcAck' = [srcAck EXCEPT ![s] = out]      \* the source persists it: worst case for loss
                  /\ viol' = viol
                       \cup (IF \E id \in received[s] : id < out /\ ~Confirmed(s, id) /\ <<s, id>> \notin lost THEN {"early"} ELSE {})
                       \cup (IF \E id \in received[s] : id < out /\ ~Confirmed(s, id) /\ <<s, id>> \in lost THEN {"earlylost"} ELSE {})
                       \cup (IF out < lastAck[s] THEN {"nonmono"} ELSE {})
                       \cup (IF out > lastHigh[s] THEN {"overhigh"} ELSE {})
             ELSE UNCHANGED <<lastAck, lastSentMin, srcAck, viol>>
  /\ UNCHANGED <<route, srcNext, wmCount, srcUp, rpc, pending, bcastTo, lastHigh, lastWm, sndVars, tgtVars,
                 pidMap, conf, delivered, received, faults, lost>>

(* ---------------- faults (C04) ------------------------------------------- *)
\* the stream of target shard t breaks (boundary): the target cluster is gone at once ...
BreakTgt(t) ==
  /\ Live(t) /\ faults < MaxFaults
  /\ faults' = faults + 1
  /\ up' = [up EXCEPT ![t] = "closing"]
  /\ tackWire' = tackWire      \* acks already on the wire may still be read by recvAck
  /\ UNCHANGED <<route, srcVars, rcvVars, chan, nextPid, ring, prevAck, spc, fwd, fallback, discardN, inflight,
                 replayTo, lastSent, tgtVars, pidMap, conf, delivered, received, lastAck, lost, viol>>
\* ... S[t] shuts down when one of its goroutines touches the stream: Send fails (a message is in flight) or
\* Recv fails (recvAck is idle).  Queue, in-flight message, ring, prevAck and the target-side tracker of that
\* incarnation are gone; close(sendMsgChan), UnregisterShard, RemoveRemoteSendChan.
SenderClose(t) ==
  /\ up[t] = "closing" /\ (inflight[t] # NoFlight \/ spc[t] = "idle")
  /\ up' = [up EXCEPT ![t] = "closed"] /\ lastSent' = [lastSent EXCEPT ![t] = 0]
  /\ chan' = [chan EXCEPT ![t] = <<>>] /\ nextPid' = [nextPid EXCEPT ![t] = 0]
  /\ ring' = [ring EXCEPT ![t] = <<>>] /\ prevAck' = [prevAck EXCEPT ![t] = [s \in Src |-> Absent]]
  /\ spc' = [spc EXCEPT ![t] = "idle"] /\ fwd' = [fwd EXCEPT ![t] = [s \in Src |-> Absent]]
  /\ fallback' = [fallback EXCEPT ![t] = FALSE] /\ discardN' = [discardN EXCEPT ![t] = 0]
  /\ tackWire' = [tackWire EXCEPT ![t] = <<>>] /\ inflight' = [inflight EXCEPT ![t] = NoFlight]
  /\ replayTo' = [replayTo EXCEPT ![t] = {}]
  /\ trkHigh' = [trkHigh EXCEPT ![t] = 0] /\ trkQ' = [trkQ EXCEPT ![t] = <<>>]
  /\ pidMap' = [pidMap EXCEPT ![t] = <<>>]
  \* known finding C04-a: everything forwarded on / queued for this incarnation and not yet confirmed dies with it
  /\ lost' = lost \cup {<<pidMap[t][i].src, pidMap[t][i].orig>> :
                           i \in {j \in 1..Len(pidMap[t]) : pidMap[t][j].task /\ <<pidMap[t][j].src, pidMap[t][j].orig>> \notin conf}}
                  \cup UNION {{<<chan[t][i].src, id>> : id \in SeqToSet(chan[t][i].ids)} : i \in 1..Len(chan[t])}
  /\ UNCHANGED <<route, srcVars, rcvVars, conf, delivered, received, lastAck, faults, viol>>
\* ... and only afterwards (deferred) UnregisterShard and RemoveRemoteSendChan: until then the closed channel is
\* still found by look-ups, and every send on it fails (recovered panic) and is retried or dropped
SenderGone(t) ==
  /\ up[t] = "closed"
  /\ up' = [up EXCEPT ![t] = "down"]
  /\ UNCHANGED <<route, srcVars, rcvVars, chan, nextPid, ring, prevAck, spc, fwd, fallback, discardN, tackWire,
                 inflight, replayTo, lastSent, tgtVars, histVars>>

\* SetRemoteSendChan: the new channel is visible (blocked hand-offs may now succeed) ...
ReopenTgt(t) ==
  /\ up[t] = "down"
  /\ up' = [up EXCEPT ![t] = "up"]
  /\ replayTo' = [replayTo EXCEPT ![t] = {s \in Src : srcUp[s] # "down"}]
  /\ UNCHANGED <<route, srcVars, rcvVars, chan, nextPid, ring, prevAck, spc, fwd, fallback, discardN, tackWire,
                 inflight, lastSent, tgtVars, histVars>>
\* ... and only then RegisterShard -> notifyReceiversOfNewShard -> sendPendingWatermarkToShard (non-blocking)
ReplayWm(t, s) ==
  /\ Reg(t) /\ s \in replayTo[t]
  /\ replayTo' = [replayTo EXCEPT ![t] = @ \ {s}]
  /\ chan' = [chan EXCEPT ![t] = IF lastWm[s] > 0 THEN Offer(t, WmMsg(s, lastWm[s])) ELSE @]
  /\ UNCHANGED <<route, srcVars, rcvVars, up, nextPid, ring, prevAck, spc, fwd, fallback, discardN, tackWire,
                 inflight, lastSent, tgtVars, histVars>>

\* the streams of source shard s break (boundary): no more batches, acknowledgements can no longer be sent
BreakSrc(s) ==
  /\ SrcFaults /\ srcUp[s] = "up" /\ faults < MaxFaults
  /\ faults' = faults + 1
  /\ srcUp' = [srcUp EXCEPT ![s] = "closing"]
  /\ UNCHANGED <<route, srcNext, wmCount, srcAck, rcvVars, sndVars, tgtVars, pidMap, conf, delivered, received,
                 lastAck, lost, viol>>
\* R[s] is torn down with everything it held (a hand-off loop in progress is abandoned)
SrcStop(s) ==
  /\ srcUp[s] = "closing"
  /\ srcUp' = [srcUp EXCEPT ![s] = "down"]
  /\ rpc' = [rpc EXCEPT ![s] = "idle"] /\ pending' = [pending EXCEPT ![s] = [t \in Tgt |-> <<>>]]
  /\ bcastTo' = [bcastTo EXCEPT ![s] = {}]
  /\ lastHigh' = [lastHigh EXCEPT ![s] = 0] /\ lastWm' = [lastWm EXCEPT ![s] = 0]
  /\ ackByTarget' = [ackByTarget EXCEPT ![s] = [t \in Tgt |-> Absent]]
  /\ lastSentMin' = [lastSentMin EXCEPT ![s] = 0] /\ ackChan' = [ackChan EXCEPT ![s] = <<>>]
  /\ replayTo' = [t \in Tgt |-> replayTo[t] \ {s}] /\ lastAck' = [lastAck EXCEPT ![s] = 0]
  \* known finding C04-b: the next receiver incarnation starts with an empty ack map, so every task of s that is
  \* still outstanding anywhere (queued, in flight, unacknowledged) loses the protection of its target's level
  /\ lost' = lost \cup {<<s, id>> : id \in {x \in received[s] : ~Confirmed(s, x)}}
  /\ UNCHANGED <<route, srcNext, wmCount, srcAck, up, chan, nextPid, ring, prevAck, spc, fwd, fallback, discardN,
                 tackWire, inflight, lastSent, tgtVars, pidMap, conf, delivered, received, faults, viol>>
\* a new incarnation; the source resumes from the level it was last acknowledged
ReopenSrc(s) ==
  /\ srcUp[s] = "down"
  /\ srcUp' = [srcUp EXCEPT ![s] = "up"]
  /\ srcNext' = [srcNext EXCEPT ![s] = IF srcAck[s] = 0 THEN 1 ELSE srcAck[s]]
  /\ UNCHANGED <<route, wmCount, srcAck, rcvVars, sndVars, tgtVars, histVars>>

Internal ==
  \/ \E s \in Src, t \in Tgt : Deliver(s, t) \/ Bcast(s, t) \/ ForwardAck(t, s) \/ ReplayWm(t, s)
  \/ \E t \in Tgt : SenderDequeue(t) \/ SenderRecvAck(t) \/ FinishAck(t) \/ SenderClose(t) \/ SenderGone(t)
  \/ \E s \in Src : Aggregate(s) \/ SrcStop(s)
Env ==
  \/ \E s \in Src : (\E k \in 1..MaxBatch : RecvTasks(s, k)) \/ RecvWm(s)
  \/ \E t \in Tgt : SenderSend(t) \/ TgtAck(t) \/ (\E i \in 1..MaxId : TgtDone(t, i))
Fault ==
  \/ \E t \in Tgt : BreakTgt(t) \/ ReopenTgt(t)
  \/ \E s \in Src : BreakSrc(s) \/ ReopenSrc(s)
Timer == (\E t \in Tgt : KeepAliveMsg(t)) \/ (\E s \in Src : KeepAliveAck(s))
Next == Internal \/ Env \/ Fault \/ Timer
Spec == Init /\ [][Next]_vars

(* ---------------- properties ---------------------------------------------- *)
\* C01 / C04: no acknowledgement below which a received task is unconfirmed
NoEarlyAck == "early" \notin viol /\ "earlylost" \notin viol
\* C04 with the known finding factored out: an early ack arises ONLY for tasks that died with a stream incarnation
NoUnexplainedEarlyAck == "early" \notin viol
\* C02: every target stream is acceptable to a Temporal receiver (no panic, no silently dropped task)
WellFormed == "malformed" \notin viol /\ "dropped" \notin viol
\* C02: without faults no task is accepted twice, and tasks of one source reach a target in source order
NoDup == "dup" \notin viol
SourceOrder == "disorder" \notin viol
\* C02 exactly-once, completeness half: at quiescence every received task has been accepted by its owner
Quiet == /\ \A s \in Src : rpc[s] = "idle"
         /\ \A t \in Tgt : Live(t) /\ chan[t] = <<>> /\ inflight[t] = NoFlight
AllDelivered == (Quiet /\ faults = 0) =>
                  \A s \in Src : \A id \in received[s] : [s |-> s, id |-> id, t |-> route[s][id]] \in delivered
\* C03 safety: acknowledgements to a source never decrease (per incarnation) and never exceed its last high watermark
AckMonotone == "nonmono" \notin viol
AckBounded == "overhigh" \notin viol

Sym == Permutations(Tgt) \cup Permutations(Src)
=============================================================================
