SPECIFICATION TSpec
CONSTANTS
  Src = {s1}
  Tgt = {t1, t2}
  MaxId = 2
  MaxBatch = 2
  MaxWm = 0
  ChanCap = 2
  AckCap = 2
  MaxFaults = 0
  SrcFaults = FALSE
  LateTgt = {}
  SeedFix = TRUE
  N = 1
  MaxTicks = 4
  Slow = {}
INVARIANTS BoundedComplete NoEarlyAck AckMonotone AckBounded WellFormed
CHECK_DEADLOCK FALSE
