SPECIFICATION Spec
CONSTANTS
  Src = {s1}
  Tgt = {t1, t2, t3}
  MaxId = 2
  MaxBatch = 2
  MaxWm = 1
  ChanCap = 1
  AckCap = 1
  MaxFaults = 0
  SrcFaults = FALSE
  LateTgt = {}
  SeedFix = TRUE
SYMMETRY Sym
INVARIANTS NoEarlyAck WellFormed NoDup SourceOrder AllDelivered AckMonotone AckBounded
CHECK_DEADLOCK FALSE
