----------------------------- MODULE RoutingSim -----------------------------
(***************************************************************************)
(* Behaviour generator for the replay direction (spec -> code): Routing     *)
(* plus `hist`, the sequence of BOUNDARY actions (what the environment -    *)
(* source cluster, target cluster, network faults - does).  Internal proxy  *)
(* steps are taken eagerly (environment actions are enabled only when no    *)
(* internal step is): that is the normal form the real proxy realises when  *)
(* the harness gates only the fake streams.  Every behaviour with Depth     *)
(* boundary actions is printed as one JSON line; shorter maximal behaviours *)
(* are padded with "settle".                                                *)
(***************************************************************************)
EXTENDS Routing, Json
CONSTANT Depth
VARIABLE hist
svars == <<vars, hist>>
Cmd(r) == hist' = Append(hist, r)
More == Len(hist) < Depth + 1
Header == [c |-> "config", route |-> route]
SimInit == Init /\ hist = <<Header>>
EnvStep ==
  \/ \E s \in Src : \E k \in 1..MaxBatch : RecvTasks(s, k) /\ Cmd([c |-> "tasks", s |-> s, k |-> k])
  \/ \E s \in Src : RecvWm(s) /\ Cmd([c |-> "wm", s |-> s])
  \/ \E t \in Tgt : SenderSend(t) /\ Cmd([c |-> "send", t |-> t])
  \/ \E t \in Tgt : TgtAck(t) /\ Cmd([c |-> "ack", t |-> t])
  \/ \E t \in Tgt : \E i \in 1..MaxId : TgtDone(t, i) /\ Cmd([c |-> "done", t |-> t, i |-> i])
  \/ \E t \in Tgt : BreakTgt(t) /\ Cmd([c |-> "breaktgt", t |-> t])
  \/ \E t \in Tgt : ReopenTgt(t) /\ Cmd([c |-> "reopentgt", t |-> t])
  \/ \E s \in Src : BreakSrc(s) /\ Cmd([c |-> "breaksrc", s |-> s])
  \/ \E s \in Src : ReopenSrc(s) /\ Cmd([c |-> "reopensrc", s |-> s])
Pad == ~ENABLED (Env \/ Fault) /\ Cmd([c |-> "settle"]) /\ UNCHANGED vars
SimNext ==
  /\ More
  /\ \/ Internal /\ UNCHANGED hist
     \/ ~ENABLED Internal /\ (EnvStep \/ Pad)
  /\ (Len(hist') = Depth + 1 => PrintT(ToJson(hist')))
SimSpec == SimInit /\ [][SimNext]_svars
=============================================================================
