----------------------------- MODULE RoutingSim -----------------------------
(***************************************************************************)
(* Behaviour generator for the replay direction (spec -> code): Routing     *)
(* plus `hist`, the sequence of BOUNDARY actions (what the environment -    *)
(* source cluster, target cluster, network faults - does).  Internal proxy  *)
(* steps are taken eagerly (environment actions are enabled only when no    *)
(* internal step is): that is the normal form the real proxy realises when  *)
(* the harness gates only the fake streams.  Every behaviour with Depth     *)
(* boundary actions is printed as one JSON line; shorter maximal behaviours *)
(* are padded with "settle".                                                *)
(***************************************************************************)
EXTENDS Routing, Json
CONSTANTS Depth, MaxIdle,
          HoldAck,    \* TRUE: the harness can hold a source stream's receiver inside its Send of an acknowledgement (fake stream
                      \* gate): the ack has been computed and handed to the stream, further acks for that source queue up in its
                      \* ack channel behind it while senders and other receivers go on - "holdack" / "releaseack" boundary steps
          HoldClose   \* TRUE: the harness holds a broken sender between close(sendMsgChan) and its deregistration
                      \* (hook sender.run.afterClose), so SenderGone becomes a boundary step
VARIABLES hist, idles,
          ackHeld,   \* [Src -> "no" | "armed" (the next emitted ack blocks) | "blocked"]
          tags    \* rare branches of the design this behaviour has exercised (used to prioritise replay)
svars == <<vars, hist, idles, ackHeld, tags>>
Cmd(r) == hist' = Append(hist, r)
More == Len(hist) < Depth + 1
Header == [c |-> "config", route |-> route]
SimInit == Init /\ hist = <<Header>> /\ idles = 0 /\ tags = {} /\ ackHeld = [s \in Src |-> "no"]
HoldStep ==
  \/ \E s \in Src : HoldAck /\ ackHeld[s] = "no" /\ srcUp[s] = "up" /\ (\A u \in Src : ackHeld[u] = "no")
                    /\ ackHeld' = [ackHeld EXCEPT ![s] = "armed"] /\ Cmd([c |-> "holdack", s |-> s]) /\ UNCHANGED vars
  \/ \E s \in Src : ackHeld[s] = "blocked" /\ ackHeld' = [ackHeld EXCEPT ![s] = "no"] /\ Cmd([c |-> "releaseack", s |-> s]) /\ UNCHANGED vars
EnvStep ==
  \/ \E s \in Src : \E k \in 1..MaxBatch : RecvTasks(s, k) /\ Cmd([c |-> "tasks", s |-> s, k |-> k])
  \/ \E s \in Src : RecvWm(s) /\ Cmd([c |-> "wm", s |-> s])
  \/ \E t \in Tgt : SenderSend(t) /\ Cmd([c |-> "send", t |-> t])
  \/ \E t \in Tgt : TgtAck(t) /\ Cmd([c |-> "ack", t |-> t])
  \/ \E t \in Tgt : \E i \in 1..MaxId : TgtDone(t, i) /\ Cmd([c |-> "done", t |-> t, i |-> i])
  \/ \E t \in Tgt : BreakTgt(t) /\ Cmd([c |-> IF HoldClose THEN "holdtgt" ELSE "breaktgt", t |-> t])
  \/ \E t \in Tgt : HoldClose /\ up[t] = "closed" /\ SenderGone(t) /\ Cmd([c |-> "releasetgt", t |-> t])
  \/ \E t \in Tgt : ReopenTgt(t) /\ Cmd([c |-> "reopentgt", t |-> t])
  \/ \E s \in Src : BreakSrc(s) /\ Cmd([c |-> "breaksrc", s |-> s])
  \/ \E s \in Src : ReopenSrc(s) /\ Cmd([c |-> "reopensrc", s |-> s])
\* one second without traffic: every keep-alive timer that can fire does (they change nothing in a correct design)
Idle == /\ idles < MaxIdle /\ (\E t \in Tgt : Live(t) /\ lastSent[t] > 0) /\ idles' = idles + 1
        /\ Cmd([c |-> "idle"]) /\ UNCHANGED vars
Pad == ~ENABLED (Env \/ Fault) /\ Cmd([c |-> "settle"]) /\ UNCHANGED <<vars, idles>>
\* internal steps the proxy takes by itself (with HoldClose the deregistration of a closed sender is not one of them)
\* Aggregate of a source whose receiver is blocked in Send is not available; the Aggregate that emits while the hold is armed
\* is the one that blocks
AggMinOf(s) == LET m == Head(ackChan[s])
                   abt == [ackByTarget[s] EXCEPT ![m.tgt] = m.a]
               IN Min({abt[t] : t \in {u \in Tgt : abt[u] # Absent}})
AggOK(s) == ackHeld[s] # "blocked"
AggStep(s) == /\ AggOK(s) /\ Aggregate(s)
              \* (the branch of Aggregate that calls Send: the aggregated minimum is not below what was sent before)
              /\ ackHeld' = IF ackHeld[s] = "armed" /\ AggMinOf(s) >= lastSentMin[s]
                             THEN [ackHeld EXCEPT ![s] = "blocked"] ELSE ackHeld
AutoRest == IF HoldClose
            THEN \/ \E s \in Src, t \in Tgt : Deliver(s, t) \/ Bcast(s, t) \/ ForwardAck(t, s) \/ ReplayWm(t, s)
                 \/ \E t \in Tgt : SenderDequeue(t) \/ SenderRecvAck(t) \/ FinishAck(t) \/ SenderClose(t)
                 \/ \E s \in Src : SrcStop(s)
            ELSE \/ \E s \in Src, t \in Tgt : Deliver(s, t) \/ Bcast(s, t) \/ ForwardAck(t, s) \/ ReplayWm(t, s)
                 \/ \E t \in Tgt : SenderDequeue(t) \/ SenderRecvAck(t) \/ FinishAck(t) \/ SenderClose(t) \/ SenderGone(t)
                 \/ \E s \in Src : SrcStop(s)
Auto == (AutoRest /\ UNCHANGED ackHeld) \/ \E s \in Src : AggStep(s)
Aggregated(s) == ackChan[s] # <<>> /\ srcUp[s] = "up" /\ Len(ackChan'[s]) < Len(ackChan[s])
NewTags ==
  (IF \E s \in Src : Aggregated(s) /\ AggMinOf(s) < lastSentMin[s] THEN {"lowmin"} ELSE {})
  \cup (IF \E s \in Src : Aggregated(s) /\ lastAck[s] > 0 /\ ackByTarget[s][Head(ackChan[s]).tgt] = Absent THEN {"latefirstack"} ELSE {})
  \cup (IF \E s \in Src : Aggregated(s) /\ lastHigh[s] > 0 /\ AggMinOf(s) > lastHigh[s] THEN {"clamp"} ELSE {})
  \cup (IF \E t \in Tgt : spc[t] = "idle" /\ spc'[t] = "fwd" /\ fallback'[t] THEN {"fallback"} ELSE {})
  \cup (IF \E s \in Src, t \in Tgt : t \in bcastTo[s] /\ t \notin bcastTo'[s] /\ chan'[t] = chan[t] THEN {"wmdrop"} ELSE {})
  \cup (IF \E t \in Tgt : replayTo[t] # replayTo'[t] /\ chan'[t] # chan[t] THEN {"replay"} ELSE {})
  \* a keep-alive second while some target's recorded level lies below what the source was already told (the send guard
  \* suppressed it): a keep-alive must repeat the last ack, not recompute it
  \cup (IF idles' > idles /\ \E s \in Src : LET P == {ackByTarget[s][t] : t \in {u \in Tgt : ackByTarget[s][u] # Absent}}
                                           IN P # {} /\ lastAck[s] > 0 /\ Min(P) < lastAck[s]
        THEN {"idlelowmin"} ELSE {})
SimNext ==
  /\ More
  /\ \/ Auto /\ UNCHANGED <<hist, idles>>
     \/ ~ENABLED Auto /\ ((EnvStep /\ UNCHANGED <<idles, ackHeld>>) \/ (HoldStep /\ UNCHANGED idles) \/ (Idle /\ UNCHANGED ackHeld)
                         \/ (Pad /\ UNCHANGED ackHeld))
  /\ tags' = tags \cup NewTags
  /\ (Len(hist') = Depth + 1 => PrintT(ToJson(Append(hist', [c |-> "tags", tags |-> tags']))))
SimSpec == SimInit /\ [][SimNext]_svars
=============================================================================
