INIT SimInit
NEXT SimNext
CONSTANTS
  Src = {s1}
  Tgt = {t1, t2}
  MaxId = 2
  MaxBatch = 2
  MaxWm = 0
  ChanCap = 2
  AckCap = 1
  MaxFaults = 1
  SrcFaults = TRUE
  LateTgt = {}
  SeedFix = TRUE
  Depth = 7
  MaxIdle = 0
  HoldClose = FALSE
  HoldAck = FALSE
CHECK_DEADLOCK FALSE
