SPECIFICATION TraceSpec
CONSTANTS
  Src = {1, 2}
  Tgt = {1, 2, 3}
  MaxId = 400
  MaxBatch = 8
  MaxWm = 100000
  ChanCap = 100
  AckCap = 100
  MaxFaults = 100000
  SrcFaults = TRUE
  LateTgt = {}
  SeedFix = TRUE
  MaxSilent = 10
CONSTRAINT HighWater
POSTCONDITION Accepted
INVARIANT NotAccepted
ALIAS Brief
VIEW TView
CHECK_DEADLOCK FALSE
