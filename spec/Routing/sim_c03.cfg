INIT SimInit
NEXT SimNext
CONSTANTS
  Src = {s1}
  Tgt = {t1, t2}
  MaxId = 2
  MaxBatch = 1
  MaxWm = 2
  ChanCap = 2
  AckCap = 1
  MaxFaults = 0
  SrcFaults = FALSE
  LateTgt = {}
  SeedFix = TRUE
  Depth = 14
  MaxIdle = 0
  HoldClose = FALSE
  HoldAck = FALSE
CHECK_DEADLOCK FALSE
