----------------------------- MODULE RoutingObs -----------------------------
(***************************************************************************)
(* Observation monitor for C01-C04: evaluates the properties on what the    *)
(* REAL code did (trace.ndjson recorded by the Go harness at the fake       *)
(* streams, one line per linearization point).  Variables are history only; *)
(* every event is consumed; each violated clause is recorded in TLC         *)
(* register 1 as <<line, clause, source shard, task id>>.                   *)
(*                                                                          *)
(* Clauses                                                                  *)
(*  early      C01/C04  SrcAck(s,a) while a received id < a of s has not    *)
(*                      been acknowledged by the target stream it was       *)
(*                      forwarded on (ack w > its proxy id on that          *)
(*                      incarnation)                                        *)
(*  malformed  C02      pids not strictly increasing on a target stream, or *)
(*                      a task-bearing message whose high is not above its  *)
(*                      last pid and every earlier high                     *)
(*  dup / disorder / wrongowner / payload / undelivered   C02 (no faults)   *)
(*  nonmono / overhigh  C03 safety                                          *)
(*  incomplete          C03 liveness (bounded: at a Final event)            *)
(*  stuck               a stream handler did not return after its stream    *)
(*                      ended (harness supervisor)                          *)
(***************************************************************************)
EXTENDS Integers, Sequences, FiniteSets, TLC, Json

Trace == ndJsonDeserialize("trace.ndjson")
ASSUME TLCSet(1, {})

VARIABLES l,
  nfaults,    \* stream breaks so far in this run
  recvd,      \* set of <<s, id>> the proxy has read from the source (any incarnation)
  hiSeen,     \* s -> last exclusive high watermark read on the current source incarnation (0: none)
  assigned,   \* set of [t, inc, pid, s, id]: task seen by target stream (t, inc) under proxy id pid
  conf,       \* set of <<s, id>> acknowledged by the target stream they were forwarded on
  accepted,   \* set of [s, id, t] accepted by the target cluster's tracker
  strm,       \* <<t, inc>> -> [lastPid, maxHigh] of what that target stream has been sent
  lastAck,    \* s -> last ack on the current source incarnation (-1: none)
  finalHigh   \* s -> last high the source emitted (for the completeness clause)
vars == <<l, nfaults, recvd, hiSeen, assigned, conf, accepted, strm, lastAck, finalHigh>>

Flag(c, s, id) == TLCSet(1, TLCGet(1) \cup {<<l, c, s, id>>})
FlagAll(S) == IF S = {} THEN TRUE ELSE TLCSet(1, TLCGet(1) \cup S)
Get(f, k, d) == IF k \in DOMAIN f THEN f[k] ELSE d
Put(f, k, v) == [x \in DOMAIN f \cup {k} |-> IF x = k THEN v ELSE f[x]]
SeqSet(q) == {q[i] : i \in 1..Len(q)}

Init == /\ l = 1 /\ nfaults = 0 /\ recvd = {} /\ hiSeen = <<>> /\ assigned = {} /\ conf = {}
        /\ accepted = {} /\ strm = <<>> /\ lastAck = <<>> /\ finalHigh = <<>>

Reset == /\ nfaults' = 0 /\ recvd' = {} /\ hiSeen' = <<>> /\ assigned' = {} /\ conf' = {}
         /\ accepted' = {} /\ strm' = <<>> /\ lastAck' = <<>> /\ finalHigh' = <<>>

OnSrcBatch(e) ==
  /\ recvd' = recvd \cup {<<e.s, e.ids[i]>> : i \in 1..Len(e.ids)}
  /\ hiSeen' = Put(hiSeen, e.s, e.high)
  /\ finalHigh' = Put(finalHigh, e.s, e.high)
  /\ UNCHANGED <<nfaults, assigned, conf, accepted, strm, lastAck>>

OnTgtMsg(e) ==
  LET key == <<e.t, e.inc>>
      st == Get(strm, key, [lastPid |-> 0, maxHigh |-> 0])
      n == Len(e.pids)
      incr == \A i \in 1..n : e.pids[i] > (IF i = 1 THEN st.lastPid ELSE e.pids[i - 1])
      highOk == n = 0 \/ (e.high > e.pids[n] /\ e.high > st.maxHigh)
      new == {[s |-> e.tasks[i].s, id |-> e.tasks[i].id, t |-> e.t] : i \in 1..Len(e.tasks)}
      bads ==
        (IF ~incr \/ ~highOk \/ e.panic \/ e.dropped > 0 THEN {<<l, "malformed", 0, 0>>} ELSE {})
        \cup (IF ~e.payload_ok THEN {<<l, "payload", 0, 0>>} ELSE {})
        \cup {<<l, "wrongowner", e.tasks[i].s, e.tasks[i].id>> : i \in {j \in 1..Len(e.tasks) : e.tasks[j].owner # e.t}}
        \cup (IF nfaults = 0 THEN {<<l, "dup", d.s, d.id>> : d \in {x \in new : \E y \in accepted : y.s = x.s /\ y.id = x.id}} ELSE {})
        \cup (IF nfaults = 0 THEN {<<l, "disorder", d.s, d.id>> :
                 d \in {x \in new : \E y \in accepted : y.s = x.s /\ y.t = x.t /\ y.id >= x.id}} ELSE {})
  IN /\ FlagAll(bads)
     /\ assigned' = assigned \cup {[t |-> e.t, inc |-> e.inc, pid |-> e.tasks[i].pid, s |-> e.tasks[i].s, id |-> e.tasks[i].id] :
                                     i \in 1..Len(e.tasks)}
     /\ accepted' = IF e.accepted THEN accepted \cup new ELSE accepted
     /\ strm' = Put(strm, key, [lastPid |-> IF n > 0 THEN e.pids[n] ELSE st.lastPid,
                                maxHigh |-> IF e.high > st.maxHigh THEN e.high ELSE st.maxHigh])
     /\ UNCHANGED <<nfaults, recvd, hiSeen, conf, lastAck, finalHigh>>

OnTgtAck(e) ==
  /\ conf' = conf \cup {<<x.s, x.id>> : x \in {y \in assigned : y.t = e.t /\ y.inc = e.inc /\ y.pid < e.w}}
  /\ UNCHANGED <<nfaults, recvd, hiSeen, assigned, accepted, strm, lastAck, finalHigh>>

OnSrcAck(e) ==
  LET early == {p \in recvd : p[1] = e.s /\ p[2] < e.a /\ p \notin conf}
      prev == Get(lastAck, e.s, -1)
      hi == Get(hiSeen, e.s, 0)
      bads == {<<l, "early", p[1], p[2]>> : p \in early}
              \cup (IF e.a < prev THEN {<<l, "nonmono", e.s, e.a>>} ELSE {})
              \cup (IF e.a > hi THEN {<<l, "overhigh", e.s, e.a>>} ELSE {})
  IN /\ FlagAll(bads)
     /\ lastAck' = Put(lastAck, e.s, e.a)
     /\ UNCHANGED <<nfaults, recvd, hiSeen, assigned, conf, accepted, strm, finalHigh>>

\* quiescence reached with every message accepted and no fault: every received task is at its owner
OnQuiet(e) ==
  /\ IF e.ok /\ nfaults = 0 /\ Len(e.waiting) = 0
       THEN FlagAll({<<l, "undelivered", p[1], p[2]>> : p \in {q \in recvd : ~\E y \in accepted : y.s = q[1] /\ y.id = q[2]}})
       ELSE TRUE
  /\ UNCHANGED <<nfaults, recvd, hiSeen, assigned, conf, accepted, strm, lastAck, finalHigh>>

\* end of a tick phase (C03): every source must have been acknowledged its final high watermark
OnFinal(e) ==
  /\ FlagAll({<<l, "incomplete", s, Get(lastAck, s, -1)>> : s \in {x \in DOMAIN finalHigh : Get(lastAck, x, -1) # finalHigh[x]}})
  /\ UNCHANGED <<nfaults, recvd, hiSeen, assigned, conf, accepted, strm, lastAck, finalHigh>>

OnFault(e) ==
  /\ nfaults' = nfaults + 1
  /\ hiSeen' = IF e.ev = "SrcClose" THEN Put(hiSeen, e.s, 0) ELSE hiSeen
  /\ lastAck' = IF e.ev = "SrcClose" THEN Put(lastAck, e.s, -1) ELSE lastAck
  /\ UNCHANGED <<recvd, assigned, conf, accepted, strm, finalHigh>>

Next ==
  /\ l <= Len(Trace) /\ l' = l + 1
  /\ LET e == Trace[l] IN
     CASE e.ev = "Config"   -> Reset
       [] e.ev = "SrcBatch" -> OnSrcBatch(e)
       [] e.ev = "TgtMsg"   -> OnTgtMsg(e)
       [] e.ev = "TgtAck"   -> OnTgtAck(e)
       [] e.ev = "SrcAck"   -> OnSrcAck(e)
       [] e.ev = "Quiet"    -> OnQuiet(e)
       [] e.ev = "Final"    -> OnFinal(e)
       [] e.ev \in {"TgtClose", "SrcClose", "TgtReplace"} -> OnFault(e)      \* a replaced incarnation loses what it had in flight
       \* the receiver of source e.s stopped reading its stream although every target kept taking what it was offered: the source
       \* can never be acknowledged its final high watermark
       [] e.ev = "Stalled"  -> Flag("incomplete", e.s, -2) /\ UNCHANGED <<nfaults, recvd, hiSeen, assigned, conf, accepted, strm, lastAck, finalHigh>>
       [] e.ev = "Stuck"    -> Flag("stuck", 0, 0) /\ UNCHANGED <<nfaults, recvd, hiSeen, assigned, conf, accepted, strm, lastAck, finalHigh>>
       [] e.ev = "End"      -> (IF e.clean THEN TRUE ELSE Flag("stuck", 0, 0))
                               /\ UNCHANGED <<nfaults, recvd, hiSeen, assigned, conf, accepted, strm, lastAck, finalHigh>>
       [] OTHER -> UNCHANGED <<nfaults, recvd, hiSeen, assigned, conf, accepted, strm, lastAck, finalHigh>>
Spec == Init /\ [][Next]_vars
Report == PrintT(<<"OBS_VIOLATIONS", TLCGet(1)>>) /\ PrintT(<<"OBS_TRACE_LEN", Len(Trace)>>)
=============================================================================
