INIT SimInit
NEXT SimNext
CONSTANTS
  Src = {s1}
  Tgt = {t1, t2}
  MaxId = 3
  MaxBatch = 2
  MaxWm = 1
  ChanCap = 2
  AckCap = 1
  MaxFaults = 0
  SrcFaults = FALSE
  LateTgt = {}
  SeedFix = TRUE
  Depth = 9
  MaxIdle = 1
  HoldClose = FALSE
  HoldAck = FALSE
CHECK_DEADLOCK FALSE
