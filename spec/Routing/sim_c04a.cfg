INIT SimInit
NEXT SimNext
CONSTANTS
  Src = {s1, s2}
  Tgt = {t1}
  MaxId = 2
  MaxBatch = 1
  MaxWm = 0
  ChanCap = 4
  AckCap = 2
  MaxFaults = 1
  SrcFaults = TRUE
  LateTgt = {}
  SeedFix = TRUE
  Depth = 16
  MaxIdle = 0
  HoldClose = FALSE
  HoldAck = TRUE
CHECK_DEADLOCK FALSE
