INIT SimInit
NEXT SimNext
CONSTANTS
  N = 1
  MaxConn = 4
  MaxDialFail = 1
  MaxKill = 2
  FixSessErr = FALSE
  FixRet = FALSE
  FixAdd = FALSE
  Depth = 20
  Loop = FALSE
  AddGate = TRUE
  MaxHeal = 1
  Est = FALSE
  Rcv = FALSE
  MaxSilent = 0
CHECK_DEADLOCK FALSE
