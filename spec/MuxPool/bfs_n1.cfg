INIT SimInit
NEXT SimNext
CONSTANTS
  N = 1
  MaxConn = 2
  MaxDialFail = 1
  MaxKill = 1
  FixSessErr = FALSE
  FixRet = FALSE
  FixAdd = FALSE
  Depth = 14
  Loop = FALSE
  AddGate = TRUE
  MaxHeal = 1
  Est = FALSE
  Rcv = FALSE
  MaxSilent = 0
CHECK_DEADLOCK FALSE
