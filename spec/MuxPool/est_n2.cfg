INIT SimInit
NEXT SimNext
CONSTANTS
  N = 2
  MaxConn = 4
  MaxDialFail = 0
  MaxKill = 2
  FixSessErr = FALSE
  FixRet = FALSE
  FixAdd = FALSE
  Depth = 9
  Loop = FALSE
  AddGate = FALSE
  MaxHeal = 1
  Est = TRUE
  Rcv = FALSE
  MaxSilent = 0
CHECK_DEADLOCK FALSE
