INIT SimInit
NEXT SimNext
CONSTANTS
  N = 3
  MaxConn = 7
  MaxDialFail = 2
  MaxKill = 3
  FixSessErr = FALSE
  FixRet = FALSE
  FixAdd = FALSE
  Depth = 33
  Loop = FALSE
  AddGate = TRUE
CHECK_DEADLOCK FALSE
