INIT SimInit
NEXT SimNext
CONSTANTS
  N = 3
  MaxConn = 7
  MaxDialFail = 2
  MaxKill = 3
  FixSessErr = FALSE
  FixRet = FALSE
  FixAdd = FALSE
  Depth = 26
  Loop = FALSE
CHECK_DEADLOCK FALSE
