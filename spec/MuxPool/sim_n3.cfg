INIT SimInit
NEXT SimNext
CONSTANTS
  N = 3
  MaxConn = 10
  MaxDialFail = 2
  MaxKill = 3
  FixSessErr = FALSE
  FixRet = FALSE
  FixAdd = FALSE
  Depth = 36
  Loop = FALSE
  AddGate = TRUE
  MaxHeal = 3
  Est = FALSE
  Rcv = FALSE
  MaxSilent = 0
CHECK_DEADLOCK FALSE
