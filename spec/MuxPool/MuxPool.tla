------------------------------- MODULE MuxPool -------------------------------
(***************************************************************************)
(* C10: the mux session pool - transport/mux/provider.go (muxProvider.Start *)
(* loop), multi_mux_manager.go (AddConnection / unregisterMux / onClose),   *)
(* session/managed_mux_session.go (waitAndCleanup).                         *)
(*                                                                          *)
(* One action per critical section / decision of the code:                  *)
(*   PAcquire    provider.go:Start  muxPermits.Acquire(lifetime, 1)          *)
(*   DialOk/DialFail   provider.go:Start  connProvider.NewConnection()       *)
(*                     (environment: establisher.go / receiver.go)           *)
(*   SessOk/SessErr    provider.go:Start  sessionFn(conn)                    *)
(*   PingOk/PingFail(kind)  provider.go:Start  session.Ping()                *)
(*        kind = timeout : yamux.ErrConnectionWriteTimeout (peer silent) -   *)
(*                         the yamux session is still open afterwards        *)
(*        kind = eof     : peer hung up   \  yamux shut the session down by  *)
(*        kind = other   : protocol error /  itself and closed the conn      *)
(*   PAdd        multi_mux_manager.go:AddConnection (under muxesLock)        *)
(*   PStopped    provider.go:Start  deferred cleanup (hasCleanedUp)          *)
(*   PeerClose(c)   the remote end closes its yamux session                  *)
(*   LocalClose(c)  ManagedMuxSession.Close() by a user of the table         *)
(*   SDie(c)     managed_mux_session.go:waitAndCleanup wakes up (session     *)
(*               closed or lifetime done), closes session and conn           *)
(*   SUnreg(c)   multi_mux_manager.go:unregisterMux (under muxesLock)        *)
(*   SRelease(c) muxProvider.AllowMoreConns(1) (afterShutdown callback)      *)
(*   Cancel      the lifetime context ends                                   *)
(*   MClose      multi_mux_manager.go:onClose after WaitForClose: closes the *)
(*               registered sessions, signals hasShutDown                    *)
(*                                                                          *)
(* The code is modelled as it is.  Repair switches (TRUE = repaired tree,   *)
(* proposed/C10-leaks.diff):                                                *)
(*   FixSessErr  sessionFn error while running closes the conn               *)
(*   FixRet      the `return`s on lifetime.Err() != nil after a sessionFn /  *)
(*               Ping failure close the attempt's session and conn           *)
(*   FixAdd      AddConnection's early return (lifetime ended) closes the    *)
(*               session and conn it was handed                              *)
(***************************************************************************)
EXTENDS Integers, FiniteSets, TLC

CONSTANTS N,            \* pool size (muxCount)
          MaxConn,      \* successful dials in a behaviour
          MaxDialFail,  \* failed dials while running
          MaxKill,      \* PeerClose / LocalClose
          FixSessErr, FixRet, FixAdd

Conn == 1..MaxConn
Kinds == {"timeout", "eof", "other"}

VARIABLES
  permits,    \* free permits of muxProvider.muxPermits
  ppc,        \* location of the provider loop: acq | conn | sess | ping | add | stopped
  held,       \* conn of the attempt in flight (0 = none)
  running,    \* lifetime.Err() = nil
  table,      \* multiMuxManager.muxes (keys identified with the conn)
  sess,       \* c -> none | live | closing | unreg | gone   (managed session of conn c)
  connOpen,   \* c -> the net.Conn handed out by NewConnection has not been closed
  closeReq,   \* c -> ManagedMuxSession.Close() was called
  nextId, provDone, mgrDone, nfail, nkill
vars == <<permits, ppc, held, running, table, sess, connOpen, closeReq, nextId, provDone, mgrDone, nfail, nkill>>

Init == /\ permits = N /\ ppc = "acq" /\ held = 0 /\ running = TRUE /\ table = {}
        /\ sess = [c \in Conn |-> "none"] /\ connOpen = [c \in Conn |-> FALSE]
        /\ closeReq = [c \in Conn |-> FALSE] /\ nextId = 0 /\ provDone = FALSE /\ mgrDone = FALSE
        /\ nfail = 0 /\ nkill = 0

(* ---------------- muxProvider.Start loop --------------------------------- *)
\* Acquire(ctx): fails when ctx is done (x/sync v0.20: even if a permit is free), else blocks for a permit
PAcquire == /\ ppc = "acq"
            /\ IF ~running THEN ppc' = "stopped" /\ UNCHANGED permits
               ELSE permits > 0 /\ permits' = permits - 1 /\ ppc' = "conn"
            /\ UNCHANGED <<held, running, table, sess, connOpen, closeReq, nextId, provDone, mgrDone, nfail, nkill>>

DialOk == /\ ppc = "conn" /\ nextId < MaxConn
          /\ nextId' = nextId + 1 /\ held' = nextId + 1 /\ connOpen' = [connOpen EXCEPT ![nextId + 1] = TRUE]
          /\ ppc' = "sess"
          /\ UNCHANGED <<permits, running, table, sess, closeReq, provDone, mgrDone, nfail, nkill>>

DialFail == /\ ppc = "conn"
            /\ IF ~running THEN ppc' = "stopped" /\ UNCHANGED <<permits, nfail>>      \* lifetime.Err() != nil: return
               ELSE nfail < MaxDialFail /\ nfail' = nfail + 1 /\ ppc' = "acq" /\ permits' = permits + 1
            /\ UNCHANGED <<held, running, table, sess, connOpen, closeReq, nextId, provDone, mgrDone, nkill>>

SessOk == /\ ppc = "sess" /\ ppc' = "ping"
          /\ UNCHANGED <<permits, held, running, table, sess, connOpen, closeReq, nextId, provDone, mgrDone, nfail, nkill>>

\* sessionFn error: the permit is released (running) but the conn is not closed on either branch (pinned tree)
SessErr == /\ ppc = "sess"
           /\ IF ~running THEN /\ ppc' = "stopped" /\ UNCHANGED permits
                               /\ connOpen' = [connOpen EXCEPT ![held] = IF FixRet THEN FALSE ELSE @]
              ELSE /\ ppc' = "acq" /\ permits' = permits + 1
                   /\ connOpen' = [connOpen EXCEPT ![held] = IF FixSessErr THEN FALSE ELSE @]
           /\ held' = 0
           /\ UNCHANGED <<running, table, sess, closeReq, nextId, provDone, mgrDone, nfail, nkill>>

PingOk == /\ ppc = "ping" /\ ppc' = "add"
          /\ UNCHANGED <<permits, held, running, table, sess, connOpen, closeReq, nextId, provDone, mgrDone, nfail, nkill>>

PingFail(kind) ==
  /\ ppc = "ping"
  /\ IF ~running THEN /\ ppc' = "stopped" /\ UNCHANGED permits               \* return without closing (pinned tree)
                      /\ connOpen' = [connOpen EXCEPT ![held] = IF kind # "timeout" \/ FixRet THEN FALSE ELSE @]
     ELSE /\ ppc' = "acq" /\ permits' = permits + 1                           \* session.Close, conn.Close, Release
          /\ connOpen' = [connOpen EXCEPT ![held] = FALSE]
  /\ held' = 0
  /\ UNCHANGED <<running, table, sess, closeReq, nextId, provDone, mgrDone, nfail, nkill>>

\* AddConnection: `if m.lifetime.Err() != nil { return }` - nothing registered, nothing closed (pinned tree)
PAdd == /\ ppc = "add"
        /\ IF ~running THEN /\ UNCHANGED <<table, sess>>
                            /\ connOpen' = [connOpen EXCEPT ![held] = IF FixAdd THEN FALSE ELSE @]
           ELSE /\ table' = table \cup {held} /\ sess' = [sess EXCEPT ![held] = "live"] /\ UNCHANGED connOpen
        /\ ppc' = "acq" /\ held' = 0
        /\ UNCHANGED <<permits, running, closeReq, nextId, provDone, mgrDone, nfail, nkill>>

PStopped == /\ ppc = "stopped" /\ ~provDone /\ provDone' = TRUE
            /\ UNCHANGED <<permits, ppc, held, running, table, sess, connOpen, closeReq, nextId, mgrDone, nfail, nkill>>

(* ---------------- sessions ------------------------------------------------ *)
\* the peer hangs up: the local yamux session reads EOF, shuts down and closes the conn
PeerClose(c) == /\ connOpen[c] /\ nkill < MaxKill
                /\ (sess[c] = "live" \/ (held = c /\ ppc = "add"))
                /\ connOpen' = [connOpen EXCEPT ![c] = FALSE] /\ nkill' = nkill + 1
                /\ UNCHANGED <<permits, ppc, held, running, table, sess, closeReq, nextId, provDone, mgrDone, nfail>>
LocalClose(c) == /\ sess[c] = "live" /\ ~closeReq[c] /\ nkill < MaxKill
                 /\ closeReq' = [closeReq EXCEPT ![c] = TRUE] /\ nkill' = nkill + 1
                 /\ UNCHANGED <<permits, ppc, held, running, table, sess, connOpen, nextId, provDone, mgrDone, nfail>>
SDie(c) == /\ sess[c] = "live" /\ (~connOpen[c] \/ closeReq[c] \/ ~running)
           /\ sess' = [sess EXCEPT ![c] = "closing"] /\ connOpen' = [connOpen EXCEPT ![c] = FALSE]
           /\ UNCHANGED <<permits, ppc, held, running, table, closeReq, nextId, provDone, mgrDone, nfail, nkill>>
SUnreg(c) == /\ sess[c] = "closing" /\ sess' = [sess EXCEPT ![c] = "unreg"] /\ table' = table \ {c}
             /\ UNCHANGED <<permits, ppc, held, running, connOpen, closeReq, nextId, provDone, mgrDone, nfail, nkill>>
SRelease(c) == /\ sess[c] = "unreg" /\ sess' = [sess EXCEPT ![c] = "gone"] /\ permits' = permits + 1
               /\ UNCHANGED <<ppc, held, running, table, connOpen, closeReq, nextId, provDone, mgrDone, nfail, nkill>>

Cancel == /\ running /\ running' = FALSE
          /\ UNCHANGED <<permits, ppc, held, table, sess, connOpen, closeReq, nextId, provDone, mgrDone, nfail, nkill>>
MClose == /\ provDone /\ ~mgrDone /\ mgrDone' = TRUE
          /\ closeReq' = [c \in Conn |-> closeReq[c] \/ c \in table]
          /\ UNCHANGED <<permits, ppc, held, running, table, sess, connOpen, nextId, provDone, nfail, nkill>>

InternalButAdd == PAcquire \/ PStopped \/ MClose \/ \E c \in Conn : SDie(c) \/ SUnreg(c) \/ SRelease(c)
Internal == InternalButAdd \/ PAdd
Env == DialOk \/ DialFail \/ SessOk \/ SessErr \/ PingOk \/ (\E k \in Kinds : PingFail(k)) \/ Cancel
       \/ \E c \in Conn : PeerClose(c) \/ LocalClose(c)
Next == Internal \/ Env
Spec == Init /\ [][Next]_vars

(* ---------------- properties ---------------------------------------------- *)
Live == {c \in Conn : sess[c] = "live"}
Attempt == IF ppc \in {"conn", "sess", "ping", "add"} THEN 1 ELSE 0
TypeOK == permits \in 0..N /\ held \in 0..MaxConn /\ table \subseteq Conn
LiveBound == Cardinality(Live) <= N /\ Cardinality(table) <= N
Conservation == running => permits + Attempt + Cardinality({c \in Conn : sess[c] \in {"live", "closing", "unreg"}}) = N
TableLive == table = {c \in Conn : sess[c] \in {"live", "closing"}}
Quiet == ~running /\ provDone /\ mgrDone /\ \A c \in Conn : sess[c] \in {"none", "gone"}
CleanShutdown == Quiet => (table = {} /\ \A c \in Conn : ~connOpen[c])
NoLeakWhileRunning == running => \A c \in Conn : connOpen[c] => (c = held \/ sess[c] = "live")
\* shutdown completes: once the context is cancelled and nothing internal is left to do, the provider is either
\* parked in an environment call or everything is down
ShutdownCompletes == (~running /\ ~ENABLED Internal /\ ppc \notin {"conn", "sess", "ping"}) => Quiet
\* no starvation: a running provider that waits for a permit has a full pool or a session on its way out
NoStarvation == (running /\ ppc = "acq" /\ ~ENABLED Internal) => Cardinality(Live) = N
=============================================================================
