INIT SimInit
NEXT SimNext
CONSTANTS
  N = 1
  MaxConn = 3
  MaxDialFail = 0
  MaxKill = 1
  FixSessErr = FALSE
  FixRet = FALSE
  FixAdd = FALSE
  Depth = 5
  Loop = FALSE
  AddGate = FALSE
  MaxHeal = 1
  Est = FALSE
  Rcv = TRUE
  MaxSilent = 1
CHECK_DEADLOCK FALSE
