----------------------------- MODULE MuxPoolSim -----------------------------
(* Behaviour generator for the replay harness: MuxPool in EAGER NORMAL FORM   *)
(* (the proxy's internal steps run as soon as they are enabled - the harness  *)
(* has gates only where the code calls into the environment), plus the        *)
(* history of environment commands.  `Heal` switches the environment to       *)
(* benign answers (dial ok, session ok, ping ok - not recorded, the harness   *)
(* plays them itself) until the provider waits for a permit again; the        *)
(* harness reports what the pool looked like then.  Every behaviour is padded *)
(* to Depth commands and printed as one JSON line.                            *)
EXTENDS MuxPool, Sequences, Json
CONSTANTS Depth,
          MaxHeal, \* how often the environment may turn benign until the pool is full again (Heal): a kill followed by a Heal is
                   \* "an older session dies while newer ones live and the slot is refilled"
          AddGate, \* TRUE: the hand-over to the manager (PAdd) is an environment command "Add": the harness parks the provider
                   \* at the hook point mux.provider.beforeAdd (provider.go, build tag verif), so that PeerClose of the
                   \* attempt's session, kills of other sessions and Cancel are scheduled BETWEEN the successful Ping and
                   \* AddConnection. FALSE: PAdd runs eagerly like every other internal step.
          Est,    \* TRUE: schedules for the REAL establishingConnProvider (establisher.go) under a real provider + manager, dialing a
                  \* listener of the harness whose sessions answer pings: the only gate sits INSIDE the dial (the
                  \* provider's tlsWrapper, right after the TCP connect), so the commands are DialOk (the dial in flight
                  \* completes - also after Cancel), session kills and Cancel; session setup, ping and add run by themselves
          Rcv,    \* TRUE: schedules for the REAL receiver provider (NewMuxReceiverProvider, TLS on): inbound peers are commands -
                  \* Good (TLS + yamux client: session setup, ping and add succeed by themselves) and Silent (connects and
                  \* never sends a byte: its attempt ends with the ping's write timeout) - plus session kills and Cancel
          MaxSilent,
          Loop    \* TRUE: schedules for two REAL pools connected over loopback (establisher <-> receiver): the peer is always
                  \* reachable and well-behaved (dial / session / ping succeed at once, unrecorded), a dial parked when the
                  \* context ends fails (what establisher.go / receiver.go do); only session kills and Cancel are commands
VARIABLES hist, healing, healed, silent, silents
sv == <<hist, healing, healed, silent, silents>>
Cmd(r) == hist' = Append(hist, r)
SimInit == Init /\ hist = <<>> /\ healing = FALSE /\ healed = 0 /\ silent = FALSE /\ silents = 0
Benign == DialOk \/ SessOk \/ PingOk \/ (AddGate /\ PAdd)
Eager == IF AddGate THEN InternalButAdd ELSE Internal
EnvBase ==
  \/ (Rcv /\ running /\ DialOk /\ Cmd([a |-> "Good", c |-> nextId + 1]))
  \/ (~Loop /\ ~Rcv /\ DialOk /\ Cmd([a |-> "DialOk", c |-> nextId + 1]))
  \/ (~Loop /\ ~Est /\ ~Rcv /\ DialFail /\ Cmd([a |-> "DialFail", c |-> 0]))
  \/ (~Loop /\ ~Est /\ ~Rcv /\ SessOk /\ Cmd([a |-> "SessOk", c |-> held]))
  \/ (~Loop /\ ~Est /\ ~Rcv /\ SessErr /\ Cmd([a |-> "SessErr", c |-> held]))
  \/ (~Loop /\ ~Est /\ ~Rcv /\ PingOk /\ Cmd([a |-> "PingOk", c |-> held]))
  \/ (AddGate /\ PAdd /\ Cmd([a |-> "Add", c |-> held]))
  \/ (~Loop /\ ~Est /\ ~Rcv /\ \E k \in Kinds : PingFail(k) /\ Cmd([a |-> "PingFail", c |-> held, kind |-> k]))
  \/ (\E c \in Conn : PeerClose(c) /\ Cmd([a |-> "PeerClose", c |-> c]))
  \/ (\E c \in Conn : LocalClose(c) /\ Cmd([a |-> "LocalClose", c |-> c]))
  \/ (Cancel /\ Cmd([a |-> "Cancel", c |-> 0]))
EnvStep == (EnvBase /\ UNCHANGED <<silent, silents>>)
           \/ (Rcv /\ running /\ silents < MaxSilent /\ DialOk /\ silent' = TRUE /\ silents' = silents + 1
               /\ Cmd([a |-> "Silent", c |-> nextId + 1]))
HealStart == /\ ~Loop /\ ~Est /\ ~Rcv /\ running /\ ~healing /\ healed < MaxHeal /\ ppc \in {"conn", "acq"} /\ nextId + N <= MaxConn
             /\ (IF Len(hist) = 0 THEN TRUE ELSE hist[Len(hist)].a # "Heal")
             /\ healing' = TRUE /\ healed' = healed + 1 /\ Cmd([a |-> "Heal", c |-> 0]) /\ UNCHANGED vars
Pad == ~ENABLED EnvStep /\ ~ENABLED HealStart /\ Cmd([a |-> "Pad", c |-> 0]) /\ UNCHANGED <<vars, healing, healed, silent, silents>>
SimNext ==
  /\ Len(hist) < Depth
  /\ IF ENABLED Eager THEN Eager /\ UNCHANGED sv
     ELSE IF Est /\ ENABLED (SessOk \/ PingOk) THEN (SessOk \/ PingOk) /\ UNCHANGED sv
     ELSE IF Rcv /\ ppc = "ping" /\ silent THEN PingFail("timeout") /\ silent' = FALSE /\ UNCHANGED <<hist, healing, healed, silents>>
     ELSE IF Rcv /\ ENABLED (SessOk \/ PingOk) THEN (SessOk \/ PingOk) /\ UNCHANGED sv
     ELSE IF Rcv /\ ~running /\ ppc = "conn" THEN DialFail /\ UNCHANGED sv
     ELSE IF Loop /\ running /\ ENABLED Benign THEN Benign /\ UNCHANGED sv
     ELSE IF Loop /\ ~running /\ ppc = "conn" THEN DialFail /\ UNCHANGED sv
     ELSE IF healing THEN (IF ENABLED Benign THEN Benign /\ UNCHANGED sv
                           ELSE healing' = FALSE /\ UNCHANGED <<vars, hist, healed, silent, silents>>)
     ELSE (EnvStep /\ UNCHANGED <<healing, healed>>) \/ (HealStart /\ UNCHANGED <<silent, silents>>) \/ Pad
  /\ (Len(hist') = Depth /\ Len(hist) < Depth => PrintT(ToJson(hist')))
=============================================================================
