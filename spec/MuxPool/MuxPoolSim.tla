----------------------------- MODULE MuxPoolSim -----------------------------
(* Behaviour generator for the replay harness: MuxPool in EAGER NORMAL FORM   *)
(* (the proxy's internal steps run as soon as they are enabled - the harness  *)
(* has gates only where the code calls into the environment), plus the        *)
(* history of environment commands.  `Heal` switches the environment to       *)
(* benign answers (dial ok, session ok, ping ok - not recorded, the harness   *)
(* plays them itself) until the provider waits for a permit again; the        *)
(* harness reports what the pool looked like then.  Every behaviour is padded *)
(* to Depth commands and printed as one JSON line.                            *)
EXTENDS MuxPool, Sequences, Json
CONSTANT Depth
VARIABLES hist, healing, healed
sv == <<hist, healing, healed>>
Cmd(r) == hist' = Append(hist, r)
SimInit == Init /\ hist = <<>> /\ healing = FALSE /\ healed = FALSE
Benign == DialOk \/ SessOk \/ PingOk
EnvStep ==
  \/ (DialOk /\ Cmd([a |-> "DialOk", c |-> nextId + 1]))
  \/ (DialFail /\ Cmd([a |-> "DialFail", c |-> 0]))
  \/ (SessOk /\ Cmd([a |-> "SessOk", c |-> held]))
  \/ (SessErr /\ Cmd([a |-> "SessErr", c |-> held]))
  \/ (PingOk /\ Cmd([a |-> "PingOk", c |-> held]))
  \/ (\E k \in Kinds : PingFail(k) /\ Cmd([a |-> "PingFail", c |-> held, kind |-> k]))
  \/ (\E c \in Conn : PeerClose(c) /\ Cmd([a |-> "PeerClose", c |-> c]))
  \/ (\E c \in Conn : LocalClose(c) /\ Cmd([a |-> "LocalClose", c |-> c]))
  \/ (Cancel /\ Cmd([a |-> "Cancel", c |-> 0]))
HealStart == /\ running /\ ~healing /\ ~healed /\ ppc \in {"conn", "acq"} /\ nextId + N <= MaxConn
             /\ healing' = TRUE /\ healed' = TRUE /\ Cmd([a |-> "Heal", c |-> 0]) /\ UNCHANGED vars
Pad == ~ENABLED Env /\ ~ENABLED HealStart /\ Cmd([a |-> "Pad", c |-> 0]) /\ UNCHANGED <<vars, healing, healed>>
SimNext ==
  /\ Len(hist) < Depth
  /\ IF ENABLED Internal THEN Internal /\ UNCHANGED sv
     ELSE IF healing THEN (IF ENABLED Benign THEN Benign /\ UNCHANGED sv
                           ELSE healing' = FALSE /\ UNCHANGED <<vars, hist, healed>>)
     ELSE (EnvStep /\ UNCHANGED <<healing, healed>>) \/ HealStart \/ Pad
  /\ (Len(hist') = Depth /\ Len(hist) < Depth => PrintT(ToJson(hist')))
=============================================================================
