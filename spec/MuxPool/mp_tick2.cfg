SPECIFICATION TSpec
CONSTANTS
  N = 2
  MaxConn = 5
  MaxDialFail = 1
  MaxKill = 2
  FixSessErr = FALSE
  FixRet = FALSE
  FixAdd = FALSE
INVARIANTS HealBound Conservation LiveBound
CHECK_DEADLOCK FALSE
