INIT SimInit
NEXT SimNext
CONSTANTS
  N = 1
  MaxConn = 2
  MaxDialFail = 1
  MaxKill = 1
  FixSessErr = FALSE
  FixRet = FALSE
  FixAdd = FALSE
  Depth = 12
  Loop = FALSE
  AddGate = FALSE
  MaxHeal = 1
  Est = FALSE
  Rcv = FALSE
  MaxSilent = 0
CHECK_DEADLOCK FALSE
