SPECIFICATION Spec
CONSTANTS
  N = 2
  MaxConn = 4
  MaxDialFail = 1
  MaxKill = 2
  FixSessErr = FALSE
  FixRet = FALSE
  FixAdd = FALSE
INVARIANTS TypeOK LiveBound Conservation TableLive ShutdownCompletes NoStarvation
CHECK_DEADLOCK FALSE
