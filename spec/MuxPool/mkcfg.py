#!/usr/bin/env python3
"""Regenerates the .cfg files of spec/MuxPool (run by hand; the files are committed)."""
def consts(n, conn, fail, kill, fs, fr, fa):
    return ("CONSTANTS\n  N = %d\n  MaxConn = %d\n  MaxDialFail = %d\n  MaxKill = %d\n  FixSessErr = %s\n  FixRet = %s\n  FixAdd = %s\n"
            % (n, conn, fail, kill, fs, fr, fa))
T, F = "TRUE", "FALSE"
SAFE = "TypeOK LiveBound Conservation TableLive ShutdownCompletes NoStarvation"
def design(name, n, conn, fail, kill, fix=(T, T, T), invs=SAFE + " CleanShutdown NoLeakWhileRunning"):
    open(name + ".cfg", "w").write("SPECIFICATION Spec\n" + consts(n, conn, fail, kill, *fix) + "INVARIANTS " + invs + "\nCHECK_DEADLOCK FALSE\n")
def tick(name, n, conn, fail, kill, fix=(F, F, F)):
    open(name + ".cfg", "w").write("SPECIFICATION TSpec\n" + consts(n, conn, fail, kill, *fix) + "INVARIANTS HealBound Conservation LiveBound\nCHECK_DEADLOCK FALSE\n")
def sim(name, n, conn, fail, kill, depth, fix=(F, F, F), loop=F, gate=T, heal=1, est=F, rcv=F, silent=0):
    open(name + ".cfg", "w").write("INIT SimInit\nNEXT SimNext\n" + consts(n, conn, fail, kill, *fix) + "  Depth = %d\n  Loop = %s\n  AddGate = %s\n  MaxHeal = %d\n  Est = %s\n  Rcv = %s\n  MaxSilent = %d\nCHECK_DEADLOCK FALSE\n" % (depth, loop, gate, heal, est, rcv, silent))
# the tree as pinned: pool accounting holds, the shutdown clauses do not (finding 5)
design("mp_cur2", 2, 4, 1, 2, (F, F, F), SAFE)
design("mp_cur3", 3, 5, 1, 2, (F, F, F), SAFE)
design("mp_pinned", 2, 4, 1, 2, (F, F, F))            # expected: CleanShutdown / NoLeakWhileRunning violated
# one repair hunk missing at a time: each cause class alone breaks the shutdown clauses
design("mp_cls_sesserr", 2, 3, 1, 1, (F, T, T))
design("mp_cls_ret", 2, 3, 1, 1, (T, F, T))
design("mp_cls_add", 2, 3, 1, 1, (T, T, F))
# the repaired tree: everything holds
design("mp_fix1", 1, 3, 1, 2)
design("mp_fix2", 2, 4, 1, 2)
design("mp_fix3", 3, 5, 1, 3)
design("mp_fix3_t", 3, 6, 2, 3)
tick("mp_tick2", 2, 5, 1, 2)
tick("mp_tick3", 3, 6, 1, 2)
tick("mp_tick3_t", 3, 7, 2, 3)
sim("sim_n1", 1, 4, 1, 2, 20)
sim("sim_n2", 2, 8, 2, 3, 30, heal=3)
sim("sim_n3", 3, 10, 2, 3, 36, heal=3)
# exhaustive enumeration (BFS over MuxPoolSim: the history is part of the state) of ALL eager behaviours of small pools
sim("bfs_n1", 1, 2, 1, 1, 14)
sim("bfs_n1e", 1, 2, 1, 1, 12, gate=F)   # the same with the add step eager
sim("bfs_n2", 2, 3, 1, 1, 19)
# two real pools over loopback: kills and cancel only (BFS, all behaviours)
sim("loop_n1", 1, 4, 0, 3, 5, loop=T, gate=F)
sim("loop_n2", 2, 5, 0, 3, 5, loop=T, gate=F)
sim("loop_n3", 3, 6, 0, 3, 5, loop=T, gate=F)
# the real establishingConnProvider with a gate inside the dial: DialOk (also after Cancel), kills, Cancel (BFS, all)
sim("est_n1", 1, 3, 0, 1, 7, gate=F, est=T)
sim("est_n2", 2, 4, 0, 2, 9, gate=F, est=T)
# the real receiver provider with TLS: good and silent inbound peers, kills, cancel (BFS; the harness runs those with a Silent)
sim("rcv_n1", 1, 3, 0, 1, 5, gate=F, rcv=T, silent=1)
