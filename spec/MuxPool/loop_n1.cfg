INIT SimInit
NEXT SimNext
CONSTANTS
  N = 1
  MaxConn = 4
  MaxDialFail = 0
  MaxKill = 3
  FixSessErr = FALSE
  FixRet = FALSE
  FixAdd = FALSE
  Depth = 5
  Loop = TRUE
  AddGate = FALSE
  MaxHeal = 1
  Est = FALSE
  Rcv = FALSE
  MaxSilent = 0
CHECK_DEADLOCK FALSE
