SPECIFICATION Spec
CONSTANTS
  N = 2
  MaxConn = 3
  MaxDialFail = 1
  MaxKill = 1
  FixSessErr = TRUE
  FixRet = FALSE
  FixAdd = TRUE
INVARIANTS TypeOK LiveBound Conservation TableLive ShutdownCompletes NoStarvation CleanShutdown NoLeakWhileRunning
CHECK_DEADLOCK FALSE
