----------------------------- MODULE MuxPoolTick -----------------------------
(***************************************************************************)
(* C10 "returns to full strength while the peer is reachable" as bounded    *)
(* liveness rewritten as safety.  After an arbitrary fault prefix the       *)
(* environment turns benign (Calm): every dial, session setup and ping       *)
(* succeeds, nobody kills sessions, nobody cancels.  Virtual time: a dial    *)
(* takes one Tick; everything the proxy does, and a benign peer's answers    *)
(* to session setup / ping, take no time (Tick is enabled only when no such  *)
(* Prompt step is).  Claim: more than N ticks after Calm the pool holds N    *)
(* live sessions (N sequential dials are the worst case).                    *)
(***************************************************************************)
EXTENDS MuxPool
VARIABLES benign, since, dialWait
tv == <<vars, benign, since, dialWait>>
Calm == /\ ~benign /\ running /\ benign' = TRUE /\ since' = 0
        /\ nextId + N <= MaxConn            \* enough fresh connections left in the bounded model
        /\ UNCHANGED <<vars, dialWait>>
Prompt == Internal \/ SessOk \/ PingOk \/ (ppc = "conn" /\ dialWait = 0 /\ DialOk)
Tick == /\ benign /\ ~ENABLED Prompt /\ since <= N
        /\ since' = since + 1 /\ dialWait' = 0 /\ UNCHANGED <<vars, benign>>
\* arriving at the dial gate starts a new one-tick dial
Arm == IF ppc' = "conn" /\ ppc # "conn" THEN dialWait' = 1 ELSE UNCHANGED dialWait
TNext == \/ (~benign /\ Next /\ Arm /\ UNCHANGED <<benign, since>>)
         \/ Calm
         \/ (benign /\ Prompt /\ Arm /\ UNCHANGED <<benign, since>>)
         \/ Tick
TSpec == Init /\ benign = FALSE /\ since = 0 /\ dialWait = 1 /\ [][TNext]_tv
HealBound == (benign /\ since > N) => Cardinality(Live) = N
=============================================================================
