INIT SimInit
NEXT SimNext
CONSTANTS
  N = 2
  MaxConn = 3
  MaxDialFail = 1
  MaxKill = 1
  FixSessErr = FALSE
  FixRet = FALSE
  FixAdd = FALSE
  Depth = 16
  Loop = FALSE
CHECK_DEADLOCK FALSE
