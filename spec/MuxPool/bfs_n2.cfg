INIT SimInit
NEXT SimNext
CONSTANTS
  N = 2
  MaxConn = 3
  MaxDialFail = 1
  MaxKill = 1
  FixSessErr = FALSE
  FixRet = FALSE
  FixAdd = FALSE
  Depth = 19
  Loop = FALSE
  AddGate = TRUE
  MaxHeal = 1
CHECK_DEADLOCK FALSE
