SPECIFICATION Spec
CONSTANTS
  N = 3
  MaxConn = 5
  MaxDialFail = 1
  MaxKill = 3
  FixSessErr = TRUE
  FixRet = TRUE
  FixAdd = TRUE
INVARIANTS TypeOK LiveBound Conservation TableLive ShutdownCompletes NoStarvation CleanShutdown NoLeakWhileRunning
CHECK_DEADLOCK FALSE
