----------------------------- MODULE MuxPoolObs -----------------------------
(***************************************************************************)
(* Observation monitor for C10 on what a REAL muxProvider + multiMuxManager *)
(* did under a TLC-generated fault schedule (trace.ndjson).  History only:  *)
(* the pool size N, the table after every change (Table events are emitted  *)
(* by a connection listener, i.e. under the table lock), the number of      *)
(* entries removed so far and of permits handed back by sessions (Released).*)
(* Snap / Healed / End are snapshots the harness took at settled points     *)
(* (provider loop parked in an environment call, waiting for a permit, or   *)
(* stopped; no session on its way out).  Clauses, reported in register 1 as *)
(* <<line, clause, x, y>>:                                                  *)
(*   livebound  the table holds more than N sessions                        *)
(*   conserve   running: free permits + attempt in flight + registered      *)
(*              sessions + sessions removed but not yet released # N        *)
(*              (x = free, y = table size)                                  *)
(*   canacc     CanAcceptConnections() # (a permit is free)                 *)
(*   leak       x = a connection that is open although it is neither the    *)
(*              attempt's nor a registered session's (y = 1: while running, *)
(*              y = 0: after shutdown completed; then also if only the      *)
(*              harness-side end did not observe the close)                 *)
(*   stale      x = a registered session whose connection is closed (at a   *)
(*              settled point the registered set and the set of live        *)
(*              sessions are compared by identity: leak = live, not         *)
(*              registered; stale = registered, not live)                   *)
(*   heal       with a reachable peer the pool did not return to N sessions *)
(*              (x = size reached)                                          *)
(*   shutdown   after cancellation the provider / manager did not report    *)
(*              completion, or the table is not empty (x = table size)      *)
(*   progress   something the code must do by itself did not happen within  *)
(*              the bounded wait                                            *)
(***************************************************************************)
EXTENDS Integers, Sequences, FiniteSets, TLC, Json
Trace == ndJsonDeserialize("trace.ndjson")
ASSUME TLCSet(1, {})
VARIABLES l, n, prev, removed, released
vars == <<l, n, prev, removed, released>>
FlagAll(S) == IF S = {} THEN TRUE ELSE TLCSet(1, TLCGet(1) \cup S)
SetOf(q) == {q[i] : i \in 1..Len(q)}
Init == l = 1 /\ n = 0 /\ prev = {} /\ removed = 0 /\ released = 0

OnTable(e) ==
  LET now == SetOf(e.keys) IN
  /\ FlagAll(IF Cardinality(now) > n THEN {<<l, "livebound", Cardinality(now), n>>} ELSE {})
  /\ removed' = removed + Cardinality(prev \ now) /\ prev' = now /\ UNCHANGED <<n, released>>

SnapViol(e) ==
  LET tbl == SetOf(e.table)
      attempt == IF e.loc \in {"dial", "sess", "ping", "add"} THEN 1 ELSE 0
      settled == e.stuck = "" /\ e.loc # "run"
      \* identity of registered vs live sessions is also judged where a bounded wait ran out (the state is then as
      \* stable as it gets; e.g. an entry that was overwritten never produces the permit release the harness waits for)
      located == e.loc # "run"
  IN (IF Cardinality(tbl) > n THEN {<<l, "livebound", Cardinality(tbl), n>>} ELSE {})
     \cup (IF e.stuck # "" /\ ~e.broken THEN {<<l, "progress", 0, 0>>} ELSE {})
     \cup (IF e.running /\ settled /\ e.free + attempt + Cardinality(tbl) + (removed - released) # n
           THEN {<<l, "conserve", e.free, Cardinality(tbl)>>} ELSE {})
     \cup (IF settled /\ e.canAccept # (e.free > 0) THEN {<<l, "canacc", e.free, 0>>} ELSE {})
     \cup (IF e.running /\ located THEN {<<l, "leak", c, 1>> : c \in {x \in SetOf(e.open) : x # e.held /\ x \notin tbl}} ELSE {})
     \cup (IF located THEN {<<l, "stale", c, 0>> : c \in tbl \ SetOf(e.open)} ELSE {})

OnSnap(e) == FlagAll(SnapViol(e)) /\ UNCHANGED <<n, prev, removed, released>>
OnHealed(e) ==
  /\ FlagAll(SnapViol(e) \cup
             (IF e.running /\ ~e.broken /\ (Len(e.table) # n \/ e.loc # "acq" \/ e.canAccept \/ e.stuck # "")
              THEN {<<l, "heal", Len(e.table), 0>>} ELSE {}))
  /\ UNCHANGED <<n, prev, removed, released>>
OnEnd(e) ==
  /\ FlagAll(IF e.broken THEN {}
             ELSE {<<l, "leak", c, 0>> : c \in SetOf(e.open) \cup SetOf(e.peerOpen)}
                  \cup (IF Len(e.table) # 0 \/ ~e.provDone \/ ~e.mgrDone \/ e.running THEN {<<l, "shutdown", Len(e.table), 0>>} ELSE {})
                  \cup (IF e.stuck # "" THEN {<<l, "progress", 0, 0>>} ELSE {}))
  /\ UNCHANGED <<n, prev, removed, released>>

Next == /\ l <= Len(Trace) /\ l' = l + 1
        /\ LET e == Trace[l] IN
           CASE e.ev = "Config" -> n' = e.N /\ prev' = {} /\ removed' = 0 /\ released' = 0
             [] e.ev = "Table" -> OnTable(e)
             [] e.ev = "Released" -> released' = released + 1 /\ UNCHANGED <<n, prev, removed>>
             [] e.ev = "Snap" -> OnSnap(e)
             [] e.ev = "Healed" -> OnHealed(e)
             [] e.ev = "End" -> OnEnd(e)
             [] OTHER -> UNCHANGED <<n, prev, removed, released>>
Spec == Init /\ [][Next]_vars
Report == PrintT(<<"OBS_VIOLATIONS", TLCGet(1)>>) /\ PrintT(<<"OBS_TRACE_LEN", Len(Trace)>>)
=============================================================================
