INIT SimInit
NEXT SimNext
CONSTANTS
  N = 2
  MaxConn = 6
  MaxDialFail = 2
  MaxKill = 3
  FixSessErr = FALSE
  FixRet = FALSE
  FixAdd = FALSE
  Depth = 22
  Loop = FALSE
CHECK_DEADLOCK FALSE
