INIT SimInit
NEXT SimNext
CONSTANTS
  N = 2
  MaxConn = 6
  MaxDialFail = 2
  MaxKill = 3
  FixSessErr = FALSE
  FixRet = FALSE
  FixAdd = FALSE
  Depth = 28
  Loop = FALSE
  AddGate = TRUE
CHECK_DEADLOCK FALSE
