SPECIFICATION TSpec
CONSTANTS
  N = 3
  MaxConn = 6
  MaxDialFail = 1
  MaxKill = 2
  FixSessErr = FALSE
  FixRet = FALSE
  FixAdd = FALSE
INVARIANTS HealBound Conservation LiveBound
CHECK_DEADLOCK FALSE
