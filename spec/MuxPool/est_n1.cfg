INIT SimInit
NEXT SimNext
CONSTANTS
  N = 1
  MaxConn = 3
  MaxDialFail = 0
  MaxKill = 1
  FixSessErr = FALSE
  FixRet = FALSE
  FixAdd = FALSE
  Depth = 7
  Loop = FALSE
  AddGate = FALSE
  MaxHeal = 1
  Est = TRUE
  Rcv = FALSE
  MaxSilent = 0
CHECK_DEADLOCK FALSE
