SPECIFICATION TSpec
CONSTANTS
  N = 3
  MaxConn = 7
  MaxDialFail = 2
  MaxKill = 3
  FixSessErr = FALSE
  FixRet = FALSE
  FixAdd = FALSE
INVARIANTS HealBound Conservation LiveBound
CHECK_DEADLOCK FALSE
