SPECIFICATION Spec
CONSTANTS
  N = 3
  MaxConn = 5
  MaxDialFail = 1
  MaxKill = 2
  FixSessErr = FALSE
  FixRet = FALSE
  FixAdd = FALSE
INVARIANTS TypeOK LiveBound Conservation TableLive ShutdownCompletes NoStarvation
CHECK_DEADLOCK FALSE
