SPECIFICATION Spec
CONSTANTS
  Inst = {a, b}
  Sh = {1}
  MaxClaims = 2
  MaxDup = 0
  MaxSnap = 2
  AllowLeave = TRUE
  AllowRelease = FALSE
  TsFix = TRUE
  Late = {}
  NeedKnown = FALSE
  SplitDeliver = FALSE
  GuardedEvict = TRUE
INVARIANTS LeftOwnNothing
CHECK_DEADLOCK FALSE
