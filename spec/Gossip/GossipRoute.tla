----------------------------- MODULE GossipRoute -----------------------------
(* Enumerates the decision table of the owner-routing clause of C09: every     *)
(* combination of local / remote / unknown ownership, address book and peer    *)
(* stream state, for messages and for acknowledgements.  One JSON line each;   *)
(* the expected outcome is Gossip!Route, evaluated by GossipObs on the result. *)
EXTENDS TLC, Json, Integers
VARIABLE x
Cases == [kind : {"msg", "ack"}, haveLocal : BOOLEAN, owner : {"", "self", "b"}, addr : BOOLEAN,
          stream : BOOLEAN, memberlist : BOOLEAN]
Init == x = 0 /\ \A c \in Cases : PrintT(ToJson(c))
Next == UNCHANGED x
=============================================================================
