----------------------------- MODULE GossipRoute -----------------------------
(* Enumerates the decision table of the owner-routing clause of C09: every     *)
(* combination of local / remote / unknown ownership, address book and peer    *)
(* stream state, for messages and for acknowledgements.  One JSON line each;   *)
(* the expected outcome is Gossip!Route, evaluated by GossipObs on the result. *)
EXTENDS TLC, Json, Integers
VARIABLE x
\* closed: the local stream has closed its channel but not yet deregistered it (the sender closes before its deferred removal)
\* otherpair: the peer table holds streams to the owner, but only for ANOTHER (target, source) shard pair (stream = FALSE then
\* means "no stream for this pair")
Cases == {c \in [kind : {"msg", "ack"}, haveLocal : BOOLEAN, closed : BOOLEAN, owner : {"", "self", "b"}, addr : BOOLEAN,
                 stream : BOOLEAN, otherpair : BOOLEAN, memberlist : BOOLEAN] : (c.closed => c.haveLocal) /\ (c.otherpair => ~c.stream)}
Init == x = 0 /\ \A c \in Cases : PrintT(ToJson(c))
Next == UNCHANGED x
=============================================================================
