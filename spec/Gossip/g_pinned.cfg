SPECIFICATION Spec
CONSTANTS
  Inst = {a, b}
  Sh = {1}
  MaxClaims = 2
  MaxDup = 0
  MaxSnap = 0
  AllowLeave = FALSE
  AllowRelease = FALSE
  TsFix = FALSE
  Late = {}
  NeedKnown = FALSE
  SplitDeliver = FALSE
  GuardedEvict = TRUE
INVARIANTS SingleNewestOwner
CHECK_DEADLOCK FALSE
