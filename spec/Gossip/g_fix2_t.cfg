SPECIFICATION Spec
CONSTANTS
  Inst = {a, b}
  Sh = {1}
  MaxClaims = 4
  MaxDup = 1
  MaxSnap = 0
  AllowLeave = FALSE
  AllowRelease = TRUE
  TsFix = TRUE
  Late = {}
  NeedKnown = FALSE
  SplitDeliver = FALSE
  GuardedEvict = TRUE
INVARIANTS SingleNewestOwner
CHECK_DEADLOCK FALSE
