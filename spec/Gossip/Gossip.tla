------------------------------- MODULE Gossip -------------------------------
(***************************************************************************)
(* C09: shard ownership among proxy instances sharing a memberlist cluster  *)
(* (proxy/shard_manager.go) and owner routing.                              *)
(*                                                                          *)
(*   Claim(i,sh)      RegisterShard: addLocalShard (Created = time.Now())    *)
(*   Announce(i,a)    broadcastShardChange: one reliable message per peer    *)
(*                    present in remoteNodeStates; Timestamp is a SECOND     *)
(*                    clock read (pinned tree) or the claim timestamp        *)
(*                    (TsFix, repaired tree)                                 *)
(*   Release(i,sh)    UnregisterShard by the stream that registered it       *)
(*   Deliver(m,keep)  shardDelegate.NotifyMsg: a newer remote registration   *)
(*                    evicts the local one (which announces an unregister);  *)
(*                    keep = the network duplicates the message              *)
(*   Snapshot/Merge   LocalState -> MergeRemoteState (push/pull): the only   *)
(*                    writer of remoteNodeStates                             *)
(*   Leave/NotifyLeave shardEventDelegate.NotifyLeave deletes the peer state *)
(*   Join(a)          a Late instance joins: the joiner's half of the        *)
(*                    push/pull (it merges every member's state) happens at  *)
(*                    once, the members' half (they merge its state) is a    *)
(*                    state push in flight like any other: until then the    *)
(*                    members do not hold the joiner's state                 *)
(*                                                                          *)
(* Route(j, sh, haveLocal, addr, peerStream) transcribes the decision of     *)
(* DeliverMessagesToShardOwner / DeliverAckToShardOwner.                     *)
(***************************************************************************)
EXTENDS Integers, FiniteSets, TLC

CONSTANTS Inst, Sh, MaxClaims, MaxDup, MaxSnap, AllowLeave, AllowRelease, TsFix, Late, NeedKnown, SplitDeliver, GuardedEvict
None == [sh \in Sh |-> -1]      \* "no entry" (a function, so that it compares with snapshots)
NoShards == [sh \in Sh |-> 0]

VARIABLES clock,
  local,      \* [Inst -> [Sh -> ts]]   0 = not owned; localShards[sh].Created
  pend,       \* [Inst -> set of [type, sh, cts]]  announcements whose goroutine has not run yet
  msgs,       \* set of [from, to, type, sh, ts] in flight
  remote,     \* [Inst -> [Inst -> snapshot \cup {None}]]  remoteNodeStates
  snaps,      \* set of [from, to, val, id] state pushes in flight
  left, leaveEv,
  lastClaim,  \* history: [Inst -> [Sh -> ts of the instance's latest claim (kept after release; 0 after leave)]]
  held,       \* history: [Inst -> [Sh -> the instance has not released that claim itself]]
  nclaims, dups, nsnaps,
  joined,     \* instances that are members of the memberlist cluster (Inst \ Late at the start)
  rd          \* SplitDeliver: register announcements whose handler has READ the local entry (snapshot) but not yet acted on it
              \* (shardDelegate.NotifyMsg between reading localShards and UnregisterShard(shard, snapshot.Created))
vars == <<clock, local, pend, msgs, remote, snaps, left, leaveEv, lastClaim, held, nclaims, dups, nsnaps, joined, rd>>

Init == /\ clock = 0 /\ local = [i \in Inst |-> NoShards] /\ pend = [i \in Inst |-> {}] /\ msgs = {}
        \* everybody has merged everybody's (empty) state: "instances that know each other"
        /\ remote = [j \in Inst |-> [i \in Inst |-> IF i = j \/ i \in Late \/ j \in Late THEN None ELSE NoShards]]
        /\ joined = Inst \ Late /\ rd = {}
        /\ snaps = {} /\ left = {} /\ leaveEv = {} /\ lastClaim = [i \in Inst |-> NoShards]
        /\ held = [i \in Inst |-> [sh \in Sh |-> FALSE]]
        /\ nclaims = 0 /\ dups = 0 /\ nsnaps = 0

Known(i) == {j \in Inst : j # i /\ remote[i][j] # None}

NoPend(i, sh, type) == ~\E a \in pend[i] : a.sh = sh /\ a.type = type
\* the property is about announcements that reach every other instance: an instance claims only while it holds the state of
\* every other member (its announcements go to the peers in remoteNodeStates)
KnowsAll(i) == \A k \in joined \ (left \cup {i}) : remote[i][k] # None
Claim(i, sh) ==
  /\ i \in joined /\ KnowsAll(i)
  \* (also while it already holds the shard: a stream that reconnects to the same instance registers again - a NEW claim with a
  \* new timestamp, announced like any other)
  /\ i \notin left /\ nclaims < MaxClaims /\ NoPend(i, sh, "register")
  /\ clock' = clock + 1 /\ nclaims' = nclaims + 1
  /\ local' = [local EXCEPT ![i][sh] = clock + 1] /\ lastClaim' = [lastClaim EXCEPT ![i][sh] = clock + 1]
  /\ held' = [held EXCEPT ![i][sh] = TRUE]
  /\ pend' = [pend EXCEPT ![i] = @ \cup {[type |-> "register", sh |-> sh, cts |-> clock + 1]}]
  /\ UNCHANGED <<msgs, remote, snaps, left, leaveEv, dups, nsnaps>>

Announce(i, a) ==
  /\ a \in pend[i] /\ i \notin left
  /\ clock' = clock + 1
  /\ pend' = [pend EXCEPT ![i] = @ \ {a}]
  /\ msgs' = msgs \cup {[from |-> i, to |-> j, type |-> a.type, sh |-> a.sh,
                         ts |-> IF TsFix /\ a.type = "register" THEN a.cts ELSE clock + 1] : j \in Known(i)}
  /\ UNCHANGED <<local, remote, snaps, left, leaveEv, lastClaim, held, nclaims, dups, nsnaps>>

Release(i, sh) ==
  /\ AllowRelease /\ i \notin left /\ local[i][sh] # 0 /\ NoPend(i, sh, "unregister")
  /\ local' = [local EXCEPT ![i][sh] = 0] /\ held' = [held EXCEPT ![i][sh] = FALSE]
  /\ pend' = [pend EXCEPT ![i] = @ \cup {[type |-> "unregister", sh |-> sh, cts |-> 0]}]
  /\ UNCHANGED <<clock, msgs, remote, snaps, left, leaveEv, lastClaim, nclaims, dups, nsnaps>>

Deliver(m, keep) ==
  /\ (SplitDeliver => m.type # "register")
  /\ m \in msgs /\ (keep => dups < MaxDup)
  /\ msgs' = (IF keep THEN msgs ELSE msgs \ {m}) /\ dups' = (IF keep THEN dups + 1 ELSE dups)
  /\ LET j == m.to
         \* NeedKnown: a (wrong) variant that ignores announcements of peers whose state it does not hold - kept to show
         \* that the join schedules decide it (g_join2_needknown.cfg violates SingleNewestOwner)
         evict == j \notin left /\ m.type = "register" /\ local[j][m.sh] # 0 /\ local[j][m.sh] < m.ts
                  /\ (NeedKnown => remote[j][m.from] # None)
     IN /\ local' = (IF evict THEN [local EXCEPT ![j][m.sh] = 0] ELSE local)
        /\ pend' = (IF evict THEN [pend EXCEPT ![j] = @ \cup {[type |-> "unregister", sh |-> m.sh, cts |-> 0]}] ELSE pend)
  /\ UNCHANGED <<clock, remote, snaps, left, leaveEv, lastClaim, held, nclaims, nsnaps>>

Snapshot(i, j) ==
  /\ i \in joined /\ j \in joined
  /\ i # j /\ i \notin left /\ j \notin left /\ nsnaps < MaxSnap
  /\ snaps' = snaps \cup {[from |-> i, to |-> j, val |-> local[i], id |-> nsnaps]} /\ nsnaps' = nsnaps + 1
  /\ UNCHANGED <<clock, local, pend, msgs, remote, left, leaveEv, lastClaim, held, nclaims, dups>>
Merge(s) ==
  /\ s \in snaps /\ snaps' = snaps \ {s}
  /\ remote' = (IF s.to \in left THEN remote ELSE [remote EXCEPT ![s.to][s.from] = s.val])
  /\ UNCHANGED <<clock, local, pend, msgs, left, leaveEv, lastClaim, held, nclaims, dups, nsnaps>>

Leave(i) ==
  /\ i \in joined
  /\ AllowLeave /\ left = {} /\ i \notin left /\ pend[i] = {}
  /\ left' = left \cup {i} /\ leaveEv' = leaveEv \cup {<<i, j>> : j \in Inst \ {i}}
  /\ local' = [local EXCEPT ![i] = NoShards]
  /\ UNCHANGED <<lastClaim, held>>
  /\ UNCHANGED <<clock, pend, msgs, remote, snaps, nclaims, dups, nsnaps>>
NotifyLeave(e) ==
  /\ e \in leaveEv /\ leaveEv' = leaveEv \ {e}
  /\ remote' = [remote EXCEPT ![e[2]][e[1]] = None]
  /\ UNCHANGED <<clock, local, pend, msgs, snaps, left, lastClaim, held, nclaims, dups, nsnaps>>

Join(a) ==
  /\ a \in Late \ joined /\ a \notin left
  /\ joined' = joined \cup {a}
  /\ remote' = [remote EXCEPT ![a] = [k \in Inst |-> IF k \in joined \ left THEN local[k] ELSE None]]
  /\ snaps' = snaps \cup {[from |-> a, to |-> k, val |-> local[a], id |-> nsnaps] : k \in joined \ left}
  /\ nsnaps' = nsnaps + 1
  /\ UNCHANGED <<clock, local, pend, msgs, left, leaveEv, lastClaim, held, nclaims, dups>>

\* the two halves of NotifyMsg for a register announcement: the eviction acts on the snapshot - it removes the local entry only
\* if that entry is still the one that was read (UnregisterShard compares the registration timestamp)
DRead(m, keep) ==
  /\ SplitDeliver /\ m \in msgs /\ m.type = "register" /\ rd = {} /\ (keep => dups < MaxDup)
  /\ msgs' = (IF keep THEN msgs ELSE msgs \ {m}) /\ dups' = (IF keep THEN dups + 1 ELSE dups)
  /\ rd' = {[to |-> m.to, from |-> m.from, sh |-> m.sh, ts |-> m.ts, snap |-> local[m.to][m.sh]]}
  /\ UNCHANGED <<clock, local, pend, remote, snaps, left, leaveEv, lastClaim, held, nclaims, nsnaps, joined>>
DEvict(r) ==
  /\ r \in rd /\ rd' = {}
  /\ LET j == r.to
         \* GuardedEvict (the code): UnregisterShard(shard, snapshot.Created) removes only the entry that was read. FALSE: a variant
         \* that removes whatever is registered now (g_split2_unguarded.cfg violates SingleNewestOwner)
         evict == j \notin left /\ r.snap # 0 /\ r.snap < r.ts /\ (IF GuardedEvict THEN local[j][r.sh] = r.snap ELSE local[j][r.sh] # 0)
     IN /\ local' = (IF evict THEN [local EXCEPT ![j][r.sh] = 0] ELSE local)
        /\ pend' = (IF evict THEN [pend EXCEPT ![j] = @ \cup {[type |-> "unregister", sh |-> r.sh, cts |-> 0]}] ELSE pend)
  /\ UNCHANGED <<clock, msgs, remote, snaps, left, leaveEv, lastClaim, held, nclaims, dups, nsnaps, joined>>

J(A) == A /\ UNCHANGED <<joined, rd>>
Next == \/ J(\/ \E i \in Inst, sh \in Sh : Claim(i, sh) \/ Release(i, sh)
             \/ \E i \in Inst : (\E a \in pend[i] : Announce(i, a)) \/ Leave(i) \/ \E j \in Inst : Snapshot(i, j)
             \/ \E m \in msgs : Deliver(m, TRUE) \/ Deliver(m, FALSE)
             \/ \E s \in snaps : Merge(s)
             \/ \E e \in leaveEv : NotifyLeave(e))
        \/ (\E a \in Inst : Join(a)) /\ UNCHANGED rd
        \/ \E m \in msgs : DRead(m, TRUE) \/ DRead(m, FALSE)
        \/ \E r \in rd : DEvict(r)
Spec == Init /\ [][Next]_vars

(* ---------------- C09 ----------------------------------------------------- *)
Quiescent == msgs = {} /\ snaps = {} /\ leaveEv = {} /\ rd = {} /\ \A i \in Inst : pend[i] = {}
Claimants(sh) == {i \in Inst : lastClaim[i][sh] > 0}          \* everybody who ever claimed it, also those who left
Newest(sh) == CHOOSE i \in Claimants(sh) : \A j \in Claimants(sh) : lastClaim[j][sh] <= lastClaim[i][sh]
Owners(sh) == {i \in Inst \ left : local[i][sh] # 0}
\* a shard claimed by several instances ends up owned only by the instance with the newest claim
\* (and by it, unless it has released the claim itself or has left)
SingleNewestOwner == Quiescent => \A sh \in Sh : Claimants(sh) # {} =>
                        /\ Owners(sh) \subseteq {Newest(sh)}
                        /\ ((held[Newest(sh)][sh] /\ Newest(sh) \notin left) => Owners(sh) = {Newest(sh)})
\* instances that left own nothing (in anybody's view)
LeftOwnNothing == Quiescent => \A j \in Inst \ left : \A x \in left : remote[j][x] = None

(* ---------------- owner routing (pure transcription) --------------------- *)
\* haveLocal: a usable local channel exists; addr(o): proxy address of o configured; stream(o): peer stream registered
RemoteOwners(j, sh) == {o \in Inst : o # j /\ remote[j][o] # None /\ remote[j][o][sh] # 0}
Route(j, sh, haveLocal, addr, stream) ==
  IF haveLocal THEN {"local"}
  ELSE IF RemoteOwners(j, sh) = {} THEN {"undelivered"}
  ELSE {IF addr[o] /\ stream[o] THEN <<"remote", o>> ELSE "undelivered" : o \in RemoteOwners(j, sh)}
=============================================================================
