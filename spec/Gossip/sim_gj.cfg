INIT SimInit
NEXT SimNext
CONSTANTS
  Inst = {a, b}
  Sh = {1}
  MaxClaims = 3
  MaxDup = 1
  MaxSnap = 1
  AllowLeave = FALSE
  AllowRelease = TRUE
  TsFix = TRUE
  Late = {a}
  NeedKnown = FALSE
  SplitDeliver = FALSE
  GuardedEvict = TRUE
  Depth = 16
CHECK_DEADLOCK FALSE
