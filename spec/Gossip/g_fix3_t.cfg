SPECIFICATION Spec
CONSTANTS
  Inst = {a, b, c}
  Sh = {1}
  MaxClaims = 3
  MaxDup = 1
  MaxSnap = 0
  AllowLeave = FALSE
  AllowRelease = TRUE
  TsFix = TRUE
  Late = {}
  NeedKnown = FALSE
  SplitDeliver = FALSE
  GuardedEvict = TRUE
INVARIANTS SingleNewestOwner
CHECK_DEADLOCK FALSE
