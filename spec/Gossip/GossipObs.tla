------------------------------ MODULE GossipObs ------------------------------
(***************************************************************************)
(* Observation monitor for C09 on what 2-3 REAL shardManagerImpl instances  *)
(* did (trace.ndjson).  History only: the order of claims (= order of the   *)
(* real time.Now() reads), releases and leaves; at the Quiet event that     *)
(* ends each run (all announcements, state pushes and leave events          *)
(* delivered) the recorded views must satisfy                               *)
(*   owner     a claimed shard is owned only by the instance with the       *)
(*             newest claim, and by it unless it released it or has left    *)
(*   leftowns  no live instance still lists an instance that left           *)
(*   realclaim real memberlist instances and the real announcement path: the *)
(*             older of two claims of one shard was not given up             *)
(*   realleave a real memberlist leave: Leave returns, the others forget the *)
(*             instance and stay operational                                *)
(*   mergeview after a state push of i was merged at j, j's view of i is    *)
(*             what the push held                                           *)
(* Route events (one call of DeliverMessagesToShardOwner /                  *)
(* DeliverAckToShardOwner each) must match Gossip!Route's decision:         *)
(*   route     local iff a local channel exists, else the recorded owner    *)
(*             (exactly once) iff its address and stream are known, else    *)
(*             reported undelivered; never both, never silently dropped     *)
(***************************************************************************)
EXTENDS Integers, Sequences, FiniteSets, TLC, Json
Trace == ndJsonDeserialize("trace.ndjson")
ASSUME TLCSet(1, {})
VARIABLES l, seqno, claim, held, left, broken,
          snapv     \* <<from, to, id>> -> shard ids the state push holds
vars == <<l, seqno, claim, held, left, broken, snapv>>
FlagAll(S) == IF S = {} THEN TRUE ELSE TLCSet(1, TLCGet(1) \cup S)
Get(f, k, d) == IF k \in DOMAIN f THEN f[k] ELSE d
Put(f, k, v) == [x \in DOMAIN f \cup {k} |-> IF x = k THEN v ELSE f[x]]
Init == l = 1 /\ seqno = 0 /\ claim = <<>> /\ held = <<>> /\ left = {} /\ broken = FALSE /\ snapv = <<>>

OnStep0(e) ==
  IF ~e.ok THEN broken' = TRUE /\ UNCHANGED <<seqno, claim, held, left>>
  ELSE CASE e.a = "Claim" -> /\ seqno' = seqno + 1 /\ claim' = Put(claim, <<e.i, e.sh>>, seqno + 1)
                             /\ held' = Put(held, <<e.i, e.sh>>, TRUE) /\ UNCHANGED <<left, broken>>
         [] e.a = "Release" -> held' = Put(held, <<e.i, e.sh>>, FALSE) /\ UNCHANGED <<seqno, claim, left, broken>>
         [] e.a = "Leave" -> left' = left \cup {e.i} /\ UNCHANGED <<seqno, claim, held, broken>>
         [] OTHER -> UNCHANGED <<seqno, claim, held, left, broken>>

\* mergeview: right after a full-state push from i has been merged at j, j's view of i is what the push held (the "known
\* remote owner" of the routing clause comes from these views); skipped for an i that has left (known finding: merge after leave)
MergeViewBad(e) ==
  /\ e.a = "Merge" /\ e.ok /\ e.i \notin left /\ e.j \notin left /\ <<e.i, e.j, e.val>> \in DOMAIN snapv
  /\ e.j \in DOMAIN e.view
  /\ ~(e.i \in DOMAIN e.view[e.j].remote /\ e.view[e.j].remote[e.i] = snapv[<<e.i, e.j, e.val>>])
OnStep(e) ==
  /\ snapv' = (IF e.ok /\ e.a = "Snapshot" THEN Put(snapv, <<e.i, e.j, e.val>>, e.snap)
               ELSE IF e.ok /\ e.a = "Join" THEN [k \in DOMAIN snapv \cup {<<e.i, p, e.val>> : p \in DOMAIN e.view} |->
                                                   IF k \in DOMAIN snapv THEN snapv[k] ELSE e.snap]
               ELSE snapv)
  /\ (IF MergeViewBad(e) THEN FlagAll({<<l, "mergeview", 0, 0>>}) ELSE TRUE)
  /\ OnStep0(e)
OnQuiet(e) ==
  LET live == DOMAIN e.view
      shards == {k[2] : k \in DOMAIN claim}
      claimants(sh) == {k[1] : k \in {x \in DOMAIN claim : x[2] = sh}}     \* also instances that left meanwhile
      newest(sh) == CHOOSE i \in claimants(sh) : \A j \in claimants(sh) : claim[<<j, sh>>] <= claim[<<i, sh>>]
      owners(sh) == {i \in live : \E k \in 1..Len(e.view[i].local) : e.view[i].local[k] = sh}
      badOwner == {sh \in shards : ~(owners(sh) \subseteq {newest(sh)})
                                   \/ (held[<<newest(sh), sh>>] /\ newest(sh) \in live /\ owners(sh) # {newest(sh)})}
      badLeft == {j \in live : \E k \in 1..Len(e.view[j].peers) : e.view[j].peers[k] \in left}
  IN /\ (IF broken THEN TRUE
         ELSE FlagAll({<<l, "owner", sh, 0>> : sh \in badOwner} \cup {<<l, "leftowns", 0, 0>> : j \in badLeft}))
     /\ UNCHANGED <<seqno, claim, held, left, broken, snapv>>

\* Gossip!Route for one owner candidate
OnRoute(e) ==
  LET expectLocal == e.haveLocal /\ ~e.closed
      remoteAvail == e.memberlist /\ e.owner \notin {"", "self"} /\ e.addr /\ e.stream
      ok == /\ e.panic = ""
            /\ (expectLocal => e.result /\ e.local = 1 /\ e.remote = 0)
            /\ ((~e.haveLocal /\ remoteAvail) => e.result /\ e.local = 0 /\ e.remote = 1)
            /\ ((~e.haveLocal /\ ~remoteAvail) => ~e.result /\ e.local = 0 /\ e.remote = 0)
            \* a closed local channel takes nothing; whether the call then reaches the remote owner or reports failure, it never
            \* reports success without having handed the message to exactly one party
            /\ (e.closed => e.local = 0 /\ e.remote <= 1 /\ e.result = (e.remote = 1) /\ (~remoteAvail => e.remote = 0))
  IN /\ (IF ok THEN TRUE ELSE FlagAll({<<l, "route", e.id, 0>>}))
     /\ UNCHANGED <<seqno, claim, held, left, broken, snapv>>

\* real memberlist instances (in-process transport): b joins a, b leaves for real. The leaving instance's Leave returns, the
\* others forget it ("instances that left own nothing"), their memberlist keeps working and a newcomer can still join.
OnRealLeave(e) ==
  /\ (IF e.joined /\ e.left /\ e.forgotten /\ e.responsive /\ e.rejoin THEN TRUE ELSE FlagAll({<<l, "realleave", e.id, 0>>}))
  /\ UNCHANGED <<seqno, claim, held, left, broken, snapv>>
\* real memberlist instances, the real announcement path: a claims a shard, b claims it later: only the newest claim owns it
OnRealClaim(e) ==
  /\ (IF e.joined /\ e.claimed /\ e.owners = <<"b">> THEN TRUE ELSE FlagAll({<<l, "realclaim", e.id, 0>>}))
  /\ UNCHANGED <<seqno, claim, held, left, broken, snapv>>
Next == /\ l <= Len(Trace) /\ l' = l + 1
        /\ LET e == Trace[l] IN
           CASE e.ev = "Config" -> seqno' = 0 /\ claim' = <<>> /\ held' = <<>> /\ left' = {} /\ broken' = FALSE /\ snapv' = <<>>
             [] e.ev = "Step" -> OnStep(e)
             [] e.ev = "Quiet" -> OnQuiet(e)
             [] e.ev = "Route" -> OnRoute(e)
             [] e.ev = "RealClaim" -> OnRealClaim(e)
             [] e.ev = "RealLeave" -> OnRealLeave(e)
             [] OTHER -> UNCHANGED <<seqno, claim, held, left, broken, snapv>>
Spec == Init /\ [][Next]_vars
Report == PrintT(<<"OBS_VIOLATIONS", TLCGet(1)>>) /\ PrintT(<<"OBS_TRACE_LEN", Len(Trace)>>)
=============================================================================
