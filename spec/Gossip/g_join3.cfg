SPECIFICATION Spec
CONSTANTS
  Inst = {a, b, c}
  Sh = {1}
  MaxClaims = 3
  MaxDup = 0
  MaxSnap = 0
  AllowLeave = FALSE
  AllowRelease = FALSE
  TsFix = TRUE
  Late = {a}
  NeedKnown = FALSE
  SplitDeliver = FALSE
  GuardedEvict = TRUE
INVARIANTS SingleNewestOwner
CHECK_DEADLOCK FALSE
