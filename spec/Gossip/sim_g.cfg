INIT SimInit
NEXT SimNext
CONSTANTS
  Inst = {a, b, c}
  Sh = {1, 2}
  MaxClaims = 4
  MaxDup = 2
  MaxSnap = 2
  AllowLeave = TRUE
  AllowRelease = TRUE
  TsFix = TRUE
  Late = {}
  NeedKnown = FALSE
  SplitDeliver = FALSE
  GuardedEvict = TRUE
  Depth = 22
CHECK_DEADLOCK FALSE
