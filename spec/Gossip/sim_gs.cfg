INIT SimInit
NEXT SimNext
CONSTANTS
  Inst = {a, b}
  Sh = {1}
  MaxClaims = 4
  MaxDup = 1
  MaxSnap = 1
  AllowLeave = FALSE
  AllowRelease = TRUE
  TsFix = TRUE
  Late = {}
  NeedKnown = FALSE
  SplitDeliver = TRUE
  GuardedEvict = TRUE
  Depth = 18
CHECK_DEADLOCK FALSE
