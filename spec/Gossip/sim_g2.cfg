INIT SimInit
NEXT SimNext
CONSTANTS
  Inst = {a, b}
  Sh = {1}
  MaxClaims = 3
  MaxDup = 1
  MaxSnap = 2
  AllowLeave = TRUE
  AllowRelease = TRUE
  TsFix = TRUE
  Late = {}
  NeedKnown = FALSE
  SplitDeliver = FALSE
  GuardedEvict = TRUE
  Depth = 16
CHECK_DEADLOCK FALSE
