---- MODULE Gossip_TTrace_1790404001 ----
EXTENDS Sequences, TLCExt, Gossip, Gossip_TEConstants, Toolbox, Naturals, TLC

_expression ==
    LET Gossip_TEExpression == INSTANCE Gossip_TEExpression
    IN Gossip_TEExpression!expression
----

_trace ==
    LET Gossip_TETrace == INSTANCE Gossip_TETrace
    IN Gossip_TETrace!trace
----

_inv ==
    ~(
        TLCGet("level") = Len(_TETrace)
        /\
        leaveEv = ({})
        /\
        snaps = ({})
        /\
        msgs = ({})
        /\
        held = ((a :> <<TRUE>> @@ b :> <<FALSE>>))
        /\
        joined = ({a, b})
        /\
        nsnaps = (0)
        /\
        clock = (8)
        /\
        remote = ((a :> (a :> <<-1>> @@ b :> <<0>>) @@ b :> (a :> <<0>> @@ b :> <<-1>>)))
        /\
        local = ((a :> <<0>> @@ b :> <<0>>))
        /\
        rd = ({})
        /\
        lastClaim = ((a :> <<6>> @@ b :> <<2>>))
        /\
        left = ({})
        /\
        nclaims = (3)
        /\
        dups = (0)
        /\
        pend = ((a :> {} @@ b :> {}))
    )
----

_init ==
    /\ dups = _TETrace[1].dups
    /\ pend = _TETrace[1].pend
    /\ clock = _TETrace[1].clock
    /\ snaps = _TETrace[1].snaps
    /\ rd = _TETrace[1].rd
    /\ leaveEv = _TETrace[1].leaveEv
    /\ msgs = _TETrace[1].msgs
    /\ left = _TETrace[1].left
    /\ remote = _TETrace[1].remote
    /\ joined = _TETrace[1].joined
    /\ held = _TETrace[1].held
    /\ local = _TETrace[1].local
    /\ nclaims = _TETrace[1].nclaims
    /\ lastClaim = _TETrace[1].lastClaim
    /\ nsnaps = _TETrace[1].nsnaps
----

_next ==
    /\ \E i,j \in DOMAIN _TETrace:
        /\ \/ /\ j = i + 1
              /\ i = TLCGet("level")
        /\ dups  = _TETrace[i].dups
        /\ dups' = _TETrace[j].dups
        /\ pend  = _TETrace[i].pend
        /\ pend' = _TETrace[j].pend
        /\ clock  = _TETrace[i].clock
        /\ clock' = _TETrace[j].clock
        /\ snaps  = _TETrace[i].snaps
        /\ snaps' = _TETrace[j].snaps
        /\ rd  = _TETrace[i].rd
        /\ rd' = _TETrace[j].rd
        /\ leaveEv  = _TETrace[i].leaveEv
        /\ leaveEv' = _TETrace[j].leaveEv
        /\ msgs  = _TETrace[i].msgs
        /\ msgs' = _TETrace[j].msgs
        /\ left  = _TETrace[i].left
        /\ left' = _TETrace[j].left
        /\ remote  = _TETrace[i].remote
        /\ remote' = _TETrace[j].remote
        /\ joined  = _TETrace[i].joined
        /\ joined' = _TETrace[j].joined
        /\ held  = _TETrace[i].held
        /\ held' = _TETrace[j].held
        /\ local  = _TETrace[i].local
        /\ local' = _TETrace[j].local
        /\ nclaims  = _TETrace[i].nclaims
        /\ nclaims' = _TETrace[j].nclaims
        /\ lastClaim  = _TETrace[i].lastClaim
        /\ lastClaim' = _TETrace[j].lastClaim
        /\ nsnaps  = _TETrace[i].nsnaps
        /\ nsnaps' = _TETrace[j].nsnaps

\* Uncomment the ASSUME below to write the states of the error trace
\* to the given file in Json format. Note that you can pass any tuple
\* to `JsonSerialize`. For example, a sub-sequence of _TETrace.
    \* ASSUME
    \*     LET J == INSTANCE Json
    \*         IN J!JsonSerialize("Gossip_TTrace_1790404001.json", _TETrace)

=============================================================================

 Note that you can extract this module `Gossip_TEExpression`
  to a dedicated file to reuse `expression` (the module in the 
  dedicated `Gossip_TEExpression.tla` file takes precedence 
  over the module `Gossip_TEExpression` below).

---- MODULE Gossip_TEExpression ----
EXTENDS Sequences, TLCExt, Gossip, Gossip_TEConstants, Toolbox, Naturals, TLC

expression == 
    [
        \* To hide variables of the `Gossip` spec from the error trace,
        \* remove the variables below.  The trace will be written in the order
        \* of the fields of this record.
        dups |-> dups
        ,pend |-> pend
        ,clock |-> clock
        ,snaps |-> snaps
        ,rd |-> rd
        ,leaveEv |-> leaveEv
        ,msgs |-> msgs
        ,left |-> left
        ,remote |-> remote
        ,joined |-> joined
        ,held |-> held
        ,local |-> local
        ,nclaims |-> nclaims
        ,lastClaim |-> lastClaim
        ,nsnaps |-> nsnaps
        
        \* Put additional constant-, state-, and action-level expressions here:
        \* ,_stateNumber |-> _TEPosition
        \* ,_dupsUnchanged |-> dups = dups'
        
        \* Format the `dups` variable as Json value.
        \* ,_dupsJson |->
        \*     LET J == INSTANCE Json
        \*     IN J!ToJson(dups)
        
        \* Lastly, you may build expressions over arbitrary sets of states by
        \* leveraging the _TETrace operator.  For example, this is how to
        \* count the number of times a spec variable changed up to the current
        \* state in the trace.
        \* ,_dupsModCount |->
        \*     LET F[s \in DOMAIN _TETrace] ==
        \*         IF s = 1 THEN 0
        \*         ELSE IF _TETrace[s].dups # _TETrace[s-1].dups
        \*             THEN 1 + F[s-1] ELSE F[s-1]
        \*     IN F[_TEPosition - 1]
    ]

=============================================================================



Parsing and semantic processing can take forever if the trace below is long.
 In this case, it is advised to uncomment the module below to deserialize the
 trace from a generated binary file.

\*
\*---- MODULE Gossip_TETrace ----
\*EXTENDS IOUtils, Gossip, Gossip_TEConstants, TLC
\*
\*trace == IODeserialize("Gossip_TTrace_1790404001.bin", TRUE)
\*
\*=============================================================================
\*

---- MODULE Gossip_TETrace ----
EXTENDS Gossip, Gossip_TEConstants, TLC

trace == 
    <<
    ([leaveEv |-> {},snaps |-> {},msgs |-> {},held |-> (a :> <<FALSE>> @@ b :> <<FALSE>>),joined |-> {a, b},nsnaps |-> 0,clock |-> 0,remote |-> (a :> (a :> <<-1>> @@ b :> <<0>>) @@ b :> (a :> <<0>> @@ b :> <<-1>>)),local |-> (a :> <<0>> @@ b :> <<0>>),rd |-> {},lastClaim |-> (a :> <<0>> @@ b :> <<0>>),left |-> {},nclaims |-> 0,dups |-> 0,pend |-> (a :> {} @@ b :> {})]),
    ([leaveEv |-> {},snaps |-> {},msgs |-> {},held |-> (a :> <<TRUE>> @@ b :> <<FALSE>>),joined |-> {a, b},nsnaps |-> 0,clock |-> 1,remote |-> (a :> (a :> <<-1>> @@ b :> <<0>>) @@ b :> (a :> <<0>> @@ b :> <<-1>>)),local |-> (a :> <<1>> @@ b :> <<0>>),rd |-> {},lastClaim |-> (a :> <<1>> @@ b :> <<0>>),left |-> {},nclaims |-> 1,dups |-> 0,pend |-> (a :> {[sh |-> 1, type |-> "register", cts |-> 1]} @@ b :> {})]),
    ([leaveEv |-> {},snaps |-> {},msgs |-> {},held |-> (a :> <<TRUE>> @@ b :> <<TRUE>>),joined |-> {a, b},nsnaps |-> 0,clock |-> 2,remote |-> (a :> (a :> <<-1>> @@ b :> <<0>>) @@ b :> (a :> <<0>> @@ b :> <<-1>>)),local |-> (a :> <<1>> @@ b :> <<2>>),rd |-> {},lastClaim |-> (a :> <<1>> @@ b :> <<2>>),left |-> {},nclaims |-> 2,dups |-> 0,pend |-> (a :> {[sh |-> 1, type |-> "register", cts |-> 1]} @@ b :> {[sh |-> 1, type |-> "register", cts |-> 2]})]),
    ([leaveEv |-> {},snaps |-> {},msgs |-> {},held |-> (a :> <<TRUE>> @@ b :> <<FALSE>>),joined |-> {a, b},nsnaps |-> 0,clock |-> 2,remote |-> (a :> (a :> <<-1>> @@ b :> <<0>>) @@ b :> (a :> <<0>> @@ b :> <<-1>>)),local |-> (a :> <<1>> @@ b :> <<0>>),rd |-> {},lastClaim |-> (a :> <<1>> @@ b :> <<2>>),left |-> {},nclaims |-> 2,dups |-> 0,pend |-> (a :> {[sh |-> 1, type |-> "register", cts |-> 1]} @@ b :> {[sh |-> 1, type |-> "register", cts |-> 2], [sh |-> 1, type |-> "unregister", cts |-> 0]})]),
    ([leaveEv |-> {},snaps |-> {},msgs |-> {[sh |-> 1, type |-> "register", from |-> a, to |-> b, ts |-> 1]},held |-> (a :> <<TRUE>> @@ b :> <<FALSE>>),joined |-> {a, b},nsnaps |-> 0,clock |-> 3,remote |-> (a :> (a :> <<-1>> @@ b :> <<0>>) @@ b :> (a :> <<0>> @@ b :> <<-1>>)),local |-> (a :> <<1>> @@ b :> <<0>>),rd |-> {},lastClaim |-> (a :> <<1>> @@ b :> <<2>>),left |-> {},nclaims |-> 2,dups |-> 0,pend |-> (a :> {} @@ b :> {[sh |-> 1, type |-> "register", cts |-> 2], [sh |-> 1, type |-> "unregister", cts |-> 0]})]),
    ([leaveEv |-> {},snaps |-> {},msgs |-> {[sh |-> 1, type |-> "register", from |-> a, to |-> b, ts |-> 1], [sh |-> 1, type |-> "register", from |-> b, to |-> a, ts |-> 2]},held |-> (a :> <<TRUE>> @@ b :> <<FALSE>>),joined |-> {a, b},nsnaps |-> 0,clock |-> 4,remote |-> (a :> (a :> <<-1>> @@ b :> <<0>>) @@ b :> (a :> <<0>> @@ b :> <<-1>>)),local |-> (a :> <<1>> @@ b :> <<0>>),rd |-> {},lastClaim |-> (a :> <<1>> @@ b :> <<2>>),left |-> {},nclaims |-> 2,dups |-> 0,pend |-> (a :> {} @@ b :> {[sh |-> 1, type |-> "unregister", cts |-> 0]})]),
    ([leaveEv |-> {},snaps |-> {},msgs |-> {[sh |-> 1, type |-> "register", from |-> a, to |-> b, ts |-> 1], [sh |-> 1, type |-> "register", from |-> b, to |-> a, ts |-> 2], [sh |-> 1, type |-> "unregister", from |-> b, to |-> a, ts |-> 5]},held |-> (a :> <<TRUE>> @@ b :> <<FALSE>>),joined |-> {a, b},nsnaps |-> 0,clock |-> 5,remote |-> (a :> (a :> <<-1>> @@ b :> <<0>>) @@ b :> (a :> <<0>> @@ b :> <<-1>>)),local |-> (a :> <<1>> @@ b :> <<0>>),rd |-> {},lastClaim |-> (a :> <<1>> @@ b :> <<2>>),left |-> {},nclaims |-> 2,dups |-> 0,pend |-> (a :> {} @@ b :> {})]),
    ([leaveEv |-> {},snaps |-> {},msgs |-> {[sh |-> 1, type |-> "register", from |-> b, to |-> a, ts |-> 2], [sh |-> 1, type |-> "unregister", from |-> b, to |-> a, ts |-> 5]},held |-> (a :> <<TRUE>> @@ b :> <<FALSE>>),joined |-> {a, b},nsnaps |-> 0,clock |-> 5,remote |-> (a :> (a :> <<-1>> @@ b :> <<0>>) @@ b :> (a :> <<0>> @@ b :> <<-1>>)),local |-> (a :> <<1>> @@ b :> <<0>>),rd |-> {[sh |-> 1, from |-> a, to |-> b, ts |-> 1, snap |-> 0]},lastClaim |-> (a :> <<1>> @@ b :> <<2>>),left |-> {},nclaims |-> 2,dups |-> 0,pend |-> (a :> {} @@ b :> {})]),
    ([leaveEv |-> {},snaps |-> {},msgs |-> {[sh |-> 1, type |-> "register", from |-> b, to |-> a, ts |-> 2]},held |-> (a :> <<TRUE>> @@ b :> <<FALSE>>),joined |-> {a, b},nsnaps |-> 0,clock |-> 5,remote |-> (a :> (a :> <<-1>> @@ b :> <<0>>) @@ b :> (a :> <<0>> @@ b :> <<-1>>)),local |-> (a :> <<1>> @@ b :> <<0>>),rd |-> {[sh |-> 1, from |-> a, to |-> b, ts |-> 1, snap |-> 0]},lastClaim |-> (a :> <<1>> @@ b :> <<2>>),left |-> {},nclaims |-> 2,dups |-> 0,pend |-> (a :> {} @@ b :> {})]),
    ([leaveEv |-> {},snaps |-> {},msgs |-> {[sh |-> 1, type |-> "register", from |-> b, to |-> a, ts |-> 2]},held |-> (a :> <<TRUE>> @@ b :> <<FALSE>>),joined |-> {a, b},nsnaps |-> 0,clock |-> 5,remote |-> (a :> (a :> <<-1>> @@ b :> <<0>>) @@ b :> (a :> <<0>> @@ b :> <<-1>>)),local |-> (a :> <<1>> @@ b :> <<0>>),rd |-> {},lastClaim |-> (a :> <<1>> @@ b :> <<2>>),left |-> {},nclaims |-> 2,dups |-> 0,pend |-> (a :> {} @@ b :> {})]),
    ([leaveEv |-> {},snaps |-> {},msgs |-> {},held |-> (a :> <<TRUE>> @@ b :> <<FALSE>>),joined |-> {a, b},nsnaps |-> 0,clock |-> 5,remote |-> (a :> (a :> <<-1>> @@ b :> <<0>>) @@ b :> (a :> <<0>> @@ b :> <<-1>>)),local |-> (a :> <<1>> @@ b :> <<0>>),rd |-> {[sh |-> 1, from |-> b, to |-> a, ts |-> 2, snap |-> 1]},lastClaim |-> (a :> <<1>> @@ b :> <<2>>),left |-> {},nclaims |-> 2,dups |-> 0,pend |-> (a :> {} @@ b :> {})]),
    ([leaveEv |-> {},snaps |-> {},msgs |-> {},held |-> (a :> <<TRUE>> @@ b :> <<FALSE>>),joined |-> {a, b},nsnaps |-> 0,clock |-> 6,remote |-> (a :> (a :> <<-1>> @@ b :> <<0>>) @@ b :> (a :> <<0>> @@ b :> <<-1>>)),local |-> (a :> <<6>> @@ b :> <<0>>),rd |-> {[sh |-> 1, from |-> b, to |-> a, ts |-> 2, snap |-> 1]},lastClaim |-> (a :> <<6>> @@ b :> <<2>>),left |-> {},nclaims |-> 3,dups |-> 0,pend |-> (a :> {[sh |-> 1, type |-> "register", cts |-> 6]} @@ b :> {})]),
    ([leaveEv |-> {},snaps |-> {},msgs |-> {[sh |-> 1, type |-> "register", from |-> a, to |-> b, ts |-> 6]},held |-> (a :> <<TRUE>> @@ b :> <<FALSE>>),joined |-> {a, b},nsnaps |-> 0,clock |-> 7,remote |-> (a :> (a :> <<-1>> @@ b :> <<0>>) @@ b :> (a :> <<0>> @@ b :> <<-1>>)),local |-> (a :> <<6>> @@ b :> <<0>>),rd |-> {[sh |-> 1, from |-> b, to |-> a, ts |-> 2, snap |-> 1]},lastClaim |-> (a :> <<6>> @@ b :> <<2>>),left |-> {},nclaims |-> 3,dups |-> 0,pend |-> (a :> {} @@ b :> {})]),
    ([leaveEv |-> {},snaps |-> {},msgs |-> {[sh |-> 1, type |-> "register", from |-> a, to |-> b, ts |-> 6]},held |-> (a :> <<TRUE>> @@ b :> <<FALSE>>),joined |-> {a, b},nsnaps |-> 0,clock |-> 7,remote |-> (a :> (a :> <<-1>> @@ b :> <<0>>) @@ b :> (a :> <<0>> @@ b :> <<-1>>)),local |-> (a :> <<0>> @@ b :> <<0>>),rd |-> {},lastClaim |-> (a :> <<6>> @@ b :> <<2>>),left |-> {},nclaims |-> 3,dups |-> 0,pend |-> (a :> {[sh |-> 1, type |-> "unregister", cts |-> 0]} @@ b :> {})]),
    ([leaveEv |-> {},snaps |-> {},msgs |-> {[sh |-> 1, type |-> "register", from |-> a, to |-> b, ts |-> 6], [sh |-> 1, type |-> "unregister", from |-> a, to |-> b, ts |-> 8]},held |-> (a :> <<TRUE>> @@ b :> <<FALSE>>),joined |-> {a, b},nsnaps |-> 0,clock |-> 8,remote |-> (a :> (a :> <<-1>> @@ b :> <<0>>) @@ b :> (a :> <<0>> @@ b :> <<-1>>)),local |-> (a :> <<0>> @@ b :> <<0>>),rd |-> {},lastClaim |-> (a :> <<6>> @@ b :> <<2>>),left |-> {},nclaims |-> 3,dups |-> 0,pend |-> (a :> {} @@ b :> {})]),
    ([leaveEv |-> {},snaps |-> {},msgs |-> {[sh |-> 1, type |-> "register", from |-> a, to |-> b, ts |-> 6]},held |-> (a :> <<TRUE>> @@ b :> <<FALSE>>),joined |-> {a, b},nsnaps |-> 0,clock |-> 8,remote |-> (a :> (a :> <<-1>> @@ b :> <<0>>) @@ b :> (a :> <<0>> @@ b :> <<-1>>)),local |-> (a :> <<0>> @@ b :> <<0>>),rd |-> {},lastClaim |-> (a :> <<6>> @@ b :> <<2>>),left |-> {},nclaims |-> 3,dups |-> 0,pend |-> (a :> {} @@ b :> {})]),
    ([leaveEv |-> {},snaps |-> {},msgs |-> {},held |-> (a :> <<TRUE>> @@ b :> <<FALSE>>),joined |-> {a, b},nsnaps |-> 0,clock |-> 8,remote |-> (a :> (a :> <<-1>> @@ b :> <<0>>) @@ b :> (a :> <<0>> @@ b :> <<-1>>)),local |-> (a :> <<0>> @@ b :> <<0>>),rd |-> {[sh |-> 1, from |-> a, to |-> b, ts |-> 6, snap |-> 0]},lastClaim |-> (a :> <<6>> @@ b :> <<2>>),left |-> {},nclaims |-> 3,dups |-> 0,pend |-> (a :> {} @@ b :> {})]),
    ([leaveEv |-> {},snaps |-> {},msgs |-> {},held |-> (a :> <<TRUE>> @@ b :> <<FALSE>>),joined |-> {a, b},nsnaps |-> 0,clock |-> 8,remote |-> (a :> (a :> <<-1>> @@ b :> <<0>>) @@ b :> (a :> <<0>> @@ b :> <<-1>>)),local |-> (a :> <<0>> @@ b :> <<0>>),rd |-> {},lastClaim |-> (a :> <<6>> @@ b :> <<2>>),left |-> {},nclaims |-> 3,dups |-> 0,pend |-> (a :> {} @@ b :> {})])
    >>
----


=============================================================================

---- MODULE Gossip_TEConstants ----
EXTENDS Gossip

CONSTANTS a, b

=============================================================================

---- CONFIG Gossip_TTrace_1790404001 ----
CONSTANTS
    Inst = { a , b }
    Sh = { 1 }
    MaxClaims = 3
    MaxDup = 1
    MaxSnap = 0
    AllowLeave = FALSE
    AllowRelease = TRUE
    TsFix = TRUE
    Late = { }
    NeedKnown = FALSE
    SplitDeliver = TRUE
    GuardedEvict = FALSE
    a = a
    b = b

INVARIANT
    _inv

CHECK_DEADLOCK
    \* CHECK_DEADLOCK off because of PROPERTY or INVARIANT above.
    FALSE

INIT
    _init

NEXT
    _next

CONSTANT
    _TETrace <- _trace

ALIAS
    _expression
=============================================================================
\* Generated on Sat Sep 26 06:26:49 UTC 2026