SPECIFICATION Spec
CONSTANTS
  Inst = {a, b}
  Sh = {1, 2}
  MaxClaims = 3
  MaxDup = 0
  MaxSnap = 0
  AllowLeave = FALSE
  AllowRelease = FALSE
  TsFix = TRUE
  Late = {}
  NeedKnown = FALSE
  SplitDeliver = FALSE
  GuardedEvict = TRUE
INVARIANTS SingleNewestOwner
CHECK_DEADLOCK FALSE
