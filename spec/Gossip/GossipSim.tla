------------------------------ MODULE GossipSim ------------------------------
(* Behaviour generator: Gossip plus the history of actions with the identity  *)
(* of every announcement / snapshot, so that the harness can deliver the REAL *)
(* captured bytes that correspond to each model message.                      *)
EXTENDS Gossip, Sequences, Json
CONSTANT Depth
VARIABLE hist
Cmd(r) == hist' = Append(hist, r)
SimInit == Init /\ hist = <<>>
AnnTs(a) == IF TsFix /\ a.type = "register" THEN a.cts ELSE clock + 1
SimStepJ ==
  \/ \E i \in Inst, sh \in Sh : Claim(i, sh) /\ Cmd([a |-> "Claim", i |-> i, sh |-> sh])
  \/ \E i \in Inst, sh \in Sh : Release(i, sh) /\ Cmd([a |-> "Release", i |-> i, sh |-> sh])
  \/ \E i \in Inst : \E a \in pend[i] : Announce(i, a) /\ Cmd([a |-> "Announce", i |-> i, sh |-> a.sh, type |-> a.type, ts |-> AnnTs(a)])
  \/ \E m \in msgs : \E keep \in BOOLEAN : Deliver(m, keep)
        /\ Cmd([a |-> "Deliver", i |-> m.from, j |-> m.to, sh |-> m.sh, type |-> m.type, ts |-> m.ts, keep |-> keep])
  \/ \E i, j \in Inst : Snapshot(i, j) /\ Cmd([a |-> "Snapshot", i |-> i, j |-> j, val |-> nsnaps])
  \/ \E s \in snaps : Merge(s) /\ Cmd([a |-> "Merge", i |-> s.from, j |-> s.to, val |-> s.id])
  \/ \E i \in Inst : Leave(i) /\ Cmd([a |-> "Leave", i |-> i])
  \/ \E e \in leaveEv : NotifyLeave(e) /\ Cmd([a |-> "NotifyLeave", i |-> e[1], j |-> e[2]])
SimStep ==
  \/ (\E i \in Inst : Join(i) /\ Cmd([a |-> "Join", i |-> i, val |-> nsnaps])) /\ UNCHANGED rd
  \/ J(SimStepJ)
  \/ \E m \in msgs : \E keep \in BOOLEAN : DRead(m, keep)
        /\ Cmd([a |-> "Read", i |-> m.from, j |-> m.to, sh |-> m.sh, type |-> m.type, ts |-> m.ts, keep |-> keep])
  \/ \E r \in rd : DEvict(r) /\ Cmd([a |-> "Evict", i |-> r.from, j |-> r.to, sh |-> r.sh, type |-> "register", ts |-> r.ts])
Pad == ~ENABLED Next /\ Cmd([a |-> "Pad"]) /\ UNCHANGED vars
SimNext == /\ Len(hist) < Depth
           /\ (SimStep \/ Pad)
           /\ (Len(hist') = Depth => PrintT(ToJson(hist')))
=============================================================================
