#!/usr/bin/env python3
def cfg(name, inst="{a, b}", sh="{1}", claims=2, dup=0, snap=0, leave="FALSE", release="FALSE", tsfix="TRUE", invs="SingleNewestOwner", depth=None, late="{}", needknown="FALSE", split="FALSE", guarded="TRUE"):
    out = "INIT SimInit\nNEXT SimNext\n" if depth else "SPECIFICATION Spec\n"
    out += "CONSTANTS\n  Inst = %s\n  Sh = %s\n  MaxClaims = %d\n  MaxDup = %d\n  MaxSnap = %d\n  AllowLeave = %s\n  AllowRelease = %s\n  TsFix = %s\n  Late = %s\n  NeedKnown = %s\n  SplitDeliver = %s\n  GuardedEvict = %s\n" % (
        inst, sh, claims, dup, snap, leave, release, tsfix, late, needknown, split, guarded)
    if depth:
        out += "  Depth = %d\n" % depth
    else:
        out += "INVARIANTS %s\n" % invs
    out += "CHECK_DEADLOCK FALSE\n"
    open(name + ".cfg", "w").write(out)
cfg("g_pinned", tsfix="FALSE")                                   # pinned tree: mutual eviction in 7 steps
cfg("g_fix2", claims=3, dup=1, release="TRUE")                   # 2 instances, re-claims, duplicates, releases
cfg("g_fix2s", sh="{1, 2}", claims=3, dup=0, release="FALSE")    # 2 shards
cfg("g_fix3", inst="{a, b, c}", claims=3, dup=1)                 # 3 instances
cfg("g_leave", claims=2, snap=2, leave="TRUE", invs="LeftOwnNothing")
cfg("g_leave_own", claims=3, dup=1, snap=1, leave="TRUE", release="TRUE")   # ownership clause with leaves   # known finding: merge after leave
cfg("g_fix2_t", claims=4, dup=1, release="TRUE")
cfg("g_fix3_t", inst="{a, b, c}", claims=3, dup=1, release="TRUE")
cfg("sim_g", inst="{a, b, c}", sh="{1, 2}", claims=4, dup=2, snap=2, leave="TRUE", release="TRUE", depth=22)
cfg("sim_g2", inst="{a, b}", sh="{1}", claims=3, dup=1, snap=2, leave="TRUE", release="TRUE", depth=16)
# an instance joins late: its announcements reach members that have not merged its state yet
cfg("g_join2", claims=3, dup=1, snap=1, release="TRUE", late="{a}")
cfg("g_join3", inst="{a, b, c}", claims=3, dup=0, snap=0, late="{a}")
cfg("sim_gj", inst="{a, b}", sh="{1}", claims=3, dup=1, snap=1, leave="FALSE", release="TRUE", depth=16, late="{a}")
cfg("sim_gj3", inst="{a, b, c}", sh="{1, 2}", claims=4, dup=1, snap=1, leave="FALSE", release="TRUE", depth=22, late="{a}")
cfg("g_join2_needknown", claims=3, dup=1, snap=1, release="TRUE", late="{a}", needknown="TRUE")   # expected to violate
# NotifyMsg in two halves (read the local entry / act on the snapshot): a re-claim may land in between
cfg("g_split2", claims=3, dup=1, release="TRUE", split="TRUE")
cfg("g_split3", inst="{a, b, c}", claims=3, dup=0, split="TRUE")
cfg("sim_gs", inst="{a, b}", sh="{1}", claims=4, dup=1, snap=1, leave="FALSE", release="TRUE", depth=18, split="TRUE")
cfg("g_split2_unguarded", claims=3, dup=1, release="TRUE", split="TRUE", guarded="FALSE")   # expected to violate
