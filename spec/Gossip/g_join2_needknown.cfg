SPECIFICATION Spec
CONSTANTS
  Inst = {a, b}
  Sh = {1}
  MaxClaims = 3
  MaxDup = 1
  MaxSnap = 1
  AllowLeave = FALSE
  AllowRelease = TRUE
  TsFix = TRUE
  Late = {a}
  NeedKnown = TRUE
  SplitDeliver = FALSE
  GuardedEvict = TRUE
INVARIANTS SingleNewestOwner
CHECK_DEADLOCK FALSE
