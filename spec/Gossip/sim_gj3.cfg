INIT SimInit
NEXT SimNext
CONSTANTS
  Inst = {a, b, c}
  Sh = {1, 2}
  MaxClaims = 4
  MaxDup = 1
  MaxSnap = 1
  AllowLeave = FALSE
  AllowRelease = TRUE
  TsFix = TRUE
  Late = {a}
  NeedKnown = FALSE
  SplitDeliver = FALSE
  GuardedEvict = TRUE
  Depth = 22
CHECK_DEADLOCK FALSE
