---------------------------- MODULE ForwarderSim ----------------------------
(***************************************************************************)
(* Behaviour generator for C06: prints every environment script of          *)
(* ForwarderEnv!Scripts - exactly the set Forwarder.tla quantifies over in   *)
(* its Init - as one JSON line:                                              *)
(*   {"cmds":[{"c":"S","m":"-"},...], "fault":{"k":..,"p":..}, "sync":..}    *)
(* The proxy's internal interleavings cannot be scheduled from outside (no   *)
(* hooks), so a schedule is the environment's part of a behaviour: message   *)
(* counts, end mode, position of the end, what follows it, injected fault.   *)
(***************************************************************************)
EXTENDS ForwarderEnv, TLC, Json
VARIABLE script
SimInit == script \in Scripts /\ PrintT(ToJson(script))
SimNext == UNCHANGED script
=============================================================================
