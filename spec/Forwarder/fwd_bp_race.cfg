SPECIFICATION Spec
CONSTANTS
  K = 2
  SrcEnds = {"eof", "err"}
  IniEnds = {"closesend", "cancel"}
  Faults = {}
  Lifetime = TRUE
  Post = FALSE
  Syncs = {FALSE}
  SrcKinds = {"coop", "silent"}
  RaceHandoff = TRUE
  LatchMsg = TRUE
  LatchAck = TRUE
  CloseSendOnExit = TRUE
  CancelOnReturn = TRUE
  FmsgWakesOnLatch = TRUE
  NetCap = 1
  HandoffTimeout = FALSE
INVARIANTS InOrder NoUnknownForwarded NoStuck EveryScriptEnds
CHECK_DEADLOCK FALSE
