---------------------------- MODULE ForwarderObs ----------------------------
(***************************************************************************)
(* Observation monitor for C06 on what the REAL                             *)
(* adminServiceProxyServer.StreamWorkflowReplicationMessages /              *)
(* StreamForwarder did between a scripted source cluster and a real         *)
(* initiator over real gRPC (trace.ndjson, one run per Config event).        *)
(* History only: what each peer sent and received, as <<id, digest>>.        *)
(* Violated clauses go to register 1 as <<line, clause, detail, number>>:    *)
(*   order      a peer received something that is not the next element of    *)
(*              what the other peer sent (lost in the middle, duplicated,    *)
(*              reordered)                       = Forwarder!InOrder         *)
(*   modified   same position, different bytes                               *)
(*   unknown    a message of unknown kind was forwarded                      *)
(*              = Forwarder!NoUnknownForwarded                               *)
(*   incomplete a delivery barrier BEFORE the first end of the run expired:  *)
(*              a message that races no end did not arrive (3 s)             *)
(*              = Forwarder!Complete.  Messages sent after / together with   *)
(*              an end are not judged (tail loss at an end is an             *)
(*              observation, see DESIGN 3.5)                                 *)
(*   handler / inihalfopen / srchalfopen   after the script, within the      *)
(*              deadline: the handler has not returned / the initiator's /   *)
(*              the source's Recv loop has not ended   = Forwarder!AllDone   *)
(*   twin       a second stream with the same cluster / shard metadata,       *)
(*              opened while the first is up, did not reach the source / did  *)
(*              not end when half-closed (streams are relayed independently)  *)
(*   stuck      forwarder goroutines (startListener, forwardAcks,            *)
(*              forwardReplicationMessages, Run) still alive after both      *)
(*              peers were done and the deadline passed = Forwarder!NoStuck  *)
(***************************************************************************)
EXTENDS Integers, Sequences, FiniteSets, TLC, Json
Trace == ndJsonDeserialize("trace.ndjson")
ASSUME TLCSet(1, {})
VARIABLES l, sSent, iGot, iSent, sGot
vars == <<l, sSent, iGot, iSent, sGot>>
FlagAll(S) == IF S = {} THEN TRUE ELSE TLCSet(1, TLCGet(1) \cup S)
Init == l = 1 /\ sSent = <<>> /\ iGot = <<>> /\ iSent = <<>> /\ sGot = <<>>

\* the k-th thing received must be the k-th thing sent
Judge(sent, got, e, dir) ==
  LET k == Len(got) + 1 IN
  IF k > Len(sent) \/ sent[k].id # e.id THEN {<<l, "order", dir, e.id>>}
  ELSE IF sent[k].unk THEN {<<l, "unknown", dir, e.id>>}
  ELSE IF sent[k].dg # e.dg THEN {<<l, "modified", dir, e.id>>}
  ELSE {}
Rec(e) == [id |-> e.id, dg |-> e.dg, unk |-> e.unk]

Next ==
  /\ l <= Len(Trace) /\ l' = l + 1
  /\ LET e == Trace[l] IN
     CASE e.ev = "Config" -> sSent' = <<>> /\ iGot' = <<>> /\ iSent' = <<>> /\ sGot' = <<>>
       [] e.ev = "SrcSent" -> sSent' = Append(sSent, Rec(e)) /\ UNCHANGED <<iGot, iSent, sGot>>
       [] e.ev = "IniSent" -> iSent' = Append(iSent, Rec(e)) /\ UNCHANGED <<sSent, iGot, sGot>>
       [] e.ev = "IniGot" -> /\ FlagAll(Judge(sSent, iGot, e, "msg"))
                             /\ iGot' = Append(iGot, [id |-> e.id, dg |-> e.dg]) /\ UNCHANGED <<sSent, iSent, sGot>>
       [] e.ev = "SrcGot" -> /\ FlagAll(Judge(iSent, sGot, e, "ack"))
                             /\ sGot' = Append(sGot, [id |-> e.id, dg |-> e.dg]) /\ UNCHANGED <<sSent, iGot, iSent>>
       [] e.ev = "Barrier" -> /\ FlagAll(IF ~e.ok /\ ~e.ended
                                         THEN LET c == {t \in {<<l, "incomplete", "msg", Len(sSent) - Len(iGot)>>,
                                                               <<l, "incomplete", "ack", Len(iSent) - Len(sGot)>>} : t[4] > 0}
                                              IN IF c = {} THEN {<<l, "incomplete", "none", 0>>} ELSE c
                                         ELSE {})
                              /\ UNCHANGED <<sSent, iGot, iSent, sGot>>
       [] e.ev = "Final" -> /\ FlagAll((IF ~e.handler THEN {<<l, "handler", "final", 0>>} ELSE {})
                                       \cup (IF ~e.ini THEN {<<l, "inihalfopen", "final", 0>>} ELSE {})
                                       \cup (IF ~e.src THEN {<<l, "srchalfopen", "final", 0>>} ELSE {}))
                            /\ UNCHANGED <<sSent, iGot, iSent, sGot>>
       \* TW: a second stream with the same metadata, opened while the first is up, reaches the source and ends when half-closed
       [] e.ev = "Twin" -> /\ FlagAll(IF ~e.opened THEN {<<l, "twin", "notserved", 0>>} ELSE {})
                           /\ UNCHANGED <<sSent, iGot, iSent, sGot>>
       [] e.ev = "TwinEnd" -> /\ FlagAll(IF ~e.ok THEN {<<l, "twin", "halfopen", 0>>} ELSE {})
                              /\ UNCHANGED <<sSent, iGot, iSent, sGot>>
       [] e.ev = "Census" -> /\ FlagAll(IF e.stuck > 0 THEN {<<l, "stuck", e.kinds, e.stuck>>} ELSE {})
                             /\ UNCHANGED <<sSent, iGot, iSent, sGot>>
       [] OTHER -> UNCHANGED <<sSent, iGot, iSent, sGot>>
Spec == Init /\ [][Next]_vars
Report == PrintT(<<"OBS_VIOLATIONS", TLCGet(1)>>) /\ PrintT(<<"OBS_TRACE_LEN", Len(Trace)>>)
=============================================================================
