---------------------------- MODULE ForwarderEnv ----------------------------
(***************************************************************************)
(* C06: the environment of one pass-through stream, as a finite set of      *)
(* SCRIPTS.  A script is what the two peers (and the operator) do, in one   *)
(* total order:                                                             *)
(*   S        the source server sends its next replication message          *)
(*   I        the initiator sends its next sync-state message (ack)         *)
(*   SE m     the source handler returns: m = eof (nil) | err (status)      *)
(*   IE m     the initiator ends: m = closesend | cancel                    *)
(*   L        the proxy's lifetime context ends (client conn closed,        *)
(*            server GracefulStop: cluster_connection.go)                   *)
(* plus at most one injected fault [k, p]:                                  *)
(*   unkMsg / unkAck        the p-th message of that direction has nil      *)
(*                          attributes (unknown kind)                       *)
(*   tgtSendFail/srcSendFail the proxy's p-th Send towards the initiator /  *)
(*                          the source fails                                *)
(*   openFail               the source cluster cannot be reached            *)
(* and sync: TRUE = a delivery barrier before every command (everything     *)
(* sent so far has arrived; after the first end: everything is torn down),  *)
(* FALSE = the commands are fired back to back and race the proxy.          *)
(* A side that has no end command does not end by itself; src says what the *)
(* source does when its Recv loop sees the proxy's half-close:              *)
(*   coop   it returns (Temporal's stream sender does)                      *)
(*   silent it ignores the half-close and returns only when its stream's    *)
(*          context is done (a handler that is busy sending / waiting)      *)
(* The initiator just keeps receiving.  The property does not depend on the *)
(* peer's good will: "the other side is closed and the handler returns".    *)
(* Payloads: what the k-th message carries is a binding dimension (the      *)
(* relay is content-oblivious in the design): "inc" watermarks increase,    *)
(* "flat" they repeat and go back (heartbeats, duplicate acks).             *)
(* A script = (message counts, end mode, position of the end relative to    *)
(* the other direction, what is attempted after the end, fault).            *)
(* Forwarder.tla model-checks the proxy against every script; ForwarderSim  *)
(* prints every script as JSON; the harness replays exactly those.          *)
(***************************************************************************)
EXTENDS Integers, Sequences, FiniteSets

CONSTANTS K,          \* at most K messages per direction before the first end
          SrcEnds,    \* \subseteq {"eof", "err"}
          IniEnds,    \* \subseteq {"closesend", "cancel"}
          Faults,     \* \subseteq {"unkMsg", "unkAck", "tgtSendFail", "srcSendFail", "openFail"}
          Lifetime,   \* BOOLEAN: scripts with L
          Post,       \* BOOLEAN: scripts that go on after the first end (one more send / the other side's end)
          Syncs,      \* \subseteq BOOLEAN
          SrcKinds    \* \subseteq {"coop", "silent"}
Payloads == {"inc", "flat"}

C(c, m) == [c |-> c, m |-> m]
NoFault == [k |-> "none", p |-> 0]
Cnt(q, x) == Cardinality({i \in DOMAIN q : q[i] = x})
Pre == {q \in UNION {[1..n -> {"S", "I"}] : n \in 0..(2 * K)} : Cnt(q, "S") <= K /\ Cnt(q, "I") <= K}
PreCmds(q) == [i \in DOMAIN q |-> C(q[i], "-")]
SrcEndCmds == {C("SE", m) : m \in SrcEnds}
IniEndCmds == {C("IE", m) : m \in IniEnds}
FirstEnds == SrcEndCmds \cup IniEndCmds \cup (IF Lifetime THEN {C("L", "-")} ELSE {})
PostOf(e) ==
  {<<>>} \cup
  (IF ~Post THEN {}
   ELSE IF e.c = "SE" THEN {<<C("I", "-")>>} \cup {<<x>> : x \in IniEndCmds}
   ELSE IF e.c = "IE" THEN {<<C("S", "-")>>} \cup {<<x>> : x \in SrcEndCmds}
   ELSE {<<C("S", "-")>>, <<C("I", "-")>>})
EndScripts ==
  UNION {{[cmds |-> PreCmds(q) \o <<e>> \o t, fault |-> NoFault, sync |-> s, src |-> k] : q \in Pre, t \in PostOf(e), s \in Syncs, k \in SrcKinds}
         : e \in FirstEnds}
FaultDir(k) == IF k \in {"unkMsg", "tgtSendFail"} THEN "S" ELSE "I"
FaultScripts ==
  UNION {UNION {{[cmds |-> PreCmds(q), fault |-> [k |-> k, p |-> p], sync |-> s, src |-> sk] : p \in 1..Cnt(q, FaultDir(k)), s \in Syncs, sk \in SrcKinds}
                : q \in Pre}
         : k \in Faults \ {"openFail"}}
OpenFailScripts == IF "openFail" \in Faults THEN {[cmds |-> <<>>, fault |-> [k |-> "openFail", p |-> 0], sync |-> TRUE, src |-> "coop"]} ELSE {}
Scripts == EndScripts \cup FaultScripts \cup OpenFailScripts
=============================================================================
