SPECIFICATION Spec
CONSTANTS
  K = 1
  SrcEnds = {"eof", "err"}
  IniEnds = {"closesend", "cancel"}
  Faults = {"unkMsg", "tgtSendFail", "srcSendFail"}
  Lifetime = TRUE
  Post = FALSE
  Syncs = {TRUE, FALSE}
  SrcKinds = {"coop", "silent"}
  RaceHandoff = TRUE
  LatchMsg = TRUE
  LatchAck = TRUE
  CloseSendOnExit = TRUE
  CancelOnReturn = TRUE
  FmsgWakesOnLatch = TRUE
  NetCap = 1
  HandoffTimeout = FALSE
PROPERTIES EndTogether Complete
CHECK_DEADLOCK FALSE
