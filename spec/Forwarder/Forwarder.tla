------------------------------ MODULE Forwarder ------------------------------
(***************************************************************************)
(* C06: pass-through replication streams (default and LCM mode).            *)
(*   proxy/adminservice.go         StreamWorkflowReplicationMessages         *)
(*   proxy/admin_stream_transfer.go handleStream, StreamForwarder.Run,       *)
(*                                  forwardReplicationMessages, forwardAcks, *)
(*                                  startListener                            *)
(*                                                                          *)
(*  initiator  --i2p-->  [Ltgt] =chan=> [Fack] --p2s-->  source server       *)
(*  (client)   <--p2i--  [Fmsg] <=chan= [Lsrc] <--s2p--  (handler)           *)
(*                                                                          *)
(* Four proxy goroutines with a pc at every Recv, channel hand-off, select   *)
(* and Send; the shutdown latch (channel.ShutdownOnce); Run's WaitGroup and  *)
(* deferred cancel.  The environment follows one script of ForwarderEnv.     *)
(*                                                                          *)
(* gRPC semantics (grpc-go):                                                 *)
(*  - the four queues are FIFO and lossless while the stream lives; an end   *)
(*    marker (EOF / ERR / HC = half-close) travels in order behind the data  *)
(*  - Recv on the proxy's CLIENT stream (Lsrc) also returns an error as soon *)
(*    as the outgoing context is done - Run's deferred cancel, or the        *)
(*    initiator's cancel (the outgoing context is derived from the server    *)
(*    stream's) - or the client conn was closed; queued data may be lost     *)
(*  - Recv on the proxy's SERVER stream (Ltgt) returns an error once the     *)
(*    initiator's cancel arrived or the HANDLER RETURNED - nothing else      *)
(*    unblocks it                                                            *)
(*  - Send to the initiator fails once its cancel arrived; Send to the       *)
(*    source fails once the outgoing context is done / conn closed, and may  *)
(*    fail or be silently lost once the source handler has returned          *)
(*  - the source's Recv ends with the half-close (the handler of a "silent"  *)
(*    source carries on regardless), or with the cancel which               *)
(*    may overtake acks that the proxy has queued (tail loss at an end)      *)
(*  - the handler's return delivers EOF (nil) / a status to the initiator    *)
(*    behind the messages already sent                                       *)
(***************************************************************************)
EXTENDS ForwarderEnv, TLC

CONSTANTS RaceHandoff,      \* TRUE: a listener's hand-off may still win its select after the latch is set
          LatchMsg,         \* the code: TRUE. forwardReplicationMessages' deferred Shutdown()
          LatchAck,         \* the code: TRUE. forwardAcks' deferred Shutdown()
          CloseSendOnExit,  \* the code: TRUE. forwardAcks' deferred CloseSend()
          CancelOnReturn,   \* the code: TRUE. Run's deferred cancel()
          FmsgWakesOnLatch, \* the code: TRUE. forwardReplicationMessages selects on the latch as well as on the data channel
          NetCap,           \* 0: Send never waits.  n > 0: back-pressure - a Send of the proxy waits while n messages are in flight
                            \* towards that peer (a slow peer: HTTP/2 flow control); it ends when the peer reads or the stream dies
          HandoffTimeout    \* the code: FALSE. a listener waits for its consumer (or the latch) as long as it takes.  TRUE: a
                            \* variant whose hand-off gives up after a while and goes back to Recv - the value in hand is lost

EOF == 0      \* end markers in the queues; messages are 1, 2, ...
ERR == -1
HC == 0

VARIABLES
  script, epc, ended,              \* environment: the script, next command, "an end has happened" (first end cmd / fault)
  srcSt,                           \* source handler: "idle" (no stream yet) | "open" | "returned"
  srcSawEnd,                       \* the source's Recv loop has ended (half-close, cancel, or its own return)
  iniSt,                           \* initiator: "open" | "halfclosed" | "cancelled"
  iniSawEnd,                       \* the initiator's Recv loop has ended
  iniCancelSeen,                   \* the initiator's cancel has reached the proxy
  connClosed,                      \* lifetime ended: the proxy's client conn to the source is closed
  s2p, p2i, i2p, p2s,              \* the four FIFO queues
  srcOut, iniIn, iniOut, srcIn,    \* history: sent by source, received by initiator, sent by initiator, received by source
  run,                             \* Run/handler: "open" | "running" | "waited" | "cancelled" | "returned"
  latch,
  lsrc, lsv, ltgt, ltv,            \* listeners: pc in "idle" | "chk" | "recv" | "send" | "done", and the value in hand
  fmsg, fmv, fack, fav,            \* relays: pc in "idle" | "start" | "select" | "got" | "send" | "ret" | "closesend" | "done"
  nT, nS                           \* number of Send calls towards the initiator / the source (fault position)

env  == <<script, epc, ended, srcSt, srcSawEnd, iniSt, iniSawEnd, iniCancelSeen, connClosed>>
net  == <<s2p, p2i, i2p, p2s>>
hist == <<srcOut, iniIn, iniOut, srcIn>>
prx  == <<run, latch, lsrc, lsv, ltgt, ltv, fmsg, fmv, fack, fav, nT, nS>>
vars == <<env, net, hist, prx>>

Init ==
  /\ script \in Scripts /\ epc = 1 /\ ended = FALSE
  /\ srcSt = "idle" /\ srcSawEnd = FALSE /\ iniSt = "open" /\ iniSawEnd = FALSE /\ iniCancelSeen = FALSE /\ connClosed = FALSE
  /\ s2p = <<>> /\ p2i = <<>> /\ i2p = <<>> /\ p2s = <<>>
  /\ srcOut = <<>> /\ iniIn = <<>> /\ iniOut = <<>> /\ srcIn = <<>>
  /\ run = "open" /\ latch = FALSE
  /\ lsrc = "idle" /\ lsv = 0 /\ ltgt = "idle" /\ ltv = 0
  /\ fmsg = "idle" /\ fmv = 0 /\ fack = "idle" /\ fav = 0 /\ nT = 0 /\ nS = 0

UnkMsg(n) == script.fault.k = "unkMsg" /\ n = script.fault.p
UnkAck(n) == script.fault.k = "unkAck" /\ n = script.fault.p
\* the context of the proxy's stream to the source: derived from the server stream's context (done when the initiator's
\* cancel arrived or the handler returned), cancelled by Run's deferred cancel
RoomFor(q) == NetCap = 0 \/ Len(SelectSeq(q, LAMBDA x : x > 0)) < NetCap
SrcCtxDone == iniCancelSeen \/ run = "returned" \/ (CancelOnReturn /\ run = "cancelled")
TornDown == run = "returned" /\ iniSawEnd /\ srcSt \in {"idle", "returned"}
Delivered == iniIn = srcOut /\ srcIn = iniOut
BarrierOK == ~script.sync \/ (IF ended THEN TornDown ELSE Delivered)

----------------------------------------------------------------------------
(* environment: the script                                                  *)
Cmd == script.cmds[epc]
EnvStep ==
  /\ epc <= Len(script.cmds) /\ run # "open" /\ BarrierOK
  /\ epc' = epc + 1
  /\ LET c == Cmd IN
     CASE c.c = "S" ->      \* fake source: stream.Send(next message) unless its handler has returned
            /\ IF srcSt = "open"
               THEN LET n == Len(srcOut) + 1 IN
                    /\ srcOut' = Append(srcOut, n) /\ s2p' = Append(s2p, n) /\ ended' = (ended \/ UnkMsg(n))
               ELSE UNCHANGED <<srcOut, s2p, ended>>
            /\ UNCHANGED <<script, srcSt, srcSawEnd, iniSt, iniSawEnd, iniCancelSeen, connClosed, p2i, i2p, p2s, iniIn, iniOut, srcIn, prx>>
       [] c.c = "I" ->      \* initiator: stream.Send(next ack) unless its stream is finished
            /\ IF iniSt = "open" /\ ~iniSawEnd
               THEN LET n == Len(iniOut) + 1 IN
                    /\ iniOut' = Append(iniOut, n) /\ i2p' = Append(i2p, n) /\ ended' = (ended \/ UnkAck(n))
               ELSE UNCHANGED <<iniOut, i2p, ended>>
            /\ UNCHANGED <<script, srcSt, srcSawEnd, iniSt, iniSawEnd, iniCancelSeen, connClosed, s2p, p2i, p2s, srcOut, iniIn, srcIn, prx>>
       [] c.c = "SE" ->     \* the source handler returns nil / a status
            /\ IF srcSt = "open"
               THEN srcSt' = "returned" /\ srcSawEnd' = TRUE /\ s2p' = Append(s2p, IF c.m = "eof" THEN EOF ELSE ERR)
               ELSE UNCHANGED <<srcSt, srcSawEnd, s2p>>
            /\ ended' = TRUE
            /\ UNCHANGED <<script, iniSt, iniSawEnd, iniCancelSeen, connClosed, p2i, i2p, p2s, hist, prx>>
       [] c.c = "IE" ->     \* the initiator half-closes / cancels its context
            /\ IF iniSt = "open"
               THEN IF c.m = "closesend" THEN iniSt' = "halfclosed" /\ i2p' = Append(i2p, HC) /\ UNCHANGED iniSawEnd
                    ELSE iniSt' = "cancelled" /\ iniSawEnd' = TRUE /\ UNCHANGED i2p
               ELSE IF iniSt = "halfclosed" /\ c.m = "cancel" THEN iniSt' = "cancelled" /\ iniSawEnd' = TRUE /\ UNCHANGED i2p
               ELSE UNCHANGED <<iniSt, iniSawEnd, i2p>>
            /\ ended' = TRUE
            /\ UNCHANGED <<script, srcSt, srcSawEnd, iniCancelSeen, connClosed, s2p, p2i, p2s, hist, prx>>
       [] c.c = "L" ->      \* lifetime: cluster_connection.go buildTLSTCPClient AfterFunc (conn.Close); GracefulStop only waits
            /\ connClosed' = TRUE /\ ended' = TRUE
            /\ UNCHANGED <<script, srcSt, srcSawEnd, iniSt, iniSawEnd, iniCancelSeen, net, hist, prx>>

\* source handler's Recv loop
SrcRecv ==
  /\ srcSt = "open" /\ ~srcSawEnd
  /\ \/ /\ p2s # <<>> /\ Head(p2s) > 0 /\ srcIn' = Append(srcIn, Head(p2s)) /\ p2s' = Tail(p2s) /\ UNCHANGED srcSawEnd
     \/ /\ p2s # <<>> /\ Head(p2s) = HC /\ script.src = "coop" /\ srcSawEnd' = TRUE /\ UNCHANGED <<srcIn, p2s>>   \* a silent source ignores it
     \/ /\ (SrcCtxDone \/ connClosed) /\ srcSawEnd' = TRUE /\ UNCHANGED <<srcIn, p2s>>     \* cancel may overtake queued acks
  /\ UNCHANGED <<script, epc, ended, srcSt, iniSt, iniSawEnd, iniCancelSeen, connClosed, s2p, p2i, i2p, srcOut, iniIn, iniOut, prx>>
\* a source that saw the end of its Recv loop returns (Temporal's stream sender does; so does the harness' fake)
SrcReturnOnEnd ==
  /\ srcSt = "open" /\ srcSawEnd /\ srcSt' = "returned" /\ s2p' = Append(s2p, EOF)
  /\ UNCHANGED <<script, epc, ended, srcSawEnd, iniSt, iniSawEnd, iniCancelSeen, connClosed, p2i, i2p, p2s, hist, prx>>
\* initiator's Recv loop
IniRecv ==
  /\ ~iniSawEnd /\ p2i # <<>>
  /\ IF Head(p2i) > 0 THEN iniIn' = Append(iniIn, Head(p2i)) /\ p2i' = Tail(p2i) /\ UNCHANGED iniSawEnd
     ELSE iniSawEnd' = TRUE /\ UNCHANGED <<iniIn, p2i>>
  /\ UNCHANGED <<script, epc, ended, srcSt, srcSawEnd, iniSt, iniCancelSeen, connClosed, s2p, i2p, p2s, srcOut, iniOut, srcIn, prx>>
IniCancelArrives ==
  /\ iniSt = "cancelled" /\ ~iniCancelSeen /\ iniCancelSeen' = TRUE
  /\ UNCHANGED <<script, epc, ended, srcSt, srcSawEnd, iniSt, iniSawEnd, connClosed, net, hist, prx>>

----------------------------------------------------------------------------
(* StreamForwarder.Run                                                      *)
\* adminClient.StreamWorkflowReplicationMessages(outgoingContext); go forwardAcks; go forwardReplicationMessages
RunOpen ==
  /\ run = "open"
  /\ IF script.fault.k = "openFail"
     THEN run' = "returned" /\ p2i' = Append(p2i, ERR) /\ ended' = TRUE /\ UNCHANGED <<srcSt, fmsg, fack>>      \* return err: no goroutines
     ELSE run' = "running" /\ srcSt' = "open" /\ fmsg' = "start" /\ fack' = "start" /\ UNCHANGED <<p2i, ended>>
  /\ UNCHANGED <<script, epc, srcSawEnd, iniSt, iniSawEnd, iniCancelSeen, connClosed, s2p, i2p, p2s, hist,
                 latch, lsrc, lsv, ltgt, ltv, fmv, fav, nT, nS>>
\* wg.Wait() is over; deferred cancel()
RunCancel ==
  /\ run = "running" /\ fmsg = "done" /\ fack = "done" /\ run' = "cancelled"
  /\ UNCHANGED <<env, net, hist, latch, lsrc, lsv, ltgt, ltv, fmsg, fmv, fack, fav, nT, nS>>
\* handleStream returns nil, the handler returns nil: "just returning nil is sufficient to terminate the stream"
HandlerReturn ==
  /\ run = "cancelled" /\ run' = "returned" /\ p2i' = Append(p2i, EOF)
  /\ UNCHANGED <<env, s2p, i2p, p2s, hist, latch, lsrc, lsv, ltgt, ltv, fmsg, fmv, fack, fav, nT, nS>>

(* startListener(sourceStreamClient)                                        *)
LsrcChk ==    \* for !shutdownChan.IsShutdown()    (exit closes the data channel)
  /\ lsrc = "chk" /\ lsrc' = (IF latch THEN "done" ELSE "recv")
  /\ UNCHANGED <<env, net, hist, run, latch, lsv, ltgt, ltv, fmsg, fmv, fack, fav, nT, nS>>
LsrcRecv ==   \* req, err := receiver.Recv()
  /\ lsrc = "recv" /\ lsrc' = "send"
  /\ \/ /\ (SrcCtxDone \/ connClosed) /\ lsv' = ERR /\ UNCHANGED s2p
     \/ /\ ~SrcCtxDone /\ s2p # <<>>
        /\ IF Head(s2p) > 0 THEN lsv' = Head(s2p) /\ s2p' = Tail(s2p) ELSE lsv' = Head(s2p) /\ UNCHANGED s2p
  /\ UNCHANGED <<env, p2i, i2p, p2s, hist, run, latch, ltgt, ltv, fmsg, fmv, fack, fav, nT, nS>>
LsrcHandoff ==  \* select { case dataChan <- v: ... }  rendezvous with forwardReplicationMessages' select
  /\ lsrc = "send" /\ fmsg = "select" /\ (RaceHandoff \/ ~latch)
  /\ fmv' = lsv /\ fmsg' = "got" /\ lsrc' = "chk" /\ lsv' = 0
  /\ UNCHANGED <<env, net, hist, run, latch, ltgt, ltv, fack, fav, nT, nS>>
LsrcQuit ==     \* select { case <-shutdownChan.Channel(): return }
  /\ lsrc = "send" /\ latch /\ lsrc' = "done" /\ lsv' = 0
  /\ UNCHANGED <<env, net, hist, run, latch, ltgt, ltv, fmsg, fmv, fack, fav, nT, nS>>

LsrcTimeout ==  \* (variant) the hand-off gives up: back to the loop head, the value is gone
  /\ HandoffTimeout /\ lsrc = "send" /\ lsrc' = "chk" /\ lsv' = 0
  /\ UNCHANGED <<env, net, hist, run, latch, ltgt, ltv, fmsg, fmv, fack, fav, nT, nS>>

(* forwardReplicationMessages                                               *)
FmsgStart ==    \* dataChan := startListener(f.sourceStreamClient, f.shutdownChan)
  /\ fmsg = "start" /\ fmsg' = "select" /\ lsrc' = "chk"
  /\ UNCHANGED <<env, net, hist, run, latch, lsv, ltgt, ltv, fmv, fack, fav, nT, nS>>
FmsgShutdown == \* select { case <-shutdownChan.Channel(): return }; a receive from the closed data channel ends the same way
  /\ fmsg = "select" /\ latch /\ fmsg' = "ret"
  /\ (FmsgWakesOnLatch \/ lsrc = "done")       \* without the latch case only the closed data channel (listener gone) ends it
  /\ UNCHANGED <<env, net, hist, run, latch, lsrc, lsv, ltgt, ltv, fmv, fack, fav, nT, nS>>
FmsgGot ==      \* err == io.EOF / err != nil / unknown attributes: return;   Messages: Send
  /\ fmsg = "got" /\ fmsg' = (IF fmv > 0 /\ ~UnkMsg(fmv) THEN "send" ELSE "ret")
  /\ UNCHANGED <<env, net, hist, run, latch, lsrc, lsv, ltgt, ltv, fmv, fack, fav, nT, nS>>
FmsgSend ==     \* f.targetStreamServer.Send(resp)
  /\ fmsg = "send" /\ nT' = nT + 1
  /\ LET injected == script.fault.k = "tgtSendFail" /\ nT + 1 = script.fault.p IN
     IF iniCancelSeen \/ injected
     THEN fmsg' = "ret" /\ ended' = (ended \/ injected) /\ UNCHANGED p2i
     ELSE RoomFor(p2i) /\ fmsg' = "select" /\ p2i' = Append(p2i, fmv) /\ UNCHANGED ended
  /\ UNCHANGED <<script, epc, srcSt, srcSawEnd, iniSt, iniSawEnd, iniCancelSeen, connClosed, s2p, i2p, p2s, hist,
                 run, latch, lsrc, lsv, ltgt, ltv, fmv, fack, fav, nS>>
FmsgRet ==      \* deferred: f.shutdownChan.Shutdown(); wg.Done()
  /\ fmsg = "ret" /\ fmsg' = "done" /\ latch' = (latch \/ LatchMsg)
  /\ UNCHANGED <<env, net, hist, run, lsrc, lsv, ltgt, ltv, fmv, fack, fav, nT, nS>>

(* startListener(targetStreamServer)                                        *)
LtgtChk ==
  /\ ltgt = "chk" /\ ltgt' = (IF latch THEN "done" ELSE "recv")
  /\ UNCHANGED <<env, net, hist, run, latch, lsrc, lsv, ltv, fmsg, fmv, fack, fav, nT, nS>>
LtgtRecv ==
  /\ ltgt = "recv" /\ ltgt' = "send"
  /\ \/ /\ (run = "returned" \/ iniCancelSeen) /\ ltv' = ERR /\ UNCHANGED i2p
     \/ /\ run # "returned" /\ i2p # <<>>
        /\ IF Head(i2p) > 0 THEN ltv' = Head(i2p) /\ i2p' = Tail(i2p) ELSE ltv' = EOF /\ UNCHANGED i2p
  /\ UNCHANGED <<env, s2p, p2i, p2s, hist, run, latch, lsrc, lsv, fmsg, fmv, fack, fav, nT, nS>>
LtgtHandoff ==
  /\ ltgt = "send" /\ fack = "select" /\ (RaceHandoff \/ ~latch)
  /\ fav' = ltv /\ fack' = "got" /\ ltgt' = "chk" /\ ltv' = 0
  /\ UNCHANGED <<env, net, hist, run, latch, lsrc, lsv, fmsg, fmv, nT, nS>>
LtgtQuit ==
  /\ ltgt = "send" /\ latch /\ ltgt' = "done" /\ ltv' = 0
  /\ UNCHANGED <<env, net, hist, run, latch, lsrc, lsv, fmsg, fmv, fack, fav, nT, nS>>

LtgtTimeout ==
  /\ HandoffTimeout /\ ltgt = "send" /\ ltgt' = "chk" /\ ltv' = 0
  /\ UNCHANGED <<env, net, hist, run, latch, lsrc, lsv, fmsg, fmv, fack, fav, nT, nS>>

(* forwardAcks                                                              *)
FackStart ==
  /\ fack = "start" /\ fack' = "select" /\ ltgt' = "chk"
  /\ UNCHANGED <<env, net, hist, run, latch, lsrc, lsv, ltv, fmsg, fmv, fav, nT, nS>>
FackShutdown ==
  /\ fack = "select" /\ latch /\ fack' = "ret"
  /\ UNCHANGED <<env, net, hist, run, latch, lsrc, lsv, ltgt, ltv, fmsg, fmv, fav, nT, nS>>
FackGot ==
  /\ fack = "got" /\ fack' = (IF fav > 0 /\ ~UnkAck(fav) THEN "send" ELSE "ret")
  /\ UNCHANGED <<env, net, hist, run, latch, lsrc, lsv, ltgt, ltv, fmsg, fmv, fav, nT, nS>>
FackSend ==     \* f.sourceStreamClient.Send(req)
  /\ fack = "send" /\ nS' = nS + 1
  /\ LET injected == script.fault.k = "srcSendFail" /\ nS + 1 = script.fault.p IN
     \/ /\ (SrcCtxDone \/ connClosed \/ injected \/ srcSt = "returned")
        /\ fack' = "ret" /\ ended' = (ended \/ injected) /\ UNCHANGED p2s
     \/ /\ ~(SrcCtxDone \/ connClosed \/ injected)
        /\ fack' = "select" /\ UNCHANGED ended
        /\ IF srcSt = "returned" THEN UNCHANGED p2s ELSE RoomFor(p2s) /\ p2s' = Append(p2s, fav)     \* finished stream: may also be lost silently
  /\ UNCHANGED <<script, epc, srcSt, srcSawEnd, iniSt, iniSawEnd, iniCancelSeen, connClosed, s2p, p2i, i2p, hist,
                 run, latch, lsrc, lsv, ltgt, ltv, fmsg, fmv, fav, nT>>
FackRet ==      \* deferred: f.shutdownChan.Shutdown()
  /\ fack = "ret" /\ fack' = "closesend" /\ latch' = (latch \/ LatchAck)
  /\ UNCHANGED <<env, net, hist, run, lsrc, lsv, ltgt, ltv, fmsg, fmv, fav, nT, nS>>
FackCloseSend == \* deferred: CloseSend() (bounded by 1 s); wg.Done()
  /\ fack = "closesend" /\ fack' = "done"
  /\ IF CloseSendOnExit /\ ~SrcCtxDone /\ ~connClosed /\ srcSt # "returned" THEN p2s' = Append(p2s, HC) ELSE UNCHANGED p2s
  /\ UNCHANGED <<env, s2p, p2i, i2p, hist, run, latch, lsrc, lsv, ltgt, ltv, fmsg, fmv, fav, nT, nS>>

Next == \/ EnvStep \/ SrcRecv \/ SrcReturnOnEnd \/ IniRecv \/ IniCancelArrives
        \/ RunOpen \/ RunCancel \/ HandlerReturn
        \/ LsrcChk \/ LsrcRecv \/ LsrcHandoff \/ LsrcQuit \/ LsrcTimeout \/ FmsgStart \/ FmsgShutdown \/ FmsgGot \/ FmsgSend \/ FmsgRet
        \/ LtgtChk \/ LtgtRecv \/ LtgtHandoff \/ LtgtQuit \/ LtgtTimeout \/ FackStart \/ FackShutdown \/ FackGot \/ FackSend \/ FackRet \/ FackCloseSend
Spec == Init /\ [][Next]_vars /\ WF_vars(Next)

----------------------------------------------------------------------------
IsPrefix(a, b) == Len(a) <= Len(b) /\ \A i \in 1..Len(a) : a[i] = b[i]
Exited(pc) == pc \in {"idle", "done"}
ScriptDone == epc > Len(script.cmds)
AllDone == /\ run = "returned" /\ Exited(fmsg) /\ Exited(fack) /\ Exited(lsrc) /\ Exited(ltgt)
           /\ iniSawEnd /\ srcSt \in {"idle", "returned"}
\* what either peer has received is a prefix of what the other sent (values are handed through unmodified)
InOrder == IsPrefix(iniIn, srcOut) /\ IsPrefix(srcIn, iniOut)
\* no unknown kind is forwarded
NoUnknownForwarded == (\A i \in 1..Len(iniIn) : ~UnkMsg(iniIn[i])) /\ (\A i \in 1..Len(srcIn) : ~UnkAck(srcIn[i]))
\* no half-open stream, no stuck worker: a state without successors has everything torn down and the script finished -
\* for a sync script that includes: every barrier was passed, i.e. every message sent before the first end was delivered
NoStuck == ~ENABLED Next => (AllDone /\ ScriptDone)
\* every script contains an end or a fault
EveryScriptEnds == (ScriptDone /\ ~ENABLED Next) => ended
\* liveness form (weak fairness): once either side has ended or failed, everything ends
EndTogether == ended ~> AllDone
\* completeness: a sync script always gets through all of its barriers
Complete == script.sync ~> ScriptDone
=============================================================================
