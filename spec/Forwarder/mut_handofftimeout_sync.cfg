SPECIFICATION Spec
CONSTANTS
  K = 1
  SrcEnds = {"eof", "err"}
  IniEnds = {"closesend", "cancel"}
  Faults = {}
  Lifetime = TRUE
  Post = FALSE
  Syncs = {TRUE}
  SrcKinds = {"coop", "silent"}
  RaceHandoff = TRUE
  LatchMsg = TRUE
  LatchAck = TRUE
  CloseSendOnExit = TRUE
  CancelOnReturn = TRUE
  FmsgWakesOnLatch = TRUE
  NetCap = 0
  HandoffTimeout = TRUE
INVARIANTS NoStuck
CHECK_DEADLOCK FALSE
