INIT SimInit
NEXT SimNext
CONSTANTS
  K = 3
  SrcEnds = {"eof", "err"}
  IniEnds = {"closesend", "cancel"}
  Faults = {"unkMsg", "unkAck", "tgtSendFail", "srcSendFail", "openFail"}
  Lifetime = TRUE
  Post = TRUE
  Syncs = {TRUE, FALSE}
  SrcKinds = {"coop", "silent"}
CHECK_DEADLOCK FALSE
