SPECIFICATION Spec
CONSTANTS
  K = 1
  SrcEnds = {"eof", "err"}
  IniEnds = {"closesend", "cancel"}
  Faults = {"unkMsg", "unkAck", "tgtSendFail", "srcSendFail", "openFail"}
  Lifetime = TRUE
  Post = TRUE
  Syncs = {TRUE, FALSE}
  SrcKinds = {"coop"}
  RaceHandoff = TRUE
  LatchMsg = TRUE
  LatchAck = TRUE
  CloseSendOnExit = TRUE
  CancelOnReturn = TRUE
  FmsgWakesOnLatch = FALSE
  NetCap = 0
  HandoffTimeout = FALSE
INVARIANTS InOrder NoUnknownForwarded NoStuck EveryScriptEnds
CHECK_DEADLOCK FALSE
