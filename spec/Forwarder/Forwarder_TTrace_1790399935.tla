---- MODULE Forwarder_TTrace_1790399935 ----
EXTENDS Sequences, TLCExt, Toolbox, Naturals, TLC, Forwarder

_expression ==
    LET Forwarder_TEExpression == INSTANCE Forwarder_TEExpression
    IN Forwarder_TEExpression!expression
----

_trace ==
    LET Forwarder_TETrace == INSTANCE Forwarder_TETrace
    IN Forwarder_TETrace!trace
----

_inv ==
    ~(
        TLCGet("level") = Len(_TETrace)
        /\
        connClosed = (FALSE)
        /\
        ltgt = ("recv")
        /\
        iniSawEnd = (FALSE)
        /\
        lsrc = ("recv")
        /\
        run = ("running")
        /\
        srcSawEnd = (FALSE)
        /\
        fack = ("done")
        /\
        fmv = (0)
        /\
        lsv = (0)
        /\
        iniIn = (<<>>)
        /\
        epc = (2)
        /\
        fav = (1)
        /\
        iniCancelSeen = (FALSE)
        /\
        latch = (FALSE)
        /\
        iniSt = ("open")
        /\
        srcIn = (<<>>)
        /\
        iniOut = (<<1>>)
        /\
        nS = (0)
        /\
        nT = (0)
        /\
        p2i = (<<>>)
        /\
        i2p = (<<>>)
        /\
        fmsg = ("select")
        /\
        srcSt = ("open")
        /\
        script = ([fault |-> [k |-> "unkAck", p |-> 1], sync |-> FALSE, cmds |-> <<[c |-> "I", m |-> "-"]>>, src |-> "silent"])
        /\
        ltv = (0)
        /\
        p2s = (<<>>)
        /\
        s2p = (<<>>)
        /\
        ended = (TRUE)
        /\
        srcOut = (<<>>)
    )
----

_init ==
    /\ srcOut = _TETrace[1].srcOut
    /\ fmv = _TETrace[1].fmv
    /\ fav = _TETrace[1].fav
    /\ nS = _TETrace[1].nS
    /\ nT = _TETrace[1].nT
    /\ srcSt = _TETrace[1].srcSt
    /\ iniOut = _TETrace[1].iniOut
    /\ iniSt = _TETrace[1].iniSt
    /\ ltgt = _TETrace[1].ltgt
    /\ srcIn = _TETrace[1].srcIn
    /\ p2i = _TETrace[1].p2i
    /\ p2s = _TETrace[1].p2s
    /\ script = _TETrace[1].script
    /\ iniIn = _TETrace[1].iniIn
    /\ iniCancelSeen = _TETrace[1].iniCancelSeen
    /\ connClosed = _TETrace[1].connClosed
    /\ iniSawEnd = _TETrace[1].iniSawEnd
    /\ fack = _TETrace[1].fack
    /\ lsv = _TETrace[1].lsv
    /\ lsrc = _TETrace[1].lsrc
    /\ ltv = _TETrace[1].ltv
    /\ epc = _TETrace[1].epc
    /\ latch = _TETrace[1].latch
    /\ i2p = _TETrace[1].i2p
    /\ run = _TETrace[1].run
    /\ s2p = _TETrace[1].s2p
    /\ srcSawEnd = _TETrace[1].srcSawEnd
    /\ fmsg = _TETrace[1].fmsg
    /\ ended = _TETrace[1].ended
----

_next ==
    /\ \E i,j \in DOMAIN _TETrace:
        /\ \/ /\ j = i + 1
              /\ i = TLCGet("level")
        /\ srcOut  = _TETrace[i].srcOut
        /\ srcOut' = _TETrace[j].srcOut
        /\ fmv  = _TETrace[i].fmv
        /\ fmv' = _TETrace[j].fmv
        /\ fav  = _TETrace[i].fav
        /\ fav' = _TETrace[j].fav
        /\ nS  = _TETrace[i].nS
        /\ nS' = _TETrace[j].nS
        /\ nT  = _TETrace[i].nT
        /\ nT' = _TETrace[j].nT
        /\ srcSt  = _TETrace[i].srcSt
        /\ srcSt' = _TETrace[j].srcSt
        /\ iniOut  = _TETrace[i].iniOut
        /\ iniOut' = _TETrace[j].iniOut
        /\ iniSt  = _TETrace[i].iniSt
        /\ iniSt' = _TETrace[j].iniSt
        /\ ltgt  = _TETrace[i].ltgt
        /\ ltgt' = _TETrace[j].ltgt
        /\ srcIn  = _TETrace[i].srcIn
        /\ srcIn' = _TETrace[j].srcIn
        /\ p2i  = _TETrace[i].p2i
        /\ p2i' = _TETrace[j].p2i
        /\ p2s  = _TETrace[i].p2s
        /\ p2s' = _TETrace[j].p2s
        /\ script  = _TETrace[i].script
        /\ script' = _TETrace[j].script
        /\ iniIn  = _TETrace[i].iniIn
        /\ iniIn' = _TETrace[j].iniIn
        /\ iniCancelSeen  = _TETrace[i].iniCancelSeen
        /\ iniCancelSeen' = _TETrace[j].iniCancelSeen
        /\ connClosed  = _TETrace[i].connClosed
        /\ connClosed' = _TETrace[j].connClosed
        /\ iniSawEnd  = _TETrace[i].iniSawEnd
        /\ iniSawEnd' = _TETrace[j].iniSawEnd
        /\ fack  = _TETrace[i].fack
        /\ fack' = _TETrace[j].fack
        /\ lsv  = _TETrace[i].lsv
        /\ lsv' = _TETrace[j].lsv
        /\ lsrc  = _TETrace[i].lsrc
        /\ lsrc' = _TETrace[j].lsrc
        /\ ltv  = _TETrace[i].ltv
        /\ ltv' = _TETrace[j].ltv
        /\ epc  = _TETrace[i].epc
        /\ epc' = _TETrace[j].epc
        /\ latch  = _TETrace[i].latch
        /\ latch' = _TETrace[j].latch
        /\ i2p  = _TETrace[i].i2p
        /\ i2p' = _TETrace[j].i2p
        /\ run  = _TETrace[i].run
        /\ run' = _TETrace[j].run
        /\ s2p  = _TETrace[i].s2p
        /\ s2p' = _TETrace[j].s2p
        /\ srcSawEnd  = _TETrace[i].srcSawEnd
        /\ srcSawEnd' = _TETrace[j].srcSawEnd
        /\ fmsg  = _TETrace[i].fmsg
        /\ fmsg' = _TETrace[j].fmsg
        /\ ended  = _TETrace[i].ended
        /\ ended' = _TETrace[j].ended

\* Uncomment the ASSUME below to write the states of the error trace
\* to the given file in Json format. Note that you can pass any tuple
\* to `JsonSerialize`. For example, a sub-sequence of _TETrace.
    \* ASSUME
    \*     LET J == INSTANCE Json
    \*         IN J!JsonSerialize("Forwarder_TTrace_1790399935.json", _TETrace)

=============================================================================

 Note that you can extract this module `Forwarder_TEExpression`
  to a dedicated file to reuse `expression` (the module in the 
  dedicated `Forwarder_TEExpression.tla` file takes precedence 
  over the module `Forwarder_TEExpression` below).

---- MODULE Forwarder_TEExpression ----
EXTENDS Sequences, TLCExt, Toolbox, Naturals, TLC, Forwarder

expression == 
    [
        \* To hide variables of the `Forwarder` spec from the error trace,
        \* remove the variables below.  The trace will be written in the order
        \* of the fields of this record.
        srcOut |-> srcOut
        ,fmv |-> fmv
        ,fav |-> fav
        ,nS |-> nS
        ,nT |-> nT
        ,srcSt |-> srcSt
        ,iniOut |-> iniOut
        ,iniSt |-> iniSt
        ,ltgt |-> ltgt
        ,srcIn |-> srcIn
        ,p2i |-> p2i
        ,p2s |-> p2s
        ,script |-> script
        ,iniIn |-> iniIn
        ,iniCancelSeen |-> iniCancelSeen
        ,connClosed |-> connClosed
        ,iniSawEnd |-> iniSawEnd
        ,fack |-> fack
        ,lsv |-> lsv
        ,lsrc |-> lsrc
        ,ltv |-> ltv
        ,epc |-> epc
        ,latch |-> latch
        ,i2p |-> i2p
        ,run |-> run
        ,s2p |-> s2p
        ,srcSawEnd |-> srcSawEnd
        ,fmsg |-> fmsg
        ,ended |-> ended
        
        \* Put additional constant-, state-, and action-level expressions here:
        \* ,_stateNumber |-> _TEPosition
        \* ,_srcOutUnchanged |-> srcOut = srcOut'
        
        \* Format the `srcOut` variable as Json value.
        \* ,_srcOutJson |->
        \*     LET J == INSTANCE Json
        \*     IN J!ToJson(srcOut)
        
        \* Lastly, you may build expressions over arbitrary sets of states by
        \* leveraging the _TETrace operator.  For example, this is how to
        \* count the number of times a spec variable changed up to the current
        \* state in the trace.
        \* ,_srcOutModCount |->
        \*     LET F[s \in DOMAIN _TETrace] ==
        \*         IF s = 1 THEN 0
        \*         ELSE IF _TETrace[s].srcOut # _TETrace[s-1].srcOut
        \*             THEN 1 + F[s-1] ELSE F[s-1]
        \*     IN F[_TEPosition - 1]
    ]

=============================================================================



Parsing and semantic processing can take forever if the trace below is long.
 In this case, it is advised to uncomment the module below to deserialize the
 trace from a generated binary file.

\*
\*---- MODULE Forwarder_TETrace ----
\*EXTENDS IOUtils, TLC, Forwarder
\*
\*trace == IODeserialize("Forwarder_TTrace_1790399935.bin", TRUE)
\*
\*=============================================================================
\*

---- MODULE Forwarder_TETrace ----
EXTENDS TLC, Forwarder

trace == 
    <<
    ([connClosed |-> FALSE,ltgt |-> "idle",iniSawEnd |-> FALSE,lsrc |-> "idle",run |-> "open",srcSawEnd |-> FALSE,fack |-> "idle",fmv |-> 0,lsv |-> 0,iniIn |-> <<>>,epc |-> 1,fav |-> 0,iniCancelSeen |-> FALSE,latch |-> FALSE,iniSt |-> "open",srcIn |-> <<>>,iniOut |-> <<>>,nS |-> 0,nT |-> 0,p2i |-> <<>>,i2p |-> <<>>,fmsg |-> "idle",srcSt |-> "idle",script |-> [fault |-> [k |-> "unkAck", p |-> 1], sync |-> FALSE, cmds |-> <<[c |-> "I", m |-> "-"]>>, src |-> "silent"],ltv |-> 0,p2s |-> <<>>,s2p |-> <<>>,ended |-> FALSE,srcOut |-> <<>>]),
    ([connClosed |-> FALSE,ltgt |-> "idle",iniSawEnd |-> FALSE,lsrc |-> "idle",run |-> "running",srcSawEnd |-> FALSE,fack |-> "start",fmv |-> 0,lsv |-> 0,iniIn |-> <<>>,epc |-> 1,fav |-> 0,iniCancelSeen |-> FALSE,latch |-> FALSE,iniSt |-> "open",srcIn |-> <<>>,iniOut |-> <<>>,nS |-> 0,nT |-> 0,p2i |-> <<>>,i2p |-> <<>>,fmsg |-> "start",srcSt |-> "open",script |-> [fault |-> [k |-> "unkAck", p |-> 1], sync |-> FALSE, cmds |-> <<[c |-> "I", m |-> "-"]>>, src |-> "silent"],ltv |-> 0,p2s |-> <<>>,s2p |-> <<>>,ended |-> FALSE,srcOut |-> <<>>]),
    ([connClosed |-> FALSE,ltgt |-> "idle",iniSawEnd |-> FALSE,lsrc |-> "idle",run |-> "running",srcSawEnd |-> FALSE,fack |-> "start",fmv |-> 0,lsv |-> 0,iniIn |-> <<>>,epc |-> 2,fav |-> 0,iniCancelSeen |-> FALSE,latch |-> FALSE,iniSt |-> "open",srcIn |-> <<>>,iniOut |-> <<1>>,nS |-> 0,nT |-> 0,p2i |-> <<>>,i2p |-> <<1>>,fmsg |-> "start",srcSt |-> "open",script |-> [fault |-> [k |-> "unkAck", p |-> 1], sync |-> FALSE, cmds |-> <<[c |-> "I", m |-> "-"]>>, src |-> "silent"],ltv |-> 0,p2s |-> <<>>,s2p |-> <<>>,ended |-> TRUE,srcOut |-> <<>>]),
    ([connClosed |-> FALSE,ltgt |-> "idle",iniSawEnd |-> FALSE,lsrc |-> "chk",run |-> "running",srcSawEnd |-> FALSE,fack |-> "start",fmv |-> 0,lsv |-> 0,iniIn |-> <<>>,epc |-> 2,fav |-> 0,iniCancelSeen |-> FALSE,latch |-> FALSE,iniSt |-> "open",srcIn |-> <<>>,iniOut |-> <<1>>,nS |-> 0,nT |-> 0,p2i |-> <<>>,i2p |-> <<1>>,fmsg |-> "select",srcSt |-> "open",script |-> [fault |-> [k |-> "unkAck", p |-> 1], sync |-> FALSE, cmds |-> <<[c |-> "I", m |-> "-"]>>, src |-> "silent"],ltv |-> 0,p2s |-> <<>>,s2p |-> <<>>,ended |-> TRUE,srcOut |-> <<>>]),
    ([connClosed |-> FALSE,ltgt |-> "chk",iniSawEnd |-> FALSE,lsrc |-> "chk",run |-> "running",srcSawEnd |-> FALSE,fack |-> "select",fmv |-> 0,lsv |-> 0,iniIn |-> <<>>,epc |-> 2,fav |-> 0,iniCancelSeen |-> FALSE,latch |-> FALSE,iniSt |-> "open",srcIn |-> <<>>,iniOut |-> <<1>>,nS |-> 0,nT |-> 0,p2i |-> <<>>,i2p |-> <<1>>,fmsg |-> "select",srcSt |-> "open",script |-> [fault |-> [k |-> "unkAck", p |-> 1], sync |-> FALSE, cmds |-> <<[c |-> "I", m |-> "-"]>>, src |-> "silent"],ltv |-> 0,p2s |-> <<>>,s2p |-> <<>>,ended |-> TRUE,srcOut |-> <<>>]),
    ([connClosed |-> FALSE,ltgt |-> "recv",iniSawEnd |-> FALSE,lsrc |-> "chk",run |-> "running",srcSawEnd |-> FALSE,fack |-> "select",fmv |-> 0,lsv |-> 0,iniIn |-> <<>>,epc |-> 2,fav |-> 0,iniCancelSeen |-> FALSE,latch |-> FALSE,iniSt |-> "open",srcIn |-> <<>>,iniOut |-> <<1>>,nS |-> 0,nT |-> 0,p2i |-> <<>>,i2p |-> <<1>>,fmsg |-> "select",srcSt |-> "open",script |-> [fault |-> [k |-> "unkAck", p |-> 1], sync |-> FALSE, cmds |-> <<[c |-> "I", m |-> "-"]>>, src |-> "silent"],ltv |-> 0,p2s |-> <<>>,s2p |-> <<>>,ended |-> TRUE,srcOut |-> <<>>]),
    ([connClosed |-> FALSE,ltgt |-> "send",iniSawEnd |-> FALSE,lsrc |-> "chk",run |-> "running",srcSawEnd |-> FALSE,fack |-> "select",fmv |-> 0,lsv |-> 0,iniIn |-> <<>>,epc |-> 2,fav |-> 0,iniCancelSeen |-> FALSE,latch |-> FALSE,iniSt |-> "open",srcIn |-> <<>>,iniOut |-> <<1>>,nS |-> 0,nT |-> 0,p2i |-> <<>>,i2p |-> <<>>,fmsg |-> "select",srcSt |-> "open",script |-> [fault |-> [k |-> "unkAck", p |-> 1], sync |-> FALSE, cmds |-> <<[c |-> "I", m |-> "-"]>>, src |-> "silent"],ltv |-> 1,p2s |-> <<>>,s2p |-> <<>>,ended |-> TRUE,srcOut |-> <<>>]),
    ([connClosed |-> FALSE,ltgt |-> "chk",iniSawEnd |-> FALSE,lsrc |-> "chk",run |-> "running",srcSawEnd |-> FALSE,fack |-> "got",fmv |-> 0,lsv |-> 0,iniIn |-> <<>>,epc |-> 2,fav |-> 1,iniCancelSeen |-> FALSE,latch |-> FALSE,iniSt |-> "open",srcIn |-> <<>>,iniOut |-> <<1>>,nS |-> 0,nT |-> 0,p2i |-> <<>>,i2p |-> <<>>,fmsg |-> "select",srcSt |-> "open",script |-> [fault |-> [k |-> "unkAck", p |-> 1], sync |-> FALSE, cmds |-> <<[c |-> "I", m |-> "-"]>>, src |-> "silent"],ltv |-> 0,p2s |-> <<>>,s2p |-> <<>>,ended |-> TRUE,srcOut |-> <<>>]),
    ([connClosed |-> FALSE,ltgt |-> "recv",iniSawEnd |-> FALSE,lsrc |-> "chk",run |-> "running",srcSawEnd |-> FALSE,fack |-> "got",fmv |-> 0,lsv |-> 0,iniIn |-> <<>>,epc |-> 2,fav |-> 1,iniCancelSeen |-> FALSE,latch |-> FALSE,iniSt |-> "open",srcIn |-> <<>>,iniOut |-> <<1>>,nS |-> 0,nT |-> 0,p2i |-> <<>>,i2p |-> <<>>,fmsg |-> "select",srcSt |-> "open",script |-> [fault |-> [k |-> "unkAck", p |-> 1], sync |-> FALSE, cmds |-> <<[c |-> "I", m |-> "-"]>>, src |-> "silent"],ltv |-> 0,p2s |-> <<>>,s2p |-> <<>>,ended |-> TRUE,srcOut |-> <<>>]),
    ([connClosed |-> FALSE,ltgt |-> "recv",iniSawEnd |-> FALSE,lsrc |-> "chk",run |-> "running",srcSawEnd |-> FALSE,fack |-> "ret",fmv |-> 0,lsv |-> 0,iniIn |-> <<>>,epc |-> 2,fav |-> 1,iniCancelSeen |-> FALSE,latch |-> FALSE,iniSt |-> "open",srcIn |-> <<>>,iniOut |-> <<1>>,nS |-> 0,nT |-> 0,p2i |-> <<>>,i2p |-> <<>>,fmsg |-> "select",srcSt |-> "open",script |-> [fault |-> [k |-> "unkAck", p |-> 1], sync |-> FALSE, cmds |-> <<[c |-> "I", m |-> "-"]>>, src |-> "silent"],ltv |-> 0,p2s |-> <<>>,s2p |-> <<>>,ended |-> TRUE,srcOut |-> <<>>]),
    ([connClosed |-> FALSE,ltgt |-> "recv",iniSawEnd |-> FALSE,lsrc |-> "chk",run |-> "running",srcSawEnd |-> FALSE,fack |-> "closesend",fmv |-> 0,lsv |-> 0,iniIn |-> <<>>,epc |-> 2,fav |-> 1,iniCancelSeen |-> FALSE,latch |-> FALSE,iniSt |-> "open",srcIn |-> <<>>,iniOut |-> <<1>>,nS |-> 0,nT |-> 0,p2i |-> <<>>,i2p |-> <<>>,fmsg |-> "select",srcSt |-> "open",script |-> [fault |-> [k |-> "unkAck", p |-> 1], sync |-> FALSE, cmds |-> <<[c |-> "I", m |-> "-"]>>, src |-> "silent"],ltv |-> 0,p2s |-> <<>>,s2p |-> <<>>,ended |-> TRUE,srcOut |-> <<>>]),
    ([connClosed |-> FALSE,ltgt |-> "recv",iniSawEnd |-> FALSE,lsrc |-> "recv",run |-> "running",srcSawEnd |-> FALSE,fack |-> "closesend",fmv |-> 0,lsv |-> 0,iniIn |-> <<>>,epc |-> 2,fav |-> 1,iniCancelSeen |-> FALSE,latch |-> FALSE,iniSt |-> "open",srcIn |-> <<>>,iniOut |-> <<1>>,nS |-> 0,nT |-> 0,p2i |-> <<>>,i2p |-> <<>>,fmsg |-> "select",srcSt |-> "open",script |-> [fault |-> [k |-> "unkAck", p |-> 1], sync |-> FALSE, cmds |-> <<[c |-> "I", m |-> "-"]>>, src |-> "silent"],ltv |-> 0,p2s |-> <<>>,s2p |-> <<>>,ended |-> TRUE,srcOut |-> <<>>]),
    ([connClosed |-> FALSE,ltgt |-> "recv",iniSawEnd |-> FALSE,lsrc |-> "recv",run |-> "running",srcSawEnd |-> FALSE,fack |-> "done",fmv |-> 0,lsv |-> 0,iniIn |-> <<>>,epc |-> 2,fav |-> 1,iniCancelSeen |-> FALSE,latch |-> FALSE,iniSt |-> "open",srcIn |-> <<>>,iniOut |-> <<1>>,nS |-> 0,nT |-> 0,p2i |-> <<>>,i2p |-> <<>>,fmsg |-> "select",srcSt |-> "open",script |-> [fault |-> [k |-> "unkAck", p |-> 1], sync |-> FALSE, cmds |-> <<[c |-> "I", m |-> "-"]>>, src |-> "silent"],ltv |-> 0,p2s |-> <<>>,s2p |-> <<>>,ended |-> TRUE,srcOut |-> <<>>])
    >>
----


=============================================================================

---- CONFIG Forwarder_TTrace_1790399935 ----
CONSTANTS
    K = 1
    SrcEnds = { "eof" , "err" }
    IniEnds = { "closesend" , "cancel" }
    Faults = { "unkMsg" , "unkAck" , "tgtSendFail" , "srcSendFail" , "openFail" }
    Lifetime = TRUE
    Post = TRUE
    Syncs = { TRUE , FALSE }
    SrcKinds = { "coop" , "silent" }
    RaceHandoff = TRUE
    LatchMsg = TRUE
    LatchAck = FALSE
    CloseSendOnExit = FALSE
    CancelOnReturn = TRUE
    FmsgWakesOnLatch = TRUE

INVARIANT
    _inv

CHECK_DEADLOCK
    \* CHECK_DEADLOCK off because of PROPERTY or INVARIANT above.
    FALSE

INIT
    _init

NEXT
    _next

CONSTANT
    _TETrace <- _trace

ALIAS
    _expression
=============================================================================
\* Generated on Sat Sep 26 05:18:57 UTC 2026