#!/usr/bin/env python3
"""Generates the TLC configurations of spec/Forwarder (run in this directory)."""
ALLF = '{"unkMsg", "unkAck", "tgtSendFail", "srcSendFail", "openFail"}'


def cfg(name, k=2, srcends='{"eof", "err"}', iniends='{"closesend", "cancel"}', faults=ALLF, lifetime="TRUE", post="TRUE",
        syncs="{TRUE, FALSE}", srckinds='{"coop", "silent"}', race="TRUE", latchmsg="TRUE", latchack="TRUE", closesend="TRUE", cancel="TRUE", wake="TRUE", netcap=0, hto="FALSE",
        invs="InOrder NoUnknownForwarded NoStuck EveryScriptEnds", props=None, sim=False):
    out = "INIT SimInit\nNEXT SimNext\n" if sim else "SPECIFICATION Spec\n"
    out += "CONSTANTS\n  K = %d\n  SrcEnds = %s\n  IniEnds = %s\n  Faults = %s\n  Lifetime = %s\n  Post = %s\n  Syncs = %s\n  SrcKinds = %s\n" % (
        k, srcends, iniends, faults, lifetime, post, syncs, srckinds)
    if not sim:
        out += "  RaceHandoff = %s\n  LatchMsg = %s\n  LatchAck = %s\n  CloseSendOnExit = %s\n  CancelOnReturn = %s\n  FmsgWakesOnLatch = %s\n  NetCap = %d\n  HandoffTimeout = %s\n" % (
            race, latchmsg, latchack, closesend, cancel, wake, netcap, hto)
        if invs:
            out += "INVARIANTS %s\n" % invs
        if props:
            out += "PROPERTIES %s\n" % props
    out += "CHECK_DEADLOCK FALSE\n"
    open(name + ".cfg", "w").write(out)


cfg("fwd_k1", k=1)                                     # quick tier: all 215 scripts with <= 1 message each way (1.03e6 states)
cfg("fwd_q", k=2)                                      # thorough tier: all 931 scripts with <= 2 messages each way (1.85e7 states)
cfg("fwd_t", k=3)                                      # all 3863 scripts, racing included: NOT part of a tier (estimated > 3e8 states)
cfg("fwd_t3s", k=3, syncs="{TRUE}")                   # both tiers: K = 3, the 1932 barrier scripts (1.1e6 states)
cfg("fwd_live", k=1, invs=None, props="EndTogether Complete")      # leads-to under weak fairness
cfg("fwd_live_q", k=1, post="FALSE", faults='{"unkMsg", "tgtSendFail", "srcSendFail"}', invs=None, props="EndTogether Complete")   # quick tier
cfg("fwd_t3n", k=3, srcends='{"eof"}', faults="{}", post="FALSE", syncs="{FALSE}")     # thorough: K = 3 racing scripts, ends only (2.56e7 states)
cfg("fwd_draft", k=1, race="FALSE")                    # the calibration draft's resolution of the select race (towards the latch)
# design mutants (expected: NoStuck violated) - show that the invariants are not vacuous and which mechanisms are redundant
cfg("mut_nolatchmsg", k=1, latchmsg="FALSE")           # violated
cfg("mut_nolatchack", k=1, latchack="FALSE")           # violated since silent sources are in the environment (was: holds)
cfg("mut_nolatchack_coop", k=1, latchack="FALSE", srckinds='{"coop"}')   # holds: a cooperative source reacts to the half-close, Fmsg trips the latch
cfg("mut_noclosesend", k=1, closesend="FALSE")         # holds: Run's deferred cancel ends the source stream
cfg("mut_nocancel", k=1, cancel="FALSE")               # holds: the handler's return ends the derived context
cfg("mut_noclosesend_nocancel", k=1, closesend="FALSE", cancel="FALSE")    # holds: the outgoing context is derived from the server stream's
cfg("mut_nolatchack_noclosesend", k=1, latchack="FALSE", closesend="FALSE")   # violated
cfg("mut_nowake", k=1, wake="FALSE")                   # violated with a silent source: Fmsg only ranges over the data channel
cfg("mut_nowake_coop", k=1, wake="FALSE", srckinds='{"coop"}')   # holds: a cooperative source hides it
# back-pressure: a Send of the proxy waits while one message is in flight towards that peer
cfg("fwd_bp", k=2, netcap=1, syncs="{TRUE}")          # both tiers
cfg("fwd_bp_race", k=2, netcap=1, syncs="{FALSE}", faults="{}", post="FALSE")    # thorough
cfg("fwd_bp_live", k=1, netcap=1, post="FALSE", faults='{"unkMsg", "tgtSendFail", "srcSendFail"}', invs=None, props="EndTogether Complete")
cfg("mut_handofftimeout", k=2, hto="TRUE", syncs="{FALSE}", faults="{}", post="FALSE", invs="InOrder")     # violated: a value lost in the middle
cfg("mut_handofftimeout_sync", k=1, hto="TRUE", syncs="{TRUE}", faults="{}", post="FALSE", invs="NoStuck")   # violated: the barrier never passes
# generator
cfg("sim_q", k=2, sim=True)
cfg("sim_t", k=3, sim=True)
