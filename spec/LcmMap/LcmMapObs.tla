----------------------------- MODULE LcmMapObs -----------------------------
(***************************************************************************)
(* Observation monitor for C07: judges what the REAL code answered         *)
(* (trace.ndjson written by harness/inpkg/proxy/zz_verif_lcm_test.go).     *)
(* Every record is self-contained (l, r, direction, shard id, results), so *)
(* the monitor keeps no history besides the line counter.  Violations are  *)
(* collected in TLC register 1 as <<line, clause>>.                        *)
(*                                                                         *)
(* Clauses (record kind):                                                  *)
(*   arith     (fn)       common.GCD/LCM = gcd/lcm BY DEFINITION (IsGcd,   *)
(*                        IsLcm: divisibility + minimality/maximality),    *)
(*                        both argument orders, no panic                   *)
(*   reported  (describe, stream) HistoryShardCount answered = Lcm(l,r),   *)
(*                        with or without a failover-version-increment     *)
(*                        translation configured for that side             *)
(*   fvi       (describe) FailoverVersionIncrement answered = the          *)
(*                        translation configured for that side, else the   *)
(*                        cluster's own                                    *)
(*   direction (describe, stream) the inbound server talks to the local    *)
(*                        cluster, the outbound server to the remote one,  *)
(*                        and that cluster has Count(l,r,dir) shards       *)
(*   noresult  (stream)   the open panicked / failed / hung                *)
(*   range     (stream)   server shard in 1..Count(l,r,dir)                *)
(*   client    (stream)   client shard = s; cluster ids passed unchanged   *)
(*   map       (stream)   server shard = Map(L, count, s); so is the       *)
(*                        direct mapShardIDUnique call                     *)
(*   hash      (stream)   every workflow id the real hash function places  *)
(*                        on LCM shard s is owned, under the serving       *)
(*                        cluster's own count, by the server shard         *)
(***************************************************************************)
EXTENDS Integers, Sequences, FiniteSets, TLC, Json
Trace == ndJsonDeserialize("trace.ndjson")
ASSUME TLCSet(1, {})
VARIABLE i
Flag(S) == IF S = {} THEN TRUE ELSE TLCSet(1, TLCGet(1) \cup S)

Divides(d, n) == n % d = 0
Min(a, b) == IF a < b THEN a ELSE b
\* definitional tests, linear in the arguments
IsGcd(g, a, b) == /\ g >= 1 /\ Divides(g, a) /\ Divides(g, b)
                  /\ \A e \in (g + 1)..Min(a, b) : ~(Divides(e, a) /\ Divides(e, b))
IsLcm(m, a, b) == /\ m >= 1 /\ Divides(a, m) /\ Divides(b, m)
                  /\ \A k \in 1..((m \div a) - 1) : ~Divides(b, k * a)
\* fast candidates; each (l, r) of the trace has an "fn" record on which they are checked against the definitions
RECURSIVE Euclid(_, _)
Euclid(a, b) == IF b = 0 THEN a ELSE Euclid(b, a % b)
Lcm(a, b) == (a * b) \div Euclid(a, b)
Owner(c, h) == (h % c) + 1
Map(L, c, s) == ((s - 1) % c) + 1
Count(l, r, dir) == IF dir = "inbound" THEN l ELSE r
UpOf(dir) == IF dir = "inbound" THEN "local" ELSE "remote"

Bad(cond, clause) == IF cond THEN {} ELSE {<<i, clause>>}

OnFn(e) ==
  LET g == Euclid(e.l, e.r)  m == Lcm(e.l, e.r) IN
  Bad(IsGcd(g, e.l, e.r) /\ IsLcm(m, e.l, e.r), "specarith") \cup
  Bad(e.fail = "" /\ e.gcd = g /\ e.gcdr = g /\ e.lcm = m /\ e.lcmr = m, "arith")

\* LcmMap!Describe: the shard-count override and the failover-version-increment override are independent
FviOverride(e) == IF e.dir = "inbound" THEN e.fviLocal ELSE e.fviRemote
OnDescribe(e) ==
  Bad(e.fail = "" /\ e.reported = Lcm(e.l, e.r), "reported") \cup
  Bad(e.fail # "" \/ e.fvi = (IF FviOverride(e) # 0 THEN FviOverride(e) ELSE e.fviRaw), "fvi") \cup
  Bad(e.fail # "" \/ (e.up = UpOf(e.dir) /\ e.raw = Count(e.l, e.r, e.dir)), "direction")

OnStream(e) ==
  LET L == Lcm(e.l, e.r)
      c == Count(e.l, e.r, e.dir)
      wfs == {e.wf[k] : k \in 1..Len(e.wf)}
  IN IF e.fail = "skipped-wedged" THEN {}      \* not run: the server object was already wedged by an earlier record
     ELSE IF e.fail # "" THEN {<<i, "noresult">>}
     ELSE Bad(e.reported = L, "reported") \cup
          Bad(e.up = UpOf(e.dir), "direction") \cup
          Bad(e.server \in 1..c, "range") \cup
          Bad(e.client = e.s /\ e.ccl = e.cclIn /\ e.scl = e.sclIn, "client") \cup
          Bad(e.server = Map(L, c, e.s) /\ e.direct = Map(L, c, e.s), "map") \cup
          Bad(\A w \in wfs : /\ (w.oL = e.s => w.oC = e.server)
                             /\ w.oC = Map(L, c, w.oL), "hash")

Init == i = 1
Next == /\ i <= Len(Trace) /\ i' = i + 1
        /\ LET e == Trace[i] IN
           Flag(CASE e.ev = "fn" -> OnFn(e)
                  [] e.ev = "describe" -> OnDescribe(e)
                  [] e.ev = "stream" -> OnStream(e)
                  [] OTHER -> {<<i, "unknown">>})
Spec == Init /\ [][Next]_i
Report == PrintT(<<"OBS_VIOLATIONS", TLCGet(1)>>) /\ PrintT(<<"OBS_TRACE_LEN", Len(Trace)>>)
=============================================================================
