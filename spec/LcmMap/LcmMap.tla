------------------------------- MODULE LcmMap -------------------------------
(***************************************************************************)
(* C07 -- LCM mode presents one consistent shard space to both clusters.   *)
(*                                                                         *)
(* Two layers, kept apart on purpose:                                      *)
(*                                                                         *)
(*  DEFINITIONS (what the property talks about; no algorithm)              *)
(*    Gcd, Lcm    greatest common divisor / least common multiple by       *)
(*                their defining property                                  *)
(*    Owner(c,h)  the shard that owns hash h in a cluster of c shards      *)
(*                (Temporal: common.WorkflowIDToHistoryShard = h % c + 1)  *)
(*    Map(L,c,s)  the shard of a c-shard cluster that an L-space shard s   *)
(*                must be served by                                        *)
(*                                                                         *)
(*  CODE MODEL (one operator per function of /repo, transcribed)           *)
(*    CodeGCD / CodeLCM            common/common.go:GCD, LCM               *)
(*    CodeMapShardID               go.temporal.io/server/common/util.go    *)
(*                                 :MapShardID (result is a SET of ids or  *)
(*                                 the value Panic)                        *)
(*    CodeMapUnique                proxy/admin_stream_transfer.go          *)
(*                                 :mapShardIDUnique                       *)
(*    CodeLcmParameters(dir)       proxy/cluster_connection.go             *)
(*                                 :NewClusterConnection.getLCMParameters  *)
(*    Describe(dir)                proxy/adminservice.go:DescribeCluster   *)
(*    OpenStream(dir, s)           proxy/admin_stream_transfer.go          *)
(*                                 :handleStream (case ShardCountLCM)      *)
(*                                                                         *)
(* dir = "inbound" : server reached by the REMOTE cluster, forwards to the *)
(*                   LOCAL cluster  (getLCMParameters(cfg, inverse=TRUE))  *)
(* dir = "outbound": server reached by the LOCAL cluster, forwards to the  *)
(*                   REMOTE cluster (inverse=FALSE)                        *)
(***************************************************************************)
EXTENDS Integers, FiniteSets, TLC

CONSTANTS MaxCount,     \* shard counts l, r range over 1..MaxCount
          HashPeriods,  \* hash residues 0 .. HashPeriods*L - 1 are enumerated for the consistency clause
          FviExcl,      \* FALSE = the code as it is; TRUE = a seeded design error: the failover-version-increment override
                        \* and the shard-count override are alternatives of one switch (cfg lcm_fviexcl.cfg must be violated)
          SwapDirs      \* FALSE = the code as it is; TRUE = a seeded design error (directions exchanged), used to
                        \* demonstrate that the invariants can fail (cfg lcm_swapped.cfg must report a violation)

Dirs == {"inbound", "outbound"}
Panic == -1

---------------------------------------------------------------------------
(* Definitions *)
Divides(d, n) == n % d = 0
Gcd(a, b) == CHOOSE d \in 1..a : /\ Divides(d, a) /\ Divides(d, b)
                                 /\ \A e \in 1..a : (Divides(e, a) /\ Divides(e, b)) => e <= d
\* least common multiple by definition; the search is bounded by a*b (which is a common multiple)
RECURSIVE LcmFrom(_, _, _)
LcmFrom(a, b, m) == IF Divides(b, m) THEN m ELSE LcmFrom(a, b, m + a)
Lcm(a, b) == LcmFrom(a, b, a)          \* multiples of a in increasing order; the first one b divides
Owner(c, h) == (h % c) + 1
Map(L, c, s) == ((s - 1) % c) + 1
\* the serving cluster's own shard count
Count(l, r, dir) == IF dir = "inbound" THEN l ELSE r

---------------------------------------------------------------------------
(* Code model *)
RECURSIVE Euclid(_, _)
Euclid(a, b) == IF b = 0 THEN a ELSE Euclid(b, a % b)
\* common.GCD: zero short-cut, orders the arguments, then the loop `for b != 0 { a, b = b, a%b }`
CodeGCD(a, b) == IF a = 0 \/ b = 0 THEN 0 ELSE IF a > b THEN Euclid(b, a) ELSE Euclid(a, b)
\* common.LCM: a * b / GCD(a, b)   (int32; a*b < 2^31 for all supported counts, see ASSUME)
CodeLCM(a, b) == IF a = 0 \/ b = 0 THEN 0 ELSE (a * b) \div CodeGCD(a, b)

\* servercommon.MapShardID(sourceShardCount, targetShardCount, sourceShardID): [panic, ids]
CodeMapShardID(src, tgt, sid) ==
  IF src % tgt # 0 /\ tgt % src # 0 THEN [panic |-> TRUE, ids |-> {}]
  ELSE LET z == sid - 1 IN
       [panic |-> FALSE,
        ids |-> IF src < tgt THEN {z + i * src + 1 : i \in 0..((tgt \div src) - 1)}      \* one to many
                ELSE IF src > tgt THEN {(z % tgt) + 1}                                    \* many to one
                ELSE {z + 1}]
\* mapShardIDUnique: panics unless exactly one element
CodeMapUnique(src, tgt, sid) ==
  LET m == CodeMapShardID(src, tgt, sid) IN
  IF m.panic \/ Cardinality(m.ids) # 1 THEN Panic ELSE CHOOSE x \in m.ids : TRUE

\* getLCMParameters(shardCountConfig, inverse): inbound server is built with inverse = TRUE
CodeLcmParameters(l, r, dir) ==
  LET inverse == IF SwapDirs THEN dir = "outbound" ELSE dir = "inbound" IN
  [lcm |-> CodeLCM(l, r), target |-> IF inverse THEN l ELSE r]

---------------------------------------------------------------------------
(* The machine: a configuration is chosen, then any sequence of calls.  res is the observable result of the last call. *)
VARIABLES l, r, res
vars == <<l, r, res>>
Counts == 1..MaxCount
Init == /\ l \in Counts /\ r \in Counts /\ res = [op |-> "config"]

\* adminServiceProxyServer.DescribeCluster, mode lcm: resp.HistoryShardCount = s.lcmParameters.LCM; then, independently,
\* the FailoverVersionIncrement override of this server (NewClusterConnection: inbound server gets
\* FVITranslation.Local, outbound server FVITranslation.Remote; 0 = not configured).  fl, fr: the configured translation.
RawFvi == 100
FviValues == {0, 10, 20}
CodeFviOverride(fl, fr, dir) == IF dir = "inbound" THEN fl ELSE fr
Describe(dir) ==
  \E fl \in FviValues, fr \in FviValues :
    LET ov == CodeFviOverride(fl, fr, dir) IN
    /\ res' = [op |-> "describe", dir |-> dir, fl |-> fl, fr |-> fr,
               reported |-> IF FviExcl /\ ov # 0 THEN Count(l, r, dir) ELSE CodeLcmParameters(l, r, dir).lcm,
               fvi |-> IF ov # 0 THEN ov ELSE RawFvi]
    /\ UNCHANGED <<l, r>>

\* handleStream, case ShardCountLCM: client shard := the LCM shard id, server shard := mapShardIDUnique(LCM, target, s)
OpenStream(dir, s) ==
  LET p == CodeLcmParameters(l, r, dir) IN
  /\ res' = [op |-> "stream", dir |-> dir, s |-> s, client |-> s, server |-> CodeMapUnique(p.lcm, p.target, s)]
  /\ UNCHANGED <<l, r>>

\* the parameters are computed once (NewClusterConnection) and the handlers keep no state between calls, so each call is
\* explored from the configuration state only
Next == res.op = "config" /\ \E dir \in Dirs : Describe(dir) \/ (\E s \in 1..Lcm(l, r) : OpenStream(dir, s))
Spec == Init /\ [][Next]_vars

---------------------------------------------------------------------------
(* Properties (DESIGN 3.6) *)
\* the arithmetic of common.go agrees with the definitions (also on swapped arguments)
ArithOK == res.op = "config" =>
           /\ CodeGCD(l, r) = Gcd(l, r) /\ CodeGCD(r, l) = Gcd(l, r)
           /\ CodeLCM(l, r) = Lcm(l, r) /\ CodeLCM(r, l) = Lcm(l, r)
           /\ Divides(l, Lcm(l, r)) /\ Divides(r, Lcm(l, r))
           /\ \A m \in 1..(Lcm(l, r) - 1) : ~(Divides(l, m) /\ Divides(r, m))
\* both directions report the least common multiple, whatever else the response translation is configured to do
ReportedOK == res.op = "describe" => res.reported = Lcm(l, r)
\* the failover version increment is the configured translation of that side, else the cluster's own
FviOK == res.op = "describe" =>
           res.fvi = (LET ov == IF res.dir = "inbound" THEN res.fl ELSE res.fr IN IF ov # 0 THEN ov ELSE RawFvi)
\* no LCM shard id panics or maps outside 1..count of the serving cluster
InRange == res.op = "stream" => res.server # Panic /\ res.server \in 1..Count(l, r, res.dir)
\* the LCM shard id is passed on as the initiator's shard id
ClientIsS == res.op = "stream" => res.client = res.s
\* the serving shard owns, under the serving cluster's own count, every workflow that hashes to s in the LCM space
HashConsistent ==
  res.op = "stream" =>
    LET L == Lcm(l, r)  c == Count(l, r, res.dir) IN
    \A h \in 0..(HashPeriods * L - 1) : Owner(L, h) = res.s => Owner(c, h) = res.server
\* ... and it is the shard the definition names
MapOK == res.op = "stream" => res.server = Map(Lcm(l, r), Count(l, r, res.dir), res.s)
\* MapShardID is single-valued for (LCM, count): never the one-to-many branch, never the panic branch
Unique == res.op = "config" => \A dir \in Dirs : \A s \in 1..Lcm(l, r) :
            LET m == CodeMapShardID(Lcm(l, r), Count(l, r, dir), s) IN ~m.panic /\ Cardinality(m.ids) = 1

\* the supported range keeps common.LCM's int32 product exact
ASSUME 16384 * 16384 <= 2147483647
=============================================================================
