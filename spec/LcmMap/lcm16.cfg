SPECIFICATION Spec
CONSTANTS
  MaxCount = 16
  HashPeriods = 2
  SwapDirs = FALSE
INVARIANTS ArithOK ReportedOK InRange ClientIsS HashConsistent MapOK Unique
CHECK_DEADLOCK FALSE
