------------------------------ MODULE LcmLemma ------------------------------
(* The divisibility lemma behind HashConsistent (DESIGN 3.6), attempted with  *)
(* TLAPS under a timeout.  The claim level of C07 does not depend on it: the  *)
(* evidence records how many obligations were discharged.                     *)
EXTENDS Integers, TLAPS

\* uniqueness of quotient and remainder (assumed here as the standard characterisation of % for a positive divisor)
LEMMA ModUnique ==
  ASSUME NEW a \in Int, NEW c \in Nat \ {0}, NEW q \in Int, NEW r \in 0..(c - 1), a = c * q + r
  PROVE  a % c = r
  BY Z3

\* c | L  =>  (h % L) % c = h % c      (hence Owner(c, h) = Map(L, c, Owner(L, h)))
THEOREM ModMod ==
  ASSUME NEW h \in Nat, NEW c \in Nat \ {0}, NEW k \in Nat \ {0}
  PROVE  (h % (k * c)) % c = h % c
<1> DEFINE L == k * c
<1> DEFINE q == h \div L
<1> DEFINE r == h % L
<1>1. L \in Nat \ {0}
  BY DEF L
<1>2. h = L * q + r /\ r \in Nat /\ q \in Nat
  BY <1>1 DEF q, r
<1>3. L * q = c * (k * q)
  BY <1>2 DEF L
<1>4. r = c * (r \div c) + (r % c) /\ (r % c) \in 0..(c - 1)
  BY <1>2
<1>5. h = c * (k * q + (r \div c)) + (r % c)
  BY <1>2, <1>3, <1>4
<1>6. h % c = r % c
  BY <1>4, <1>5, <1>2, ModUnique
<1> QED BY <1>6 DEF r, L
=============================================================================
