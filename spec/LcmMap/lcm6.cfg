SPECIFICATION Spec
CONSTANTS
  MaxCount = 6
  HashPeriods = 2
  FviExcl = FALSE
  SwapDirs = FALSE
INVARIANTS ArithOK ReportedOK FviOK InRange ClientIsS HashConsistent MapOK Unique
CHECK_DEADLOCK FALSE
