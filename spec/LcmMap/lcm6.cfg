SPECIFICATION Spec
CONSTANTS
  MaxCount = 6
  HashPeriods = 2
  SwapDirs = FALSE
INVARIANTS ArithOK ReportedOK InRange ClientIsS HashConsistent MapOK Unique
CHECK_DEADLOCK FALSE
