SPECIFICATION Spec
CONSTANTS
  MaxCount = 48
  HashPeriods = 2
  SwapDirs = FALSE
INVARIANTS ArithOK ReportedOK InRange ClientIsS HashConsistent MapOK Unique
CHECK_DEADLOCK FALSE
