---------------------------- MODULE ClientConnObs ----------------------------
(***************************************************************************)
(* Observation monitor for C11 on what a REAL MultiClientConn wired to a    *)
(* REAL multiMuxManager did (trace.ndjson).  History only:                  *)
(*   regd      keys of the last Update event (emitted by a listener that    *)
(*             runs after MultiClientConn.OnConnectionListUpdate, under the *)
(*             table lock)                                                  *)
(*   liveFrom[k] line of Cmd Add k (logged before the connection is handed  *)
(*             to the pool: a racing call can be answered by k before the   *)
(*             harness's own listener has logged the Update)                *)
(*   killed    sessions the harness has killed (Cmd Kill is logged before   *)
(*             the kill), deadFrom[k] = that line                           *)
(*   wedged    sessions whose peer (played by the harness) never accepts a  *)
(*             stream: registered and alive, but they cannot serve          *)
(*   the SET of a line = (regd \ killed) \ wedged : sessions registered,    *)
(*             alive and able to serve                                      *)
(*   lastEmpty the last line at which the set was empty                     *)
(*   rstart[r], rarr[r]  line at which call r was issued / session whose    *)
(*             server handler it reached                                    *)
(* Calls: "g<i>" held inside the handler, "b.." bursts at quiescent points, *)
(* "c<i>" background calls racing with the changes.                         *)
(* Clauses (register 1, <<line, clause, call, x>>):                         *)
(*   served   an OK call was answered by a session that was not registered  *)
(*            at any point of the call, or not by the one it reached        *)
(*   unavail  a call failed Unavailable although the set was non-empty      *)
(*            during the whole call and the session it had reached was not  *)
(*            killed under it (fail-over / resumption clause)               *)
(*   rpcerr   a call ended with any other error (incl. the bounded wait)    *)
(*   mapsync  at a quiescent point the keys of connMap differ from the      *)
(*            table, or the table from the last Update                      *)
(*   cmc      CanMakeCalls() # (table non-empty), right after an update     *)
(*            (still under the table lock) or at a quiescent point          *)
(*   spread   at a quiescent point, within the bounded wait, not every       *)
(*            registered session answered a call (an endpoint is missing     *)
(*            from what the client connection may dial)                      *)
(*   progress something did not happen within the bounded wait              *)
(***************************************************************************)
EXTENDS Integers, Sequences, FiniteSets, TLC, Json
Trace == ndJsonDeserialize("trace.ndjson")
ASSUME TLCSet(1, {})
VARIABLES l, regd, killed, wedged, deadFrom, liveFrom, unregAt, resetAt, resetOpen, lastReset, lastEmpty, rstart, rarr
vars == <<l, regd, killed, wedged, deadFrom, liveFrom, unregAt, resetAt, resetOpen, lastReset, lastEmpty, rstart, rarr>>
hv == <<regd, killed, wedged, deadFrom, liveFrom, unregAt, resetAt, rstart, rarr>>
FlagAll(S) == IF S = {} THEN TRUE ELSE TLCSet(1, TLCGet(1) \cup S)
SetOf(q) == {q[i] : i \in 1..Len(q)}
Put(f, k, v) == [x \in DOMAIN f \cup {k} |-> IF x = k THEN v ELSE f[x]]
Init == /\ l = 1 /\ regd = {} /\ killed = {} /\ wedged = {} /\ deadFrom = <<>> /\ liveFrom = <<>> /\ unregAt = <<>> /\ resetAt = <<>> /\ resetOpen = {} /\ lastReset = 0 /\ lastEmpty = 0
        /\ rstart = <<>> /\ rarr = <<>>

OnUpdate(e) ==
  LET keys == SetOf(e.keys) IN
  /\ regd' = keys
  /\ UNCHANGED liveFrom
  /\ unregAt' = [k \in DOMAIN unregAt \cup (regd \ keys) |-> IF k \in DOMAIN unregAt THEN unregAt[k] ELSE l]
  /\ FlagAll(IF e.can # (keys # {}) THEN {<<l, "cmc", "", Cardinality(keys)>>} ELSE {})
  /\ UNCHANGED <<killed, wedged, deadFrom, resetAt, rstart, rarr>>

OnRpcEnd(e) ==
  LET r == e.r
      s == IF r \in DOMAIN rstart THEN rstart[r] ELSE l
      \* session k existed and was registered at some line of [s, l]
      \* (a session that was told to die keeps answering until it has really shut down, so the upper end is its
      \* unregistration, not the kill command)
      inSetDuring(k) == k \in DOMAIN liveFrom /\ liveFrom[k] <= l /\ (k \notin DOMAIN unregAt \/ unregAt[k] >= s)
      reached == IF r \in DOMAIN rarr THEN rarr[r] ELSE -1
      killedUnder == reached \in killed /\ deadFrom[reached] >= s
      emptyDuring == lastEmpty >= s
      \* a background call ("c..") races with the changes: it may have been sent on a session that was dead but still
      \* registered at some point of the call (nothing tells the client before the transport notices)
      racing == SubSeq(r, 1, 1) = "c"
      staleDuring == \E k \in killed : k \notin DOMAIN unregAt \/ unregAt[k] >= s
      \* the peer reset the gRPC transport (one yamux stream; the session stays) the call was in flight on
      resetUnder == reached \in DOMAIN resetAt /\ resetAt[reached] >= s
      \* a racing call may have been sent on a transport between its reset and the client's re-dial (Redial event)
      resetDuring == lastReset >= s
  IN /\ FlagAll(CASE e.code = "OK" -> IF inSetDuring(e.k) /\ reached = e.k THEN {} ELSE {<<l, "served", r, e.k>>}
                  [] e.code = "Unavailable" -> IF emptyDuring \/ killedUnder \/ resetUnder \/ (racing /\ (staleDuring \/ resetDuring)) THEN {} ELSE {<<l, "unavail", r, reached>>}
                  [] OTHER -> {<<l, "rpcerr", r, 0>>})
     /\ UNCHANGED hv

OnQuiet(e) ==
  LET tbl == SetOf(e.table) mcc == SetOf(e.mcc) IN
  /\ FlagAll(IF e.broken THEN {}
             ELSE (IF e.stuck # "" THEN {<<l, "progress", e.stuck, 0>>} ELSE {})
                  \cup (IF e.stuck = "" /\ (mcc # tbl \/ tbl # regd) THEN {<<l, "mapsync", "", Cardinality(tbl)>>} ELSE {})
                  \cup (IF e.stuck = "" /\ e.can # (tbl # {}) THEN {<<l, "cmc", "", Cardinality(tbl)>>} ELSE {}))
  /\ UNCHANGED hv

Step(e) ==
  CASE e.ev = "Config" -> /\ regd' = {} /\ killed' = {} /\ wedged' = {} /\ deadFrom' = <<>> /\ liveFrom' = <<>> /\ unregAt' = <<>> /\ resetAt' = <<>>
                          /\ rstart' = <<>> /\ rarr' = <<>>
    [] e.ev = "Update" -> OnUpdate(e)
    [] e.ev = "Cmd" /\ e.a = "Add" -> /\ liveFrom' = Put(liveFrom, e.k, l)     \* logged before the conn is handed to the pool
                                       /\ wedged' = (IF e.w THEN wedged \cup {e.k} ELSE wedged)
                                       /\ UNCHANGED <<regd, killed, deadFrom, unregAt, resetAt, rstart, rarr>>
    [] e.ev = "Cmd" /\ e.a = "Kill" -> /\ killed' = killed \cup {e.k} /\ deadFrom' = Put(deadFrom, e.k, l)
                                        /\ UNCHANGED <<regd, wedged, liveFrom, unregAt, resetAt, rstart, rarr>>
    [] e.ev = "Cmd" /\ e.a = "Reset" -> resetAt' = Put(resetAt, e.k, l) /\ UNCHANGED <<regd, killed, wedged, deadFrom, liveFrom, unregAt, rstart, rarr>>
    [] e.ev = "RpcStart" -> rstart' = Put(rstart, e.r, l) /\ UNCHANGED <<regd, killed, wedged, deadFrom, liveFrom, unregAt, resetAt, rarr>>
    [] e.ev = "RpcArrive" -> rarr' = Put(rarr, e.r, e.k) /\ UNCHANGED <<regd, killed, wedged, deadFrom, liveFrom, unregAt, resetAt, rstart>>
    [] e.ev = "RpcEnd" -> OnRpcEnd(e)
    [] e.ev = "Quiet" -> OnQuiet(e)
    [] e.ev = "Spread" -> /\ FlagAll(IF ~e.broken /\ ~(SetOf(e.table) \subseteq SetOf(e.served))
                                     THEN {<<l, "spread", "", Cardinality(SetOf(e.table) \ SetOf(e.served))>>} ELSE {})
                          /\ UNCHANGED hv
    [] OTHER -> UNCHANGED hv
Next == /\ l <= Len(Trace) /\ l' = l + 1
        /\ LET e == Trace[l] IN
           /\ Step(e)
           \* the set after this line
           /\ resetOpen' = (IF e.ev = "Config" THEN {}
                            ELSE IF e.ev = "Cmd" /\ e.a = "Reset" THEN resetOpen \cup {e.k}
                            ELSE IF e.ev = "Redial" THEN resetOpen \ {e.k} ELSE resetOpen)
           /\ lastReset' = (IF e.ev = "Config" THEN 0 ELSE IF resetOpen # {} \/ resetOpen' # {} THEN l ELSE lastReset)
           /\ lastEmpty' = IF e.ev = "Config" THEN l ELSE IF (regd' \ killed') \ wedged' = {} THEN l ELSE lastEmpty
Spec == Init /\ [][Next]_vars
Report == PrintT(<<"OBS_VIOLATIONS", TLCGet(1)>>) /\ PrintT(<<"OBS_TRACE_LEN", Len(Trace)>>)
=============================================================================
