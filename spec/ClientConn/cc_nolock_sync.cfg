SPECIFICATION Spec
CONSTANTS
  N = 2
  MaxSess = 3
  MaxRpc = 1
  InLock = FALSE
  MaxWedged = 1
  AllowReset = TRUE
INVARIANTS Sync
CHECK_DEADLOCK FALSE
