SPECIFICATION Spec
CONSTANTS
  N = 3
  MaxSess = 5
  MaxRpc = 3
  InLock = TRUE
  MaxWedged = 0
  AllowReset = FALSE
INVARIANTS TypeOK Sync CanMakeCallsConsistent ServedByLive UnavailOnlyIfEmpty Resumable NoStaleReady
CHECK_DEADLOCK FALSE
