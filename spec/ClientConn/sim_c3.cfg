INIT SimInit
NEXT SimNext
CONSTANTS
  N = 3
  MaxSess = 8
  MaxRpc = 3
  InLock = TRUE
  MaxWedged = 1
  MaxBurst = 4
  MaxHold = 2
  MaxSick = 2
  MaxReset = 2
  MaxIdle = 0
  AllowReset = TRUE
  Depth = 28
CHECK_DEADLOCK FALSE
