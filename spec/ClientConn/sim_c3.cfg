INIT SimInit
NEXT SimNext
CONSTANTS
  N = 3
  MaxSess = 7
  MaxRpc = 3
  InLock = TRUE
  MaxBurst = 4
  Depth = 24
CHECK_DEADLOCK FALSE
