#!/usr/bin/env python3
"""Regenerates the .cfg files of spec/ClientConn (run by hand; the files are committed)."""
INV = "TypeOK Sync CanMakeCallsConsistent ServedByLive UnavailOnlyIfEmpty Resumable NoStaleReady"
def design(name, n, sess, rpc, inlock="TRUE", invs=INV):
    open(name + ".cfg", "w").write("SPECIFICATION Spec\nCONSTANTS\n  N = %d\n  MaxSess = %d\n  MaxRpc = %d\n  InLock = %s\nINVARIANTS %s\nCHECK_DEADLOCK FALSE\n"
                                   % (n, sess, rpc, inlock, invs))
def sim(name, n, sess, rpc, depth, burst=1):
    open(name + ".cfg", "w").write("INIT SimInit\nNEXT SimNext\nCONSTANTS\n  N = %d\n  MaxSess = %d\n  MaxRpc = %d\n  InLock = TRUE\n  MaxBurst = %d\n  Depth = %d\nCHECK_DEADLOCK FALSE\n"
                                   % (n, sess, rpc, burst, depth))
design("cc_lock2", 2, 3, 2)
design("cc_lock3", 3, 4, 2)
design("cc_lock3_t", 3, 5, 3)
# vacuity: with the listener outside the table lock the same invariants break
design("cc_nolock_sync", 2, 3, 1, "FALSE", "Sync")
design("cc_nolock_unavail", 2, 3, 1, "FALSE", "UnavailOnlyIfEmpty")
design("cc_nolock_cmc", 2, 3, 1, "FALSE", "CanMakeCallsConsistent")
sim("bfs_c1", 1, 3, 1, 10, 2)
sim("sim_c2", 2, 5, 3, 18, 4)
sim("sim_c3", 3, 7, 3, 24, 4)
