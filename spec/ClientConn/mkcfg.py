#!/usr/bin/env python3
"""Regenerates the .cfg files of spec/ClientConn (run by hand; the files are committed)."""
INV = "TypeOK Sync CanMakeCallsConsistent ServedByLive UnavailOnlyIfEmpty Resumable NoStaleReady"
def design(name, n, sess, rpc, inlock="TRUE", invs=INV, wedged=1, reset="TRUE"):
    open(name + ".cfg", "w").write("SPECIFICATION Spec\nCONSTANTS\n  N = %d\n  MaxSess = %d\n  MaxRpc = %d\n  InLock = %s\n  MaxWedged = %d\n  AllowReset = %s\nINVARIANTS %s\nCHECK_DEADLOCK FALSE\n"
                                   % (n, sess, rpc, inlock, wedged, reset, invs))
def sim(name, n, sess, rpc, depth, burst=1, wedged=0, hold=0, sick=0, reset=0, idle=0):
    open(name + ".cfg", "w").write("INIT SimInit\nNEXT SimNext\nCONSTANTS\n  N = %d\n  MaxSess = %d\n  MaxRpc = %d\n  InLock = TRUE\n  MaxWedged = %d\n  MaxBurst = %d\n  MaxHold = %d\n  MaxSick = %d\n  MaxReset = %d\n  MaxIdle = %d\n  AllowReset = TRUE\n  Depth = %d\nCHECK_DEADLOCK FALSE\n"
                                   % (n, sess, rpc, wedged, burst, hold, sick, reset, idle, depth))
design("cc_lock2", 2, 3, 2)
design("cc_lock3", 3, 4, 2)
design("cc_lock3_t", 3, 5, 3, wedged=0, reset="FALSE")
# vacuity: with the listener outside the table lock the same invariants break
design("cc_nolock_sync", 2, 3, 1, "FALSE", "Sync")
design("cc_nolock_unavail", 2, 3, 1, "FALSE", "UnavailOnlyIfEmpty")
design("cc_nolock_cmc", 2, 3, 1, "FALSE", "CanMakeCallsConsistent")
sim("bfs_c1", 1, 3, 1, 10, 2, sick=1, reset=1)
sim("sim_c2", 2, 6, 3, 22, 4, wedged=1, hold=2, sick=2, reset=2)
sim("sim_c3", 3, 8, 3, 28, 4, wedged=1, hold=2, sick=2, reset=2)
# exhaustive: two slots, a wedged session and a held add (kill another session while the add's notification is parked)
sim("bfs_c2w", 2, 3, 1, 8, 1, wedged=1, hold=1)
# exhaustive: one slot, transport resets of the live session between calls
sim("bfs_c1r", 1, 2, 1, 9, 2, reset=2)
# exhaustive: one slot, the channel idles between calls / adds / kills
sim("bfs_c1i", 1, 2, 1, 8, 2, idle=1)
