INIT SimInit
NEXT SimNext
CONSTANTS
  N = 1
  MaxSess = 2
  MaxRpc = 1
  InLock = TRUE
  MaxWedged = 0
  MaxBurst = 2
  MaxHold = 0
  MaxSick = 0
  MaxReset = 0
  MaxIdle = 1
  AllowReset = TRUE
  Depth = 8
CHECK_DEADLOCK FALSE
