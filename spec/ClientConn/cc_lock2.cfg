SPECIFICATION Spec
CONSTANTS
  N = 2
  MaxSess = 3
  MaxRpc = 2
  InLock = TRUE
  MaxWedged = 1
  AllowReset = TRUE
INVARIANTS TypeOK Sync CanMakeCallsConsistent ServedByLive UnavailOnlyIfEmpty Resumable NoStaleReady
CHECK_DEADLOCK FALSE
