---------------------------- MODULE ClientConnSim ----------------------------
(* Behaviour generator for the replay harness: ClientConn in EAGER NORMAL FORM *)
(* (table updates, gRPC reconnects and picks run as soon as they are enabled)  *)
(* plus the history of environment commands:                                   *)
(*   Add(w, hold)   a new session comes up (dial, yamux handshake, ping); w: its *)
(*                  peer never accepts streams; hold: its listener             *)
(*                  notification is parked until AddRelease                    *)
(*   Kill(k,how)    session k dies: how = "peer" (remote hangs up) or "local"  *)
(*                  (ManagedMuxSession.Close)                                  *)
(*   Burst          a few sequential calls at the quiescent point              *)
(*   RpcStart(r)    call r is issued and held inside the server handler it     *)
(*                  reaches (or fails at once)                                 *)
(*   RpcRelease(r)  the handler answers                                        *)
(* Every behaviour is padded to Depth commands and printed as one JSON line.   *)
EXTENDS ClientConn, Sequences, Json
CONSTANTS Depth, MaxBurst,
          MaxHold,  \* how often an Add is HELD: the harness parks the listener notification of that AddConnection (a gate listener
                    \* registered in front of the MultiClientConn's) while other sessions are killed, then releases it. With
                    \* the listener under the table lock (the code) this is the same behaviour as Add followed by the kills;
                    \* with the notification outside the lock the removal update overtakes the add's.
          MaxSick,  \* sessions added "sick": registered and alive, but their last health ping failed (ManagedMuxSession.State() is
                    \* Error; the harness lets the peer swallow that one ping's answer). For the design they are ordinary
                    \* sessions: usable = registered and alive.
          MaxIdle,  \* how often the channel is left alone until gRPC has put it into IDLE (the harness gives the real
                    \* MultiClientConn a short grpc.WithIdleTimeout for such schedules and waits for connectivity.Idle)
          MaxReset  \* how often the peer resets the gRPC transport stream of a live session (Reset)
VARIABLES hist, bursts, hold, holds, sicks, resets, idles
Cmd(r) == hist' = Append(hist, r)
SimInit == Init /\ hist = <<>> /\ bursts = 0 /\ hold = 0 /\ holds = 0 /\ sicks = 0 /\ resets = 0 /\ idles = 0
Newest == CHOOSE k \in Id : sstate[k] # "none" /\ \A j \in Id : sstate[j] # "none" => j <= k
\* a wedged session is only added next to an ordinary live one (the "wedged sibling");
\* calls are issued only while an ordinary (not wedged) session is alive or nothing is registered: with only a wedged
\* session registered gRPC keeps connecting and a call would just sit out its deadline
CallsOk == Live \ wedged # {} \/ table = {}
EnvStep ==
  \/ (hold = 0 /\ \E w \in BOOLEAN : (w => Live \ wedged # {}) /\ AddK(w) /\ Cmd([a |-> "Add", k |-> 0, w |-> w, hold |-> FALSE]) /\ UNCHANGED <<bursts, hold, holds, sicks, resets, idles>>)
  \/ (hold = 0 /\ holds < MaxHold /\ Live # {} /\ AddK(FALSE) /\ hold' = 1 /\ holds' = holds + 1
        /\ Cmd([a |-> "Add", k |-> 0, w |-> FALSE, hold |-> TRUE]) /\ UNCHANGED <<bursts, sicks, resets, idles>>)
  \/ (hold = 0 /\ sicks < MaxSick /\ AddK(FALSE) /\ sicks' = sicks + 1
        /\ Cmd([a |-> "Add", k |-> 0, w |-> FALSE, hold |-> FALSE, s |-> TRUE]) /\ UNCHANGED <<bursts, hold, holds, resets, idles>>)
  \/ (hold = 0 /\ resets < MaxReset /\ \E k \in Id : Reset(k) /\ resets' = resets + 1 /\ Cmd([a |-> "Reset", k |-> k])
        /\ UNCHANGED <<bursts, hold, holds, sicks, idles>>)
  \/ (hold = 0 /\ idles < MaxIdle /\ updated /\ GoIdle /\ idles' = idles + 1 /\ Cmd([a |-> "Idle", k |-> 0])
        /\ UNCHANGED <<bursts, hold, holds, sicks, resets>>)
  \/ (hold # 0 /\ Cmd([a |-> "AddRelease", k |-> Newest]) /\ hold' = 0 /\ UNCHANGED <<vars, bursts, holds, sicks, resets, idles>>)
  \/ (\E k \in Id : Kill(k) /\ (hold # 0 => k # Newest) /\ \E how \in {"peer", "local"} : Cmd([a |-> "Kill", k |-> k, how |-> how])
        /\ UNCHANGED <<bursts, hold, holds, sicks, resets, idles>>)
  \/ (hold = 0 /\ CallsOk /\ \E r \in Rpc : RpcStart(r) /\ (\A q \in Rpc : q < r => rpc[q] # "idle") /\ Cmd([a |-> "RpcStart", k |-> r])
        /\ UNCHANGED <<bursts, hold, holds, sicks, resets, idles>>)
  \/ (hold = 0 /\ \E r \in Rpc : RpcDone(r) /\ Cmd([a |-> "RpcRelease", k |-> r]) /\ UNCHANGED <<bursts, hold, holds, sicks, resets, idles>>)
  \/ (hold = 0 /\ CallsOk /\ updated /\ bursts < MaxBurst /\ bursts' = bursts + 1 /\ Cmd([a |-> "Burst", k |-> 0]) /\ UNCHANGED <<vars, hold, holds, sicks, resets, idles>>
      /\ (Len(hist) = 0 \/ hist[Len(hist)].a # "Burst"))
Pad == ~ENABLED EnvStep /\ Cmd([a |-> "Pad", k |-> 0]) /\ UNCHANGED <<vars, bursts, hold, holds, sicks, resets, idles>>
SimNext ==
  /\ Len(hist) < Depth
  /\ IF ENABLED Internal THEN Internal /\ UNCHANGED <<hist, bursts, hold, holds, sicks, resets, idles>>
     ELSE EnvStep \/ Pad
  /\ (Len(hist') = Depth /\ Len(hist) < Depth => PrintT(ToJson(hist')))
=============================================================================
