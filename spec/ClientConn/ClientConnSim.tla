---------------------------- MODULE ClientConnSim ----------------------------
(* Behaviour generator for the replay harness: ClientConn in EAGER NORMAL FORM *)
(* (table updates, gRPC reconnects and picks run as soon as they are enabled)  *)
(* plus the history of environment commands:                                   *)
(*   Add            a new session comes up (dial, yamux handshake, ping)       *)
(*   Kill(k,how)    session k dies: how = "peer" (remote hangs up) or "local"  *)
(*                  (ManagedMuxSession.Close)                                  *)
(*   Burst          a few sequential calls at the quiescent point              *)
(*   RpcStart(r)    call r is issued and held inside the server handler it     *)
(*                  reaches (or fails at once)                                 *)
(*   RpcRelease(r)  the handler answers                                        *)
(* Every behaviour is padded to Depth commands and printed as one JSON line.   *)
EXTENDS ClientConn, Sequences, Json
CONSTANTS Depth, MaxBurst
VARIABLES hist, bursts
Cmd(r) == hist' = Append(hist, r)
SimInit == Init /\ hist = <<>> /\ bursts = 0
EnvStep ==
  \/ (Add /\ Cmd([a |-> "Add", k |-> 0]) /\ UNCHANGED bursts)
  \/ (\E k \in Id : Kill(k) /\ \E how \in {"peer", "local"} : Cmd([a |-> "Kill", k |-> k, how |-> how]) /\ UNCHANGED bursts)
  \/ (\E r \in Rpc : RpcStart(r) /\ (\A q \in Rpc : q < r => rpc[q] # "idle") /\ Cmd([a |-> "RpcStart", k |-> r]) /\ UNCHANGED bursts)
  \/ (\E r \in Rpc : RpcDone(r) /\ Cmd([a |-> "RpcRelease", k |-> r]) /\ UNCHANGED bursts)
  \/ (updated /\ bursts < MaxBurst /\ bursts' = bursts + 1 /\ Cmd([a |-> "Burst", k |-> 0]) /\ UNCHANGED vars
      /\ (Len(hist) = 0 \/ hist[Len(hist)].a # "Burst"))
Pad == ~ENABLED EnvStep /\ Cmd([a |-> "Pad", k |-> 0]) /\ UNCHANGED <<vars, bursts>>
SimNext ==
  /\ Len(hist) < Depth
  /\ IF ENABLED Internal THEN Internal /\ UNCHANGED <<hist, bursts>>
     ELSE EnvStep \/ Pad
  /\ (Len(hist') = Depth /\ Len(hist) < Depth => PrintT(ToJson(hist')))
=============================================================================
