------------------------------ MODULE ClientConn ------------------------------
(***************************************************************************)
(* C11: RPCs of the proxy's client connection travel only over live mux     *)
(* sessions - transport/mux/multi_mux_manager.go (AddConnection /           *)
(* unregisterMux / notifyChange), transport/grpcutil/multi_client_conn.go   *)
(* (OnConnectionListUpdate / UpdateState / getMapDialer / CanMakeCalls),    *)
(* wiring in transport/mux/grpc_mux_manager.go.                             *)
(*                                                                          *)
(*   Add          multi_mux_manager.go:AddConnection  (table + notifyChange *)
(*                under muxesLock)                                          *)
(*   AddK(w)      w = TRUE: the new session is "wedged" - its peer answers   *)
(*                pings but never accepts a stream, so it stays registered   *)
(*                and a dial on it (session.Open) hangs                      *)
(*   Kill(k)      the session dies (peer hangs up / ManagedMuxSession.Close)*)
(*   Unreg(k)     multi_mux_manager.go:unregisterMux  (delete + notifyChange*)
(*                under muxesLock)                                          *)
(*   Notify(t)    multi_client_conn.go:OnConnectionListUpdate -> UpdateState*)
(*                (connMap := t; manual resolver state := keys of connMap). *)
(*                InLock = TRUE: as in the code, inside the caller's        *)
(*                critical section.  InLock = FALSE (vacuity variant): the  *)
(*                snapshot is handed to the listener after the lock is      *)
(*                released, so two snapshots can be applied in either order *)
(*                (Apply).                                                  *)
(* A deliberately weak model of gRPC (round_robin over one endpoint per     *)
(* key, custom dialer):                                                     *)
(*   Connect(k)   a subconn of endpoint k dials: getMapDialer looks k up in *)
(*                connMap and calls session.Open - succeeds iff k is in the *)
(*                map and its session is alive                              *)
(*   Notice(k)    a ready subconn whose session died is noticed             *)
(*   RpcStart(r) / RpcPick(r,k) / RpcFailFast(r) / RpcDone(r)               *)
(*                a pick chooses ANY ready subconn; a pick of a subconn     *)
(*                whose session is dead fails before anything was sent and  *)
(*                is retried; with no endpoint, or every endpoint failed,   *)
(*                the call fails Unavailable; a call in flight on a session *)
(*                that is killed fails Unavailable                          *)
(***************************************************************************)
EXTENDS Integers, FiniteSets, TLC

CONSTANTS N,        \* slots of the pool
          MaxSess,  \* sessions ever created
          MaxRpc,   \* calls
          InLock,   \* listener invoked inside the table lock (the code) / outside (vacuity variant)
          MaxWedged, \* sessions whose peer answers pings but never accepts a stream: alive and registered, session.Open hangs
          AllowReset \* the environment may reset the gRPC transport (one yamux stream) of a live session

Id == 1..MaxSess
Rpc == 1..MaxRpc

VARIABLES
  sstate,    \* k -> none | live | dead | gone      (dead = died, still in the table)
  wedged,    \* sessions that are alive but whose peer never accepts a stream (environment fault)
  table,     \* multiMuxManager.muxes
  ver,       \* number of table changes so far
  pending,   \* snapshots handed to the listener but not applied yet (only with ~InLock)
  connMap,   \* MultiClientConn.connMap (keys)
  eps,       \* endpoints of the manual resolver
  updated,   \* UpdateState has been called at least once
  sub,       \* k -> none | ready | failed        (gRPC subconn of endpoint k)
  rpc,       \* r -> idle | pick | on | ok | unavail
  at,        \* r -> session the call is / was on (0 = none)
  sawEmpty,  \* history: no session was registered and alive at some point during call r
  killedOn   \* history: the session call r was in flight on was killed
vars == <<sstate, wedged, table, ver, pending, connMap, eps, updated, sub, rpc, at, sawEmpty, killedOn>>

Live == {k \in Id : sstate[k] = "live"}
Active == {r \in Rpc : rpc[r] \in {"pick", "on"}}
\* history bookkeeping shared by all actions: L = the live set after the step
Track(L) == sawEmpty' = [r \in Rpc |-> sawEmpty[r] \/ (r \in Active /\ L = {})]

Init == /\ sstate = [k \in Id |-> "none"] /\ wedged = {} /\ table = {} /\ ver = 0 /\ pending = {} /\ connMap = {} /\ eps = {}
        /\ updated = FALSE /\ sub = [k \in Id |-> "none"] /\ rpc = [r \in Rpc |-> "idle"] /\ at = [r \in Rpc |-> 0]
        /\ sawEmpty = [r \in Rpc |-> FALSE] /\ killedOn = [r \in Rpc |-> FALSE]

\* notifyChange -> OnConnectionListUpdate -> UpdateState
Notify(t) == IF InLock
             THEN /\ connMap' = t /\ eps' = t /\ updated' = TRUE /\ UNCHANGED pending
                  /\ sub' = [k \in Id |-> IF k \in t THEN sub[k] ELSE "none"]
             ELSE /\ pending' = pending \cup {[v |-> ver + 1, t |-> t]} /\ UNCHANGED <<connMap, eps, updated, sub>>
Apply(p) == /\ p \in pending /\ pending' = pending \ {p}
            /\ connMap' = p.t /\ eps' = p.t /\ updated' = TRUE
            /\ sub' = [k \in Id |-> IF k \in p.t THEN sub[k] ELSE "none"]
            /\ UNCHANGED <<sstate, wedged, table, ver, rpc, at, sawEmpty, killedOn>>

AddK(w) ==
       /\ Cardinality(table) < N /\ (w => Cardinality(wedged) < MaxWedged)
       /\ \E k \in Id : /\ sstate[k] = "none" /\ \A j \in Id : j < k => sstate[j] # "none"
                        /\ wedged' = IF w THEN wedged \cup {k} ELSE wedged
                        /\ sstate' = [sstate EXCEPT ![k] = "live"] /\ table' = table \cup {k}
                        /\ ver' = ver + 1 /\ Notify(table \cup {k})
                        /\ Track(Live \cup {k})
       /\ UNCHANGED <<rpc, at, killedOn>>
Add == \E w \in BOOLEAN : AddK(w)
Kill(k) == /\ sstate[k] = "live" /\ sstate' = [sstate EXCEPT ![k] = "dead"]
           /\ killedOn' = [r \in Rpc |-> killedOn[r] \/ (rpc[r] = "on" /\ at[r] = k)]
           /\ Track(Live \ {k})
           /\ UNCHANGED <<wedged, table, ver, pending, connMap, eps, updated, sub, rpc, at>>
Unreg(k) == /\ sstate[k] = "dead" /\ sstate' = [sstate EXCEPT ![k] = "gone"] /\ table' = table \ {k}
            /\ ver' = ver + 1 /\ Notify(table \ {k}) /\ Track(Live)
            /\ UNCHANGED <<wedged, rpc, at, killedOn>>

Connect(k) == /\ k \in eps /\ sub[k] \in {"none", "failed"}
              /\ ~(k \in wedged /\ sstate[k] = "live")          \* the dial hangs inside session.Open until the session dies
              /\ sub' = [sub EXCEPT ![k] = IF k \in connMap /\ sstate[k] = "live" THEN "ready" ELSE "failed"]
              /\ (sub'[k] # sub[k])
              /\ UNCHANGED <<sstate, wedged, table, ver, pending, connMap, eps, updated, rpc, at, sawEmpty, killedOn>>
Notice(k) == /\ sub[k] = "ready" /\ sstate[k] # "live" /\ sub' = [sub EXCEPT ![k] = "failed"]
             /\ UNCHANGED <<sstate, wedged, table, ver, pending, connMap, eps, updated, rpc, at, sawEmpty, killedOn>>
\* The peer loses / recycles the gRPC transport of session k (GOAWAY, stream reset, keepalive): ONE yamux stream is
\* closed, the session stays alive and registered. Calls in flight on it fail; gRPC re-dials the same endpoint
\* (Connect) and getMapDialer has to hand out a fresh stream of the same session: usable = registered and alive,
\* however often the endpoint was dialed.
Reset(k) == /\ AllowReset /\ sub[k] = "ready" /\ sstate[k] = "live"
            /\ sub' = [sub EXCEPT ![k] = "none"]
            /\ rpc' = [r \in Rpc |-> IF rpc[r] = "on" /\ at[r] = k THEN "unavail" ELSE rpc[r]]
            /\ killedOn' = [r \in Rpc |-> killedOn[r] \/ (rpc[r] = "on" /\ at[r] = k)]
            /\ UNCHANGED <<sstate, wedged, table, ver, pending, connMap, eps, updated, at, sawEmpty>>

\* The channel goes idle (no call for gRPC's idle timeout): gRPC drops its resolver, balancer and transports; the next
\* call makes it rebuild them, and the manual resolver has to hand the last published list to the new channel state.
GoIdle == /\ AllowReset /\ Active = {} /\ \E k \in Id : sub[k] # "none"
          /\ sub' = [k \in Id |-> "none"]
          /\ UNCHANGED <<sstate, wedged, table, ver, pending, connMap, eps, updated, rpc, at, sawEmpty, killedOn>>

\* calls are issued only after the first UpdateState (before it gRPC waits for the resolver)
RpcStart(r) == /\ rpc[r] = "idle" /\ updated /\ rpc' = [rpc EXCEPT ![r] = "pick"]
               /\ sawEmpty' = [sawEmpty EXCEPT ![r] = (Live = {})]
               /\ UNCHANGED <<sstate, wedged, table, ver, pending, connMap, eps, updated, sub, at, killedOn>>
RpcPick(r, k) == /\ rpc[r] = "pick" /\ sub[k] = "ready"
                 /\ IF sstate[k] = "live" THEN rpc' = [rpc EXCEPT ![r] = "on"] /\ at' = [at EXCEPT ![r] = k] /\ UNCHANGED sub
                    ELSE sub' = [sub EXCEPT ![k] = "failed"] /\ UNCHANGED <<rpc, at>>     \* nothing sent: retried
                 /\ UNCHANGED <<sstate, wedged, table, ver, pending, connMap, eps, updated, sawEmpty, killedOn>>
RpcFailFast(r) == /\ rpc[r] = "pick" /\ \A k \in eps : sub[k] = "failed"
                  /\ rpc' = [rpc EXCEPT ![r] = "unavail"]
                  /\ UNCHANGED <<sstate, wedged, table, ver, pending, connMap, eps, updated, sub, at, sawEmpty, killedOn>>
RpcDone(r) == /\ rpc[r] = "on"
              /\ rpc' = [rpc EXCEPT ![r] = IF sstate[at[r]] = "live" THEN "ok" ELSE "unavail"]
              /\ UNCHANGED <<sstate, wedged, table, ver, pending, connMap, eps, updated, sub, at, sawEmpty, killedOn>>

Internal == (\E k \in Id : Unreg(k) \/ Connect(k) \/ Notice(k)) \/ (\E p \in pending : Apply(p))
            \/ (\E r \in Rpc : RpcFailFast(r) \/ \E k \in Id : RpcPick(r, k))
Env == Add \/ GoIdle \/ (\E k \in Id : Kill(k) \/ Reset(k)) \/ (\E r \in Rpc : RpcStart(r) \/ RpcDone(r))
Next == Internal \/ Env
Spec == Init /\ [][Next]_vars

(* ---------------- properties ---------------------------------------------- *)
TypeOK == table \subseteq Id /\ connMap \subseteq Id /\ eps \subseteq Id
\* once an update has been applied, dialable endpoints = registered sessions
Sync == pending = {} => (connMap = table /\ eps = table)
CanMakeCalls == connMap # {}
CanMakeCallsConsistent == pending = {} => (CanMakeCalls <=> table # {})
\* a call is only ever on a session that was registered and alive when it was picked (the dialer succeeds only then);
\* it completes ok only if that session is still alive
ServedByLive == \A r \in Rpc : /\ (rpc[r] = "on" => at[r] \in Id /\ sstate[at[r]] # "none")
                               /\ (rpc[r] = "ok" => at[r] \in Id /\ sstate[at[r]] # "none" /\ ~killedOn[r])
UnavailOnlyIfEmpty == \A r \in Rpc : rpc[r] = "unavail" => (sawEmpty[r] \/ killedOn[r])
\* resumption: when gRPC has nothing left to do, every registered live session is a ready subconn
Resumable == (pending = {} /\ ~ENABLED Internal) => \A k \in Live \ wedged : sub[k] = "ready"
NoStaleReady == (pending = {} /\ ~ENABLED Internal) => \A k \in Id : sub[k] = "ready" => k \in Live
=============================================================================
