INIT SimInit
NEXT SimNext
CONSTANTS
  N = 2
  MaxSess = 3
  MaxRpc = 1
  InLock = TRUE
  MaxWedged = 1
  MaxBurst = 1
  MaxHold = 1
  MaxSick = 0
  MaxReset = 0
  MaxIdle = 0
  AllowReset = TRUE
  Depth = 8
CHECK_DEADLOCK FALSE
