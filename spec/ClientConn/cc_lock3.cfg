SPECIFICATION Spec
CONSTANTS
  N = 3
  MaxSess = 4
  MaxRpc = 2
  InLock = TRUE
  MaxWedged = 1
  AllowReset = TRUE
INVARIANTS TypeOK Sync CanMakeCallsConsistent ServedByLive UnavailOnlyIfEmpty Resumable NoStaleReady
CHECK_DEADLOCK FALSE
