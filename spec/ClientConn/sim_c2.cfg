INIT SimInit
NEXT SimNext
CONSTANTS
  N = 2
  MaxSess = 6
  MaxRpc = 3
  InLock = TRUE
  MaxWedged = 1
  MaxBurst = 4
  MaxHold = 2
  MaxSick = 2
  MaxReset = 2
  MaxIdle = 0
  AllowReset = TRUE
  Depth = 22
CHECK_DEADLOCK FALSE
