INIT SimInit
NEXT SimNext
CONSTANTS
  N = 2
  MaxSess = 5
  MaxRpc = 3
  InLock = TRUE
  MaxBurst = 4
  Depth = 18
CHECK_DEADLOCK FALSE
