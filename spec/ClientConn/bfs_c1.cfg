INIT SimInit
NEXT SimNext
CONSTANTS
  N = 1
  MaxSess = 3
  MaxRpc = 1
  InLock = TRUE
  MaxBurst = 2
  Depth = 10
CHECK_DEADLOCK FALSE
