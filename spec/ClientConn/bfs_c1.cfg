INIT SimInit
NEXT SimNext
CONSTANTS
  N = 1
  MaxSess = 3
  MaxRpc = 1
  InLock = TRUE
  MaxWedged = 0
  MaxBurst = 2
  MaxHold = 0
  MaxSick = 1
  MaxReset = 1
  MaxIdle = 0
  AllowReset = TRUE
  Depth = 10
CHECK_DEADLOCK FALSE
