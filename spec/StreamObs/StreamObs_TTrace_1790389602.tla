---- MODULE StreamObs_TTrace_1790389602 ----
EXTENDS StreamObs, Sequences, TLCExt, Toolbox, Naturals, TLC

_expression ==
    LET StreamObs_TEExpression == INSTANCE StreamObs_TEExpression
    IN StreamObs_TEExpression!expression
----

_trace ==
    LET StreamObs_TETrace == INSTANCE StreamObs_TETrace
    IN StreamObs_TETrace!trace
----

_inv ==
    ~(
        TLCGet("level") = Len(_TETrace)
        /\
        pc = (<<"start", "done">>)
        /\
        len = (2)
        /\
        cnt = ((0 :> 0 @@ 1 :> 0 @@ 2 :> 0 @@ 3 :> 0 @@ 4 :> 0 @@ 5 :> 0 @@ 6 :> 0 @@ 7 :> 0 @@ 8 :> 0 @@ 9 :> 0 @@ 10 :> 0 @@ 11 :> 0 @@ 12 :> 0 @@ 13 :> 0 @@ 14 :> 0 @@ 15 :> 0 @@ 16 :> 0 @@ 17 :> 0 @@ 18 :> 0 @@ 19 :> 0 @@ 20 :> 0 @@ 21 :> 0 @@ 22 :> 0 @@ 23 :> 0 @@ 24 :> 0 @@ 25 :> 0 @@ 26 :> 0 @@ 27 :> 0 @@ 28 :> 0 @@ 29 :> 0 @@ 30 :> 0 @@ 31 :> 0))
        /\
        lock = (2)
        /\
        id = (<<-32, 3>>)
        /\
        outcome = (<<"-", "rejected-panic">>)
        /\
        snap = (<<(-1 :> 0), (-1 :> 0)>>)
    )
----

_init ==
    /\ outcome = _TETrace[1].outcome
    /\ snap = _TETrace[1].snap
    /\ pc = _TETrace[1].pc
    /\ lock = _TETrace[1].lock
    /\ len = _TETrace[1].len
    /\ cnt = _TETrace[1].cnt
    /\ id = _TETrace[1].id
----

_next ==
    /\ \E i,j \in DOMAIN _TETrace:
        /\ \/ /\ j = i + 1
              /\ i = TLCGet("level")
        /\ outcome  = _TETrace[i].outcome
        /\ outcome' = _TETrace[j].outcome
        /\ snap  = _TETrace[i].snap
        /\ snap' = _TETrace[j].snap
        /\ pc  = _TETrace[i].pc
        /\ pc' = _TETrace[j].pc
        /\ lock  = _TETrace[i].lock
        /\ lock' = _TETrace[j].lock
        /\ len  = _TETrace[i].len
        /\ len' = _TETrace[j].len
        /\ cnt  = _TETrace[i].cnt
        /\ cnt' = _TETrace[j].cnt
        /\ id  = _TETrace[i].id
        /\ id' = _TETrace[j].id

\* Uncomment the ASSUME below to write the states of the error trace
\* to the given file in Json format. Note that you can pass any tuple
\* to `JsonSerialize`. For example, a sub-sequence of _TETrace.
    \* ASSUME
    \*     LET J == INSTANCE Json
    \*         IN J!JsonSerialize("StreamObs_TTrace_1790389602.json", _TETrace)

=============================================================================

 Note that you can extract this module `StreamObs_TEExpression`
  to a dedicated file to reuse `expression` (the module in the 
  dedicated `StreamObs_TEExpression.tla` file takes precedence 
  over the module `StreamObs_TEExpression` below).

---- MODULE StreamObs_TEExpression ----
EXTENDS StreamObs, Sequences, TLCExt, Toolbox, Naturals, TLC

expression == 
    [
        \* To hide variables of the `StreamObs` spec from the error trace,
        \* remove the variables below.  The trace will be written in the order
        \* of the fields of this record.
        outcome |-> outcome
        ,snap |-> snap
        ,pc |-> pc
        ,lock |-> lock
        ,len |-> len
        ,cnt |-> cnt
        ,id |-> id
        
        \* Put additional constant-, state-, and action-level expressions here:
        \* ,_stateNumber |-> _TEPosition
        \* ,_outcomeUnchanged |-> outcome = outcome'
        
        \* Format the `outcome` variable as Json value.
        \* ,_outcomeJson |->
        \*     LET J == INSTANCE Json
        \*     IN J!ToJson(outcome)
        
        \* Lastly, you may build expressions over arbitrary sets of states by
        \* leveraging the _TETrace operator.  For example, this is how to
        \* count the number of times a spec variable changed up to the current
        \* state in the trace.
        \* ,_outcomeModCount |->
        \*     LET F[s \in DOMAIN _TETrace] ==
        \*         IF s = 1 THEN 0
        \*         ELSE IF _TETrace[s].outcome # _TETrace[s-1].outcome
        \*             THEN 1 + F[s-1] ELSE F[s-1]
        \*     IN F[_TEPosition - 1]
    ]

=============================================================================



Parsing and semantic processing can take forever if the trace below is long.
 In this case, it is advised to uncomment the module below to deserialize the
 trace from a generated binary file.

\*
\*---- MODULE StreamObs_TETrace ----
\*EXTENDS StreamObs, IOUtils, TLC
\*
\*trace == IODeserialize("StreamObs_TTrace_1790389602.bin", TRUE)
\*
\*=============================================================================
\*

---- MODULE StreamObs_TETrace ----
EXTENDS StreamObs, TLC

trace == 
    <<
    ([pc |-> <<"start", "start">>,len |-> 2,cnt |-> (0 :> 0 @@ 1 :> 0 @@ 2 :> 0 @@ 3 :> 0 @@ 4 :> 0 @@ 5 :> 0 @@ 6 :> 0 @@ 7 :> 0 @@ 8 :> 0 @@ 9 :> 0 @@ 10 :> 0 @@ 11 :> 0 @@ 12 :> 0 @@ 13 :> 0 @@ 14 :> 0 @@ 15 :> 0 @@ 16 :> 0 @@ 17 :> 0 @@ 18 :> 0 @@ 19 :> 0 @@ 20 :> 0 @@ 21 :> 0 @@ 22 :> 0 @@ 23 :> 0 @@ 24 :> 0 @@ 25 :> 0 @@ 26 :> 0 @@ 27 :> 0 @@ 28 :> 0 @@ 29 :> 0 @@ 30 :> 0 @@ 31 :> 0),lock |-> 0,id |-> <<-32, 3>>,outcome |-> <<"-", "-">>,snap |-> <<(-1 :> 0), (-1 :> 0)>>]),
    ([pc |-> <<"start", "report">>,len |-> 2,cnt |-> (0 :> 0 @@ 1 :> 0 @@ 2 :> 0 @@ 3 :> 0 @@ 4 :> 0 @@ 5 :> 0 @@ 6 :> 0 @@ 7 :> 0 @@ 8 :> 0 @@ 9 :> 0 @@ 10 :> 0 @@ 11 :> 0 @@ 12 :> 0 @@ 13 :> 0 @@ 14 :> 0 @@ 15 :> 0 @@ 16 :> 0 @@ 17 :> 0 @@ 18 :> 0 @@ 19 :> 0 @@ 20 :> 0 @@ 21 :> 0 @@ 22 :> 0 @@ 23 :> 0 @@ 24 :> 0 @@ 25 :> 0 @@ 26 :> 0 @@ 27 :> 0 @@ 28 :> 0 @@ 29 :> 0 @@ 30 :> 0 @@ 31 :> 0),lock |-> 0,id |-> <<-32, 3>>,outcome |-> <<"-", "-">>,snap |-> <<(-1 :> 0), (-1 :> 0)>>]),
    ([pc |-> <<"start", "grow">>,len |-> 2,cnt |-> (0 :> 0 @@ 1 :> 0 @@ 2 :> 0 @@ 3 :> 0 @@ 4 :> 0 @@ 5 :> 0 @@ 6 :> 0 @@ 7 :> 0 @@ 8 :> 0 @@ 9 :> 0 @@ 10 :> 0 @@ 11 :> 0 @@ 12 :> 0 @@ 13 :> 0 @@ 14 :> 0 @@ 15 :> 0 @@ 16 :> 0 @@ 17 :> 0 @@ 18 :> 0 @@ 19 :> 0 @@ 20 :> 0 @@ 21 :> 0 @@ 22 :> 0 @@ 23 :> 0 @@ 24 :> 0 @@ 25 :> 0 @@ 26 :> 0 @@ 27 :> 0 @@ 28 :> 0 @@ 29 :> 0 @@ 30 :> 0 @@ 31 :> 0),lock |-> 2,id |-> <<-32, 3>>,outcome |-> <<"-", "-">>,snap |-> <<(-1 :> 0), (-1 :> 0)>>]),
    ([pc |-> <<"start", "done">>,len |-> 2,cnt |-> (0 :> 0 @@ 1 :> 0 @@ 2 :> 0 @@ 3 :> 0 @@ 4 :> 0 @@ 5 :> 0 @@ 6 :> 0 @@ 7 :> 0 @@ 8 :> 0 @@ 9 :> 0 @@ 10 :> 0 @@ 11 :> 0 @@ 12 :> 0 @@ 13 :> 0 @@ 14 :> 0 @@ 15 :> 0 @@ 16 :> 0 @@ 17 :> 0 @@ 18 :> 0 @@ 19 :> 0 @@ 20 :> 0 @@ 21 :> 0 @@ 22 :> 0 @@ 23 :> 0 @@ 24 :> 0 @@ 25 :> 0 @@ 26 :> 0 @@ 27 :> 0 @@ 28 :> 0 @@ 29 :> 0 @@ 30 :> 0 @@ 31 :> 0),lock |-> 2,id |-> <<-32, 3>>,outcome |-> <<"-", "rejected-panic">>,snap |-> <<(-1 :> 0), (-1 :> 0)>>])
    >>
----


=============================================================================

---- CONFIG StreamObs_TTrace_1790389602 ----
CONSTANTS
    H = 2
    B = 3
    InitLen = 2
    Fixed = FALSE
    Ids <- IdsAll
    ServeFails = TRUE
    DeferUnreport = TRUE
    LockedAdd = TRUE

INVARIANT
    _inv

CHECK_DEADLOCK
    \* CHECK_DEADLOCK off because of PROPERTY or INVARIANT above.
    FALSE

INIT
    _init

NEXT
    _next

CONSTANT
    _TETrace <- _trace

ALIAS
    _expression
=============================================================================
\* Generated on Sat Sep 26 02:26:45 UTC 2026