----------------------------- MODULE StreamObsObs -----------------------------
(***************************************************************************)
(* Observation monitor for C20 over what the REAL                          *)
(* adminServiceProxyServer.StreamWorkflowReplicationMessages did behind a  *)
(* real grpc.Server (trace.ndjson, harness zz_verif_streamobs_test.go).    *)
(* One probe = a fresh ClusterConnection, then                             *)
(*   two well-formed streams that are held open (Hold; Hold2 on a shard id *)
(*   beyond the observer's initial capacity),                              *)
(*   Open(header under test) -> Result,                                    *)
(*   a well-formed stream opened afterwards (FollowUp) that must be served *)
(*   within FollowBoundMs, the observer's PrintActiveStreams while Hold    *)
(*   and FollowUp are open and after everything was closed.                *)
(* The environment did everything it owes (fake clusters accept every      *)
(* stream at once), so a time-out is the proxy's.                          *)
(*                                                                         *)
(* Property clauses (violations, <<probe id, clause>> in register 1):      *)
(*   ends      the probed open neither was served nor answered with an     *)
(*             error within the bound (EveryOpenEnds)                      *)
(*   followup  the later well-formed stream was not served in time, or it  *)
(*             or the held stream did not end normally (LaterStreamsServed)*)
(*   printer   PrintActiveStreams blocked (LockNotLeaked, seen from the     *)
(*             observer's logging goroutine)                               *)
(*   corrupt   the active set shown while Hold and FollowUp were open is   *)
(*             not exactly their two shard ids                             *)
(*   balanced  after all streams ended some counter is not zero            *)
(*   crash     an Open without Result: the process died                    *)
(* ServePanic records (one stream fails by a panic inside handleStream,    *)
(* then a well-formed stream on the same shard) and Concurrent records     *)
(* (workers open and close small ids while other opens force growth):      *)
(*   ends / followup / printer / balanced as above                         *)
(* Overlap records (several well-formed streams at once, distinct server    *)
(* shard ids congruent modulo both shard counts, then two streams on one   *)
(* server shard id): followup / printer, corrupt (the observer's active    *)
(* set is not the set of server shard ids with an open stream), tracker    *)
(* (the stream tracker's forwarder entries are not those of the open       *)
(* streams)                                                                *)
(* Conformance with the design at W = 32 (StreamPred), not verdicts:       *)
(*   predleak  the design of the pinned code predicts a leaked lock        *)
(*   notcur / notfixed  the observation differs from what the design of    *)
(*             the pinned / repaired code predicts for this probe          *)
(***************************************************************************)
EXTENDS StreamPred, FiniteSets, TLC, Json
CONSTANT FollowBoundMs
Trace == ndJsonDeserialize("trace.ndjson")
ASSUME TLCSet(1, {})
VARIABLES i, inp, res
vars == <<i, inp, res>>
Flag(S) == IF S = {} THEN TRUE ELSE TLCSet(1, TLCGet(1) \cup S)
Put(f, k, v) == [x \in DOMAIN f \cup {k} |-> IF x = k THEN v ELSE f[x]]
Bad(id, cond, clause) == IF cond THEN {} ELSE {<<id, clause>>}

Init == i = 1 /\ inp = <<>> /\ res = <<>>

OnOpen(e) == /\ inp' = Put(inp, e.id, e) /\ UNCHANGED res
             /\ Flag(IF PredCur(e) = "leak" THEN {<<e.id, "predleak">>} ELSE {})

OnResult(e) == /\ res' = Put(res, e.id, e) /\ UNCHANGED inp
               /\ Flag(Bad(e.id, e.result \in {"served", "rejected"}, "ends"))

Observed(r, f) ==
  \* r.panic: the error text is the one log.CapturePanic produces (the proxy has no status-code mapping: every error
  \* reaches the client as code Unknown, so the code cannot tell a decode error from a captured panic)
  IF r.result = "rejected" /\ ~r.panic /\ f.follow = "served" /\ f.printer = "ok" THEN "rejected"
  ELSE IF r.result = "served" /\ f.follow = "served" /\ f.printer = "ok" THEN "served"
  ELSE IF r.result = "rejected" /\ r.panic /\ f.follow # "served" /\ f.printer = "blocked" THEN "leak"
  ELSE "other"

OnFollowUp(e) ==
  LET c == inp[e.id]  r == res[e.id]
      served == e.follow = "served" /\ e.ms <= FollowBoundMs
      \* the two held streams (one of them beyond the initial capacity) and the follow-up, ascending
      want == IF e.holdId < e.followId THEN <<e.holdId, e.followId, e.hold2Id>> ELSE <<e.followId, e.holdId, e.hold2Id>>
      obs == Observed(r, e)
  IN /\ UNCHANGED <<inp, res>>
     /\ Flag(Bad(e.id, served /\ e.followEnd = "ok" /\ e.holdEnd = "ok", "followup") \cup
             Bad(e.id, e.printer = "ok", "printer") \cup
             Bad(e.id, e.printer # "ok" \/ ~served \/ e.during = want, "corrupt") \cup
             Bad(e.id, e.printer # "ok" \/ e.followEnd # "ok" \/ e.holdEnd # "ok" \/ e.after = <<>>, "balanced") \cup
             Bad(e.id, obs = PredCur(c), "notcur") \cup
             Bad(e.id, obs = PredFixed(c), "notfixed"))

OnServePanic(e) ==
  /\ UNCHANGED <<inp, res>>
  /\ Flag(Bad(e.id, e.failing = "rejected", "ends") \cup Bad(e.id, e.follow = "served", "followup")
          \cup Bad(e.id, e.printer = "ok", "printer") \cup Bad(e.id, e.printer # "ok" \/ e.after = <<>>, "balanced"))
\* Overlap: after each step the observer shows exactly the server shard ids with an open stream (also when a second stream on
\* one of them came and went: StreamObs!ServedShown), and in the forwarder modes the tracker has exactly one entry per server
\* open stream, naming its server shard id (StreamObs!TrackedWhileServing, TrackerEmptied).
OnOverlap(e) ==
  /\ UNCHANGED <<inp, res>>
  /\ Flag(Bad(e.id, e.notserved = 0, "followup") \cup
          UNION {Bad(e.id, e.steps[k].printer = "ok", "printer") \cup
                 Bad(e.id, e.steps[k].printer # "ok" \/ e.steps[k].active = e.steps[k].open, "corrupt") \cup
                 Bad(e.id, ~e.forwarder \/ e.baseline # 0 \/ e.steps[k].tracked = e.steps[k].streams, "tracker") : k \in 1..Len(e.steps)})
OnConcurrent(e) ==
  /\ UNCHANGED <<inp, res>>
  /\ Flag(Bad(e.id, e.notserved = 0, "followup") \cup Bad(e.id, e.printer = "ok", "printer")
          \cup Bad(e.id, e.printer # "ok" \/ e.after = <<>>, "balanced"))
Next == /\ i <= Len(Trace) /\ i' = i + 1
        /\ LET e == Trace[i] IN
           CASE e.ev = "Open" -> OnOpen(e)
             [] e.ev = "Result" -> OnResult(e)
             [] e.ev = "FollowUp" -> OnFollowUp(e)
             [] e.ev = "ServePanic" -> OnServePanic(e)
             [] e.ev = "Concurrent" -> OnConcurrent(e)
             [] e.ev = "Overlap" -> OnOverlap(e)
             [] OTHER -> UNCHANGED <<inp, res>>
Spec == Init /\ [][Next]_vars
\* opens without a result: the process died while serving them
Crashed == LET opened == {Trace[k].id : k \in {j \in 1..Len(Trace) : Trace[j].ev = "Open"}}
               ended == {Trace[k].id : k \in {j \in 1..Len(Trace) : Trace[j].ev = "Result"}}
           IN {<<p, "crash">> : p \in opened \ ended}
Report == PrintT(<<"OBS_VIOLATIONS", TLCGet(1) \cup Crashed>>) /\ PrintT(<<"OBS_TRACE_LEN", Len(Trace)>>)
=============================================================================
