------------------------------ MODULE StreamObs ------------------------------
(***************************************************************************)
(* C20 -- no stream-open metadata can wedge or crash replication-stream    *)
(* service.  Design model of                                               *)
(*   proxy/adminservice.go:StreamWorkflowReplicationMessages               *)
(*       decode metadata (history.DecodeClusterShardMD: Atoi, then int32() *)
(*       truncation), reportStreamValue(+1), deferred reportStreamValue(-1)*)
(*       log.CapturePanic (deferred first, so it runs last)                *)
(*   proxy/replication_stream_observer.go:ReportStreamValue                *)
(*       negative guard, streamGrowLock, grow-on-demand, counter add       *)
(* H concurrent handlers share one observer.  Integers are W = 2B bits     *)
(* wide (Go: int32, W = 32) -- the model is checked at W = 6 / 8, the real  *)
(* width is exercised by the binding (StreamObsObs.tla uses the same limb   *)
(* arithmetic at B = 16).                                                  *)
(*                                                                         *)
(* Fixed = FALSE : the code as pinned: (idx+1)*9 is computed in int32 and   *)
(*                 the lock is released by a plain Unlock at the end       *)
(* Fixed = TRUE  : proposed/C20-overflow.diff: size computed in int,        *)
(*                 always > idx, `defer Unlock`                             *)
(***************************************************************************)
EXTENDS Integers, FiniteSets, TLC, StreamArith
CONSTANTS H,        \* number of concurrent handlers
          B,        \* bits per limb; the modelled int32 has W = 2B bits
          InitLen,  \* initial length of streamActive (code: 1024)
          Fixed,    \* see above
          Ids,      \* wire values of the server-shard-id header that are tried (a set of integers; see IdsAll/IdsClasses)
          ServeFails,      \* BOOLEAN: handleStream may also fail by a panic (captured by log.CapturePanic) - any fault of one stream
          DeferUnreport,   \* the code: TRUE. the -1 is a deferred call, so it also runs when handleStream panics
          LockedAdd,       \* the code: TRUE. the counter add happens under streamGrowLock also when no growth is needed
          Counting,        \* the code: TRUE. the counters count (+1 / -1): several streams may be open on one server shard id at once
                           \* (clusters with different shard counts, a reconnect before the old stream is torn down).  FALSE: a
                           \* variant that stores a flag (1 when opened, 0 when closed)
          TrackKey         \* what the stream tracker (debug bookkeeping, proxy/stream_tracker.go: BuildForwarderStreamID) keys a
                           \* forwarder stream by.  "pair": server and client shard id (handlers stand for distinct client shards) -
                           \* the repaired code; "server": the server shard id alone - the code as pinned (finding C20-tracker:
                           \* two streams on one server shard share an entry, the first to end removes it); "mod": a variant
                           \* keyed by the server shard id modulo 4 (e.g. the id after the LCM remapping)

W == 2 * B
MaxInt == 2 ^ (W - 1) - 1
MinInt == -(2 ^ (W - 1))
\* two's-complement wrap of an arbitrary integer to W bits = Go's int32(v)
Wrap(x) == LET m == 2 ^ W  y == x % m IN IF y >= m \div 2 THEN y - m ELSE y
Min(a, b) == IF a < b THEN a ELSE b
\* the limb arithmetic of StreamArith agrees with the plain definition on every W-bit value
ASSUME LimbsAgree ==
  \A v \in MinInt..MaxInt : /\ Signed(Limbs(v, B), B) = v
                            /\ NewSizeCur(Limbs(v, B), B) = GoDiv(Min(Wrap(Wrap(v + 1) * 9), MaxInt), 8)

BadId == 2 ^ (W + 2)              \* stands for a missing, empty or non-numeric header value (any of the four keys)
\* every header value that fits the wire: all W-bit values and values beyond that truncate (up to 2^(W+1))
IdsAll == (MinInt..(2 ^ (W + 1))) \cup {BadId}
\* one representative per input class of DESIGN 3.9: negative, zero, small, len-1, len, first overflow - 1, first
\* overflow, wraps to a small positive size, MaxInt-1, MaxInt, truncating to small / to overflow, bad
FirstOverflow == CHOOSE v \in 0..MaxInt : Wrap((v + 1) * 9) # (v + 1) * 9 /\ \A u \in 0..(v - 1) : Wrap((u + 1) * 9) = (u + 1) * 9
IdsClasses == {MinInt, -1, 0, 1, InitLen - 1, InitLen, InitLen + 1, FirstOverflow - 1, FirstOverflow,
               2 ^ (W - 2), MaxInt - 1, MaxInt, 2 ^ W + 1, 2 ^ W + FirstOverflow, BadId}

\* size after growing for index idx
NewSize(idx) == IF Fixed THEN Min(((idx + 1) * 9) \div 8, MaxInt + 1)         \* computed in int (64 bit)
                ELSE NewSizeCur(Limbs(idx, B), B)

VARIABLES lock,      \* 0 = free, h = held by handler h
          len,       \* len(streamActive)
          cnt,       \* counters; indexes >= len do not exist
          pc, id, outcome,
          snap,      \* [Hs -> counters copied by slices.Grow, or NoSnap]: allocation+copy and publication are two steps
          trk        \* keys present in the stream tracker (RegisterStream / UnregisterStream of StreamForwarder.Run)
vars == <<lock, len, cnt, pc, id, outcome, snap, trk>>
NoSnap == [i \in {-1} |-> 0]
Hs == 1..H
Idx(h) == Wrap(id[h])     \* history.DecodeClusterShardMD: int32(metadataValue)
Key(h) == CASE TrackKey = "pair" -> <<Idx(h), h>> [] TrackKey = "server" -> <<Idx(h), 0>> [] OTHER -> <<Idx(h) % 4, h>>
Up(c) == IF Counting THEN c + 1 ELSE 1
Down(c) == IF Counting THEN c - 1 ELSE 0

Init == /\ lock = 0 /\ len = InitLen /\ cnt = [i \in 0..MaxInt |-> 0]
        /\ pc = [h \in Hs |-> "start"] /\ id \in [Hs -> Ids] /\ outcome = [h \in Hs |-> "-"]
        /\ snap = [h \in Hs |-> NoSnap] /\ trk = {}

\* StreamWorkflowReplicationMessages: decode the four headers
Decode(h) ==
  /\ pc[h] = "start"
  /\ IF id[h] = BadId THEN pc' = [pc EXCEPT ![h] = "done"] /\ outcome' = [outcome EXCEPT ![h] = "rejected"]
     ELSE pc' = [pc EXCEPT ![h] = "report"] /\ UNCHANGED outcome
  /\ UNCHANGED <<lock, len, cnt, id, snap, trk>>

\* a panic inside ReportStreamValue(+1): the deferred -1 is not registered yet; CapturePanic answers with an error.
\* Pinned code: the lock stays with the panicking handler.  Repaired code: `defer Unlock` releases it.
Panicked(h) ==
  /\ pc' = [pc EXCEPT ![h] = "done"] /\ outcome' = [outcome EXCEPT ![h] = "rejected-panic"]
  /\ lock' = IF Fixed THEN 0 ELSE lock

\* ReportStreamValue(idx, +1): negative guard, then Lock()
\* (~LockedAdd: a variant with a lock-free fast path when idx already fits - the add may then land between another handler's
\* copy and publication and is lost)
Report(h) ==
  /\ pc[h] = "report"
  /\ IF Idx(h) < 0 THEN pc' = [pc EXCEPT ![h] = "serve"] /\ UNCHANGED <<lock, cnt>>
     ELSE IF ~LockedAdd /\ Idx(h) < len
          THEN cnt' = [cnt EXCEPT ![Idx(h)] = Up(@)] /\ pc' = [pc EXCEPT ![h] = "serve"] /\ UNCHANGED lock
          ELSE lock = 0 /\ lock' = h /\ pc' = [pc EXCEPT ![h] = "grow"] /\ UNCHANGED cnt
  /\ UNCHANGED <<len, id, outcome, snap, trk>>

\* if idx >= len { newSize := ...; streamActive = slices.Grow(streamActive, newSize)[:newSize] }
Grow(h) ==
  /\ pc[h] = "grow"
  /\ IF Idx(h) >= len
       THEN IF NewSize(Idx(h)) < 0
              THEN Panicked(h) /\ UNCHANGED <<len, snap>>                          \* slices.Grow: "cannot be negative"
              ELSE \* slices.Grow allocates and copies the counters ...
                   snap' = [snap EXCEPT ![h] = cnt] /\ pc' = [pc EXCEPT ![h] = "publish"] /\ UNCHANGED <<len, outcome, lock>>
       ELSE pc' = [pc EXCEPT ![h] = "add"] /\ UNCHANGED <<len, outcome, lock, snap>>
  /\ UNCHANGED <<cnt, id, trk>>
\* ... and the assignment publishes the copy (may shrink on the pinned tree!)
Publish(h) ==
  /\ pc[h] = "publish"
  /\ len' = NewSize(Idx(h)) /\ cnt' = snap[h] /\ snap' = [snap EXCEPT ![h] = NoSnap] /\ pc' = [pc EXCEPT ![h] = "add"]
  /\ UNCHANGED <<lock, id, outcome, trk>>

\* streamActive[idx].Add(value); Unlock()
Add(h) ==
  /\ pc[h] = "add"
  /\ IF Idx(h) < len
       THEN /\ cnt' = [cnt EXCEPT ![Idx(h)] = Up(@)] /\ pc' = [pc EXCEPT ![h] = "serve"] /\ lock' = 0 /\ UNCHANGED outcome
       ELSE Panicked(h) /\ UNCHANGED cnt                                          \* index out of range
  /\ UNCHANGED <<len, id, snap, trk>>

\* handleStream runs and returns (forwarder / LCM / routing: no shared state of this model involved)
\* the upstream stream is open: StreamForwarder.Run registers the stream with the tracker and relays until either side ends
Serve(h) ==
  /\ pc[h] = "serve"
  /\ \/ pc' = [pc EXCEPT ![h] = "serving"] /\ outcome' = [outcome EXCEPT ![h] = "served"] /\ trk' = trk \cup {Key(h)}
     \* this stream fails by a panic inside handleStream: CapturePanic answers it with an error; the deferred -1 runs
     \/ /\ ServeFails /\ outcome' = [outcome EXCEPT ![h] = "rejected-serve-panic"]
        /\ pc' = [pc EXCEPT ![h] = IF DeferUnreport THEN "unreport" ELSE "done"] /\ UNCHANGED trk
  /\ UNCHANGED <<lock, len, cnt, id, snap>>
\* the stream ends: deferred UnregisterStream
EndServe(h) ==
  /\ pc[h] = "serving"
  /\ pc' = [pc EXCEPT ![h] = "unreport"] /\ trk' = trk \ {Key(h)}
  /\ UNCHANGED <<lock, len, cnt, id, snap, outcome>>

\* deferred ReportStreamValue(idx, -1)
Unreport(h) ==
  /\ pc[h] = "unreport"
  /\ IF Idx(h) < 0 THEN pc' = [pc EXCEPT ![h] = "done"] /\ UNCHANGED <<lock, cnt, outcome>>
     ELSE /\ (lock = 0 \/ (~LockedAdd /\ Idx(h) < len))
          /\ IF Idx(h) < len
               THEN cnt' = [cnt EXCEPT ![Idx(h)] = Down(@)] /\ pc' = [pc EXCEPT ![h] = "done"] /\ UNCHANGED <<lock, outcome>>
               ELSE \* the slice was shrunk by another handler's wrapped size: index out of range in the deferred call
                    /\ pc' = [pc EXCEPT ![h] = "done"] /\ outcome' = [outcome EXCEPT ![h] = "served-then-panic"]
                    /\ lock' = (IF Fixed THEN 0 ELSE h) /\ UNCHANGED cnt
  /\ UNCHANGED <<len, id, snap, trk>>

Next == \E h \in Hs : Decode(h) \/ Report(h) \/ Grow(h) \/ Publish(h) \/ Add(h) \/ Serve(h) \/ EndServe(h) \/ Unreport(h)
Spec == Init /\ [][Next]_vars /\ WF_vars(Next)

AllDone == \A h \in Hs : pc[h] = "done"
WellFormed(h) == Idx(h) = id[h] /\ id[h] >= 0 /\ id[h] < InitLen        \* an ordinary shard id
---------------------------------------------------------------------------
\* a handler that has ended does not keep the lock
LockNotLeaked == \A h \in Hs : pc[h] = "done" => lock # h
\* nobody waits forever: the only state without a successor is the one in which every handler has ended
NoWedge == AllDone \/ ENABLED Next
\* each open ends, served or rejected with an error
EveryOpenEnds == <>AllDone
OutcomeOK == \A h \in Hs : pc[h] = "done" => outcome[h] \in {"served", "rejected", "rejected-panic", "rejected-serve-panic"}
\* well-formed streams are served whatever the other handlers were given
LaterStreamsServed == \A h \in Hs : WellFormed(h) => <>(outcome[h] \in {"served", "rejected-serve-panic"})
\* bookkeeping of one stream does not corrupt that of others: all counters return to zero, none goes negative
CountersBalanced == AllDone => \A i \in 0..MaxInt : cnt[i] = 0
CountersNonNeg == \A i \in 0..MaxInt : cnt[i] >= 0
\* a stream that is being served is shown as active, whatever other streams - also on the same shard id - did meanwhile
\* (repaired code: the slice never shrinks)
ServedShown == \A h \in Hs : (pc[h] \in {"serve", "serving", "unreport"} /\ Idx(h) >= 0 /\ Idx(h) < len) => cnt[Idx(h)] >= 1
\* the tracker has an entry for every stream being relayed, and it names that stream's server shard id
TrackedWhileServing == \A h \in Hs : pc[h] = "serving" => (Key(h) \in trk /\ Key(h)[1] = Idx(h))
TrackerEmptied == AllDone => trk = {}
\* the repaired code never panics
NoPanic == \A h \in Hs : outcome[h] # "rejected-panic" /\ outcome[h] # "served-then-panic"
=============================================================================
