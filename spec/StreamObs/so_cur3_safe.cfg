SPECIFICATION Spec
CONSTANTS
  H = 3
  B = 4
  InitLen = 4
  Fixed = FALSE
  Ids <- IdsClasses
  ServeFails = TRUE
  DeferUnreport = TRUE
  LockedAdd = TRUE
  Counting = TRUE
  TrackKey = "pair"
INVARIANTS OutcomeOK CountersNonNeg CountersBalanced
CHECK_DEADLOCK FALSE
