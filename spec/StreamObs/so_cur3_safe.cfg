SPECIFICATION Spec
CONSTANTS
  H = 3
  B = 4
  InitLen = 4
  Fixed = FALSE
  Ids <- IdsClasses
INVARIANTS OutcomeOK CountersNonNeg CountersBalanced
CHECK_DEADLOCK FALSE
