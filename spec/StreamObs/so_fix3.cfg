SPECIFICATION Spec
CONSTANTS
  H = 3
  B = 4
  InitLen = 4
  Fixed = TRUE
  Ids <- IdsClasses
INVARIANTS NoPanic OutcomeOK CountersNonNeg CountersBalanced LockNotLeaked NoWedge
CHECK_DEADLOCK FALSE
