---------------------------- MODULE StreamObsCases ----------------------------
(* Annotates the candidate probes (cases.ndjson, written by lib/p_streamobs.py: *)
(* the boundary list of DESIGN 3.9 in all four header keys plus seeded random   *)
(* values) with the design's predictions.  One JSON line per candidate.         *)
EXTENDS StreamPred, TLC, Json
Cands == ndJsonDeserialize("cases.ndjson")
VARIABLE x
Init == x = 0 /\ \A k \in 1..Len(Cands) :
          LET c == Cands[k] IN
          PrintT(ToJson([n |-> c.n, predCur |-> PredCur(c), predFixed |-> PredFixed(c), idx |-> IF c.numeric THEN IdxVal(c) ELSE 0,
                         allocCurK |-> AllocCurK(c), allocFixedK |-> AllocFixedK(c)]))
Next == UNCHANGED x
=============================================================================
