SPECIFICATION Spec
CONSTANTS
  H = 3
  B = 4
  InitLen = 4
  Fixed = TRUE
  Ids <- IdsClasses
  ServeFails = TRUE
  DeferUnreport = TRUE
  LockedAdd = TRUE
  Counting = TRUE
  TrackKey = "pair"
INVARIANTS ServedShown TrackedWhileServing TrackerEmptied NoPanic OutcomeOK CountersNonNeg CountersBalanced LockNotLeaked NoWedge
PROPERTIES EveryOpenEnds LaterStreamsServed
CHECK_DEADLOCK FALSE
