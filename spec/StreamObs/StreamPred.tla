----------------------------- MODULE StreamPred -----------------------------
(***************************************************************************)
(* What the design (StreamObs.tla) predicts for ONE stream open at the     *)
(* real width W = 32, as a function of the header under test.  Used by     *)
(*   StreamObsCases.tla  to annotate candidate probes (predicted growth of *)
(*                       the counter slice = memory guard of the harness)  *)
(*   StreamObsObs.tla    for the conformance clauses                       *)
(* A header value is given by the case generator as                        *)
(*   numeric : TRUE iff it is a decimal integer literal within int64       *)
(*             (what strconv.Atoi accepts)                                 *)
(*   limbs   : the four 16-bit limbs <<l3, l2, l1, l0>> of the value       *)
(*             modulo 2^64; int32(v) keeps <<l1, l0>>                      *)
(***************************************************************************)
EXTENDS Integers, Sequences, StreamArith
B32 == 16
InitLen32 == 1024
MaxInt32 == 2147483647
Idx32(c) == <<c.limbs[3], c.limbs[4]>>                  \* history.DecodeClusterShardMD: int32(metadataValue)
IdxVal(c) == Signed(Idx32(c), B32)
\* outcome of the open on a fresh observer: "rejected" (decode error), "served", "leak" (panic with the lock held)
PredCur(c) ==
  IF ~c.numeric THEN "rejected"
  ELSE IF c.key # "ssh" THEN "served"                      \* only the server shard id reaches the observer
  ELSE LET idx == IdxVal(c)  ns == NewSizeCur(Idx32(c), B32) IN
       IF idx < InitLen32 THEN "served"                    \* negative: warning only; small: no growth
       ELSE IF ns < 0 THEN "leak"                          \* slices.Grow panics
       ELSE IF idx >= ns THEN "leak"                       \* index out of range after (possibly shrinking) re-slice
       ELSE "served"
PredFixed(c) == IF ~c.numeric THEN "rejected" ELSE "served"
\* predicted number of counters allocated by the open, in units of 1024 elements (4 KiB), rounded up
AllocCurK(c) ==
  IF ~c.numeric \/ c.key # "ssh" THEN 0
  ELSE LET idx == IdxVal(c)  ns == NewSizeCur(Idx32(c), B32) IN
       IF idx < InitLen32 \/ ns < 0 THEN 0 ELSE (ns \div 1024) + 1
AllocFixedK(c) ==
  IF ~c.numeric \/ c.key # "ssh" THEN 0
  ELSE LET idx == IdxVal(c) IN
       IF idx < InitLen32 THEN 0 ELSE ((((idx \div 1024) + 1) * 9) \div 8) + 1
=============================================================================
