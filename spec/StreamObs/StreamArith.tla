---------------------------- MODULE StreamArith ----------------------------
(***************************************************************************)
(* Fixed-width integer arithmetic of ReplicationStreamObserver, written on *)
(* two limbs of B bits each (width W = 2B) so that the SAME operators are  *)
(* evaluated                                                               *)
(*   - at B = 3 / 4 (W = 6 / 8) by the design model StreamObs.tla, where    *)
(*     they are compared exhaustively with the plain definition            *)
(*     Wrap(Wrap(idx + 1) * 9)  (ASSUME LimbsAgree), and                   *)
(*   - at B = 16 (W = 32, Go's int32) by the observation monitor           *)
(*     StreamObsObs.tla, where 2^32 itself is not representable in TLC.    *)
(* A W-bit value is <<hi, lo>> with hi, lo in 0..2^B-1 (two's complement). *)
(***************************************************************************)
EXTENDS Integers

Base(B) == 2 ^ B
\* signed reading of a two-limb value
Signed(x, B) == IF x[1] >= Base(B) \div 2 THEN (x[1] - Base(B)) * Base(B) + x[2] ELSE x[1] * Base(B) + x[2]
\* limbs of a signed value in -2^(W-1) .. 2^(W-1)-1
Limbs(v, B) == LET b == Base(B)
                   u == IF v >= 0 THEN v ELSE v + (b \div 2) * b + (b \div 2) * b     \* v + 2^W without writing 2^W
               IN IF v >= 0 THEN <<v \div b, v % b>>
                  ELSE <<((v + (b \div 2) * b) \div b) + (b \div 2), (v + (b \div 2) * b) % b>>
\* x + 1 (wraps)
Inc(x, B) == LET b == Base(B)  lo == x[2] + 1 IN <<(x[1] + lo \div b) % b, lo % b>>
\* x * 9 (wraps)
Mul9(x, B) == LET b == Base(B)  lo == 9 * x[2] IN <<(9 * x[1] + lo \div b) % b, lo % b>>
\* Go's integer division truncates toward zero
GoDiv(a, d) == LET q == a \div d IN IF a >= 0 \/ q * d = a THEN q ELSE q + 1      \* (no negation: a may be the minimum)
\* replication_stream_observer.go: newSize := min(int((idx+1)*9), math.MaxInt32) / 8 with idx an int32:
\* the product is computed in W bits and widened afterwards, so min() never takes effect
NewSizeCur(x, B) == GoDiv(Signed(Mul9(Inc(x, B), B), B), 8)
=============================================================================
