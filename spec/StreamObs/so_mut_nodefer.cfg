SPECIFICATION Spec
CONSTANTS
  H = 2
  B = 3
  InitLen = 2
  Fixed = TRUE
  Ids <- IdsAll
  ServeFails = TRUE
  DeferUnreport = FALSE
  LockedAdd = TRUE
INVARIANTS CountersBalanced
CHECK_DEADLOCK FALSE
