SPECIFICATION Spec
CONSTANTS
  H = 2
  B = 3
  InitLen = 2
  Fixed = TRUE
  Ids <- IdsAll
  ServeFails = TRUE
  DeferUnreport = FALSE
  LockedAdd = TRUE
  Counting = TRUE
  TrackKey = "pair"
INVARIANTS CountersBalanced
CHECK_DEADLOCK FALSE
