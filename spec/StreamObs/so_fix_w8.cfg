SPECIFICATION Spec
CONSTANTS
  H = 2
  B = 4
  InitLen = 4
  Fixed = TRUE
  Ids <- IdsAll
  ServeFails = TRUE
  DeferUnreport = TRUE
  LockedAdd = TRUE
INVARIANTS NoPanic OutcomeOK CountersNonNeg CountersBalanced LockNotLeaked NoWedge
CHECK_DEADLOCK FALSE
