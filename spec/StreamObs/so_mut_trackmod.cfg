SPECIFICATION Spec
CONSTANTS
  H = 2
  B = 3
  InitLen = 2
  Fixed = TRUE
  Ids <- IdsAll
  ServeFails = TRUE
  DeferUnreport = TRUE
  LockedAdd = TRUE
  Counting = TRUE
  TrackKey = "mod"
INVARIANTS TrackedWhileServing
CHECK_DEADLOCK FALSE
