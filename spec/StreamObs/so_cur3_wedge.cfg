SPECIFICATION Spec
CONSTANTS
  H = 3
  B = 4
  InitLen = 4
  Fixed = FALSE
  Ids <- IdsClasses
  ServeFails = TRUE
  DeferUnreport = TRUE
  LockedAdd = TRUE
INVARIANTS LockNotLeaked NoWedge
CHECK_DEADLOCK FALSE
