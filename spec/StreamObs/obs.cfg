SPECIFICATION Spec
CONSTANTS FollowBoundMs = 5000
POSTCONDITION Report
CHECK_DEADLOCK FALSE
