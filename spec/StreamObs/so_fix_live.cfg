SPECIFICATION Spec
CONSTANTS
  H = 2
  B = 3
  InitLen = 2
  Fixed = TRUE
  Ids <- IdsAll
  ServeFails = TRUE
  DeferUnreport = TRUE
  LockedAdd = TRUE
  Counting = TRUE
  TrackKey = "pair"
INVARIANTS ServedShown TrackedWhileServing TrackerEmptied NoPanic OutcomeOK CountersNonNeg CountersBalanced LockNotLeaked NoWedge
PROPERTIES EveryOpenEnds LaterStreamsServed
CHECK_DEADLOCK FALSE
