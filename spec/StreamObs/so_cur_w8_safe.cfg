SPECIFICATION Spec
CONSTANTS
  H = 2
  B = 4
  InitLen = 4
  Fixed = FALSE
  Ids <- IdsAll
INVARIANTS OutcomeOK CountersNonNeg CountersBalanced
CHECK_DEADLOCK FALSE
