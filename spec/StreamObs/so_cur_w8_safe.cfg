SPECIFICATION Spec
CONSTANTS
  H = 2
  B = 4
  InitLen = 4
  Fixed = FALSE
  Ids <- IdsAll
  ServeFails = TRUE
  DeferUnreport = TRUE
  LockedAdd = TRUE
INVARIANTS OutcomeOK CountersNonNeg CountersBalanced
CHECK_DEADLOCK FALSE
