SPECIFICATION Spec
CONSTANTS
  InitCaps = {1, 2}
  MaxCap = 4
  MaxPid = 5
  NShards = 2
  MaxTask = 2
  Gapped = TRUE
  FinalEnsure = TRUE
  MaxOps = 0
  Wide = TRUE
  MaxGap = 0
  EmitOn = TRUE
VIEW View
INVARIANTS RefOK AggOK
PROPERTY DiscardOK
CHECK_DEADLOCK FALSE
