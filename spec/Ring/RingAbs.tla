------------------------------ MODULE RingAbs ------------------------------
(* The abstract meaning of the proxy-id table: a sequence of outstanding     *)
(* [pid, sh, task] entries with contiguous pids (holes have sh = 0).  These  *)
(* operators are the oracle of C05, used by Ring (refinement) and RingObs    *)
(* (validation of what the real code returned).                              *)
EXTENDS Integers, Sequences, FiniteSets

SetMax(S) == IF S = {} THEN -1 ELSE CHOOSE x \in S : \A y \in S : y <= x

AbsAppend(lg, pid, sh, task) ==
  LET nextp == IF lg = <<>> THEN pid ELSE lg[Len(lg)].pid + 1
      holes == pid - nextp
  IN lg \o [i \in 1..holes |-> [pid |-> nextp + i - 1, sh |-> 0, task |-> 0]]
        \o << [pid |-> pid, sh |-> sh, task |-> task] >>
\* largest original id among the shard's outstanding entries with pid <= w; -1 = "nothing for that shard"
AbsAgg(lg, w, shards) ==
  [sh \in shards |-> SetMax({lg[i].task : i \in {j \in 1..Len(lg) : lg[j].pid <= w /\ lg[j].sh = sh}})]
AbsCount(lg, w) == Cardinality({i \in 1..Len(lg) : lg[i].pid <= w})
AbsDiscard(lg, n) ==
  LET k == IF n <= 0 THEN 0 ELSE IF n > Len(lg) THEN Len(lg) ELSE n IN SubSeq(lg, k + 1, Len(lg))
=============================================================================
