INIT SimInit
NEXT SimNext
CONSTANTS
  InitCaps = {1, 2, 3, 4}
  MaxCap = 256
  MaxPid = 120
  NShards = 3
  MaxTask = 3
  Gapped = TRUE
  FinalEnsure = TRUE
  MaxOps = 0
  Wide = FALSE
  MaxGap = 2
  EmitOn = FALSE
  Depth = 60
CHECK_DEADLOCK FALSE
