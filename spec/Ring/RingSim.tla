------------------------------ MODULE RingSim ------------------------------
(* Behaviour generator: Ring plus a history of operations; every behaviour   *)
(* of exactly Depth operations is printed as one JSON line (used with        *)
(* -simulate and with exhaustive BFS on small bounds).                        *)
EXTENDS Ring
CONSTANT Depth
VARIABLE hist
SimInit == Init /\ hist = << [op |-> "new", cap |-> cap] >>
SimNext == /\ Len(hist) <= Depth
           /\ Step
           /\ hist' = Append(hist, lastOp')
           /\ (Len(hist') = Depth + 1 => PrintT(ToJson(hist')))
SimSpec == SimInit /\ [][SimNext]_<<vars, hist>>
=============================================================================
