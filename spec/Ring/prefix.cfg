SPECIFICATION Spec
CONSTANTS
  InitCaps = {1, 2}
  MaxCap = 4
  MaxPid = 4
  NShards = 2
  MaxTask = 2
  Gapped = TRUE
  FinalEnsure = FALSE
  MaxOps = 0
  Wide = TRUE
  MaxGap = 0
  EmitOn = FALSE
VIEW View
INVARIANTS RefOK AggOK
PROPERTY DiscardOK
CHECK_DEADLOCK FALSE
