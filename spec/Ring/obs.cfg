SPECIFICATION Spec
CONSTANTS NShards = 3
POSTCONDITION Accepted
CHECK_DEADLOCK FALSE
