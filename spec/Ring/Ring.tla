------------------------------- MODULE Ring -------------------------------
(***************************************************************************)
(* proxyIDRingBuffer (proxy/proxy_streams.go): the table that maps the      *)
(* proxy task ids of one target stream back to (source shard, original id). *)
(*                                                                          *)
(* Concrete state = exactly what the Go struct holds, including stale slot  *)
(* contents beyond `size`: entries[] (here `slots`, index 0..cap-1), head,  *)
(* size, startProxyID (`start`).  `log` is the abstract meaning: the        *)
(* sequence of outstanding [pid, sh, task] entries ("plain map model" of    *)
(* property C05).  Every action is written twice: the way the Go code       *)
(* computes it on the concrete fields (modular indices, doubling copy) and  *)
(* on the abstract log; RefOK / AggOK relate the two in every state.        *)
(*                                                                          *)
(* FinalEnsure = FALSE is the pinned tree before the repair                 *)
(*   fix: ensure ring capacity before storing an entry after gap filling    *)
(* (Append checked capacity up front and once per inserted hole but NOT     *)
(* before the final store).  TLC refutes RefOK in 3 states with it FALSE.   *)
(***************************************************************************)
EXTENDS RingAbs, TLC, Json

CONSTANTS InitCaps,    \* set of initial capacities (newProxyIDRingBuffer(c), c >= 1)
          MaxCap,      \* bound: do not grow beyond
          MaxPid,      \* bound: proxy ids 1..MaxPid
          NShards,     \* source shards 1..NShards; 0 = hole (ClusterShardID{} zero value)
          MaxTask,     \* original task ids 1..MaxTask
          Gapped,      \* allow non-contiguous proxy ids
          FinalEnsure, \* code checks capacity before the final store (repaired tree)
          MaxOps,      \* 0 = unbounded number of operations (use VIEW), else depth bound
          EmitOn,      \* print one JSON line per explored transition
          Wide,        \* TRUE: arguments range over the whole bound (exhaustive configs);
                       \* FALSE: only around the stored range (keeps -simulate branching small)
          MaxGap       \* largest gap between consecutive proxy ids when ~Wide

Hole   == 0
Shards == 1..NShards
Zero   == [sh |-> Hole, task |-> 0]

VARIABLES cap, head, size, start, slots,   \* concrete
          log,                             \* abstract: Seq([pid, sh, task])
          nops, lastOp                     \* bookkeeping / output only
vars == <<cap, head, size, start, slots, log, nops, lastOp>>

Init ==
  /\ cap \in InitCaps /\ head = 0 /\ size = 0 /\ start = 0
  /\ slots = [i \in 0..(cap - 1) |-> Zero]
  /\ log = <<>> /\ nops = 0 /\ lastOp = [op |-> "init"]

(* ---------------- concrete algorithm, as the Go code computes it -------- *)
\* ensureCapacity when size = cap: double, copy in order from head, head := 0
Grow(c, h, n, sl) ==
  [cap |-> 2 * c, head |-> 0,
   slots |-> [i \in 0..(2 * c - 1) |-> IF i < n THEN sl[(h + i) % c] ELSE Zero]]
Ensure(c, h, n, sl) == IF n < c THEN [cap |-> c, head |-> h, slots |-> sl] ELSE Grow(c, h, n, sl)
\* one store at (head+size) % cap
Store(c, h, n, sl, e) == [cap |-> c, head |-> h, size |-> n + 1, slots |-> [sl EXCEPT ![(h + n) % c] = e]]
RECURSIVE PushHoles(_, _, _, _, _)
\* the hole loop of Append: ensureCapacity before each inserted hole
PushHoles(c, h, n, sl, k) ==
  IF k = 0 THEN [cap |-> c, head |-> h, size |-> n, slots |-> sl]
  ELSE LET g == Ensure(c, h, n, sl)
       IN PushHoles(g.cap, g.head, n + 1, [g.slots EXCEPT ![(g.head + n) % g.cap] = Zero], k - 1)

LastPid == IF size = 0 THEN 0 ELSE start + size - 1
Budget  == MaxOps = 0 \/ nops < MaxOps
Tick    == nops' = (IF MaxOps = 0 THEN 0 ELSE nops + 1)

\* Append(proxyID, sourceShard, sourceTask)
RAppend(pid, sh, task) ==
  /\ Budget /\ pid > LastPid /\ pid <= MaxPid
  /\ (Gapped \/ size = 0 \/ pid = LastPid + 1)
  /\ LET holes == IF size = 0 THEN 0 ELSE pid - (start + size)
         g0 == Ensure(cap, head, size, slots)                        \* b.ensureCapacity() up front
         hs == PushHoles(g0.cap, g0.head, size, g0.slots, holes)     \* for expected < proxyID {...}
         g1 == IF FinalEnsure THEN Ensure(hs.cap, hs.head, hs.size, hs.slots)
                              ELSE [cap |-> hs.cap, head |-> hs.head, slots |-> hs.slots]
         r  == Store(g1.cap, g1.head, hs.size, g1.slots, [sh |-> sh, task |-> task])
     IN /\ r.cap <= MaxCap
        /\ cap' = r.cap /\ head' = r.head /\ size' = r.size /\ slots' = r.slots
        /\ start' = IF size = 0 THEN pid ELSE start
        /\ log' = AbsAppend(log, pid, sh, task)
  /\ Tick /\ lastOp' = [op |-> "append", pid |-> pid, sh |-> sh, task |-> task]

\* AggregateUpTo(w): (per-shard maximum over the first `count` entries, count)
AggCount(w) == IF size = 0 \/ w < start THEN 0 ELSE IF w - start + 1 > size THEN size ELSE w - start + 1
AggConcrete(w) ==
  LET n == AggCount(w)
      ents == [i \in 1..n |-> slots[(head + i - 1) % cap]]
  IN [sh \in Shards |-> SetMax({ents[i].task : i \in {j \in 1..n : ents[j].sh = sh}})]
\* what C05 demands: largest original id among the shard's outstanding entries with pid <= w (-1: none)
AggAbstract(w) == AbsAgg(log, w, Shards)
CountAbstract(w) == AbsCount(log, w)

Aggregate(w) ==
  /\ Budget /\ w \in 0..(MaxPid + 1)
  /\ Tick /\ lastOp' = [op |-> "aggregate", w |-> w, res |-> AggConcrete(w), count |-> AggCount(w),
                        ares |-> AggAbstract(w), acount |-> CountAbstract(w)]
  /\ UNCHANGED <<cap, head, size, start, slots, log>>

\* Discard(n): n arbitrary, also <= 0 and > size
Discard(n) ==
  /\ Budget /\ n \in -1..(MaxPid + 1)
  /\ LET k == IF n <= 0 THEN 0 ELSE IF n > size THEN size ELSE n IN
     /\ head' = (IF n <= 0 THEN head ELSE (head + k) % cap) /\ size' = size - k /\ start' = start + k
     /\ log' = AbsDiscard(log, n)
  /\ Tick /\ lastOp' = [op |-> "discard", n |-> n]
  /\ UNCHANGED <<cap, slots>>

Conc(c, h, n, st, sl) == [cap |-> c, head |-> h, size |-> n, start |-> st, slots |-> [i \in 1..c |-> sl[i - 1]]]
Emit == PrintT(ToJson([op |-> lastOp',
                       from |-> Conc(cap, head, size, start, slots),
                       to |-> Conc(cap', head', size', start', slots'),
                       alog |-> log']))

InB(S, lo, hi) == {x \in S : x >= lo /\ x <= hi}
PidCands  == IF Wide THEN 1..MaxPid
             ELSE IF size = 0 THEN InB({1, start, start + 1, start + MaxGap + 1}, 1, MaxPid)
             ELSE InB((LastPid + 1)..(LastPid + 1 + MaxGap), 1, MaxPid)
WmCands   == IF Wide THEN 0..(MaxPid + 1) ELSE InB((start - 1)..(start + size + 1), 0, MaxPid + 1)
DiscCands == IF Wide THEN -1..(MaxPid + 1) ELSE -1..(size + 1)
Step == \/ \E p \in PidCands, sh \in Shards, t \in 1..MaxTask : RAppend(p, sh, t)
        \/ \E w \in WmCands : Aggregate(w)
        \/ \E n \in DiscCands : Discard(n)
Next == Step /\ (EmitOn => Emit)
Spec == Init /\ [][Next]_vars

(* ---------------- refinement and the C05 clauses ------------------------ *)
Abs == [i \in 1..size |-> slots[(head + i - 1) % cap]]
\* entries neither lost, duplicated nor reordered by growth, wrap-around or discarding
RefOK == /\ size = Len(log)
         /\ \A i \in 1..size : Abs[i].sh = log[i].sh /\ Abs[i].task = log[i].task
         /\ (size > 0 => start = log[1].pid)
         /\ \A i \in 1..size : log[i].pid = start + i - 1
         /\ head \in 0..(cap - 1) /\ size <= cap
\* an acknowledgement at watermark w is translated exactly
AggOK == \A w \in 0..(MaxPid + 1) : AggConcrete(w) = AggAbstract(w) /\ AggCount(w) = CountAbstract(w)
\* Discard removes exactly min(max(n,0), size) head entries (action property)
DiscardOK == [][\A n \in -1..(MaxPid + 1) : Discard(n) =>
                  LET k == IF n <= 0 THEN 0 ELSE IF n > Len(log) THEN Len(log) ELSE n
                  IN log' = SubSeq(log, k + 1, Len(log)) /\ size' = size - k]_vars
View == <<cap, head, size, start, slots, log>>
=============================================================================
