INIT SimInit
NEXT SimNext
CONSTANTS
  InitCaps = {1, 2, 3, 4}
  MaxCap = 64
  MaxPid = 40
  NShards = 3
  MaxTask = 3
  Gapped = TRUE
  FinalEnsure = TRUE
  MaxOps = 0
  Wide = FALSE
  MaxGap = 2
  EmitOn = FALSE
  Depth = 30
CHECK_DEADLOCK FALSE
