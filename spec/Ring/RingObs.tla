------------------------------ MODULE RingObs ------------------------------
(* Observation monitor for C05: validates what the REAL proxyIDRingBuffer    *)
(* returned (trace.ndjson written by the Go harness) against the abstract    *)
(* log.  Every event is consumed; an event whose logged result differs from  *)
(* the abstract model is recorded in TLC register 1 (set of line numbers)    *)
(* and the rest of that run is skipped (the model can no longer follow it).  *)
EXTENDS RingAbs, TLC, Json
CONSTANT NShards
Trace == ndJsonDeserialize("trace.ndjson")
VARIABLES l, log, lost
ASSUME TLCSet(1, {})
Shards == 1..NShards
AggSeq(lg, w) == LET f == AbsAgg(lg, w, Shards) IN [i \in 1..NShards |-> f[i]]
Init == l = 1 /\ log = <<>> /\ lost = FALSE
Good(e, lg2) ==
  /\ e.panic = ""
  /\ e.view = lg2
  /\ (e.ev = "aggregate" => e.res = AggSeq(log, e.w) /\ e.count = AbsCount(log, e.w))
Next ==
  /\ l <= Len(Trace) /\ l' = l + 1
  /\ LET e == Trace[l] IN
     IF e.ev = "new" THEN log' = <<>> /\ lost' = FALSE
     ELSE IF lost THEN UNCHANGED <<log, lost>>
     ELSE LET lg2 == CASE e.ev = "append" -> AbsAppend(log, e.pid, e.sh, e.task)
                       [] e.ev = "aggregate" -> log
                       [] e.ev = "discard" -> AbsDiscard(log, e.n)
          IN IF Good(e, lg2) THEN log' = lg2 /\ lost' = FALSE
             ELSE log' = log /\ lost' = TRUE /\ TLCSet(1, TLCGet(1) \cup {l})
Spec == Init /\ [][Next]_<<l, log, lost>>
Accepted == PrintT(<<"REJECTED_LINES", TLCGet(1)>>) /\ PrintT(<<"TRACE_LEN", Len(Trace)>>) /\ TLCGet(1) = {}
Consumed == TLCGet("stats").diameter - 1 = Len(Trace)
=============================================================================
