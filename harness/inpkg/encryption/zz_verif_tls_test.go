//go:build verif

package encryption

// C19 harness, transport "direct": the tls.Config assembled by GetServerTLSConfig / GetClientTLSConfig is used with
// crypto/tls over a loopback TCP connection against the raw peer.  (Loopback, not net.Pipe: a rejecting end writes its
// alert while the other end is still writing, which deadlocks on an unbuffered pipe until crypto/tls' alert timeout.)

import (
	"crypto/tls"
	"net"

	"go.temporal.io/server/common/log"
)

func init() {
	vtTransports["direct/server"] = vtDirectServer
	vtTransports["direct/client"] = vtDirectClient
}

func vtTLSConfigOf(f vtFiles) TLSConfig {
	return TLSConfig{CertificatePath: f.Cert, KeyPath: f.Key, RemoteCAPath: f.CA, CAServerName: f.Name,
		SkipCAVerification: f.Skip}
}

// vtLoopback runs acceptor and initiator over one loopback TCP connection.
func vtLoopback(r *vtRec, acceptor, initiator func(net.Conn) vtEnd) (acc, ini vtEnd) {
	ln, err := net.Listen("tcp", "127.0.0.1:0")
	if err != nil {
		r.Note = "listen: " + err.Error()
		return
	}
	defer ln.Close()
	done := make(chan vtEnd, 1)
	go func() {
		conn, err := ln.Accept()
		if err != nil {
			done <- vtEnd{Err: "accept: " + err.Error()}
			return
		}
		done <- acceptor(conn)
	}()
	conn, err := net.Dial("tcp", ln.Addr().String())
	if err != nil {
		r.Note = "dial: " + err.Error()
		return
	}
	ini = initiator(conn)
	var ok bool
	if acc, ok = vtWait(done); !ok {
		r.Note = "timeout: acceptor did not finish"
	}
	return
}

func vtDirectServer(p *vtPKI, c vtCase, r *vtRec) {
	f, afterStart := p.caseFiles(c)
	defer afterStart()
	tc, err := GetServerTLSConfig(vtTLSConfigOf(f), log.NewNoopLogger())
	if err != nil {
		r.Startup, r.StartupErr = "reject", err.Error()
		return
	}
	if tc == nil {
		r.Startup = "disabled"
		return
	}
	r.Startup = "ready"
	afterStart()
	acceptor := func(conn net.Conn) vtEnd { return vtTLSEnd(tls.Server(conn, tc), false) }
	if c.Cred.Class == vtPlaintext { // the closest thing without TLS: the byte exchange on the bare TCP connection
		r.Proxy, r.Peer = vtLoopback(r, acceptor, func(conn net.Conn) vtEnd { return vtPlainEnd(conn, true) })
		return
	}
	pc, sent := p.peerClient(c.Cred)
	r.Proxy, r.Peer = vtLoopback(r, acceptor, func(conn net.Conn) vtEnd { return vtTLSEnd(tls.Client(conn, pc), true) })
	r.Peer.Sent = sent.Load()
}

func vtDirectClient(p *vtPKI, c vtCase, r *vtRec) {
	f, afterStart := p.caseFiles(c)
	defer afterStart()
	tc, err := GetClientTLSConfig(vtTLSConfigOf(f))
	if err != nil {
		r.Startup, r.StartupErr = "reject", err.Error()
		return
	}
	if tc == nil {
		r.Startup = "disabled"
		return
	}
	r.Startup = "ready"
	afterStart()
	initiator := func(conn net.Conn) vtEnd { return vtTLSEnd(tls.Client(conn, tc), true) }
	if c.Cred.Class == vtPlaintext {
		r.Peer, r.Proxy = vtLoopback(r, func(conn net.Conn) vtEnd { return vtPlainEnd(conn, false) }, initiator)
		return
	}
	r.Peer, r.Proxy = vtLoopback(r,
		func(conn net.Conn) vtEnd { return vtTLSEnd(tls.Server(conn, p.peerServer(c.Cred)), false) }, initiator)
	r.Peer.Sent = c.Cred.Class != "none"
}
