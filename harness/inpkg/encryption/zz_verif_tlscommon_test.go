//go:build verif

package encryption

// Verification harness for C19, common part (injected with `go test -overlay`, never committed to /repo).
//
// This file is package-agnostic (standard library only).  lib/p_tls.py injects it unchanged into package
// encryption and, with the package clause rewritten, into package proxy; the transports themselves are in
// zz_verif_tls_test.go of each package and register in vtTransports.
//
// It holds NO oracle: it builds the certificates, runs every case TLC enumerated (spec/TlsAdmit/TlsAdmitCases.tla)
// as a real handshake plus one application byte each way and records what BOTH ends observed.  TlsAdmitObs.tla
// judges the records.

import (
	"bufio"
	"crypto/ecdsa"
	"crypto/elliptic"
	"crypto/rand"
	"crypto/tls"
	"crypto/x509"
	"crypto/x509/pkix"
	"encoding/json"
	"encoding/pem"
	"errors"
	"fmt"
	"io"
	"math/big"
	"net"
	"os"
	"path/filepath"
	"runtime"
	"strconv"
	"sync"
	"sync/atomic"
	"testing"
	"time"
)

type vtCfg struct {
	Role    string `json:"role"`
	Verify  bool   `json:"verify"`
	OwnCert bool   `json:"ownCert"`
	Ca      string `json:"ca"`
	Name    string `json:"name"`
}
type vtCred struct {
	Class string `json:"class"`
	Send  string `json:"send"`
	Ver   string `json:"ver"`
	Sni   string `json:"sni"` // client peers: server name in the ClientHello: none | own (the proxy certificate's name) | foreign
}
type vtCase struct {
	ID        int    `json:"id"`
	Transport string `json:"transport"`
	Rep       int    `json:"rep"`
	Cfg       vtCfg  `json:"cfg"`
	Cred      vtCred `json:"cred"`
	After     string `json:"after"` // intact | caRemoved: what happens to the files once the endpoint has started
}

// vtEnd is what one end of the connection observed.
type vtEnd struct {
	Hs   bool   `json:"hs"`   // handshake completed at this end
	Byte bool   `json:"byte"` // application byte sent AND the other side's byte received at this end
	Err  string `json:"err"`
	Sent bool   `json:"sent"` // peer end only: the raw peer presented a certificate in the handshake

	timedOut bool // a vtIOTimeout deadline fired at this end (harness trouble, reported in Note)
}
type vtRec struct {
	Ev         string `json:"ev"`
	ID         int    `json:"id"`
	Transport  string `json:"transport"`
	Rep        int    `json:"rep"`
	Cfg        vtCfg  `json:"cfg"`
	Cred       vtCred `json:"cred"`
	After      string `json:"after"`
	Startup    string `json:"startup"` // ready | reject | disabled
	StartupErr string `json:"startupErr"`
	Proxy      vtEnd  `json:"proxy"`
	Peer       vtEnd  `json:"peer"`
	Note       string `json:"note"` // non-empty: the case could not be executed properly (never a verdict)
}

// vtFiles is encryption.TLSConfig in package-agnostic form.
type vtFiles struct {
	Cert, Key, CA, Name string
	Skip                bool
}

const (
	vtPeerName  = "peer.verif.test"
	vtOtherName = "other.verif.test"
	// generous bound on every blocking I/O step; outcomes are decided by definite events (handshake result,
	// alert, EOF), a fired deadline is reported in Note and makes the check exit 2
	vtIOTimeout = 30 * time.Second
)

type vtTransportFn func(p *vtPKI, c vtCase, r *vtRec)

// key: transport + "/" + role
var vtTransports = map[string]vtTransportFn{}

// ---------------------------------------------------------------------------------------------------------------
// run-time certificate factory (ECDSA P-256)

type vtPKI struct {
	dir     string
	bundles map[string]string           // CA kind -> path of RemoteCAPath
	peer    map[string]*tls.Certificate // credential class -> key pair of the raw peer (nil: none)
	cert    string
	key     string
}

var vtSerial struct {
	sync.Mutex
	n int64
}

func vtNextSerial() *big.Int {
	vtSerial.Lock()
	defer vtSerial.Unlock()
	vtSerial.n++
	return big.NewInt(vtSerial.n)
}

type vtSigner struct {
	cert *x509.Certificate
	key  *ecdsa.PrivateKey
}

func vtMust(err error) {
	if err != nil {
		panic(err)
	}
}

func vtNewCA(subject pkix.Name) vtSigner {
	key, err := ecdsa.GenerateKey(elliptic.P256(), rand.Reader)
	vtMust(err)
	tpl := &x509.Certificate{
		SerialNumber: vtNextSerial(), Subject: subject,
		NotBefore: time.Now().Add(-time.Hour), NotAfter: time.Now().Add(48 * time.Hour),
		IsCA: true, BasicConstraintsValid: true, KeyUsage: x509.KeyUsageCertSign | x509.KeyUsageCRLSign,
	}
	der, err := x509.CreateCertificate(rand.Reader, tpl, tpl, &key.PublicKey, key)
	vtMust(err)
	cert, err := x509.ParseCertificate(der)
	vtMust(err)
	return vtSigner{cert, key}
}

// vtLeaf issues a non-CA certificate; ca == nil means self-signed.
func vtLeaf(ca *vtSigner, cn string, notBefore, notAfter time.Time, ekus []x509.ExtKeyUsage) (*tls.Certificate, []byte, []byte) {
	key, err := ecdsa.GenerateKey(elliptic.P256(), rand.Reader)
	vtMust(err)
	tpl := &x509.Certificate{
		SerialNumber: vtNextSerial(), Subject: pkix.Name{CommonName: cn, Organization: []string{"verif leaf"}},
		DNSNames:  []string{cn},
		NotBefore: notBefore, NotAfter: notAfter, BasicConstraintsValid: true,
		KeyUsage: x509.KeyUsageDigitalSignature, ExtKeyUsage: ekus,
	}
	parent, signer := tpl, key
	if ca != nil {
		parent, signer = ca.cert, ca.key
	}
	der, err := x509.CreateCertificate(rand.Reader, tpl, parent, &key.PublicKey, signer)
	vtMust(err)
	leaf, err := x509.ParseCertificate(der)
	vtMust(err)
	kder, err := x509.MarshalECPrivateKey(key)
	vtMust(err)
	certPEM := pem.EncodeToMemory(&pem.Block{Type: "CERTIFICATE", Bytes: der})
	keyPEM := pem.EncodeToMemory(&pem.Block{Type: "EC PRIVATE KEY", Bytes: kder})
	return &tls.Certificate{Certificate: [][]byte{der}, PrivateKey: key, Leaf: leaf}, certPEM, keyPEM
}

func vtNewPKI(dir string) *vtPKI {
	vtMust(os.MkdirAll(dir, 0o755))
	p := &vtPKI{dir: dir, bundles: map[string]string{"none": ""}, peer: map[string]*tls.Certificate{"none": nil}}
	write := func(name string, data []byte) string {
		path := filepath.Join(dir, name)
		vtMust(os.WriteFile(path, data, 0o600))
		return path
	}
	nameA := pkix.Name{CommonName: "verif CA-A", Organization: []string{"verif"}}
	caA := vtNewCA(nameA)
	caB := vtNewCA(pkix.Name{CommonName: "verif CA-B", Organization: []string{"verif"}})
	caA2 := vtNewCA(nameA) // foreign key, CA-A's subject name
	now := time.Now()
	from, to := now.Add(-time.Hour), now.Add(24*time.Hour)
	both := []x509.ExtKeyUsage{x509.ExtKeyUsageClientAuth, x509.ExtKeyUsageServerAuth}

	// the proxy's own key pair (CertificatePath / KeyPath): a leaf of CA-A
	_, cpem, kpem := vtLeaf(&caA, "proxy.verif.test", from, to, both)
	p.cert, p.key = write("proxy.pem", cpem), write("proxy.key", kpem)

	var validPEM []byte
	p.peer["valid"], validPEM, _ = vtLeaf(&caA, vtPeerName, from, to, both)
	p.peer["selfsigned"], _, _ = vtLeaf(nil, vtPeerName, from, to, both)
	p.peer["otherCA"], _, _ = vtLeaf(&caB, vtPeerName, from, to, both)
	p.peer["sameNameCA"], _, _ = vtLeaf(&caA2, vtPeerName, from, to, both)
	p.peer["expired"], _, _ = vtLeaf(&caA, vtPeerName, now.Add(-48*time.Hour), now.Add(-time.Hour), both)
	p.peer["expiredJust"], _, _ = vtLeaf(&caA, vtPeerName, now.Add(-48*time.Hour), now.Add(-5*time.Second), both)
	p.peer["notYetValid"], _, _ = vtLeaf(&caA, vtPeerName, now.Add(time.Hour), now.Add(48*time.Hour), both)
	p.peer["wrongEKU"], _, _ = vtLeaf(&caA, vtPeerName, from, to, []x509.ExtKeyUsage{x509.ExtKeyUsageCodeSigning})
	// peers that ship more than their leaf: withChain appends further certificates to what is presented
	withChain := func(c *tls.Certificate, more ...[]byte) *tls.Certificate {
		cc := *c
		cc.Certificate = append(append([][]byte{}, c.Certificate...), more...)
		return &cc
	}
	vc, _, _ := vtLeaf(&caA, vtPeerName, from, to, both)
	p.peer["validchain"] = withChain(vc, caA.cert.Raw)
	oc, _, _ := vtLeaf(&caB, vtPeerName, from, to, both)
	p.peer["otherCAchain"] = withChain(oc, caB.cert.Raw) // brings its own "trust anchor" along
	ss, _, _ := vtLeaf(nil, vtPeerName, from, to, both)
	p.peer["selfsigned2"] = withChain(ss, ss.Certificate[0]) // the self-signed leaf once more, as its own issuer

	p.bundles["caA"] = write("caA.pem", pem.EncodeToMemory(&pem.Block{Type: "CERTIFICATE", Bytes: caA.cert.Raw}))
	p.bundles["leafOnly"] = write("leafonly.pem", validPEM) // the peer's own valid leaf: a certificate, but no CA
	p.bundles["garbage"] = write("garbage.pem", []byte("this file holds no certificate\n"))
	return p
}

// caseFiles gives the TLS files of a case and the step to run once the endpoint has started (before the peer dials).
// For after = caRemoved the endpoint gets a per-case copy of the bundle (cases stay independent) and the step removes it.
func (p *vtPKI) caseFiles(c vtCase) (vtFiles, func()) {
	f := p.files(c.Cfg)
	switch c.After {
	case "", "intact":
		return f, func() {}
	case "caRemoved":
		if f.CA == "" {
			panic("after = caRemoved needs a CA bundle file")
		}
		data, err := os.ReadFile(f.CA)
		vtMust(err)
		f.CA = filepath.Join(p.dir, fmt.Sprintf("ca-case-%d-%s.pem", c.ID, c.Transport))
		vtMust(os.WriteFile(f.CA, data, 0o600))
		path := f.CA
		return f, func() { // idempotent; afterwards the file is definitely gone
			_ = os.Remove(path)
			if _, err := os.Stat(path); err == nil {
				panic("could not remove " + path)
			}
		}
	}
	panic("unknown after kind " + c.After)
}

func (p *vtPKI) files(c vtCfg) vtFiles {
	f := vtFiles{Skip: !c.Verify}
	if c.OwnCert {
		f.Cert, f.Key = p.cert, p.key
	}
	ca, ok := p.bundles[c.Ca]
	if !ok {
		panic("unknown CA kind " + c.Ca)
	}
	f.CA = ca
	switch c.Name {
	case "unset":
	case "match":
		f.Name = vtPeerName
	case "mismatch":
		f.Name = vtOtherName
	default:
		panic("unknown name kind " + c.Name)
	}
	return f
}

// ---------------------------------------------------------------------------------------------------------------
// the raw peers: plain crypto/tls configurations, maximally permissive (the proxy's end alone decides)

func vtVersion(c *tls.Config, ver string) {
	switch ver {
	case "tls12":
		c.MinVersion, c.MaxVersion = tls.VersionTLS12, tls.VersionTLS12
	case "tls13":
		c.MinVersion, c.MaxVersion = tls.VersionTLS13, tls.VersionTLS13
	default:
		panic("unknown version " + ver)
	}
}

// peerClient: the raw client that connects to a server-role endpoint of the proxy.  sent reports whether it presented
// its certificate (the server asked for one and the send mode allowed it).
func (p *vtPKI) peerClient(cred vtCred) (c *tls.Config, sent *atomic.Bool) {
	c, sent = &tls.Config{InsecureSkipVerify: true}, new(atomic.Bool)
	vtVersion(c, cred.Ver)
	switch cred.Sni {
	case "", "none":
	case "own":
		c.ServerName = "proxy.verif.test"
	case "foreign":
		c.ServerName = "other.example"
	default:
		panic("unknown sni kind " + cred.Sni)
	}
	cert, ok := p.peer[cred.Class]
	if !ok {
		panic("unknown credential class " + cred.Class)
	}
	if cert == nil {
		return
	}
	switch cred.Send {
	case "always": // presents its certificate whatever certificate_authorities the server sent
		c.GetClientCertificate = func(*tls.CertificateRequestInfo) (*tls.Certificate, error) {
			sent.Store(true)
			return cert, nil
		}
	case "hint": // what a stock crypto/tls client with Certificates = [cert] does: only if the request supports it
		c.GetClientCertificate = func(cri *tls.CertificateRequestInfo) (*tls.Certificate, error) {
			if err := cri.SupportsCertificate(cert); err != nil {
				return new(tls.Certificate), nil
			}
			sent.Store(true)
			return cert, nil
		}
	default:
		panic("unknown send mode " + cred.Send)
	}
	return
}

// peerServer: the raw server a client-role endpoint of the proxy connects to.
func (p *vtPKI) peerServer(cred vtCred) *tls.Config {
	c := &tls.Config{ClientAuth: tls.RequestClientCert}
	vtVersion(c, cred.Ver)
	cert, ok := p.peer[cred.Class]
	if !ok {
		panic("unknown credential class " + cred.Class)
	}
	if cert != nil {
		c.Certificates = []tls.Certificate{*cert}
	}
	return c
}

// ---------------------------------------------------------------------------------------------------------------
// one application byte each way: the initiator writes 'c', the acceptor answers 's'

type vtDeadliner interface {
	SetDeadline(time.Time) error
}

func vtErrStr(err error) string {
	if err == nil {
		return ""
	}
	return err.Error()
}

func vtIsTimeout(err error) bool {
	var ne interface{ Timeout() bool }
	return err != nil && (errors.Is(err, os.ErrDeadlineExceeded) || (errors.As(err, &ne) && ne.Timeout()))
}

// vtInitiate writes 'c' and expects 's'.
func vtInitiate(rw io.ReadWriter) (bool, error) {
	if d, ok := rw.(vtDeadliner); ok {
		_ = d.SetDeadline(time.Now().Add(vtIOTimeout))
	}
	if _, err := rw.Write([]byte{'c'}); err != nil {
		return false, err
	}
	var b [1]byte
	if _, err := io.ReadFull(rw, b[:]); err != nil {
		return false, err
	}
	if b[0] != 's' {
		return false, fmt.Errorf("unexpected byte %q", b[0])
	}
	return true, nil
}

// vtAnswer expects 'c' and writes 's'.
func vtAnswer(rw io.ReadWriter) (bool, error) {
	if d, ok := rw.(vtDeadliner); ok {
		_ = d.SetDeadline(time.Now().Add(vtIOTimeout))
	}
	var b [1]byte
	if _, err := io.ReadFull(rw, b[:]); err != nil {
		return false, err
	}
	if b[0] != 'c' {
		return false, fmt.Errorf("unexpected byte %q", b[0])
	}
	if _, err := rw.Write([]byte{'s'}); err != nil {
		return false, err
	}
	return true, nil
}

// vtTLSEnd drives one end of a plain crypto/tls connection: handshake, then the byte exchange.
func vtTLSEnd(c *tls.Conn, initiator bool) vtEnd {
	var e vtEnd
	_ = c.SetDeadline(time.Now().Add(vtIOTimeout))
	err := c.Handshake()
	if err == nil {
		e.Hs = true
		if initiator {
			e.Byte, err = vtInitiate(c)
		} else {
			e.Byte, err = vtAnswer(c)
		}
	}
	e.Err, e.timedOut = vtErrStr(err), vtIsTimeout(err)
	_ = c.Close()
	return e
}

// vtPlainEnd is an end that does not speak TLS at all: the byte exchange directly on the TCP connection.
func vtPlainEnd(c net.Conn, initiator bool) vtEnd {
	var e vtEnd
	var err error
	if initiator {
		// half-close after the byte: an end that expects a TLS record header (5 bytes) then sees EOF at once instead of
		// waiting for more; an end that takes the byte as it is can still answer
		_ = c.SetDeadline(time.Now().Add(vtIOTimeout))
		if _, err = c.Write([]byte{'c'}); err == nil {
			if hc, ok := c.(interface{ CloseWrite() error }); ok {
				_ = hc.CloseWrite()
			}
			var b [1]byte
			if _, err = io.ReadFull(c, b[:]); err == nil {
				if e.Byte = b[0] == 's'; !e.Byte {
					err = fmt.Errorf("unexpected byte %q", b[0])
				}
			}
		}
	} else {
		e.Byte, err = vtAnswer(c)
	}
	e.Err, e.timedOut = vtErrStr(err), vtIsTimeout(err)
	_ = c.Close()
	return e
}

const vtPlaintext = "plaintext"

// vtWait waits for ch with the generous bound; ok=false means the bound fired (harness trouble).
func vtWait[T any](ch <-chan T) (T, bool) {
	select {
	case v := <-ch:
		return v, true
	case <-time.After(vtIOTimeout):
		var z T
		return z, false
	}
}

// ---------------------------------------------------------------------------------------------------------------
// runner

func TestVerifTls(t *testing.T) {
	in, out := os.Getenv("VERIF_IN"), os.Getenv("VERIF_OUT")
	if in == "" || out == "" {
		t.Skip("VERIF_IN / VERIF_OUT not set")
	}
	f, err := os.Open(in)
	if err != nil {
		t.Fatal(err)
	}
	var cases []vtCase
	sc := bufio.NewScanner(f)
	sc.Buffer(make([]byte, 1<<20), 1<<24)
	for sc.Scan() {
		if len(sc.Bytes()) == 0 {
			continue
		}
		var c vtCase
		if err := json.Unmarshal(sc.Bytes(), &c); err != nil {
			t.Fatalf("bad case line: %v", err)
		}
		cases = append(cases, c)
	}
	_ = f.Close()
	dir, err := os.MkdirTemp("", "verif-tls-pki-")
	if err != nil {
		t.Fatal(err)
	}
	defer os.RemoveAll(dir)
	var pkiMu sync.Mutex
	pkis := map[int]*vtPKI{} // fresh keys per repetition
	pkiFor := func(rep int) *vtPKI {
		pkiMu.Lock()
		defer pkiMu.Unlock()
		if pkis[rep] == nil {
			pkis[rep] = vtNewPKI(filepath.Join(dir, strconv.Itoa(rep)))
		}
		return pkis[rep]
	}
	par := runtime.GOMAXPROCS(0)
	if v, err := strconv.Atoi(os.Getenv("VERIF_PAR")); err == nil && v > 0 {
		par = v
	}
	recs := make([]vtRec, len(cases))
	idx := make(chan int)
	var wg sync.WaitGroup
	for w := 0; w < par; w++ {
		wg.Add(1)
		go func() {
			defer wg.Done()
			for i := range idx {
				recs[i] = vtRunCase(pkiFor(cases[i].Rep), cases[i])
			}
		}()
	}
	for i := range cases {
		idx <- i
	}
	close(idx)
	wg.Wait()
	of, err := os.Create(out)
	if err != nil {
		t.Fatal(err)
	}
	w := bufio.NewWriter(of)
	enc := json.NewEncoder(w)
	for i := range recs {
		if err := enc.Encode(&recs[i]); err != nil {
			t.Fatal(err)
		}
	}
	if err := w.Flush(); err != nil {
		t.Fatal(err)
	}
	_ = of.Close()
}

func vtRunCase(p *vtPKI, c vtCase) (r vtRec) {
	if c.After == "" {
		c.After = "intact"
	}
	r = vtRec{Ev: "Case", ID: c.ID, Transport: c.Transport, Rep: c.Rep, Cfg: c.Cfg, Cred: c.Cred, After: c.After}
	fn := vtTransports[c.Transport+"/"+c.Cfg.Role]
	if fn == nil {
		r.Note = "no such transport in this package: " + c.Transport + "/" + c.Cfg.Role
		return r
	}
	defer func() {
		if x := recover(); x != nil {
			r.Note = fmt.Sprintf("panic: %v", x)
		}
	}()
	fn(p, c, &r)
	if r.Note == "" && (r.Proxy.timedOut || r.Peer.timedOut) {
		r.Note = "timeout: proxy end: " + r.Proxy.Err + " / peer end: " + r.Peer.Err
	}
	return r
}
