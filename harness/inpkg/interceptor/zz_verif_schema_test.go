//go:build verif

package interceptor

// Verification harness for C12 / C13 / C14 / C16 (schema family), part 1: export of the REAL schema.
// TestVerifSchemaExport writes a TLA+ module SchemaGen.tla with
//   - the message graph reachable from every request / response / stream message type of WorkflowService and AdminService
//     (taken from the protobuf descriptors linked into this binary),
//   - per field the independent, descriptor-based classification of what it carries (namespace name, event blob,
//     search-attribute container) - the oracle of the properties, NOT derived from the walker's tables,
//   - the walker's own tables, read from the package-level maps of this package (namespaceFieldNames, dataBlobFieldNames,
//     searchAttributeFieldNames, namespaceTranslationSkippableHistoryEvents).
// TLC explores every structural path over this module (spec/SchemaWalk/SchemaWalk.tla).

import (
	"fmt"
	"os"
	"sort"
	"strings"
	"testing"
	"unicode"

	"go.temporal.io/api/enums/v1"
	_ "go.temporal.io/api/workflowservice/v1"
	_ "go.temporal.io/server/api/adminservice/v1"
	"google.golang.org/protobuf/reflect/protoreflect"
	"google.golang.org/protobuf/reflect/protoregistry"
)

const (
	vscWorkflowService = "temporal.api.workflowservice.v1.WorkflowService"
	vscAdminService    = "temporal.server.api.adminservice.v1.AdminService"
)

// goCamelCase is protoc-gen-go's field naming rule (google.golang.org/protobuf/internal/strs.GoCamelCase).
func vscGoCamelCase(s string) string {
	var b []byte
	for i := 0; i < len(s); i++ {
		c := s[i]
		switch {
		case c == '.' && i+1 < len(s) && 'a' <= s[i+1] && s[i+1] <= 'z':
		case c == '.':
			b = append(b, '_')
		case c == '_' && (i == 0 || s[i-1] == '.'):
			b = append(b, 'X')
		case c == '_' && i+1 < len(s) && 'a' <= s[i+1] && s[i+1] <= 'z':
		case '0' <= c && c <= '9':
			b = append(b, c)
		default:
			if 'a' <= c && c <= 'z' {
				c -= 'a' - 'A'
			}
			b = append(b, c)
			for ; i+1 < len(s) && 'a' <= s[i+1] && s[i+1] <= 'z'; i++ {
				b = append(b, s[i+1])
			}
		}
	}
	return string(b)
}

type vscRoot struct {
	Type    string
	Service string // "workflow" | "admin"
	Method  string
	Dir     string // "req" | "resp"
	Stream  bool
}

type vscField struct {
	Name, Go, Kind, Card, Target, Oneof string
	NS, Blob, SA                        bool
}

func vscServiceRoots(t *testing.T) []vscRoot {
	var roots []vscRoot
	for _, svc := range []struct{ full, short string }{{vscWorkflowService, "workflow"}, {vscAdminService, "admin"}} {
		d, err := protoregistry.GlobalFiles.FindDescriptorByName(protoreflect.FullName(svc.full))
		if err != nil {
			t.Fatalf("service %s not linked in: %v", svc.full, err)
		}
		sd := d.(protoreflect.ServiceDescriptor)
		for i := 0; i < sd.Methods().Len(); i++ {
			m := sd.Methods().Get(i)
			st := m.IsStreamingClient() || m.IsStreamingServer()
			roots = append(roots, vscRoot{string(m.Input().FullName()), svc.short, string(m.Name()), "req", st})
			roots = append(roots, vscRoot{string(m.Output().FullName()), svc.short, string(m.Name()), "resp", st})
		}
	}
	return roots
}

// descriptor rule: which fields carry what (DESIGN 3.11)
var vscEventBlobFields = map[string]bool{"events": true, "new_run_events": true, "event_batch": true, "event_batches": true,
	"events_batches": true, "history_batches": true, "raw_history": true}

func vscClassify(md protoreflect.MessageDescriptor, fd protoreflect.FieldDescriptor) (ns, blob, sa bool) {
	name := string(fd.Name())
	if fd.Kind() == protoreflect.StringKind && !fd.IsList() && !fd.IsMap() {
		if name == "namespace" || strings.HasSuffix(name, "_namespace") {
			ns = true
		}
		if md.FullName() == "temporal.api.namespace.v1.NamespaceInfo" && name == "name" {
			ns = true
		}
	}
	if fd.Kind() == protoreflect.MessageKind && !fd.IsMap() && fd.Message().FullName() == "temporal.api.common.v1.DataBlob" && vscEventBlobFields[name] {
		blob = true
	}
	if name == "search_attributes" {
		if fd.Kind() == protoreflect.MessageKind && !fd.IsMap() && fd.Message().FullName() == "temporal.api.common.v1.SearchAttributes" {
			sa = true
		}
		if fd.IsMap() && fd.MapValue().Kind() == protoreflect.MessageKind && fd.MapValue().Message().FullName() == "temporal.api.common.v1.Payload" {
			sa = true
		}
	}
	return
}

func vscSchema(t *testing.T, roots []vscRoot) (map[string][]vscField, []string) {
	fields := map[string][]vscField{}
	var order []string
	var queue []protoreflect.MessageDescriptor
	seen := map[string]bool{}
	push := func(md protoreflect.MessageDescriptor) {
		if !seen[string(md.FullName())] {
			seen[string(md.FullName())] = true
			queue = append(queue, md)
		}
	}
	for _, r := range roots {
		d, err := protoregistry.GlobalFiles.FindDescriptorByName(protoreflect.FullName(r.Type))
		if err != nil {
			t.Fatal(err)
		}
		push(d.(protoreflect.MessageDescriptor))
	}
	// event blobs hold serialized History messages
	if d, err := protoregistry.GlobalFiles.FindDescriptorByName("temporal.api.history.v1.History"); err == nil {
		push(d.(protoreflect.MessageDescriptor))
	}
	for len(queue) > 0 {
		md := queue[0]
		queue = queue[1:]
		order = append(order, string(md.FullName()))
		var fs []vscField
		for i := 0; i < md.Fields().Len(); i++ {
			fd := md.Fields().Get(i)
			f := vscField{Name: string(fd.Name()), Go: vscGoCamelCase(string(fd.Name())), Card: "one"}
			if fd.IsList() {
				f.Card = "list"
			}
			if fd.IsMap() {
				f.Card = "map"
			}
			if od := fd.ContainingOneof(); od != nil && !od.IsSynthetic() {
				f.Oneof = string(od.Name())
			}
			kindOf := func(k protoreflect.Kind) string {
				switch k {
				case protoreflect.StringKind:
					return "string"
				case protoreflect.BytesKind:
					return "bytes"
				case protoreflect.MessageKind, protoreflect.GroupKind:
					return "msg"
				case protoreflect.EnumKind:
					return "enum"
				}
				return "scalar"
			}
			if fd.IsMap() {
				f.Kind = kindOf(fd.MapValue().Kind())
				if f.Kind == "msg" {
					f.Target = string(fd.MapValue().Message().FullName())
					push(fd.MapValue().Message())
				}
			} else {
				f.Kind = kindOf(fd.Kind())
				if f.Kind == "msg" {
					f.Target = string(fd.Message().FullName())
					push(fd.Message())
				}
			}
			f.NS, f.Blob, f.SA = vscClassify(md, fd)
			fs = append(fs, f)
		}
		fields[string(md.FullName())] = fs
	}
	return fields, order
}

// attribute member name of a history event type: EVENT_TYPE_X_Y -> x_y_event_attributes
func vscAttrMember(et enums.EventType) string {
	n := strings.TrimPrefix(enums.EventType_name[int32(et)], "EVENT_TYPE_")
	return strings.ToLower(n) + "_event_attributes"
}

func vscTLAString(s string) string { return `"` + s + `"` }
func vscBool(b bool) string {
	if b {
		return "TRUE"
	}
	return "FALSE"
}
func vscSet(m map[string]bool) string {
	var ks []string
	for k := range m {
		ks = append(ks, vscTLAString(k))
	}
	sort.Strings(ks)
	return "{" + strings.Join(ks, ", ") + "}"
}

func TestVerifSchemaExport(t *testing.T) {
	out := os.Getenv("VERIF_OUT")
	if out == "" {
		t.Skip("VERIF_OUT not set")
	}
	roots := vscServiceRoots(t)
	fields, order := vscSchema(t, roots)
	var b strings.Builder
	b.WriteString("---- MODULE SchemaGen ----\nEXTENDS TLC\n\\* GENERATED at check time from the protobuf descriptors and the walker tables of the tree under test.\n")
	b.WriteString("Roots == {\n")
	for i, r := range roots {
		sep := ","
		if i == len(roots)-1 {
			sep = ""
		}
		fmt.Fprintf(&b, "  [type |-> %s, service |-> %s, method |-> %s, dir |-> %s, stream |-> %s]%s\n",
			vscTLAString(r.Type), vscTLAString(r.Service), vscTLAString(r.Method), vscTLAString(r.Dir), vscBool(r.Stream), sep)
	}
	b.WriteString("}\n")
	b.WriteString("Fields ==\n")
	nf := 0
	for i, tn := range order {
		op := "@@"
		if i == 0 {
			op = "  "
		}
		fmt.Fprintf(&b, "  %s %s :> <<", op, vscTLAString(tn))
		for j, f := range fields[tn] {
			if j > 0 {
				b.WriteString(", ")
			}
			nf++
			fmt.Fprintf(&b, "[name |-> %s, go |-> %s, kind |-> %s, card |-> %s, target |-> %s, oneof |-> %s, oNS |-> %s, oBlob |-> %s, oSA |-> %s, oFail |-> %s]",
				vscTLAString(f.Name), vscTLAString(f.Go), vscTLAString(f.Kind), vscTLAString(f.Card), vscTLAString(f.Target), vscTLAString(f.Oneof),
				vscBool(f.NS), vscBool(f.Blob), vscBool(f.SA), vscBool(tn == "temporal.api.failure.v1.Failure" && f.Name == "message"))
		}
		b.WriteString(">>\n")
	}
	// the walker's tables, read from the real package-level maps
	fmt.Fprintf(&b, "NamespaceFieldNames == %s\n", vscSet(namespaceFieldNames))
	fmt.Fprintf(&b, "DataBlobFieldNames == %s\n", vscSet(dataBlobFieldNames))
	fmt.Fprintf(&b, "SearchAttributeFieldNames == %s\n", vscSet(searchAttributeFieldNames))
	skip := map[string]bool{}
	for et := range namespaceTranslationSkippableHistoryEvents {
		skip[vscAttrMember(et)] = true
	}
	fmt.Fprintf(&b, "SkippableAttrFields == %s\n", vscSet(skip))
	// sanity: every skippable member name must exist on HistoryEvent (else the naming convention broke)
	he := map[string]bool{}
	for _, f := range fields["temporal.api.history.v1.HistoryEvent"] {
		he[f.Name] = true
	}
	var unknown []string
	for k := range skip {
		if !he[k] {
			unknown = append(unknown, k)
		}
	}
	sort.Strings(unknown)
	qs := []string{}
	for _, u := range unknown {
		qs = append(qs, vscTLAString(u))
	}
	fmt.Fprintf(&b, "UnknownSkippable == {%s}\n", strings.Join(qs, ", "))
	fmt.Fprintf(&b, "NTypes == %d\nNFields == %d\n====\n", len(order), nf)
	_ = unicode.IsUpper
	if err := os.WriteFile(out, []byte(b.String()), 0o644); err != nil {
		t.Fatal(err)
	}
}
