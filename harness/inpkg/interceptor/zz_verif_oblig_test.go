//go:build verif

package interceptor

// Verification harness for C12 / C13 / C14 (schema family), part 2: one real interceptor run per obligation.
// An obligation is a structural path (emitted by TLC from spec/SchemaWalk) from a request/response type to a
// namespace-name leaf or a search-attribute container. The harness builds the minimal concrete message that realises
// the path (real generated Go types, event blobs serialized with the real serializer, event_type consistent with the
// populated attributes member), runs the REAL TranslationInterceptor (unary) / streamTranslator (stream messages) on it
// and records what came out. It holds no oracle: TLC (SchemaObs.tla) decides what the output had to be.

import (
	"bufio"
	"bytes"
	"context"
	"encoding/json"
	"fmt"
	"os"
	"reflect"
	"strings"
	"testing"

	"github.com/gogo/status"
	history122 "github.com/temporalio/s2s-proxy/proto/1_22/api/history/v1"
	commonpb "go.temporal.io/api/common/v1"
	"go.temporal.io/api/enums/v1"
	failurepb "go.temporal.io/api/failure/v1"
	historypb "go.temporal.io/api/history/v1"
	"go.temporal.io/server/common/codec"
	"go.temporal.io/server/common/log"
	"google.golang.org/grpc"
	"google.golang.org/grpc/codes"
	"google.golang.org/grpc/metadata"
	"google.golang.org/protobuf/proto"
	"google.golang.org/protobuf/reflect/protoreflect"
	"google.golang.org/protobuf/reflect/protoregistry"

	s2scommon "github.com/temporalio/s2s-proxy/common"
)

type vobRoot struct {
	Type    string `json:"type"`
	Service string `json:"service"`
	Method  string `json:"method"`
	Dir     string `json:"dir"`
	Stream  bool   `json:"stream"`
}
type vobOblig struct {
	ID      int        `json:"id"`
	Root    vobRoot    `json:"root"`
	Path    []string   `json:"path"`
	Leaf    string     `json:"leaf"`
	Reached bool       `json:"reached"`
	Skipped bool       `json:"skipped"`
	InBlob  bool       `json:"inblob"`
	Value   string     `json:"value"`   // namespace name to put at the leaf (ns) / unused (sa)
	Mode    string     `json:"mode"`    // "" = translation; "acl" = translation followed by the access-control interceptor
	Bypass  bool       `json:"bypass"`  // request carries the translation-bypass header
	Paths   [][]string `json:"paths"`   // mode "populate": every path of this root to a namespace leaf, all realised in ONE message
	Solo    bool       `json:"solo"`    // only the translator under test is configured (names only / search attributes only)
	Variant string     `json:"variant"` // "" | "tail" | "rich" | "dirty" | "dirtyfirst" | "json" | "fill" (sibling namespace fields hold an unmapped name) | "evtype"
	EvK     int        `json:"evk"`     // variant "evtype": which event type the event under test gets (index into the attributes members; -1 = WorkflowTaskCompleted)
}

const (
	vobNsLocal, vobNsRemote = "ns-local", "ns-remote"
	vobSaLocal, vobSaRemote = "sa-local", "sa-remote"
	vobSaOther              = "sa-unmapped"
)

func vobNew(full string) (protoreflect.Message, error) {
	mt, err := protoregistry.GlobalTypes.FindMessageByName(protoreflect.FullName(full))
	if err != nil {
		return nil, err
	}
	return mt.New(), nil
}

func vobPayload(s string) *commonpb.Payload {
	return &commonpb.Payload{Metadata: map[string][]byte{"encoding": []byte("json/plain")}, Data: []byte(`"` + s + `"`)}
}

// build realises path[i:] below message m; the last element is the leaf.
// vobFill: when non-empty, every other namespace-name field (descriptor rule) of the messages along the path is set to it,
// so that an access-control verdict is decided by the leaf under test and not by empty sibling names.
var vobFill string
var vobFilled int // how many sibling fields the last build filled

// vobTail: every events list on the path gets a skippable event before and after the event under test (a batch must not be
// judged by its last event). vobDirty: every event blob on the path also holds a failure message with invalid UTF-8, so the
// blob goes through the repair path before it is translated.
var vobTail, vobDirty bool

// vobRich: like vobTail, but the neighbours carry content of their own that must not matter: before and after the event under
// test an UpsertWorkflowSearchAttributes event whose container holds only an unmapped key, and a
// SignalExternalWorkflowExecutionInitiated event naming an unmapped namespace (a batch is not judged by its last container)
var vobRich bool

// vobDirtyFirst: (with vobDirty) the event with the invalid failure message is the FIRST event of the blob, clean events follow
var vobDirtyFirst bool

// vobEvK: >= -1: the event under test, when the path leaves it through a field that is not an attributes member (links, ...), gets
// an event type and a matching (empty) attributes member: -1 WorkflowTaskCompleted, k >= 0 the k-th attributes member (mod count)
var vobEvK = -2

// vobHits: how often a variant's construction (neighbour events, event type) actually applied during the last build
var vobHits int

func vobRichBefore() []*historypb.HistoryEvent {
	return []*historypb.HistoryEvent{
		{EventId: 1, EventType: enums.EVENT_TYPE_UPSERT_WORKFLOW_SEARCH_ATTRIBUTES, Attributes: &historypb.HistoryEvent_UpsertWorkflowSearchAttributesEventAttributes{
			UpsertWorkflowSearchAttributesEventAttributes: &historypb.UpsertWorkflowSearchAttributesEventAttributes{
				SearchAttributes: &commonpb.SearchAttributes{IndexedFields: map[string]*commonpb.Payload{"sa-neighbour-unmapped": vobPayload("v-n")}}}}},
		{EventId: 2, EventType: enums.EVENT_TYPE_SIGNAL_EXTERNAL_WORKFLOW_EXECUTION_INITIATED, Attributes: &historypb.HistoryEvent_SignalExternalWorkflowExecutionInitiatedEventAttributes{
			SignalExternalWorkflowExecutionInitiatedEventAttributes: &historypb.SignalExternalWorkflowExecutionInitiatedEventAttributes{Namespace: "ns-neighbour-unmapped"}}},
	}
}

// vobDirty2: the blob holds invalid UTF-8 in a string that is NOT a failure message (an identity): the repair cannot fix it
var vobDirty2 bool

// vobJSON: event blobs on the path are JSON-encoded (ENCODING_TYPE_JSON, which Temporal's serializer decodes as well as proto3)
var vobJSON bool

const vobDirtyMark = "dirty@#@#"

// vobLegacyHas: does the path below a history blob exist in the legacy (1.22) schema? Blobs that need UTF-8 repair were written
// by a server of that vintage and hold nothing else, so the "dirty" variant is only meaningful for those paths. Walks the legacy
// Go structs by their protobuf tag names (not the proxy's conversion code).
func vobLegacyHas(path []string) bool {
	t := reflect.TypeOf(history122.History{})
	for _, name := range path {
		nt, ok := vobLegacyChild(t, name)
		if !ok {
			return false
		}
		t = nt
	}
	return true
}

func vobLegacyChild(t reflect.Type, name string) (reflect.Type, bool) {
	for t.Kind() == reflect.Ptr || t.Kind() == reflect.Slice || t.Kind() == reflect.Map {
		t = t.Elem()
	}
	if t.Kind() != reflect.Struct {
		return nil, false
	}
	has := func(st reflect.Type) (reflect.Type, bool) {
		for i := 0; i < st.NumField(); i++ {
			for _, part := range strings.Split(st.Field(i).Tag.Get("protobuf"), ",") {
				if part == "name="+name {
					return st.Field(i).Type, true
				}
			}
		}
		return nil, false
	}
	if ft, ok := has(t); ok {
		return ft, true
	}
	if m, ok := reflect.PtrTo(t).MethodByName("XXX_OneofWrappers"); ok {
		out := m.Func.Call([]reflect.Value{reflect.Zero(reflect.PtrTo(t))})
		for _, w := range out[0].Interface().([]interface{}) {
			if ft, ok := has(reflect.TypeOf(w).Elem()); ok {
				return ft, true
			}
		}
	}
	return nil, false
}

func vobPlainEvent(id int64) *historypb.HistoryEvent {
	return &historypb.HistoryEvent{EventId: id, EventType: enums.EVENT_TYPE_WORKFLOW_TASK_SCHEDULED,
		Attributes: &historypb.HistoryEvent_WorkflowTaskScheduledEventAttributes{WorkflowTaskScheduledEventAttributes: &historypb.WorkflowTaskScheduledEventAttributes{Attempt: 1}}}
}

// vobSaKeys: the keys put into a search-attribute container
var vobSaKeys = []string{vobSaLocal, vobSaOther}

func vobBuild(m protoreflect.Message, path []string, leafKind, value string) error {
	md := m.Descriptor()
	if vobFill != "" {
		for i := 0; i < md.Fields().Len(); i++ {
			f := md.Fields().Get(i)
			if ns, _, _ := vscClassify(md, f); ns && string(f.Name()) != path[0] {
				m.Set(f, protoreflect.ValueOfString(vobFill))
				vobFilled++
			}
		}
	}
	fd := md.Fields().ByName(protoreflect.Name(path[0]))
	if fd == nil {
		return fmt.Errorf("no field %s in %s", path[0], md.FullName())
	}
	if md.FullName() == "temporal.api.history.v1.HistoryEvent" {
		m.Set(md.Fields().ByName("event_id"), protoreflect.ValueOfInt64(7))
		if od := fd.ContainingOneof(); od != nil && od.Name() == "attributes" {
			name := "EVENT_TYPE_" + strings.ToUpper(strings.TrimSuffix(path[0], "_event_attributes"))
			ev, ok := enums.EventType_value[name]
			if !ok {
				// the shorthand table of go.temporal.io/api also accepts camel names; fall back to descriptor lookup
				return fmt.Errorf("no event type for attributes member %s", path[0])
			}
			m.Set(md.Fields().ByName("event_type"), protoreflect.ValueOfEnum(protoreflect.EnumNumber(ev)))
		} else if vobEvK >= -1 {
			// the path leaves the event through a field outside the attributes oneof: the event is of SOME type
			od := md.Oneofs().ByName("attributes")
			var af protoreflect.FieldDescriptor
			if vobEvK == -1 {
				af = md.Fields().ByName("workflow_task_completed_event_attributes")
			} else {
				af = od.Fields().Get(vobEvK % od.Fields().Len())
			}
			name := "EVENT_TYPE_" + strings.ToUpper(strings.TrimSuffix(string(af.Name()), "_event_attributes"))
			if ev, ok := enums.EventType_value[name]; ok {
				m.Set(md.Fields().ByName("event_type"), protoreflect.ValueOfEnum(protoreflect.EnumNumber(ev)))
				_ = m.Mutable(af).Message()
				vobHits++
			}
		}
	}
	if len(path) == 1 {
		switch {
		case strings.HasPrefix(leafKind, "ns"):
			m.Set(fd, protoreflect.ValueOfString(value))
		case strings.HasPrefix(leafKind, "sa"):
			if fd.IsMap() {
				mp := m.Mutable(fd).Map()
				for _, k := range vobSaKeys {
					mp.Set(protoreflect.ValueOfString(k).MapKey(), protoreflect.ValueOfMessage(vobPayload("v-"+k).ProtoReflect()))
				}
			} else {
				sa := &commonpb.SearchAttributes{IndexedFields: map[string]*commonpb.Payload{}}
				for _, k := range vobSaKeys {
					sa.IndexedFields[k] = vobPayload("v-" + k)
				}
				m.Set(fd, protoreflect.ValueOfMessage(sa.ProtoReflect()))
			}
		}
		return nil
	}
	if path[1] == "@blob" {
		hist := (&historypb.History{}).ProtoReflect()
		if err := vobBuild(hist, path[2:], leafKind, value); err != nil {
			return err
		}
		evs := hist.Interface().(*historypb.History).Events
		if vobDirty {
			de := &historypb.HistoryEvent{EventId: 99, EventType: enums.EVENT_TYPE_WORKFLOW_TASK_FAILED,
				Attributes: &historypb.HistoryEvent_WorkflowTaskFailedEventAttributes{WorkflowTaskFailedEventAttributes: &historypb.WorkflowTaskFailedEventAttributes{
					Failure: &failurepb.Failure{Message: vobDirtyMark}}}}
			if vobDirtyFirst {
				evs = append([]*historypb.HistoryEvent{de}, evs...)
			} else {
				evs = append(evs, de)
			}
		}
		if vobDirty2 {
			evs = append(evs, &historypb.HistoryEvent{EventId: 98, EventType: enums.EVENT_TYPE_WORKFLOW_TASK_STARTED,
				Attributes: &historypb.HistoryEvent_WorkflowTaskStartedEventAttributes{WorkflowTaskStartedEventAttributes: &historypb.WorkflowTaskStartedEventAttributes{
					Identity: vobDirtyMark}}})
		}
		blob, err := serializer.SerializeEvents(evs)
		if err != nil {
			return err
		}
		if vobJSON {
			data, err := codec.NewJSONPBEncoder().Encode(&historypb.History{Events: evs})
			if err != nil {
				return err
			}
			blob = &commonpb.DataBlob{EncodingType: enums.ENCODING_TYPE_JSON, Data: data}
		}
		if vobDirty || vobDirty2 {
			blob.Data = bytes.ReplaceAll(blob.Data, []byte("@#@#"), []byte{0xff, 0xfe, 0xff, 0xfe})
		}
		if fd.IsList() {
			m.Mutable(fd).List().Append(protoreflect.ValueOfMessage(blob.ProtoReflect()))
		} else {
			m.Set(fd, protoreflect.ValueOfMessage(blob.ProtoReflect()))
		}
		return nil
	}
	switch {
	case fd.IsList():
		isEvents := fd.Kind() == protoreflect.MessageKind && fd.Message().FullName() == "temporal.api.history.v1.HistoryEvent"
		if vobTail && isEvents {
			m.Mutable(fd).List().Append(protoreflect.ValueOfMessage(vobPlainEvent(1).ProtoReflect()))
		}
		if vobRich && isEvents {
			for _, e := range vobRichBefore() {
				m.Mutable(fd).List().Append(protoreflect.ValueOfMessage(e.ProtoReflect()))
			}
		}
		if (vobRich || vobTail) && isEvents {
			vobHits++
		}
		el := m.Mutable(fd).List().AppendMutable().Message()
		if err := vobBuild(el, path[1:], leafKind, value); err != nil {
			return err
		}
		if vobTail && isEvents {
			m.Mutable(fd).List().Append(protoreflect.ValueOfMessage(vobPlainEvent(9).ProtoReflect()))
		}
		if vobRich && isEvents {
			for _, e := range vobRichBefore() {
				e.EventId += 20
				m.Mutable(fd).List().Append(protoreflect.ValueOfMessage(e.ProtoReflect()))
			}
		}
		return nil
	case fd.IsMap():
		mp := m.Mutable(fd).Map()
		v := mp.NewValue()
		if err := vobBuild(v.Message(), path[1:], leafKind, value); err != nil {
			return err
		}
		var key protoreflect.MapKey
		switch fd.MapKey().Kind() {
		case protoreflect.StringKind:
			key = protoreflect.ValueOfString("k").MapKey()
		case protoreflect.Int32Kind, protoreflect.Sint32Kind, protoreflect.Sfixed32Kind:
			key = protoreflect.ValueOfInt32(1).MapKey()
		case protoreflect.Int64Kind, protoreflect.Sint64Kind, protoreflect.Sfixed64Kind:
			key = protoreflect.ValueOfInt64(1).MapKey()
		case protoreflect.BoolKind:
			key = protoreflect.ValueOfBool(true).MapKey()
		default:
			key = protoreflect.ValueOfUint32(1).MapKey()
		}
		mp.Set(key, v)
		return nil
	default:
		return vobBuild(m.Mutable(fd).Message(), path[1:], leafKind, value)
	}
}

// read returns what sits at the leaf now: the string (ns) or the sorted "key=value" list (sa). When set != nil the ns
// leaf is overwritten (used to restore the original for the "nothing else changed" comparison).
func vobRead(m protoreflect.Message, path []string, leafKind string, set *string) ([]string, error) {
	md := m.Descriptor()
	fd := md.Fields().ByName(protoreflect.Name(path[0]))
	if fd == nil {
		return nil, fmt.Errorf("no field %s in %s", path[0], md.FullName())
	}
	if len(path) == 1 {
		if strings.HasPrefix(leafKind, "ns") {
			out := []string{m.Get(fd).String()}
			if set != nil {
				m.Set(fd, protoreflect.ValueOfString(*set))
			}
			return out, nil
		}
		var kv []string
		collect := func(mp protoreflect.Map) {
			mp.Range(func(k protoreflect.MapKey, v protoreflect.Value) bool {
				p := v.Message().Interface().(*commonpb.Payload)
				kv = append(kv, k.String()+"="+string(p.Data))
				return true
			})
		}
		if fd.IsMap() {
			collect(m.Get(fd).Map())
		} else if m.Has(fd) {
			sm := m.Get(fd).Message()
			collect(sm.Get(sm.Descriptor().Fields().ByName("indexed_fields")).Map())
		}
		sortStrings(kv)
		return kv, nil
	}
	if path[1] == "@blob" {
		var blob *commonpb.DataBlob
		if fd.IsList() {
			if m.Get(fd).List().Len() == 0 {
				return nil, fmt.Errorf("blob list empty")
			}
			blob = m.Get(fd).List().Get(0).Message().Interface().(*commonpb.DataBlob)
		} else {
			blob = m.Get(fd).Message().Interface().(*commonpb.DataBlob)
		}
		events, err := serializer.DeserializeEvents(blob)
		if err != nil {
			return nil, err
		}
		var lead []*historypb.HistoryEvent
		if vobDirty && vobDirtyFirst && len(events) > 0 {
			lead, events = events[:1], events[1:]
		}
		hist := &historypb.History{Events: events}
		out, err := vobRead(hist.ProtoReflect(), path[2:], leafKind, set)
		if err != nil {
			return nil, err
		}
		if set != nil {
			nb, err := serializer.SerializeEvents(append(append([]*historypb.HistoryEvent{}, lead...), hist.Events...))
			if err != nil {
				return nil, err
			}
			blob.Data, blob.EncodingType = nb.Data, nb.EncodingType
		}
		return out, nil
	}
	switch {
	case fd.IsList():
		if m.Get(fd).List().Len() == 0 {
			return nil, fmt.Errorf("list %s empty", path[0])
		}
		idx := 0
		if vobTail && fd.Kind() == protoreflect.MessageKind && fd.Message().FullName() == "temporal.api.history.v1.HistoryEvent" && m.Get(fd).List().Len() >= 2 {
			idx = 1
		}
		if vobRich && fd.Kind() == protoreflect.MessageKind && fd.Message().FullName() == "temporal.api.history.v1.HistoryEvent" && m.Get(fd).List().Len() >= 3 {
			idx = 2
		}
		return vobRead(m.Get(fd).List().Get(idx).Message(), path[1:], leafKind, set)
	case fd.IsMap():
		var sub protoreflect.Message
		m.Get(fd).Map().Range(func(_ protoreflect.MapKey, v protoreflect.Value) bool { sub = v.Message(); return false })
		if sub == nil {
			return nil, fmt.Errorf("map %s empty", path[0])
		}
		return vobRead(sub, path[1:], leafKind, set)
	default:
		if !m.Has(fd) {
			return nil, fmt.Errorf("field %s unset", path[0])
		}
		return vobRead(m.Get(fd).Message(), path[1:], leafKind, set)
	}
}

func sortStrings(a []string) {
	for i := 1; i < len(a); i++ {
		for j := i; j > 0 && a[j] < a[j-1]; j-- {
			a[j], a[j-1] = a[j-1], a[j]
		}
	}
}

type vobStream struct {
	grpc.ServerStream
	sent any
	next proto.Message // what the peer sends next
}

func (s *vobStream) SendMsg(m any) error { s.sent = m; return nil }
func (s *vobStream) RecvMsg(m any) error {
	if s.next != nil {
		proto.Merge(m.(proto.Message), s.next)
	}
	return nil
}
func (s *vobStream) Context() context.Context { return context.Background() }

// vobTranslate pushes msg through the real interceptor code in the direction the root says and returns what the next
// hop (request) or the caller (response) gets.
func vobTranslate(ic *TranslationInterceptor, r vobRoot, msg proto.Message) (proto.Message, error) {
	svc := "temporal.api.workflowservice.v1.WorkflowService"
	if r.Service == "admin" {
		svc = "temporal.server.api.adminservice.v1.AdminService"
	}
	full := "/" + svc + "/" + r.Method
	if r.Stream {
		st := &vobStream{}
		w := newStreamTranslator(st, log.NewNoopLogger(), ic.translators)
		if r.Dir == "resp" {
			if err := w.SendMsg(msg); err != nil {
				return nil, err
			}
			return st.sent.(proto.Message), nil
		}
		// a request on a stream: the handler receives into an empty message; what it then holds is what it works with
		st.next = msg
		got := msg.ProtoReflect().New().Interface()
		if err := w.RecvMsg(got); err != nil {
			return nil, err
		}
		return got, nil
	}
	var seen proto.Message
	if r.Dir == "req" {
		_, err := ic.Intercept(context.Background(), msg, &grpc.UnaryServerInfo{FullMethod: full}, func(ctx context.Context, req any) (any, error) {
			seen = req.(proto.Message)
			return nil, nil
		})
		return seen, err
	}
	resp, err := ic.Intercept(context.Background(), nil, &grpc.UnaryServerInfo{FullMethod: full}, func(ctx context.Context, req any) (any, error) {
		return msg, nil
	})
	if err != nil {
		return nil, err
	}
	return resp.(proto.Message), nil
}

func vobRunACL(tr *TranslationInterceptor, acl *AccessControlInterceptor, ob vobOblig) map[string]interface{} {
	rec := map[string]interface{}{"ev": "Acl", "siblings": 0, "variant": ob.Variant, "id": ob.ID, "leaf": ob.Leaf, "service": ob.Root.Service, "method": ob.Root.Method, "type": ob.Root.Type,
		"path": ob.Path, "value": ob.Value, "bypass": ob.Bypass, "skipped": ob.Skipped, "reached": ob.Reached,
		"denied": false, "forwarded": false, "seen": "", "err": "", "built": false}
	defer func() {
		if r := recover(); r != nil {
			rec["err"] = fmt.Sprint("panic: ", r)
		}
	}()
	m, err := vobNew(ob.Root.Type)
	if err != nil {
		rec["err"] = "build: " + err.Error()
		return rec
	}
	// the other namespace fields of the messages on the path hold an allowed name - or, variant "fillbad", a forbidden one:
	// then the request must be refused whatever the leaf under test holds
	vobFill, vobFilled = "ns-allowed", 0
	if ob.Variant == "fillbad" {
		vobFill = "ns-forbidden"
	}
	err = vobBuild(m, ob.Path, ob.Leaf, ob.Value)
	vobFill = ""
	rec["siblings"] = vobFilled
	if err != nil {
		rec["err"] = "build: " + err.Error()
		return rec
	}
	rec["built"] = true
	if ob.Variant == "big" && !vobAttachBig(m) {
		rec["scope"] = "variant-not-applicable"
		return rec
	}
	svc := "temporal.api.workflowservice.v1.WorkflowService"
	if ob.Root.Service == "admin" {
		svc = "temporal.server.api.adminservice.v1.AdminService"
	}
	info := &grpc.UnaryServerInfo{FullMethod: "/" + svc + "/" + ob.Root.Method}
	ctx := context.Background()
	if ob.Bypass {
		ctx = metadata.NewIncomingContext(ctx, metadata.Pairs(s2scommon.RequestTranslationHeaderName, "false"))
	}
	_, err = tr.Intercept(ctx, m.Interface(), info, func(ctx context.Context, req any) (any, error) {
		return acl.Intercept(ctx, req, info, func(ctx context.Context, req any) (any, error) {
			rec["forwarded"] = true
			if v, e := vobRead(req.(proto.Message).ProtoReflect(), ob.Path, ob.Leaf, nil); e == nil && len(v) == 1 {
				rec["seen"] = v[0]
			}
			return nil, nil
		})
	})
	if err != nil {
		if st, ok := status.FromError(err); ok && st.Code() == codes.PermissionDenied {
			rec["denied"] = true
		} else {
			rec["err"] = err.Error()
		}
	}
	return rec
}

// vobAttachBig: the request also carries a large opaque payload (1.5 MiB, inside gRPC's and Temporal's limits) in its first
// top-level field that can hold one (bytes, Payload, Payloads). The verdict on its namespace fields must not depend on its size.
func vobAttachBig(m protoreflect.Message) bool {
	big := bytes.Repeat([]byte{0x5a}, 3<<19)
	fs := m.Descriptor().Fields()
	for i := 0; i < fs.Len(); i++ {
		fd := fs.Get(i)
		if fd.IsList() || fd.IsMap() {
			continue
		}
		switch {
		case fd.Kind() == protoreflect.BytesKind:
			m.Set(fd, protoreflect.ValueOfBytes(big))
			return true
		case fd.Kind() == protoreflect.MessageKind && fd.Message().FullName() == "temporal.api.common.v1.Payloads":
			m.Set(fd, protoreflect.ValueOfMessage((&commonpb.Payloads{Payloads: []*commonpb.Payload{{Data: big}}}).ProtoReflect()))
			return true
		case fd.Kind() == protoreflect.MessageKind && fd.Message().FullName() == "temporal.api.common.v1.Payload":
			m.Set(fd, protoreflect.ValueOfMessage((&commonpb.Payload{Data: big}).ProtoReflect()))
			return true
		}
	}
	return false
}

// vobScan walks a message by its descriptor (independent of the proxy's Go-field-name tables), opens event blobs, and counts the
// values found at namespace-name fields (descriptor rule of vscClassify).
func vobScan(m protoreflect.Message, counts map[string]int, depth int) {
	if depth > 40 {
		return
	}
	md := m.Descriptor()
	m.Range(func(fd protoreflect.FieldDescriptor, v protoreflect.Value) bool {
		ns, blob, _ := vscClassify(md, fd)
		switch {
		case ns:
			counts[v.String()]++
		case blob:
			scanBlob := func(b *commonpb.DataBlob) {
				evs, err := serializer.DeserializeEvents(b)
				if err != nil {
					counts["undecodable-blob"]++
					return
				}
				vobScan((&historypb.History{Events: evs}).ProtoReflect(), counts, depth+1)
			}
			if fd.IsList() {
				for i := 0; i < v.List().Len(); i++ {
					scanBlob(v.List().Get(i).Message().Interface().(*commonpb.DataBlob))
				}
			} else {
				scanBlob(v.Message().Interface().(*commonpb.DataBlob))
			}
		case fd.IsList() && fd.Kind() == protoreflect.MessageKind:
			for i := 0; i < v.List().Len(); i++ {
				vobScan(v.List().Get(i).Message(), counts, depth+1)
			}
		case fd.IsMap() && fd.MapValue().Kind() == protoreflect.MessageKind:
			v.Map().Range(func(_ protoreflect.MapKey, mv protoreflect.Value) bool {
				vobScan(mv.Message(), counts, depth+1)
				return true
			})
		case fd.Kind() == protoreflect.MessageKind && !fd.IsList() && !fd.IsMap():
			vobScan(v.Message(), counts, depth+1)
		}
		return true
	})
}

// vobRunPopulate: every namespace leaf of the root type in one message; the record holds the counts of names found at
// namespace fields before and after the real translation.
func vobRunPopulate(ic *TranslationInterceptor, ob vobOblig) map[string]interface{} {
	rec := map[string]interface{}{"ev": "Populate", "id": ob.ID, "type": ob.Root.Type, "service": ob.Root.Service, "dir": ob.Root.Dir, "stream": ob.Root.Stream,
		"paths": len(ob.Paths), "built": false, "err": "", "inLocal": 0, "outLocal": 0, "outRemote": 0, "outOther": 0}
	defer func() {
		if r := recover(); r != nil {
			rec["err"] = fmt.Sprint("panic: ", r)
		}
	}()
	m, err := vobNew(ob.Root.Type)
	if err != nil {
		rec["err"] = "build: " + err.Error()
		return rec
	}
	for _, p := range ob.Paths {
		if err := vobBuild(m, p, "ns-recognised", vobNsLocal); err != nil {
			rec["err"] = "build: " + err.Error()
			return rec
		}
	}
	rec["built"] = true
	in := map[string]int{}
	vobScan(m, in, 0)
	rec["inLocal"] = in[vobNsLocal]
	res, err := vobTranslate(ic, ob.Root, m.Interface())
	if err != nil {
		rec["err"] = "translate: " + err.Error()
		return rec
	}
	out := map[string]int{}
	vobScan(res.ProtoReflect(), out, 0)
	other := 0
	for k, n := range out {
		if k != vobNsLocal && k != vobNsRemote && k != "" {
			other += n
		}
	}
	rec["outLocal"], rec["outRemote"], rec["outOther"] = out[vobNsLocal], out[vobNsRemote], other
	return rec
}

// vobRunACLEmpty pushes an empty request of the obligation's method (no namespace named anywhere) through translation and
// access control; the result is not recorded.
func vobRunACLEmpty(tr *TranslationInterceptor, acl *AccessControlInterceptor, ob vobOblig) error {
	m, err := vobNew(ob.Root.Type)
	if err != nil {
		return err
	}
	svc := "temporal.api.workflowservice.v1.WorkflowService"
	if ob.Root.Service == "admin" {
		svc = "temporal.server.api.adminservice.v1.AdminService"
	}
	info := &grpc.UnaryServerInfo{FullMethod: "/" + svc + "/" + ob.Root.Method}
	_, err = tr.Intercept(context.Background(), m.Interface(), info, func(ctx context.Context, req any) (any, error) {
		return acl.Intercept(ctx, req, info, func(ctx context.Context, req any) (any, error) { return nil, nil })
	})
	return err
}

func TestVerifSchemaObligations(t *testing.T) {
	in := os.Getenv("VERIF_IN")
	if in == "" {
		t.Skip("VERIF_IN not set")
	}
	f, err := os.Open(in)
	if err != nil {
		t.Fatal(err)
	}
	defer f.Close()
	outf, err := os.Create(os.Getenv("VERIF_OUT"))
	if err != nil {
		t.Fatal(err)
	}
	defer outf.Close()
	w := bufio.NewWriterSize(outf, 1<<20)
	defer w.Flush()
	enc := json.NewEncoder(w)
	nsMap := map[string]string{vobNsLocal: vobNsRemote}
	saMap := map[string]map[string]string{"ns-id": {vobSaLocal: vobSaRemote, "sa-same": "sa-same"}}
	ic := NewTranslationInterceptor(log.NewNoopLogger(), []Translator{
		NewNamespaceNameTranslator(log.NewNoopLogger(), nsMap, nsMap),
		NewSearchAttributeTranslator(log.NewNoopLogger(), saMap, saMap),
	})
	// a connection may configure namespace translation without search-attribute translation and vice versa
	icNsOnly := NewTranslationInterceptor(log.NewNoopLogger(), []Translator{NewNamespaceNameTranslator(log.NewNoopLogger(), nsMap, nsMap)})
	icSaOnly := NewTranslationInterceptor(log.NewNoopLogger(), []Translator{NewSearchAttributeTranslator(log.NewNoopLogger(), saMap, saMap)})
	// C13: chained one-to-one mappings (a->b, b->c): every name / key is translated exactly one step
	chainNs := map[string]string{"ns-a": "ns-b", "ns-b": "ns-c"}
	chainSa := map[string]map[string]string{"ns-id": {"sa-a": "sa-b", "sa-b": "sa-c", "sa-same": "sa-same"}}
	icChain := NewTranslationInterceptor(log.NewNoopLogger(), []Translator{
		NewNamespaceNameTranslator(log.NewNoopLogger(), chainNs, chainNs),
		NewSearchAttributeTranslator(log.NewNoopLogger(), chainSa, chainSa),
	})
	// C16: inbound chain = translation (remote names -> local names) then access control (allowed local names)
	aclMap := map[string]string{"ns-remote-ok": "ns-allowed", "ns-remote-bad": "ns-forbidden"}
	aclTr := NewTranslationInterceptor(log.NewNoopLogger(), []Translator{NewNamespaceNameTranslator(log.NewNoopLogger(), aclMap, aclMap)})
	acl := NewAccessControlInterceptor(log.NewNoopLogger(), nil, []string{"ns-allowed"})
	primed := map[string]bool{}
	sc := bufio.NewScanner(f)
	sc.Buffer(make([]byte, 1<<20), 1<<26)
	for sc.Scan() {
		if len(sc.Bytes()) == 0 {
			continue
		}
		var ob vobOblig
		if err := json.Unmarshal(sc.Bytes(), &ob); err != nil {
			t.Fatalf("bad obligation: %v", err)
		}
		if ob.Mode == "populate" {
			_ = enc.Encode(vobRunPopulate(ic, ob))
			continue
		}
		if ob.Mode == "acl" {
			// the access-control interceptor must not remember anything about a method either: the first time a method is seen
			// a request of it that names NO namespace goes through the same interceptors first
			if pk := "acl|" + ob.Root.Service + "|" + ob.Root.Method; !primed[pk] {
				primed[pk] = true
				pm := ob
				pm.Path, pm.Value = nil, ""
				func() {
					defer func() { _ = recover() }()
					_ = vobRunACLEmpty(aclTr, acl, pm)
				}()
			}
			vobTail, vobDirty, vobJSON = ob.Variant == "tail", false, ob.Variant == "json"
			vobDirty2 = ob.Variant == "dirty2"
			_ = enc.Encode(vobRunACL(aclTr, acl, ob))
			vobTail, vobJSON, vobDirty2 = false, false, false
			continue
		}
		useIC := ic
		vobSaKeys = []string{vobSaLocal, vobSaOther, "sa-same"}
		vobTail, vobDirty, vobFill = ob.Variant == "tail", ob.Variant == "dirty" || ob.Variant == "dirtyfirst", ""
		vobJSON, vobRich, vobDirtyFirst, vobEvK = ob.Variant == "json", ob.Variant == "rich", ob.Variant == "dirtyfirst", -2
		if ob.Variant == "evtype" {
			vobEvK = ob.EvK
		}
		// a translator must not remember anything about a message type: the first time a root type is seen in this process an
		// EMPTY message of that type (nothing to translate) goes through the same interceptor first
		pk := fmt.Sprint(ob.Mode, "|", ob.Solo, "|", ob.Root.Type, "|", ob.Root.Dir)
		if !primed[pk] {
			primed[pk] = true
			if em, err := vobNew(ob.Root.Type); err == nil {
				pic := ic
				if ob.Mode == "chain" {
					pic = icChain
				} else if ob.Solo && strings.HasPrefix(ob.Leaf, "ns") {
					pic = icNsOnly
				} else if ob.Solo {
					pic = icSaOnly
				}
				func() {
					defer func() { _ = recover() }()
					_, _ = vobTranslate(pic, ob.Root, em.Interface())
				}()
			}
		}
		if ob.Variant == "fill" {
			vobFill = "ns-unmapped-sibling"
		}
		if ob.Mode == "chain" {
			useIC = icChain
			vobSaKeys = []string{"sa-a", "sa-b", "sa-same"}
		} else if ob.Solo {
			useIC = icSaOnly
			if strings.HasPrefix(ob.Leaf, "ns") {
				useIC = icNsOnly
			}
		}
		rec := map[string]interface{}{"ev": "Oblig", "mode": ob.Mode, "solo": ob.Solo, "variant": ob.Variant, "id": ob.ID, "leaf": ob.Leaf, "service": ob.Root.Service, "dir": ob.Root.Dir,
			"stream": ob.Root.Stream, "type": ob.Root.Type, "path": ob.Path, "reached": ob.Reached, "skipped": ob.Skipped, "inblob": ob.InBlob,
			"in": []string{}, "out": []string{}, "err": "", "rest_equal": false, "built": false}
		if vobDirty {
			for i, p := range ob.Path {
				if p == "@blob" && !vobLegacyHas(ob.Path[i+1:len(ob.Path)-0]) {
					rec["scope"] = "not-in-legacy-schema"
				}
			}
			if rec["scope"] != nil {
				_ = enc.Encode(rec)
				continue
			}
		}
		val := ob.Value
		if val == "" {
			val = vobNsLocal
		}
		func() {
			defer func() {
				if r := recover(); r != nil {
					rec["err"] = fmt.Sprint("panic: ", r)
				}
			}()
			m, err := vobNew(ob.Root.Type)
			if err != nil {
				rec["err"] = "build: " + err.Error()
				return
			}
			vobHits = 0
			if err := vobBuild(m, ob.Path, ob.Leaf, val); err != nil {
				rec["err"] = "build: " + err.Error()
				return
			}
			rec["built"] = true
			if (ob.Variant == "tail" || ob.Variant == "rich" || ob.Variant == "evtype") && vobHits == 0 {
				rec["scope"] = "variant-not-applicable"
				return
			}
			orig := proto.Clone(m.Interface())
			readFrom := m
			if vobDirty {
				// the dirty blob cannot be decoded by the strict codec: what went in is read from a clean twin
				vobDirty = false
				twin, _ := vobNew(ob.Root.Type)
				if err := vobBuild(twin, ob.Path, ob.Leaf, val); err != nil {
					rec["err"] = "build: " + err.Error()
					return
				}
				readFrom = twin
			}
			wasDirty := vobDirty
			if readFrom != m {
				vobDirty = false // the twin holds no event that needs repair
			}
			inVals, err := vobRead(readFrom, ob.Path, ob.Leaf, nil)
			vobDirty = wasDirty || readFrom != m
			if err != nil {
				rec["err"] = "read-in: " + err.Error()
				return
			}
			rec["in"] = inVals
			res, err := vobTranslate(useIC, ob.Root, m.Interface())
			if err != nil {
				rec["err"] = "translate: " + err.Error()
				return
			}
			outVals, err := vobRead(res.ProtoReflect(), ob.Path, ob.Leaf, nil)
			if err != nil {
				rec["err"] = "read-out: " + err.Error()
				return
			}
			rec["out"] = outVals
			// nothing else changed: put the original leaf back and compare with the original message
			if vobDirty {
				// what the repair does to the invalid field is C17/C18's subject; here: the blob decodes again and the leaf is judged
				rec["rest_equal"] = true
			} else if strings.HasPrefix(ob.Leaf, "ns") {
				back := proto.Clone(res)
				if _, err := vobRead(back.ProtoReflect(), ob.Path, ob.Leaf, &val); err == nil {
					o2 := proto.Clone(orig)
					_, _ = vobRead(o2.ProtoReflect(), ob.Path, ob.Leaf, &val) // canonical re-encoding of blobs on both sides
					rec["rest_equal"] = proto.Equal(o2, back)
				}
			} else {
				rec["rest_equal"] = true
			}
		}()
		_ = enc.Encode(rec)
		vobTail, vobDirty, vobFill, vobJSON, vobRich, vobDirtyFirst, vobEvK = false, false, "", false, false, false, -2
	}
}
