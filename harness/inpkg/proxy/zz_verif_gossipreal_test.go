//go:build verif

package proxy

// Real-memberlist probe for C09 (what DESIGN called tier B, in process): shard managers whose memberlist instances talk over
// memberlist's own MockNetwork transport - real Join (push/pull), real reliable sends, real Leave, the delegate callbacks
// invoked by memberlist itself (with memberlist's locks held as in production). One NDJSON record per scenario; judged by
// GossipObs (clause realleave).

import (
	"go.temporal.io/server/client/history"
	"encoding/json"
	"fmt"
	"os"
	"sort"
	"testing"
	"time"

	"github.com/hashicorp/memberlist"
	"go.temporal.io/server/common/log"

	"github.com/temporalio/s2s-proxy/config"
	"github.com/temporalio/s2s-proxy/encryption"
)

type vgrNode struct {
	name string
	sm   *shardManagerImpl
	ml   *memberlist.Memberlist
	addr string
}

// vgrFast: failure detection within tens of milliseconds (the leave scenarios need a departed node to be noticed quickly). The
// claim scenarios run with memberlist's own LAN timing: nobody is declared dead because the machine is busy.
var vgrFast = true

func vgrStart(t *testing.T, net *memberlist.MockNetwork, name string, joinAddrs []string) *vgrNode {
	cfg := &config.MemberlistConfig{NodeName: name, BindAddr: "127.0.0.1", BindPort: 0, ProxyAddresses: map[string]string{}, JoinAddrs: joinAddrs}
	sm := NewShardManager(cfg, config.ShardCountConfig{Mode: config.ShardCountRouting, LocalShardCount: 2, RemoteShardCount: 2},
		encryption.TLSConfig{}, vrtLoggers()).(*shardManagerImpl)
	sm.SetupCallbacks()
	mc := memberlist.DefaultLocalConfig()
	mc.Name = name
	tr := net.NewTransport(name)
	mc.Transport = tr
	mc.Delegate = sm.delegate
	mc.Events = &shardEventDelegate{manager: sm, logger: log.NewNoopLogger()}
	mc.LogOutput = devNull{}
	// fast failure detection so that a departed node is noticed within the probe
	mc.GossipInterval = 20 * time.Millisecond
	mc.PushPullInterval = 0
	if vgrFast {
		mc.ProbeInterval = 50 * time.Millisecond
		mc.ProbeTimeout = 25 * time.Millisecond
		mc.SuspicionMult = 1
		mc.SuspicionMaxTimeoutMult = 1
	}
	mc.DisableTcpPings = true
	ml, err := memberlist.Create(mc)
	if err != nil {
		t.Fatal(err)
	}
	sm.ml = ml
	sm.started = true
	ip, port, _ := tr.FinalAdvertiseAddr("", 0)
	return &vgrNode{name: name, sm: sm, ml: ml, addr: fmt.Sprintf("%s/%s:%d", name, ip.String(), port)}
}

func vgrWithin(d time.Duration, f func()) bool {
	done := make(chan struct{})
	go func() { f(); close(done) }()
	select {
	case <-done:
		return true
	case <-time.After(d):
		return false
	}
}

func vgrPeers(n *vgrNode) []string {
	out := []string{}
	rs, _ := n.sm.GetRemoteShardsForPeer("")
	for p := range rs {
		out = append(out, p)
	}
	sort.Strings(out)
	return out
}

func TestVerifGossipRealLeave(t *testing.T) {
	outp := os.Getenv("VERIF_OUT")
	if outp == "" {
		t.Skip("VERIF_OUT not set")
	}
	f, err := os.Create(outp)
	if err != nil {
		t.Fatal(err)
	}
	defer f.Close()
	enc := json.NewEncoder(f)
	id := 0
	for _, withJoinAddrs := range []bool{false, true} {
		for _, third := range []bool{false, true} {
			id++
			net := &memberlist.MockNetwork{}
			join := []string{}
			if withJoinAddrs {
				join = []string{"127.0.0.1:1"}
			}
			a := vgrStart(t, net, "a", join)
			b := vgrStart(t, net, "b", nil)
			nodes := []*vgrNode{a, b}
			joined := vgrWithin(5*time.Second, func() { _, _ = b.ml.Join([]string{a.addr}) })
			var c *vgrNode
			if third {
				c = vgrStart(t, net, "c", nil)
				nodes = append(nodes, c)
				joined = joined && vgrWithin(5*time.Second, func() { _, _ = c.ml.Join([]string{a.addr}) })
			}
			// both directions of the push/pull have happened when everybody lists everybody
			deadline := time.Now().Add(3 * time.Second)
			for time.Now().Before(deadline) && len(vgrPeers(a)) < len(nodes)-1 {
				time.Sleep(5 * time.Millisecond)
			}
			peersBefore := vgrPeers(a)
			// b leaves for real: memberlist broadcasts the leave, a's memberlist declares it dead and calls NotifyLeave
			left := vgrWithin(5*time.Second, func() { _ = b.ml.Leave(2 * time.Second) })
			_ = vgrWithin(2*time.Second, func() { _ = b.ml.Shutdown() })
			deadline = time.Now().Add(8 * time.Second)
			gone := false
			for time.Now().Before(deadline) {
				if ok := vgrWithin(200*time.Millisecond, func() {}); ok {
					ps := vgrPeers(a)
					gone = true
					for _, p := range ps {
						if p == "b" {
							gone = false
						}
					}
				}
				if gone {
					break
				}
				time.Sleep(10 * time.Millisecond)
			}
			// is a's memberlist still alive? (NumMembers takes the lock memberlist holds while it runs the leave callback)
			responsive := vgrWithin(2*time.Second, func() { _ = a.ml.NumMembers() })
			// can a newcomer still join a?
			d := vgrStart(t, net, "d", nil)
			rejoin := vgrWithin(3*time.Second, func() { _, _ = d.ml.Join([]string{a.addr}) })
			sawD := false
			deadline = time.Now().Add(2 * time.Second)
			for rejoin && time.Now().Before(deadline) && !sawD {
				for _, p := range vgrPeers(a) {
					if p == "d" {
						sawD = true
					}
				}
				time.Sleep(5 * time.Millisecond)
			}
			_ = enc.Encode(map[string]interface{}{"ev": "RealLeave", "id": id, "joinAddrs": withJoinAddrs, "third": third, "joined": joined,
				"peersBefore": peersBefore, "left": left, "forgotten": gone, "responsive": responsive, "rejoin": rejoin && sawD,
				"peersAfter": vgrPeers(a)})
			for _, n := range append(nodes, d) {
				n := n
				_ = vgrWithin(time.Second, func() { _ = n.ml.Shutdown() })
			}
		}
	}
}

// TestVerifGossipRealClaim: the REAL announcement path (broadcastShardChange -> memberlist -> NotifyMsg, nothing delivered by the
// harness): instance a claims a shard, instance b claims the same shard later; within the bound only b - the newest claim - owns
// it. Variants: a's claim was / was not yet part of a full state b merged; a third instance looks on. One record per scenario.
func TestVerifGossipRealClaim(t *testing.T) {
	outp := os.Getenv("VERIF_OUT")
	if outp == "" {
		t.Skip("VERIF_OUT not set")
	}
	f, err := os.Create(outp)
	if err != nil {
		t.Fatal(err)
	}
	defer f.Close()
	enc := json.NewEncoder(f)
	shard := history.ClusterShardID{ClusterID: 2, ShardID: 1}
	id := 0
	vgrFast = false
	defer func() { vgrFast = true }()
	for _, variant := range []string{"claim-after-join", "claim-before-join"} {
		for _, third := range []bool{false, true} {
			id++
			net := &memberlist.MockNetwork{}
			a := vgrStart(t, net, "a", nil)
			b := vgrStart(t, net, "b", nil)
			nodes := []*vgrNode{a, b}
			if variant == "claim-before-join" {
				a.sm.RegisterShard(shard)
			}
			joined := vgrWithin(5*time.Second, func() { _, _ = b.ml.Join([]string{a.addr}) })
			if third {
				c := vgrStart(t, net, "c", nil)
				nodes = append(nodes, c)
				joined = joined && vgrWithin(5*time.Second, func() { _, _ = c.ml.Join([]string{a.addr}) })
			}
			// "instances that know each other": periodic push-pull is off (the scenario controls what has been merged), so every
			// instance exchanges its full state with every other one once
			for _, x := range nodes {
				for _, y := range nodes {
					if x != y {
						x, y := x, y
						joined = joined && vgrWithin(5*time.Second, func() { _, _ = x.ml.Join([]string{y.addr}) })
					}
				}
			}
			known := true
			for _, x := range nodes {
				known = known && len(vgrPeers(x)) == len(nodes)-1
			}
			joined = joined && known
			peersA, peersB := vgrPeers(a), vgrPeers(b)
			if variant == "claim-after-join" {
				a.sm.RegisterShard(shard)
			}
			time.Sleep(150 * time.Millisecond) // a's announcement has gone round (several gossip intervals)
			claimed := vgrWithin(5*time.Second, func() { b.sm.RegisterShard(shard) })
			owners := []string{}
			deadline := time.Now().Add(10 * time.Second)
			for {
				owners = owners[:0]
				for _, n := range nodes {
					n.sm.mutex.RLock()
					_, has := n.sm.localShards[ClusterShardIDtoShortString(shard)]
					n.sm.mutex.RUnlock()
					if has {
						owners = append(owners, n.name)
					}
				}
				if (len(owners) == 1 && owners[0] == "b") || time.Now().After(deadline) {
					break
				}
				time.Sleep(10 * time.Millisecond)
			}
			_ = enc.Encode(map[string]interface{}{"ev": "RealClaim", "id": id, "variant": variant, "third": third, "joined": joined,
				"claimed": claimed, "owners": owners, "peersA": peersA, "peersB": peersB})
			for _, n := range nodes {
				n := n
				_ = vgrWithin(time.Second, func() { _ = n.ml.Shutdown() })
			}
		}
	}
}
