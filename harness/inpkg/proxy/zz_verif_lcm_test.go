//go:build verif

package proxy

// Verification harness for C07 (LcmMap) and the rig shared with C20 (StreamObs).
//
// The rig is a REAL ClusterConnection built by NewClusterConnection (TCP on loopback, both servers started) between
// two fake Temporal clusters ("local" and "remote": grpc servers that answer DescribeCluster with their own shard
// count and record the metadata of every replication stream opened to them).  The harness holds NO oracle: it
// evaluates the real code and writes what it observed as NDJSON; TLC (spec/LcmMap/LcmMapObs.tla) judges every record.
//
// Per (l, r) pair:
//   fn        common.GCD / common.LCM on (l, r) and (r, l)
//   describe  DescribeCluster through both real servers (grpc)
//   stream    one record per (direction, LCM shard id s):
//             path "grpc":   a real stream opened through the real server; the fake cluster reports the metadata it got
//             path "inproc": the real adminServiceProxyServer registered in the real grpc.Server (same lcmParameters,
//                            same observer), copied with only adminClient replaced by a capturing fake; its
//                            StreamWorkflowReplicationMessages is called directly (decode, reportStreamValue,
//                            handleStream LCM branch, StreamForwarder.Run up to the upstream open)
//             plus mapShardIDUnique called directly (recover) and workflow ids hashed by the real
//             servercommon.WorkflowIDToHistoryShard under the LCM and under the serving cluster's own count.

import (
	"bufio"
	"context"
	"encoding/json"
	"errors"
	"fmt"
	"io"
	"math/rand"
	"net"
	"os"
	"reflect"
	"runtime/debug"
	"sort"
	"strconv"
	"strings"
	"sync"
	"testing"
	"time"
	"unsafe"

	"go.temporal.io/server/api/adminservice/v1"
	"go.temporal.io/server/client/history"
	servercommon "go.temporal.io/server/common"
	"go.temporal.io/server/common/log"
	"google.golang.org/grpc"
	"google.golang.org/grpc/credentials/insecure"
	"google.golang.org/grpc/metadata"

	"github.com/temporalio/s2s-proxy/common"
	"github.com/temporalio/s2s-proxy/config"
	"github.com/temporalio/s2s-proxy/logging"
)

const (
	vlReqKey = "verif-req"
	vlRawFVI = 100 // failover version increment the fake clusters answer
)

// ---------------------------------------------------------------- fake Temporal cluster

type vlOpen struct {
	Up  string
	MD  metadata.MD
	Seq int
}

type vlUpstream struct {
	adminservice.UnimplementedAdminServiceServer
	label string
	count int32
	lis   net.Listener
	srv   *grpc.Server

	mu    sync.Mutex
	seq   int
	byReq map[string]vlOpen
	opens chan vlOpen // every stream open, in order (buffered; dropped when full)
}

func vlNewUpstream(label string, count int32) (*vlUpstream, error) {
	lis, err := net.Listen("tcp", "127.0.0.1:0")
	if err != nil {
		return nil, err
	}
	u := &vlUpstream{label: label, count: count, lis: lis, srv: grpc.NewServer(), byReq: map[string]vlOpen{}, opens: make(chan vlOpen, 1024)}
	adminservice.RegisterAdminServiceServer(u.srv, u)
	go func() { _ = u.srv.Serve(lis) }()
	return u, nil
}

func (u *vlUpstream) addr() string { return u.lis.Addr().String() }
func (u *vlUpstream) stop()        { u.srv.Stop() }

func (u *vlUpstream) DescribeCluster(ctx context.Context, _ *adminservice.DescribeClusterRequest) (*adminservice.DescribeClusterResponse, error) {
	return &adminservice.DescribeClusterResponse{ClusterName: u.label, ClusterId: "id-" + u.label, HistoryShardCount: u.count,
		FailoverVersionIncrement: vlRawFVI, InitialFailoverVersion: 1, IsGlobalNamespaceEnabled: true}, nil
}

func (u *vlUpstream) StreamWorkflowReplicationMessages(s adminservice.AdminService_StreamWorkflowReplicationMessagesServer) error {
	md, _ := metadata.FromIncomingContext(s.Context())
	u.mu.Lock()
	u.seq++
	o := vlOpen{Up: u.label, MD: md.Copy(), Seq: u.seq}
	if v := md.Get(vlReqKey); len(v) > 0 {
		u.byReq[v[0]] = o
	}
	u.mu.Unlock()
	select {
	case u.opens <- o:
	default:
	}
	for {
		if _, err := s.Recv(); err != nil {
			return nil
		}
	}
}

func (u *vlUpstream) take(req string) (vlOpen, bool) {
	u.mu.Lock()
	defer u.mu.Unlock()
	o, ok := u.byReq[req]
	delete(u.byReq, req)
	return o, ok
}

// ---------------------------------------------------------------- rig

type vlRig struct {
	upLocal, upRemote *vlUpstream
	cc                *ClusterConnection
	cancel            context.CancelFunc
	conn              map[string]*grpc.ClientConn // "inbound" / "outbound"
	fviLocal          int64                       // configured failoverVersionIncrementTranslation (0 = none)
	fviRemote         int64
}

func vlLoggers() logging.LoggerProvider {
	return logging.NewLoggerProvider(log.NewNoopLogger(), config.NewMockConfigProvider(config.S2SProxyConfig{}))
}

var vlRigSeq struct {
	sync.Mutex
	n int
}

// vlNewRig builds and starts a real ClusterConnection.  localCount/remoteCount are the real shard counts of the fake
// clusters; sc is the proxy's shardCount configuration.
func vlNewRig(sc config.ShardCountConfig, localCount, remoteCount int32) (*vlRig, error) {
	return vlNewRigFVI(sc, localCount, remoteCount, 0, 0)
}

// vlNewRigFVI: as vlNewRig, with a failoverVersionIncrementTranslation (0 = not configured) -- the other response
// translation DescribeCluster applies, which must not interfere with the shard-count override.
func vlNewRigFVI(sc config.ShardCountConfig, localCount, remoteCount int32, fviLocal, fviRemote int64) (*vlRig, error) {
	r := &vlRig{conn: map[string]*grpc.ClientConn{}, fviLocal: fviLocal, fviRemote: fviRemote}
	var err error
	if r.upLocal, err = vlNewUpstream("local", localCount); err != nil {
		return nil, err
	}
	if r.upRemote, err = vlNewUpstream("remote", remoteCount); err != nil {
		return nil, err
	}
	vlRigSeq.Lock()
	vlRigSeq.n++
	name := fmt.Sprintf("verif-rig-%d", vlRigSeq.n)
	vlRigSeq.Unlock()
	cfg := config.ClusterConnConfig{
		Name: name,
		Local: config.ClusterDefinition{ConnectionType: config.ConnTypeTCP,
			TcpServer: config.TCPTLSInfo{ConnectionString: "127.0.0.1:0"},
			TcpClient: config.TCPTLSInfo{ConnectionString: r.upLocal.addr()}},
		Remote: config.ClusterDefinition{ConnectionType: config.ConnTypeTCP,
			TcpServer: config.TCPTLSInfo{ConnectionString: "127.0.0.1:0"},
			TcpClient: config.TCPTLSInfo{ConnectionString: r.upRemote.addr()}},
		ShardCountConfig: sc,
		FVITranslation:   config.IntMapping{Local: fviLocal, Remote: fviRemote},
	}
	var lifetime context.Context
	lifetime, r.cancel = context.WithCancel(context.Background())
	r.cc, err = NewClusterConnection(lifetime, cfg, vlLoggers())
	if err != nil {
		r.cancel()
		return nil, err
	}
	r.cc.Start()
	for dir, srv := range map[string]contextAwareServer{"inbound": r.cc.inboundServer, "outbound": r.cc.outboundServer} {
		s, ok := srv.(*simpleGRPCServer)
		if !ok {
			return nil, fmt.Errorf("%s server is %T", dir, srv)
		}
		c, err := grpc.NewClient(s.listener.Addr().String(), grpc.WithTransportCredentials(insecure.NewCredentials()))
		if err != nil {
			return nil, err
		}
		r.conn[dir] = c
	}
	return r, nil
}

func (r *vlRig) close() {
	for _, c := range r.conn {
		_ = c.Close()
	}
	if r.cancel != nil {
		r.cancel()
	}
	// a wedged handler would make GracefulStop (run by the lifetime hook) wait forever: force the servers down as well
	if r.cc != nil {
		for _, srv := range []contextAwareServer{r.cc.inboundServer, r.cc.outboundServer} {
			if s, ok := srv.(*simpleGRPCServer); ok {
				go s.server.Stop()
			}
		}
	}
	r.upLocal.stop()
	r.upRemote.stop()
}

// vlAdminImpl digs the registered AdminService implementation out of a grpc.Server (unexported fields, read only).
func vlAdminImpl(s *grpc.Server) (impl *adminServiceProxyServer, err error) {
	defer func() {
		if r := recover(); r != nil {
			err = fmt.Errorf("cannot reach the registered admin service: %v", r)
		}
	}()
	v := reflect.ValueOf(s).Elem().FieldByName("services")
	for _, k := range v.MapKeys() {
		if !strings.HasSuffix(k.String(), "adminservice.v1.AdminService") {
			continue
		}
		f := v.MapIndex(k).Elem().FieldByName("serviceImpl")
		x := reflect.NewAt(f.Type(), unsafe.Pointer(f.UnsafeAddr())).Elem().Interface()
		p, ok := x.(*adminServiceProxyServer)
		if !ok {
			return nil, fmt.Errorf("admin service implementation is %T", x)
		}
		return p, nil
	}
	return nil, errors.New("admin service not registered")
}

func (r *vlRig) adminImpl(dir string) (*adminServiceProxyServer, error) {
	srv := r.cc.inboundServer
	if dir == "outbound" {
		srv = r.cc.outboundServer
	}
	return vlAdminImpl(srv.(*simpleGRPCServer).server)
}

// ---------------------------------------------------------------- in-process call with a capturing client

var errVlCaptured = errors.New("verif: upstream open captured")

type vlCapClient struct {
	adminservice.AdminServiceClient // nil: any other method would panic (none is reached by the stream handler)
	md                              metadata.MD
	called                          int
}

func (c *vlCapClient) StreamWorkflowReplicationMessages(ctx context.Context, _ ...grpc.CallOption) (adminservice.AdminService_StreamWorkflowReplicationMessagesClient, error) {
	md, _ := metadata.FromOutgoingContext(ctx)
	c.md = md.Copy()
	c.called++
	return nil, errVlCaptured
}

type vlSrvStream struct {
	grpc.ServerStream
	ctx context.Context
}

func (s *vlSrvStream) Context() context.Context { return s.ctx }
func (s *vlSrvStream) Send(*adminservice.StreamWorkflowReplicationMessagesResponse) error {
	return nil
}
func (s *vlSrvStream) Recv() (*adminservice.StreamWorkflowReplicationMessagesRequest, error) {
	<-s.ctx.Done()
	return nil, io.EOF
}

func vlStreamMD(ccl, csh, scl, ssh string, req string) metadata.MD {
	md := metadata.MD{}
	set := func(k, v string) {
		if v != "\x00absent" {
			md.Set(k, v)
		}
	}
	set(history.MetadataKeyClientClusterID, ccl)
	set(history.MetadataKeyClientShardID, csh)
	set(history.MetadataKeyServerClusterID, scl)
	set(history.MetadataKeyServerShardID, ssh)
	if req != "" {
		md.Set(vlReqKey, req)
	}
	return md
}

// ---------------------------------------------------------------- records

type vlWf struct {
	OL int32 `json:"oL"`
	OC int32 `json:"oC"`
}

type vlRec struct {
	Ev   string `json:"ev"`
	L    int32  `json:"l"`
	R    int32  `json:"r"`
	Dir  string `json:"dir,omitempty"`
	Path string `json:"path,omitempty"`
	// fn
	Gcd, Lcm, GcdR, LcmR int32
	// describe / stream
	Up       string `json:"up"`       // fake cluster that was reached ("local", "remote", "none", "both")
	Raw      int32  `json:"raw"`      // shard count the fake cluster answered
	Reported int32  `json:"reported"` // HistoryShardCount the proxy answered (-1: no answer)
	S        int32  `json:"s"`
	Fail     string `json:"fail"` // "", "panic", "error", "hang", "badmd", "skipped-wedged"
	Detail   string `json:"detail"`
	CCl      int64  `json:"ccl"`
	Client   int64  `json:"client"`
	SCl      int64  `json:"scl"`
	Server   int64  `json:"server"`
	Direct   int32  `json:"direct"` // mapShardIDUnique(common.LCM(l,r), own count of the reached cluster, s); -1 = panic
	Wf       []vlWf `json:"wf"`
	// describe: failover version increment: configured translation, what the fake cluster answered, what the proxy answered
	FviLocal, FviRemote, FviRaw, Fvi int64
	// arrival order: which ordering scenario this open belongs to and its position on that server object
	Order string `json:"order"` // "base" | "highup" | "down" | "random" | "frontier"
	Seq   int    `json:"seq"`
	// length / capacity of the server's stream-counter slice after the open (state that guided the next id; no verdict)
	ObsLen int `json:"obsLen"`
	ObsCap int `json:"obsCap"`
}

func (r vlRec) MarshalJSON() ([]byte, error) {
	m := map[string]interface{}{"ev": r.Ev, "l": r.L, "r": r.R}
	switch r.Ev {
	case "fn":
		m["gcd"], m["lcm"], m["gcdr"], m["lcmr"], m["fail"], m["detail"] = r.Gcd, r.Lcm, r.GcdR, r.LcmR, r.Fail, r.Detail
	case "describe":
		m["dir"], m["up"], m["raw"], m["reported"], m["fail"], m["detail"] = r.Dir, r.Up, r.Raw, r.Reported, r.Fail, r.Detail
		m["fviLocal"], m["fviRemote"], m["fviRaw"], m["fvi"] = r.FviLocal, r.FviRemote, r.FviRaw, r.Fvi
	case "stream":
		wf := r.Wf
		if wf == nil {
			wf = []vlWf{}
		}
		m["dir"], m["path"], m["up"], m["reported"], m["s"], m["fail"], m["detail"] = r.Dir, r.Path, r.Up, r.Reported, r.S, r.Fail, r.Detail
		m["ccl"], m["client"], m["scl"], m["server"], m["direct"], m["wf"] = r.CCl, r.Client, r.SCl, r.Server, r.Direct, wf
		m["cclIn"], m["sclIn"] = vlClientCluster, vlServerCluster
		m["order"], m["seq"], m["obsLen"], m["obsCap"] = r.Order, r.Seq, r.ObsLen, r.ObsCap
	}
	return json.Marshal(m)
}

type vlPair struct {
	L    int32   `json:"l"`
	R    int32   `json:"r"`
	Mode string  `json:"mode"` // "all": every LCM shard id; "sample": boundary + N sampled ids; "boundary": boundary ids only, one at a time
	N    int     `json:"n"`
	Grpc int     `json:"grpc"` // how many of the ids also go through the real grpc path (boundary ids first)
	Ids  []int32 `json:"ids"`  // mode "ids": exactly these shard ids (replay of one record)
	// Arrival-order scenarios (the design's Map is a function of the id alone: whatever was opened before on a server
	// object, every id in 1..LCM must be forwarded).  Each scenario runs on a FRESH ClusterConnection (fresh server
	// objects, fresh observers), in-process path, both directions:
	// Sweep > 0: with lo = 1000 (just below the initial counter slice) and hi = min(LCM, 1024+Sweep)
	//   "highup" a seeded high id first, then every id of lo..hi ascending
	//   "down"   a seeded high id first, then hi..lo descending
	//   "random" a seeded permutation of lo..hi
	// Frontier > 0: that many opens; after each one the next ids are taken from the borders of the counter slice the
	//   server object has NOW (len-1, len, len+1, middle of len..cap, cap-1, cap, cap+1), whatever the growth policy is
	Sweep    int    `json:"sweep"`
	Frontier int    `json:"frontier"`
	Order    string `json:"order"` // replay: only this scenario ("" = all), with Ids as the exact arrival order
	// configuration dimension: failoverVersionIncrementTranslation {local, remote} of the ClusterConnection (0 = none)
	Fvi []int64 `json:"fvi"`
}

const (
	vlClientCluster = 11
	vlServerCluster = 22
	vlNamespace     = "verif-ns-id"
)

func vlAtoi(md metadata.MD, key string) (int64, bool) {
	v := md.Get(key)
	if len(v) != 1 {
		return 0, false
	}
	n, err := strconv.ParseInt(v[0], 10, 64)
	return n, err == nil
}

func vlFill(rec *vlRec, md metadata.MD) {
	var ok [4]bool
	rec.CCl, ok[0] = vlAtoi(md, history.MetadataKeyClientClusterID)
	rec.Client, ok[1] = vlAtoi(md, history.MetadataKeyClientShardID)
	rec.SCl, ok[2] = vlAtoi(md, history.MetadataKeyServerClusterID)
	rec.Server, ok[3] = vlAtoi(md, history.MetadataKeyServerShardID)
	if !(ok[0] && ok[1] && ok[2] && ok[3]) {
		rec.Fail, rec.Detail = "badmd", fmt.Sprint(md)
	}
}

func vlDirectMap(lcm, c, s int32) (out int32) {
	defer func() {
		if r := recover(); r != nil {
			out = -1
		}
	}()
	return mapShardIDUnique(lcm, c, s)
}

func vlFn(l, r int32) (rec vlRec) {
	rec = vlRec{Ev: "fn", L: l, R: r}
	defer func() {
		if p := recover(); p != nil {
			rec.Fail, rec.Detail = "panic", fmt.Sprint(p)
		}
	}()
	rec.Gcd, rec.Lcm, rec.GcdR, rec.LcmR = common.GCD(l, r), common.LCM(l, r), common.GCD(r, l), common.LCM(r, l)
	return
}

// vlIsPanicText recognises the error text log.CapturePanic produces ("panic: ..." or a runtime.Error).
func vlIsPanicText(s string) bool {
	return strings.Contains(s, "panic:") || strings.Contains(s, "runtime error")
}

// vlInproc runs the real stream handler of the real server object with only the upstream client replaced.
func vlInproc(impl *adminServiceProxyServer, csh, s int32, bound time.Duration) (md metadata.MD, fail, detail string) {
	cp := *impl
	capc := &vlCapClient{}
	cp.adminClient = capc
	ctx, cancel := context.WithCancel(metadata.NewIncomingContext(context.Background(),
		vlStreamMD(strconv.Itoa(vlClientCluster), strconv.Itoa(int(csh)), strconv.Itoa(vlServerCluster), strconv.Itoa(int(s)), "x")))
	defer cancel()
	type res struct {
		err error
		pan interface{}
	}
	done := make(chan res, 1)
	go func() {
		var r res
		defer func() {
			r.pan = recover()
			done <- r
		}()
		r.err = cp.StreamWorkflowReplicationMessages(&vlSrvStream{ctx: ctx})
	}()
	select {
	case r := <-done:
		if r.pan != nil {
			return nil, "panic", fmt.Sprint(r.pan)
		}
		if capc.called == 1 && errors.Is(r.err, errVlCaptured) {
			return capc.md, "", ""
		}
		if r.err != nil && vlIsPanicText(r.err.Error()) {
			return nil, "panic", r.err.Error() // log.CapturePanic turned a panic into the returned error
		}
		return nil, "error", fmt.Sprintf("calls=%d err=%v", capc.called, r.err)
	case <-time.After(bound):
		return nil, "hang", "handler did not return"
	}
}

// vlGrpc opens a real stream through the real server and asks both fake clusters what they received.
func (r *vlRig) vlGrpc(dir string, md metadata.MD, req string, bound time.Duration) (open vlOpen, up string, fail, detail string) {
	ctx, cancel := context.WithTimeout(metadata.NewOutgoingContext(context.Background(), md), bound)
	defer cancel()
	cl, err := adminservice.NewAdminServiceClient(r.conn[dir]).StreamWorkflowReplicationMessages(ctx)
	if err != nil {
		return open, "none", "error", err.Error()
	}
	// the stream is served once a fake cluster has seen it; poll both (no assumption about which one)
	got := make(chan error, 1)
	go func() {
		_, err := cl.Recv()
		got <- err
	}()
	deadline := time.Now().Add(bound)
	for {
		ol, okl := r.upLocal.take(req)
		or, okr := r.upRemote.take(req)
		switch {
		case okl && okr:
			up, open = "both", ol
		case okl:
			up, open = "local", ol
		case okr:
			up, open = "remote", or
		}
		if up != "" {
			_ = cl.CloseSend()
			select {
			case err := <-got:
				if err != io.EOF {
					return open, up, "error", "stream ended with " + fmt.Sprint(err)
				}
			case <-time.After(time.Until(deadline)):
				return open, up, "hang", "stream did not end after CloseSend"
			}
			return open, up, "", ""
		}
		select {
		case err := <-got:
			// ended without reaching a cluster
			o1, ok1 := r.upLocal.take(req)
			o2, ok2 := r.upRemote.take(req)
			if ok1 || ok2 {
				// raced: it was seen after all
				if ok1 {
					return o1, "local", "", ""
				}
				return o2, "remote", "", ""
			}
			f := "error"
			if err != nil && vlIsPanicText(err.Error()) {
				f = "panic"
			}
			return open, "none", f, fmt.Sprint(err)
		default:
		}
		if time.Now().After(deadline) {
			return open, "none", "hang", "no result within bound"
		}
		time.Sleep(200 * time.Microsecond)
	}
}

func vlDescribe(rig *vlRig, l, r int32, dir string) vlRec {
	rec := vlRec{Ev: "describe", L: l, R: r, Dir: dir, Up: "none", Reported: -1, FviLocal: rig.fviLocal, FviRemote: rig.fviRemote,
		FviRaw: vlRawFVI, Fvi: -1}
	ctx, cancel := context.WithTimeout(context.Background(), 30*time.Second)
	defer cancel()
	resp, err := adminservice.NewAdminServiceClient(rig.conn[dir]).DescribeCluster(ctx, &adminservice.DescribeClusterRequest{})
	if err != nil {
		rec.Fail, rec.Detail = "error", err.Error()
		return rec
	}
	rec.Reported = resp.GetHistoryShardCount()
	rec.Fvi = resp.GetFailoverVersionIncrement()
	rec.Up = resp.GetClusterName() // the fake cluster names itself
	switch rec.Up {
	case "local":
		rec.Raw = rig.upLocal.count
	case "remote":
		rec.Raw = rig.upRemote.count
	}
	return rec
}

func vlPairRun(p vlPair, seed int64, bound time.Duration) ([]vlRec, error) {
	var out []vlRec
	out = append(out, vlFn(p.L, p.R))
	var fviL, fviR int64
	if len(p.Fvi) == 2 {
		fviL, fviR = p.Fvi[0], p.Fvi[1]
	}
	rig, err := vlNewRigFVI(config.ShardCountConfig{Mode: config.ShardCountLCM, LocalShardCount: p.L, RemoteShardCount: p.R}, p.L, p.R, fviL, fviR)
	if err != nil {
		return nil, err
	}
	defer rig.close()
	rng := rand.New(rand.NewSource(seed ^ (int64(p.L) << 20) ^ int64(p.R)))
	lcm := common.LCM(p.L, p.R) // real code; only used to choose which ids to try and to hash workflow ids
	if lcm <= 0 {
		return nil, fmt.Errorf("common.LCM(%d,%d)=%d", p.L, p.R, lcm)
	}
	// workflow ids bucketed by their owner in the LCM space (real hash function)
	nwf := 4*int(lcm) + 64
	if nwf > 20000 {
		nwf = 20000
	}
	if p.Mode == "boundary" {
		nwf = 64
	}
	type wfid struct {
		id string
		oL int32
	}
	bucket := map[int32][]wfid{}
	var wforder []int32
	for i := 0; i < nwf; i++ {
		id := fmt.Sprintf("wf-%d-%d", rng.Int63(), i)
		o := servercommon.WorkflowIDToHistoryShard(vlNamespace, id, lcm)
		if len(bucket[o]) == 0 {
			wforder = append(wforder, o)
		}
		if len(bucket[o]) < 2 {
			bucket[o] = append(bucket[o], wfid{id, o})
		}
	}
	// one stream open on a server object; the record is appended to out
	type srvState struct {
		rig    *vlRig
		dir    string
		d      vlRec
		impl   *adminServiceProxyServer
		obs    *ReplicationStreamObserver
		wedged bool
		seq    int
	}
	newState := func(rig *vlRig, dir string, emitDescribe bool) (*srvState, error) {
		st := &srvState{rig: rig, dir: dir, d: vlDescribe(rig, p.L, p.R, dir)}
		if emitDescribe {
			out = append(out, st.d)
		}
		var err error
		if st.impl, err = rig.adminImpl(dir); err != nil {
			return nil, err
		}
		st.obs = rig.cc.inboundObserver
		if dir == "outbound" {
			st.obs = rig.cc.outboundObserver
		}
		return st, nil
	}
	// length and capacity of the counter slice, read without the lock (the handler has returned or is wedged)
	obsShape := func(st *srvState) (int, int) {
		if st.obs == nil || !st.obs.streamGrowLock.TryLock() {
			return -1, -1
		}
		defer st.obs.streamGrowLock.Unlock()
		return len(st.obs.streamActive), cap(st.obs.streamActive)
	}
	openOne := func(st *srvState, s int32, order string, viaGrpc bool) {
		// own count of the cluster this server talks to, as that cluster reported it (not derived from the direction)
		own := st.d.Raw
		st.seq++
		rec := vlRec{Ev: "stream", L: p.L, R: p.R, Dir: st.dir, S: s, Reported: st.d.Reported, Up: "none", Server: -1, Client: -1, Direct: -1,
			Order: order, Seq: st.seq, ObsLen: -1, ObsCap: -1}
		if st.wedged {
			rec.Path, rec.Fail = "inproc", "skipped-wedged"
			out = append(out, rec)
			return
		}
		// an id in the hundreds of millions makes the (repaired) observer allocate and clear ~1 GB of counters: seconds under
		// load.  Only "never" is a failure (a leaked lock does not recover), so the bound is generous there.
		bound := bound
		if s > 1<<24 {
			bound = 60 * time.Second
		}
		// the initiator's own shard id: Temporal opens the stream for LCM shard s from its shard c with s = c modulo its own count
		// (the initiating cluster is the remote one on the inbound server, the local one on the outbound server)
		initCount := p.L
		if st.dir == "inbound" {
			initCount = p.R
		}
		csh := int32(1)
		if s >= 1 && initCount >= 1 {
			csh = (s-1)%initCount + 1
		}
		var md metadata.MD
		if viaGrpc {
			rec.Path = "grpc"
			req := fmt.Sprintf("%s-%s-%d-%d", st.dir, order, st.seq, s)
			var o vlOpen
			o, rec.Up, rec.Fail, rec.Detail = st.rig.vlGrpc(st.dir,
				vlStreamMD(strconv.Itoa(vlClientCluster), strconv.Itoa(int(csh)), strconv.Itoa(vlServerCluster), strconv.Itoa(int(s)), req), req, bound)
			md = o.MD
		} else {
			rec.Path = "inproc"
			md, rec.Fail, rec.Detail = vlInproc(st.impl, csh, s, bound)
			rec.Up = st.d.Up // the in-process copy has no upstream: it stands for the cluster DescribeCluster reached
		}
		if rec.Fail == "" {
			vlFill(&rec, md)
		}
		if rec.Fail == "hang" {
			st.wedged = true
		} else {
			rec.ObsLen, rec.ObsCap = obsShape(st)
		}
		if own > 0 {
			rec.Direct = vlDirectMap(lcm, own, s)
			for _, w := range bucket[s] {
				rec.Wf = append(rec.Wf, vlWf{OL: w.oL, OC: servercommon.WorkflowIDToHistoryShard(vlNamespace, w.id, own)})
			}
		}
		if len(rec.Detail) > 200 {
			rec.Detail = rec.Detail[:200]
		}
		out = append(out, rec)
	}
	// ---- base scenario: boundary ids first, then all / sampled ids ascending
	for _, dir := range []string{"inbound", "outbound"} {
		if p.Order != "" && p.Order != "base" {
			break
		}
		st, err := newState(rig, dir, true)
		if err != nil {
			return nil, err
		}
		boundary := []int32{1, lcm}
		for _, c := range []int32{p.L, p.R} {
			boundary = append(boundary, c, c+1, lcm-c+1)
		}
		idset := map[int32]bool{}
		var ids []int32
		add := func(s int32) {
			if s >= 1 && s <= lcm && !idset[s] {
				idset[s] = true
				ids = append(ids, s)
			}
		}
		if p.Mode == "ids" {
			boundary = p.Ids
		}
		for _, s := range boundary {
			add(s)
		}
		nb := len(ids)
		switch p.Mode {
		case "all":
			for s := int32(1); s <= lcm; s++ {
				add(s)
			}
		case "sample":
			for i := 0; i < p.N/2 && i < len(wforder); i++ {
				add(wforder[i])
			}
			for i := 0; i < 4*p.N && len(ids) < nb+p.N; i++ {
				add(int32(rng.Int63n(int64(lcm))) + 1)
			}
		}
		rest := ids[nb:]
		sort.Slice(rest, func(i, j int) bool { return rest[i] < rest[j] })
		for i, s := range ids {
			openOne(st, s, "base", i < p.Grpc)
		}
	}
	// ---- arrival-order scenarios, each on fresh server objects
	scenario := func(order string, seqFor func(dir string, st *srvState) []int32, drive func(st *srvState)) error {
		if p.Order != "" && p.Order != order {
			return nil
		}
		r2, err := vlNewRigFVI(config.ShardCountConfig{Mode: config.ShardCountLCM, LocalShardCount: p.L, RemoteShardCount: p.R}, p.L, p.R, fviL, fviR)
		if err != nil {
			return err
		}
		defer r2.close()
		for _, dir := range []string{"inbound", "outbound"} {
			st, err := newState(r2, dir, false)
			if err != nil {
				return err
			}
			if drive != nil {
				drive(st)
				continue
			}
			for _, s := range seqFor(dir, st) {
				if s >= 1 && s <= lcm {
					openOne(st, s, order, false)
				}
			}
		}
		return nil
	}
	if p.Order != "" && p.Order != "base" && len(p.Ids) > 0 {
		// replay of one scenario: exactly the recorded arrival order
		if err := scenario(p.Order, func(string, *srvState) []int32 { return p.Ids }, nil); err != nil {
			return nil, err
		}
		return out, nil
	}
	if p.Sweep > 0 && lcm > 1024 {
		lo, hi := int32(1000), int32(1024+p.Sweep)
		if hi > lcm {
			hi = lcm
		}
		// a high first id whose growth (whatever the policy) is likely to end inside lo..hi: upper part of lo..hi*8/9
		high := func() int32 {
			top := int64(hi) * 8 / 9
			if top <= 1100 {
				return hi
			}
			return int32(1024 + (top-1024)/2 + rng.Int63n((top-1024)/2+1))
		}
		if err := scenario("highup", func(string, *srvState) []int32 {
			ids := []int32{high()}
			for s := lo; s <= hi; s++ {
				ids = append(ids, s)
			}
			return ids
		}, nil); err != nil {
			return nil, err
		}
		if err := scenario("down", func(string, *srvState) []int32 {
			ids := []int32{high()}
			for s := hi; s >= lo; s-- {
				ids = append(ids, s)
			}
			return ids
		}, nil); err != nil {
			return nil, err
		}
		if err := scenario("random", func(string, *srvState) []int32 {
			ids := make([]int32, 0, hi-lo+1)
			for s := lo; s <= hi; s++ {
				ids = append(ids, s)
			}
			rng.Shuffle(len(ids), func(i, j int) { ids[i], ids[j] = ids[j], ids[i] })
			return ids
		}, nil); err != nil {
			return nil, err
		}
	}
	if p.Frontier > 0 && lcm > 1024 {
		if err := scenario("frontier", nil, func(st *srvState) {
			done := map[int32]bool{}
			var queue []int32
			push := func(v int64) {
				if v >= 1 && v <= int64(lcm) && !done[int32(v)] {
					done[int32(v)] = true
					queue = append(queue, int32(v))
				}
			}
			// start: a seeded id above the initial slice, not so high that its growth leaves the id space at once
			top := int64(lcm) * 8 / 9
			if top < 1100 {
				top = int64(lcm)
			}
			push(1024 + rng.Int63n(top-1024+1))
			for n := 0; n < p.Frontier && len(queue) > 0; n++ {
				s := queue[0]
				queue = queue[1:]
				openOne(st, s, "frontier", false)
				ln, cp := obsShape(st)
				if ln < 0 {
					continue
				}
				// the borders of the slice as it is now; beyond cap the next growth starts
				for _, v := range []int64{int64(ln), int64(ln) - 1, int64(cp) - 1, (int64(ln) + int64(cp)) / 2, int64(ln) + 1, int64(cp), int64(cp) + 1} {
					push(v)
				}
				if len(queue) == 0 { // the id space is exhausted above: continue somewhere else
					push(1 + rng.Int63n(int64(lcm)))
				}
			}
		}); err != nil {
			return nil, err
		}
	}
	return out, nil
}

// TestVerifLcm: VERIF_IN = NDJSON of vlPair, VERIF_OUT = NDJSON records.
func TestVerifLcm(t *testing.T) {
	in, outp := os.Getenv("VERIF_IN"), os.Getenv("VERIF_OUT")
	if in == "" || outp == "" {
		t.Skip("VERIF_IN / VERIF_OUT not set")
	}
	seed, _ := strconv.ParseInt(os.Getenv("VERIF_BASE_SEED"), 10, 64)
	f, err := os.Open(in)
	if err != nil {
		t.Fatal(err)
	}
	defer f.Close()
	var pairs []vlPair
	sc := bufio.NewScanner(f)
	for sc.Scan() {
		var p vlPair
		if err := json.Unmarshal(sc.Bytes(), &p); err != nil {
			t.Fatal(err)
		}
		pairs = append(pairs, p)
	}
	// "does not answer" means never (a leaked lock, a lost wake-up): the bound only has to outlast scheduling delays of a
	// heavily oversubscribed machine (3 s was exceeded at load average 60 on 16 cores); it costs time only on a wedged tree
	bound := 20 * time.Second
	results := make([][]vlRec, len(pairs))
	errs := make([]error, len(pairs))
	par := 4
	if v, _ := strconv.Atoi(os.Getenv("VERIF_PAR")); v > 0 {
		par = v
	}
	sem := make(chan struct{}, par)
	var wg sync.WaitGroup
	for i, p := range pairs {
		wg.Add(1)
		sem <- struct{}{}
		go func(i int, p vlPair) {
			defer func() { <-sem; wg.Done() }()
			results[i], errs[i] = vlPairRun(p, seed, bound)
			if int64(p.L)*int64(p.R) > 1<<24 {
				debug.FreeOSMemory()
			}
		}(i, p)
	}
	wg.Wait()
	of, err := os.Create(outp)
	if err != nil {
		t.Fatal(err)
	}
	w := bufio.NewWriterSize(of, 1<<20)
	enc := json.NewEncoder(w)
	for i := range pairs {
		if errs[i] != nil {
			t.Fatalf("rig for pair %v: %v", pairs[i], errs[i]) // not a verdict: the harness could not run
		}
		for _, r := range results[i] {
			if err := enc.Encode(r); err != nil {
				t.Fatal(err)
			}
		}
	}
	if err := w.Flush(); err != nil {
		t.Fatal(err)
	}
	_ = of.Close()
}
