//go:build verif

package proxy

// C19 harness, transports "mux" and "tcp" (injected with `go test -overlay`, never committed to /repo).  The common
// part (certificate factory, raw peers, runner, record format) is harness/inpkg/encryption/zz_verif_tlscommon_test.go,
// injected into this package by lib/p_tls.py with the package clause rewritten.
//
//	mux/server  mux.NewMuxReceiverProvider    raw peer: crypto/tls client + yamux client, byte over one yamux stream
//	mux/client  mux.NewMuxEstablisherProvider raw peer: crypto/tls server + yamux server
//	tcp/server  makeServerOptions -> grpc.Server  raw peer: grpc client over credentials.NewTLS(raw tls.Config);
//	            the "application byte each way" is one unary grpc.health.v1.Health/Check
//	tcp/client  buildTLSTCPClient            raw peer: grpc.Server over credentials.NewTLS(raw tls.Config)
//
// No oracle here: both ends only record what they saw.

import (
	"context"
	"crypto/tls"
	"fmt"
	"io"
	"net"
	"sync/atomic"
	"time"

	"github.com/hashicorp/yamux"
	"go.temporal.io/server/common/log"
	"go.temporal.io/server/common/log/tag"
	"google.golang.org/grpc"
	"google.golang.org/grpc/backoff"
	"google.golang.org/grpc/credentials"
	"google.golang.org/grpc/credentials/insecure"
	healthpb "google.golang.org/grpc/health/grpc_health_v1"
	"google.golang.org/grpc/stats"

	"github.com/temporalio/s2s-proxy/collect"
	"github.com/temporalio/s2s-proxy/config"
	"github.com/temporalio/s2s-proxy/encryption"
	"github.com/temporalio/s2s-proxy/logging"
	"github.com/temporalio/s2s-proxy/transport/mux"
)

func init() {
	vtTransports["mux/server"] = vtMuxServer
	vtTransports["mux/client"] = vtMuxClient
	vtTransports["tcp/server"] = vtTCPServer
	vtTransports["tcp/client"] = vtTCPClient
}

var vtLabels = []string{"verif", "verif", "verif"} // addr, mode, config_name

func vtTLSConfigOf(f vtFiles) encryption.TLSConfig {
	return encryption.TLSConfig{CertificatePath: f.Cert, KeyPath: f.Key, RemoteCAPath: f.CA, CAServerName: f.Name,
		SkipCAVerification: f.Skip}
}

func vtYamuxCfg() *yamux.Config {
	cfg := yamux.DefaultConfig()
	cfg.LogOutput = io.Discard
	return cfg
}

type vtAdded struct {
	s    *yamux.Session
	conn net.Conn
}

// vtProxyMuxEnd waits for the provider to hand over a session (AddNewMux) and then runs the proxy's side of the byte
// exchange on it.  stop is closed by the caller only after the provider has terminated, so "no session was added" is
// a definite observation, not a timeout.  The session is kept until release is closed (the other end has read the
// answer: closing a yamux session races with the delivery of its last data frame).
func vtProxyMuxEnd(addedCh <-chan vtAdded, stop, release <-chan struct{}, open bool, done chan<- vtEnd) {
	var a vtAdded
	select {
	case a = <-addedCh:
	case <-stop:
		select {
		case a = <-addedCh:
		default:
			done <- vtEnd{}
			return
		}
	}
	e := vtEnd{Hs: true} // the session exists: handshake and yamux ping succeeded at the proxy's end
	var st *yamux.Stream // typed: a failed OpenStream / AcceptStream returns a nil *Stream
	var err error
	if open {
		st, err = a.s.OpenStream()
	} else {
		st, err = a.s.AcceptStream()
	}
	if err == nil {
		if open {
			e.Byte, err = vtInitiate(st)
		} else {
			e.Byte, err = vtAnswer(st)
		}
	}
	e.Err, e.timedOut = vtErrStr(err), vtIsTimeout(err)
	done <- e
	<-release
	if st != nil {
		_ = st.Close()
	}
	_ = a.s.Close()
	_ = a.conn.Close()
}

// vtStopProvider ends the provider's lifetime and waits until its loop has terminated.
func vtStopProvider(cancel context.CancelFunc, prov mux.MuxProvider, r *vtRec) {
	cancel()
	done := make(chan struct{})
	go func() { prov.WaitForClose(); close(done) }()
	if _, ok := vtWait(done); !ok {
		r.Note = "timeout: mux provider did not terminate"
	}
}

// vtPeerMuxEnd is the raw peer's side of a mux connection: crypto/tls handshake, yamux session, byte exchange on one
// stream (initiate = client role of the raw peer).  Like the proxy's end it reports first and closes on release.
// A plaintext peer passes the bare TCP connection and handshake = nil: raw yamux, no TLS at all.
func vtPeerMuxEnd(tconn net.Conn, handshake func() error, initiate bool, sent func() bool, release <-chan struct{},
	done chan<- vtEnd) {
	var e vtEnd
	var sess *yamux.Session
	var st *yamux.Stream // typed: a failed OpenStream / AcceptStream returns a nil *Stream
	var err error
	if handshake != nil {
		_ = tconn.SetDeadline(time.Now().Add(vtIOTimeout))
		err = handshake()
		e.Hs = err == nil
	}
	if err == nil {
		_ = tconn.SetDeadline(time.Time{})
		if initiate {
			if sess, err = yamux.Client(tconn, vtYamuxCfg()); err == nil {
				if st, err = sess.OpenStream(); err == nil {
					e.Byte, err = vtInitiate(st)
				}
			}
		} else {
			if sess, err = yamux.Server(tconn, vtYamuxCfg()); err == nil {
				if st, err = sess.AcceptStream(); err == nil {
					e.Byte, err = vtAnswer(st)
				}
			}
		}
	}
	e.Err, e.timedOut, e.Sent = vtErrStr(err), vtIsTimeout(err), sent()
	done <- e
	<-release
	if st != nil {
		_ = st.Close()
	}
	if sess != nil {
		_ = sess.Close()
	}
	_ = tconn.Close()
}

// vtJoinMux collects both ends.  Every end reports its observation and then keeps its session open until release:
// closing a yamux session races with the completion of the other side's last Read / Write.  If the first end to
// report exchanged the byte, the other end has all it needs to finish by itself; if it did not, its resources are
// released at once (that unblocks the other end with an error), the provider is terminated, and only then "no
// session was added" is read off (stop).
func vtJoinMux(r *vtRec, proxyDone, peerDone <-chan vtEnd, release, stop chan struct{}, cancel context.CancelFunc,
	prov mux.MuxProvider) {
	gotProxy, gotPeer := false, false
	select {
	case r.Proxy = <-proxyDone:
		gotProxy = true
	case r.Peer = <-peerDone:
		gotPeer = true
	case <-time.After(vtIOTimeout):
		r.Note = "timeout: neither end of the mux finished"
	}
	rest := func() {
		var ok bool
		if !gotProxy {
			if r.Proxy, ok = vtWait(proxyDone); !ok {
				r.Note = "timeout: proxy end of the mux did not finish"
			}
		}
		if !gotPeer {
			if r.Peer, ok = vtWait(peerDone); !ok {
				r.Note = "timeout: raw peer end of the mux did not finish"
			}
		}
	}
	if (gotProxy && r.Proxy.Byte) || (gotPeer && r.Peer.Byte) {
		rest()
		close(release)
		vtStopProvider(cancel, prov, r)
		close(stop)
		return
	}
	close(release)
	vtStopProvider(cancel, prov, r)
	close(stop)
	if r.Note == "" {
		rest()
	}
}

// ---- role server over mux: transport/mux/receiver.go
func vtMuxServer(p *vtPKI, c vtCase, r *vtRec) {
	f, afterStart := p.caseFiles(c)
	defer afterStart()
	tc := vtTLSConfigOf(f)
	if !tc.IsEnabled() { // NewMuxReceiverProvider would listen in plaintext
		r.Startup = "disabled"
		return
	}
	ctx, cancel := context.WithCancel(context.Background())
	defer cancel()
	addedCh := make(chan vtAdded, 16)
	prov, err := mux.NewMuxReceiverProvider(ctx, fmt.Sprintf("verif-%d", c.ID),
		func(s *yamux.Session, conn net.Conn) { addedCh <- vtAdded{s, conn} }, 1,
		config.TCPTLSInfo{ConnectionString: "127.0.0.1:0", TLSConfig: tc}, vtLabels, log.NewNoopLogger())
	if err != nil {
		r.Startup, r.StartupErr = "reject", err.Error()
		return
	}
	r.Startup = "ready"
	afterStart() // the listener is up; the peer has not dialled yet
	prov.Start()
	stop, release := make(chan struct{}), make(chan struct{})
	proxyDone, peerDone := make(chan vtEnd, 1), make(chan vtEnd, 1)
	go vtProxyMuxEnd(addedCh, stop, release, false, proxyDone)
	conn, err := net.Dial("tcp", prov.Address())
	if err != nil {
		r.Note = "dial: " + err.Error()
		peerDone <- vtEnd{Err: err.Error()}
	} else if c.Cred.Class == vtPlaintext {
		go vtPeerMuxEnd(conn, nil, true, func() bool { return false }, release, peerDone)
	} else {
		pc, sent := p.peerClient(c.Cred)
		tconn := tls.Client(conn, pc)
		go vtPeerMuxEnd(tconn, tconn.Handshake, true, sent.Load, release, peerDone)
	}
	vtJoinMux(r, proxyDone, peerDone, release, stop, cancel, prov)
}

// ---- role client over mux: transport/mux/establisher.go
func vtMuxClient(p *vtPKI, c vtCase, r *vtRec) {
	f, afterStart := p.caseFiles(c)
	defer afterStart()
	tc := vtTLSConfigOf(f)
	if !tc.IsEnabled() { // NewMuxEstablisherProvider would dial in plaintext
		r.Startup = "disabled"
		return
	}
	ln, err := net.Listen("tcp", "127.0.0.1:0")
	if err != nil {
		r.Note = "listen: " + err.Error()
		return
	}
	defer ln.Close()
	ctx, cancel := context.WithCancel(context.Background())
	defer cancel()
	addedCh := make(chan vtAdded, 16)
	prov, err := mux.NewMuxEstablisherProvider(ctx, fmt.Sprintf("verif-%d", c.ID),
		func(s *yamux.Session, conn net.Conn) { addedCh <- vtAdded{s, conn} }, 1,
		config.TCPTLSInfo{ConnectionString: ln.Addr().String(), TLSConfig: tc}, vtLabels, log.NewNoopLogger())
	if err != nil {
		r.Startup, r.StartupErr = "reject", err.Error()
		return
	}
	r.Startup = "ready"
	afterStart() // the provider is built; it has not dialled yet
	stop, release := make(chan struct{}), make(chan struct{})
	proxyDone, peerDone := make(chan vtEnd, 1), make(chan vtEnd, 1)
	// the raw peer: the FIRST connection is the case; the establisher redials at once after a refused attempt, later
	// connections (same configuration, same credential, same outcome) are closed unanswered
	go func() {
		first := true
		for {
			conn, err := ln.Accept()
			if err != nil {
				return
			}
			if !first {
				_ = conn.Close()
				continue
			}
			first = false
			if c.Cred.Class == vtPlaintext {
				go vtPeerMuxEnd(conn, nil, false, func() bool { return false }, release, peerDone)
				continue
			}
			tconn := tls.Server(conn, p.peerServer(c.Cred))
			go vtPeerMuxEnd(tconn, tconn.Handshake, false, func() bool { return c.Cred.Class != "none" }, release, peerDone)
		}
	}()
	prov.Start()
	go vtProxyMuxEnd(addedCh, stop, release, true, proxyDone)
	vtJoinMux(r, proxyDone, peerDone, release, stop, cancel, prov)
}

// ---- gRPC plumbing shared by the two TCP transports

type vtLoggers struct{}

func (vtLoggers) Get(logging.LogComponentName) log.Logger  { return log.NewNoopLogger() }
func (l vtLoggers) With(...tag.Tag) logging.LoggerProvider { return l }

// vtCreds wraps the raw peer's transport credentials to see its handshake results.
type vtCreds struct {
	credentials.TransportCredentials
	ok, failed *atomic.Int32
}

func vtNewCreds(c *tls.Config) *vtCreds {
	return &vtCreds{credentials.NewTLS(c), new(atomic.Int32), new(atomic.Int32)}
}
func (c *vtCreds) count(err error) {
	if err == nil {
		c.ok.Add(1)
	} else {
		c.failed.Add(1)
	}
}
func (c *vtCreds) ClientHandshake(ctx context.Context, a string, conn net.Conn) (net.Conn, credentials.AuthInfo, error) {
	nc, ai, err := c.TransportCredentials.ClientHandshake(ctx, a, conn)
	c.count(err)
	return nc, ai, err
}
func (c *vtCreds) ServerHandshake(conn net.Conn) (net.Conn, credentials.AuthInfo, error) {
	nc, ai, err := c.TransportCredentials.ServerHandshake(conn)
	c.count(err)
	return nc, ai, err
}
func (c *vtCreds) Clone() credentials.TransportCredentials {
	return &vtCreds{c.TransportCredentials.Clone(), c.ok, c.failed}
}

type vtHealth struct {
	healthpb.UnimplementedHealthServer
	calls atomic.Int32
}

func (h *vtHealth) Check(context.Context, *healthpb.HealthCheckRequest) (*healthpb.HealthCheckResponse, error) {
	h.calls.Add(1)
	return &healthpb.HealthCheckResponse{Status: healthpb.HealthCheckResponse_SERVING}, nil
}

// vtConnStats sees connections that got past the server's transport handshake.
type vtConnStats struct{ begun atomic.Int32 }

func (s *vtConnStats) TagRPC(ctx context.Context, _ *stats.RPCTagInfo) context.Context   { return ctx }
func (s *vtConnStats) HandleRPC(context.Context, stats.RPCStats)                         {}
func (s *vtConnStats) TagConn(ctx context.Context, _ *stats.ConnTagInfo) context.Context { return ctx }
func (s *vtConnStats) HandleConn(_ context.Context, cs stats.ConnStats) {
	if _, ok := cs.(*stats.ConnBegin); ok {
		s.begun.Add(1)
	}
}

// ---- role server over TCP: proxy/cluster_connection.go:makeServerOptions (the options createTCPServer's grpc.Server gets)
func vtTCPServer(p *vtPKI, c vtCase, r *vtRec) {
	f, afterStart := p.caseFiles(c)
	defer afterStart()
	tc := vtTLSConfigOf(f)
	if !tc.IsEnabled() { // makeServerOptions would return options without transport credentials
		r.Startup = "disabled"
		return
	}
	ns, err := collect.NewStaticBiMap(func(func(string, string) bool) {}, 0)
	if err != nil {
		r.Note = "bimap: " + err.Error()
		return
	}
	opts, err := makeServerOptions(serverConfiguration{name: "verif", directionLabel: "inbound", nsTranslations: ns,
		loggers: vtLoggers{}}, tc)
	if err != nil {
		r.Startup, r.StartupErr = "reject", err.Error()
		return
	}
	r.Startup = "ready"
	cs, hs := &vtConnStats{}, &vtHealth{}
	srv := grpc.NewServer(append(opts, grpc.StatsHandler(cs))...)
	healthpb.RegisterHealthServer(srv, hs)
	ln, err := net.Listen("tcp", "127.0.0.1:0")
	if err != nil {
		r.Note = "listen: " + err.Error()
		return
	}
	go func() { _ = srv.Serve(ln) }()
	afterStart() // the server is serving; the peer has not dialled yet
	var creds *vtCreds
	sent := new(atomic.Bool)
	if c.Cred.Class == vtPlaintext { // a plaintext gRPC dial
		creds = &vtCreds{insecure.NewCredentials(), new(atomic.Int32), new(atomic.Int32)}
	} else {
		var pc *tls.Config
		pc, sent = p.peerClient(c.Cred)
		creds = vtNewCreds(pc)
	}
	cc, err := grpc.NewClient(ln.Addr().String(), grpc.WithTransportCredentials(creds), grpc.WithDisableRetry(),
		grpc.WithConnectParams(grpc.ConnectParams{Backoff: backoff.Config{BaseDelay: 10 * time.Millisecond, Multiplier: 1.2,
			MaxDelay: 50 * time.Millisecond}, MinConnectTimeout: vtIOTimeout}))
	if err != nil {
		r.Note = "grpc.NewClient: " + err.Error()
		srv.Stop()
		return
	}
	rctx, rcancel := context.WithTimeout(context.Background(), vtIOTimeout)
	_, err = healthpb.NewHealthClient(cc).Check(rctx, &healthpb.HealthCheckRequest{})
	timedOut := rctx.Err() != nil
	rcancel()
	r.Peer = vtEnd{Hs: creds.ok.Load() > 0 && c.Cred.Class != vtPlaintext, Byte: err == nil, Err: vtErrStr(err),
		Sent: sent.Load(), timedOut: timedOut}
	_ = cc.Close()
	srv.Stop()
	r.Proxy = vtEnd{Hs: cs.begun.Load() > 0, Byte: hs.calls.Load() > 0}
}

// ---- role client over TCP: proxy/cluster_connection.go:buildTLSTCPClient
func vtTCPClient(p *vtPKI, c vtCase, r *vtRec) {
	f, afterStart := p.caseFiles(c)
	defer afterStart()
	tc := vtTLSConfigOf(f)
	if !tc.IsEnabled() { // buildTLSTCPClient would dial with insecure credentials
		r.Startup = "disabled"
		return
	}
	ctx, cancel := context.WithCancel(context.Background())
	defer cancel()
	ln, err := net.Listen("tcp", "127.0.0.1:0")
	if err != nil {
		r.Note = "listen: " + err.Error()
		return
	}
	defer ln.Close()
	cc, err := buildTLSTCPClient(ctx, ln.Addr().String(), tc, "inbound")
	if err != nil {
		r.Startup, r.StartupErr = "reject", err.Error()
		return
	}
	r.Startup = "ready"
	afterStart() // the client is built; it connects with the first call
	hs := &vtHealth{}
	creds := &vtCreds{insecure.NewCredentials(), new(atomic.Int32), new(atomic.Int32)} // plaintext gRPC server
	if c.Cred.Class != vtPlaintext {
		creds = vtNewCreds(p.peerServer(c.Cred))
	}
	srv := grpc.NewServer(grpc.Creds(creds))
	healthpb.RegisterHealthServer(srv, hs)
	go func() { _ = srv.Serve(ln) }()
	rctx, rcancel := context.WithTimeout(context.Background(), vtIOTimeout)
	err = cc.Invoke(rctx, "/grpc.health.v1.Health/Check", &healthpb.HealthCheckRequest{}, &healthpb.HealthCheckResponse{})
	timedOut := rctx.Err() != nil
	rcancel()
	// the gRPC client does not expose its handshake separately: hs = the call went through
	r.Proxy = vtEnd{Hs: err == nil, Byte: err == nil, Err: vtErrStr(err), timedOut: timedOut}
	_ = cc.Close()
	srv.Stop()
	r.Peer = vtEnd{Hs: creds.ok.Load() > 0 && c.Cred.Class != vtPlaintext, Byte: hs.calls.Load() > 0,
		Sent: c.Cred.Class != "none" && c.Cred.Class != vtPlaintext}
}
