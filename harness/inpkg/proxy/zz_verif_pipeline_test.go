//go:build verif

package proxy

// Verification harness for C15 / C16 / C13 (Pipeline): every case TLC enumerates (spec/Pipeline) is ONE real RPC against a
// real ClusterConnection (TCP transport) whose local and remote clusters are generic fakes: a grpc.Server with only an
// UnknownServiceHandler that decodes the request into the method's real input type, records it, and answers with the
// real output type, echoing the namespace it saw where the response has a place for it. No oracle here.

import (
	"bufio"
	"context"
	"encoding/json"
	"fmt"
	"net"
	"os"
	"sort"
	"strings"
	"sync"
	"testing"
	"time"

	commonpb "go.temporal.io/api/common/v1"
	"go.temporal.io/api/enums/v1"
	historypb "go.temporal.io/api/history/v1"
	namespacepb "go.temporal.io/api/namespace/v1"
	"go.temporal.io/api/workflowservice/v1"
	"go.temporal.io/server/api/adminservice/v1"
	"go.temporal.io/server/client/history"
	"go.temporal.io/server/common/persistence/serialization"
	"google.golang.org/grpc"
	"google.golang.org/grpc/credentials/insecure"
	"google.golang.org/grpc/metadata"
	"google.golang.org/grpc/status"
	"google.golang.org/protobuf/proto"
	"google.golang.org/protobuf/reflect/protoreflect"
	"google.golang.org/protobuf/reflect/protoregistry"

	"github.com/temporalio/s2s-proxy/common"
	"github.com/temporalio/s2s-proxy/config"
)

const (
	vplWorkflowService = "temporal.api.workflowservice.v1.WorkflowService"
	vplAdminService    = "temporal.server.api.adminservice.v1.AdminService"
)

func vplService(short string) protoreflect.ServiceDescriptor {
	full := vplWorkflowService
	if short == "admin" {
		full = vplAdminService
	}
	d, err := protoregistry.GlobalFiles.FindDescriptorByName(protoreflect.FullName(full))
	if err != nil {
		panic(err)
	}
	return d.(protoreflect.ServiceDescriptor)
}

func vplHasNs(md protoreflect.MessageDescriptor) bool {
	fd := md.Fields().ByName("namespace")
	return fd != nil && fd.Kind() == protoreflect.StringKind && !fd.IsList()
}

// where a response can echo a namespace name: top-level `namespace`, or namespace_info.name
func vplSetRespNs(m protoreflect.Message, name string) bool {
	md := m.Descriptor()
	if vplHasNs(md) {
		m.Set(md.Fields().ByName("namespace"), protoreflect.ValueOfString(name))
		return true
	}
	if fd := md.Fields().ByName("namespace_info"); fd != nil && fd.Kind() == protoreflect.MessageKind && !fd.IsList() {
		sub := m.Mutable(fd).Message()
		if nf := sub.Descriptor().Fields().ByName("name"); nf != nil && nf.Kind() == protoreflect.StringKind {
			sub.Set(nf, protoreflect.ValueOfString(name))
			return true
		}
	}
	return false
}
func vplGetRespNs(m protoreflect.Message) (string, bool) {
	md := m.Descriptor()
	if vplHasNs(md) {
		return m.Get(md.Fields().ByName("namespace")).String(), true
	}
	if fd := md.Fields().ByName("namespace_info"); fd != nil && fd.Kind() == protoreflect.MessageKind && !fd.IsList() && m.Has(fd) {
		sub := m.Get(fd).Message()
		if nf := sub.Descriptor().Fields().ByName("name"); nf != nil && nf.Kind() == protoreflect.StringKind {
			return sub.Get(nf).String(), true
		}
	}
	return "", false
}

func TestVerifMethodsExport(t *testing.T) {
	out := os.Getenv("VERIF_OUT")
	if out == "" {
		t.Skip("VERIF_OUT not set")
	}
	var b strings.Builder
	b.WriteString("---- MODULE MethodsGen ----\n\\* GENERATED at check time from the service descriptors linked into the proxy.\n")
	set := func(name string, xs []string) {
		sort.Strings(xs)
		q := []string{}
		for _, x := range xs {
			q = append(q, `"`+x+`"`)
		}
		fmt.Fprintf(&b, "%s == {%s}\n", name, strings.Join(q, ", "))
	}
	for _, svc := range []string{"admin", "workflow"} {
		sd := vplService(svc)
		var all, streams, ns []string
		for i := 0; i < sd.Methods().Len(); i++ {
			m := sd.Methods().Get(i)
			all = append(all, string(m.Name()))
			if m.IsStreamingClient() || m.IsStreamingServer() {
				streams = append(streams, string(m.Name()))
			}
			if vplHasNs(m.Input()) {
				ns = append(ns, string(m.Name()))
			}
		}
		if svc == "admin" {
			set("AdminMethods", all)
			set("AdminStreamMethods", streams)
			set("AdminNsRequests", ns)
		} else {
			set("WorkflowMethods", all)
			set("WorkflowNsRequests", ns)
		}
	}
	b.WriteString("====\n")
	if err := os.WriteFile(out, []byte(b.String()), 0o644); err != nil {
		t.Fatal(err)
	}
}

// ---- generic fake cluster
type vplCall struct {
	Method string
	Ns     string
	HasNs  bool
	SaKeys []string // search-attribute keys in the request's history batches
}
type vplFake struct {
	mu    sync.Mutex
	calls []vplCall
	srv   *grpc.Server
	addr  string
	list  []string // names this cluster puts into its next ListNamespaces response (nil: an empty response)
	saOwn string   // this cluster's own name of the mapped search attribute ("" = do not put search attributes into responses)
}

var vplSerializer = serialization.NewSerializer()

// a history batch holding one UpsertWorkflowSearchAttributes event with the given keys
func vplSaBlob(keys []string) *commonpb.DataBlob {
	f := map[string]*commonpb.Payload{}
	for _, k := range keys {
		f[k] = &commonpb.Payload{Data: []byte("\"v-" + k + "\"")}
	}
	ev := &historypb.HistoryEvent{EventId: 5, EventType: enums.EVENT_TYPE_UPSERT_WORKFLOW_SEARCH_ATTRIBUTES,
		Attributes: &historypb.HistoryEvent_UpsertWorkflowSearchAttributesEventAttributes{UpsertWorkflowSearchAttributesEventAttributes: &historypb.UpsertWorkflowSearchAttributesEventAttributes{
			SearchAttributes: &commonpb.SearchAttributes{IndexedFields: f}}}}
	b, err := vplSerializer.SerializeEvents([]*historypb.HistoryEvent{ev})
	if err != nil {
		panic(err)
	}
	return b
}

func vplSaKeysOf(blobs []*commonpb.DataBlob) []string {
	keys := []string{}
	for _, b := range blobs {
		evs, err := vplSerializer.DeserializeEvents(b)
		if err != nil {
			return []string{"undecodable: " + err.Error()}
		}
		for _, ev := range evs {
			if a := ev.GetUpsertWorkflowSearchAttributesEventAttributes(); a != nil {
				for k, v := range a.GetSearchAttributes().GetIndexedFields() {
					keys = append(keys, k+"="+string(v.GetData()))
				}
			}
		}
	}
	sort.Strings(keys)
	return keys
}

func (f *vplFake) take() []vplCall {
	f.mu.Lock()
	defer f.mu.Unlock()
	c := f.calls
	f.calls = nil
	return c
}

func vplMethodDesc(full string) protoreflect.MethodDescriptor {
	// "/pkg.Service/Method"
	parts := strings.Split(strings.TrimPrefix(full, "/"), "/")
	if len(parts) != 2 {
		return nil
	}
	d, err := protoregistry.GlobalFiles.FindDescriptorByName(protoreflect.FullName(parts[0]))
	if err != nil {
		return nil
	}
	return d.(protoreflect.ServiceDescriptor).Methods().ByName(protoreflect.Name(parts[1]))
}

func vplNewMsg(md protoreflect.MessageDescriptor) proto.Message {
	mt, err := protoregistry.GlobalTypes.FindMessageByName(md.FullName())
	if err != nil {
		panic(err)
	}
	return mt.New().Interface()
}

func vplStartFake(t *testing.T) *vplFake {
	f := &vplFake{}
	lis, err := net.Listen("tcp", "127.0.0.1:0")
	if err != nil {
		t.Fatal(err)
	}
	f.addr = lis.Addr().String()
	f.srv = grpc.NewServer(grpc.UnknownServiceHandler(func(_ any, stream grpc.ServerStream) error {
		full, _ := grpc.MethodFromServerStream(stream)
		m := vplMethodDesc(full)
		if m == nil {
			return status.Errorf(12, "unknown method %s", full)
		}
		if m.IsStreamingClient() || m.IsStreamingServer() {
			f.mu.Lock()
			f.calls = append(f.calls, vplCall{Method: string(m.Name())})
			f.mu.Unlock()
			return nil // end the stream at once
		}
		in := vplNewMsg(m.Input())
		if err := stream.RecvMsg(in); err != nil {
			return err
		}
		call := vplCall{Method: string(m.Name())}
		if vplHasNs(m.Input()) {
			call.HasNs = true
			call.Ns = in.ProtoReflect().Get(m.Input().Fields().ByName("namespace")).String()
		}
		if r, ok := in.(*adminservice.ImportWorkflowExecutionRequest); ok {
			call.SaKeys = vplSaKeysOf(r.GetHistoryBatches())
		}
		f.mu.Lock()
		f.calls = append(f.calls, call)
		own := f.saOwn
		f.mu.Unlock()
		out := vplNewMsg(m.Output())
		if r, ok := out.(*workflowservice.ListNamespacesResponse); ok {
			f.mu.Lock()
			for _, n := range f.list {
				r.Namespaces = append(r.Namespaces, &workflowservice.DescribeNamespaceResponse{NamespaceInfo: &namespacepb.NamespaceInfo{Name: n}})
			}
			f.mu.Unlock()
		}
		if r, ok := out.(*adminservice.GetWorkflowExecutionRawHistoryV2Response); ok && own != "" {
			r.HistoryBatches = []*commonpb.DataBlob{vplSaBlob([]string{own, "sa-same", "sa-free"})}
		}
		if call.HasNs {
			vplSetRespNs(out.ProtoReflect(), call.Ns) // echo the name this cluster saw
		}
		return stream.SendMsg(out)
	}))
	go func() { _ = f.srv.Serve(lis) }()
	return f
}

type vplCase struct {
	ID        int    `json:"id"`
	Transport string `json:"transport"` // "tcp" (default) | "mux": the remote-facing side of the proxy under test is a mux session
	Side      string `json:"side"`
	Policy    string `json:"policy"`
	Mapping   bool   `json:"mapping"`
	Bypass    bool   `json:"bypass"`
	Intra     bool   `json:"intra"` // the caller sends the intra-proxy marker header
	Name      string `json:"name"`
	Fresh     bool   `json:"fresh"` // the call is the first one a newly started server sees
	M         struct {
		Service string `json:"service"`
		Method  string `json:"method"`
		Stream  bool   `json:"stream"`
		HasNs   bool   `json:"hasns"`
	} `json:"m"`
}

type vplEnv struct {
	local, remote   *vplFake
	inAddr, outAddr string
	cancel          context.CancelFunc
	cc              *ClusterConnection
	peer            *ClusterConnection // mux only: the plain proxy on the remote side
	inConn, outConn *grpc.ClientConn
}

func vplFreeAddr(t *testing.T) string {
	l, err := net.Listen("tcp", "127.0.0.1:0")
	if err != nil {
		t.Fatal(err)
	}
	a := l.Addr().String()
	_ = l.Close()
	return a
}

// vplSA: the connection also gets a search-attribute mapping (local sa-l <-> remote sa-r, and an identity entry)
var vplSA bool

// vplSetup retries with fresh ports when another process took one between choosing and binding it
func vplSetup(t *testing.T, policy string, mapping bool, transport string) *vplEnv {
	var err error
	for attempt := 0; attempt < 8; attempt++ {
		var e *vplEnv
		if e, err = vplSetupOnce(t, policy, mapping, transport); err == nil {
			return e
		}
		if !strings.Contains(err.Error(), "address already in use") {
			break
		}
	}
	t.Fatalf("NewClusterConnection: %v", err)
	return nil
}

func vplSetupOnce(t *testing.T, policy string, mapping bool, transport string) (*vplEnv, error) {
	e := &vplEnv{local: vplStartFake(t), remote: vplStartFake(t), inAddr: vplFreeAddr(t), outAddr: vplFreeAddr(t)}
	if vplSA {
		e.local.saOwn, e.remote.saOwn = "sa-l", "sa-r"
	}
	muxAddr := vplFreeAddr(t)
	cfg := config.ClusterConnConfig{
		Name: "verif-pipeline",
		Local: config.ClusterDefinition{ConnectionType: config.ConnTypeTCP,
			TcpServer: config.TCPTLSInfo{ConnectionString: e.outAddr}, TcpClient: config.TCPTLSInfo{ConnectionString: e.local.addr}},
		Remote: config.ClusterDefinition{ConnectionType: config.ConnTypeTCP,
			TcpServer: config.TCPTLSInfo{ConnectionString: e.inAddr}, TcpClient: config.TCPTLSInfo{ConnectionString: e.remote.addr}},
		FVITranslation: config.IntMapping{Local: 10, Remote: 20},
	}
	if mapping {
		cfg.NamespaceTranslation = config.StringTranslator{Mappings: []config.StringMapping{
			{Local: "ns-allowed", Remote: "ns-remote-ok"}, {Local: "ns-forbidden", Remote: "ns-remote-bad"}}}
	}
	if vplSA {
		cfg.SearchAttributeTranslation = config.SATranslationConfig{NamespaceMappings: []config.SANamespaceMapping{{
			Name: "ns-allowed", NamespaceId: "ns-id-1",
			Mappings: []config.SAMapping{{LocalName: "sa-l", RemoteName: "sa-r"}, {LocalName: "sa-same", RemoteName: "sa-same"}}}}}
	}
	switch {
	case strings.HasPrefix(policy, "only:"):
		cfg.ACLPolicy = &config.ACLPolicy{AllowedMethods: config.AllowedMethods{AdminService: []string{strings.TrimPrefix(policy, "only:")}}}
	}
	switch policy {
	case "empty":
		cfg.ACLPolicy = &config.ACLPolicy{}
	case "methods2":
		cfg.ACLPolicy = &config.ACLPolicy{AllowedMethods: config.AllowedMethods{AdminService: []string{"DescribeCluster"}}}
	case "methods":
		cfg.ACLPolicy = &config.ACLPolicy{AllowedMethods: config.AllowedMethods{AdminService: []string{"DescribeCluster", "GetNamespace", "StreamWorkflowReplicationMessages"}}}
	case "namespaces":
		cfg.ACLPolicy = &config.ACLPolicy{AllowedNamespaces: []string{"ns-allowed"}}
	case "both":
		cfg.ACLPolicy = &config.ACLPolicy{AllowedMethods: config.AllowedMethods{AdminService: []string{"DescribeCluster", "GetNamespace", "StreamWorkflowReplicationMessages"}},
			AllowedNamespaces: []string{"ns-allowed"}}
	}
	ctx, cancel := context.WithCancel(context.Background())
	e.cancel = cancel
	if transport == "mux" {
		// proxy under test: remote side is a mux server; the peer proxy (no policy, no mapping) establishes the mux and
		// exposes a TCP server to the remote cluster (e.inAddr) whose calls travel over the mux to the proxy under test
		cfg.Remote = config.ClusterDefinition{ConnectionType: config.ConnTypeMuxServer, MuxAddressInfo: config.TCPTLSInfo{ConnectionString: muxAddr}}
		peerCfg := config.ClusterConnConfig{
			Name: "verif-pipeline-peer",
			Local: config.ClusterDefinition{ConnectionType: config.ConnTypeTCP,
				TcpServer: config.TCPTLSInfo{ConnectionString: e.inAddr}, TcpClient: config.TCPTLSInfo{ConnectionString: e.remote.addr}},
			Remote:         config.ClusterDefinition{ConnectionType: config.ConnTypeMuxClient, MuxAddressInfo: config.TCPTLSInfo{ConnectionString: muxAddr}},
			FVITranslation: config.IntMapping{Local: 20, Remote: 10},
		}
		cc, err := NewClusterConnection(ctx, cfg, vrtLoggers())
		if err != nil {
			cancel()
			e.local.srv.Stop()
			e.remote.srv.Stop()
			return nil, err
		}
		e.cc = cc
		cc.Start()
		peer, err := NewClusterConnection(ctx, peerCfg, vrtLoggers())
		if err != nil {
			cancel()
			e.local.srv.Stop()
			e.remote.srv.Stop()
			return nil, err
		}
		e.peer = peer
		peer.Start()
	} else {
		cc, err := NewClusterConnection(ctx, cfg, vrtLoggers())
		if err != nil {
			cancel()
			e.local.srv.Stop()
			e.remote.srv.Stop()
			return nil, err
		}
		e.cc = cc
		cc.Start()
	}
	dial := func(addr string) *grpc.ClientConn {
		c, err := grpc.NewClient(addr, grpc.WithTransportCredentials(insecure.NewCredentials()))
		if err != nil {
			t.Fatal(err)
		}
		return c
	}
	e.inConn, e.outConn = dial(e.inAddr), dial(e.outAddr)
	return e, nil
}

func (e *vplEnv) close() {
	_ = e.inConn.Close()
	_ = e.outConn.Close()
	e.cancel()
	e.local.srv.Stop()
	e.remote.srv.Stop()
}

func vplRun(e *vplEnv, c vplCase) map[string]interface{} {
	rec := map[string]interface{}{"ev": "Case", "case": c, "ran": false, "status": "", "calls": 0, "seen": "", "resp": "", "echoed": false, "err": ""}
	sd := vplService(c.M.Service)
	m := sd.Methods().ByName(protoreflect.Name(c.M.Method))
	if m == nil {
		rec["err"] = "no such method"
		return rec
	}
	conn, serving := e.inConn, e.local
	if c.Side == "outbound" {
		conn, serving = e.outConn, e.remote
	}
	_ = serving
	e.local.take()
	e.remote.take()
	full := "/" + string(sd.FullName()) + "/" + c.M.Method
	ctx, cancel := context.WithTimeout(context.Background(), 20*time.Second) // generous: slow is not a verdict
	defer cancel()
	md := metadata.MD{}
	if c.Bypass {
		md.Set(common.RequestTranslationHeaderName, "false")
	}
	if c.Intra {
		md.Set(common.IntraProxyHeaderKey, common.IntraProxyHeaderValue)
	}
	var err error
	if c.M.Stream {
		md.Set(history.MetadataKeyClientClusterID, "1")
		md.Set(history.MetadataKeyClientShardID, "1")
		md.Set(history.MetadataKeyServerClusterID, "2")
		md.Set(history.MetadataKeyServerShardID, "1")
		ctx = metadata.NewOutgoingContext(ctx, md)
		var st grpc.ClientStream
		st, err = conn.NewStream(ctx, &grpc.StreamDesc{StreamName: c.M.Method, ServerStreams: true, ClientStreams: true}, full)
		if err == nil {
			// keep the stream open until the serving cluster has seen it (an immediately abandoned stream may
			// legitimately never get there), or a refusal / deadline ends the wait
			got := make(chan error, 1)
			go func() {
				o := vplNewMsg(m.Output())
				got <- st.RecvMsg(o)
			}()
			dl := time.Now().Add(2 * time.Second)
			var early error
			done := false
			for time.Now().Before(dl) && !done {
				select {
				case early = <-got:
					done = true
				default:
					serving.mu.Lock()
					n := len(serving.calls)
					serving.mu.Unlock()
					if n > 0 {
						done = true
					} else {
						time.Sleep(200 * time.Microsecond)
					}
				}
			}
			_ = st.CloseSend()
			if early == nil {
				select {
				case early = <-got:
				case <-time.After(10 * time.Second):
				}
			}
			err = early
			if err != nil && err.Error() == "EOF" {
				err = nil
			}
		}
	} else {
		ctx = metadata.NewOutgoingContext(ctx, md)
		in := vplNewMsg(m.Input())
		if c.M.HasNs {
			in.ProtoReflect().Set(m.Input().Fields().ByName("namespace"), protoreflect.ValueOfString(c.Name))
		}
		out := vplNewMsg(m.Output())
		err = conn.Invoke(ctx, full, in, out)
		if err == nil {
			if v, ok := vplGetRespNs(out.ProtoReflect()); ok {
				rec["resp"], rec["echoed"] = v, true
			}
		}
	}
	rec["ran"] = true
	if err != nil {
		rec["status"] = status.Code(err).String()
		rec["err"] = err.Error()
	} else {
		rec["status"] = "OK"
	}
	// a successful call has been (or, for a stream through two proxies, is being) forwarded: wait for the serving cluster
	// to see it, bounded
	if rec["status"] == "OK" {
		dl := time.Now().Add(10 * time.Second)
		if c.Transport == "mux" && c.M.Stream {
			// a refused stream looks like a clean end through the peer proxy: nothing will arrive, do not wait long for it
			dl = time.Now().Add(2 * time.Second)
		}
		for time.Now().Before(dl) {
			serving.mu.Lock()
			n := len(serving.calls)
			serving.mu.Unlock()
			if n > 0 {
				break
			}
			time.Sleep(200 * time.Microsecond)
		}
	}
	calls := serving.take()
	other := e.remote.take()
	if c.Side == "outbound" {
		other = e.local.take()
	}
	n := 0
	for _, cl := range calls {
		if cl.Method == c.M.Method {
			n++
			if cl.HasNs {
				rec["seen"] = cl.Ns
			}
		}
	}
	rec["calls"] = n
	rec["stray"] = len(other)
	return rec
}

func TestVerifPipelineCases(t *testing.T) {
	in := os.Getenv("VERIF_IN")
	if in == "" {
		t.Skip("VERIF_IN not set")
	}
	f, err := os.Open(in)
	if err != nil {
		t.Fatal(err)
	}
	defer f.Close()
	outf, err := os.Create(os.Getenv("VERIF_OUT"))
	if err != nil {
		t.Fatal(err)
	}
	defer outf.Close()
	w := bufio.NewWriterSize(outf, 1<<20)
	defer w.Flush()
	enc := json.NewEncoder(w)
	var cases []vplCase
	sc := bufio.NewScanner(f)
	sc.Buffer(make([]byte, 1<<20), 1<<26)
	for sc.Scan() {
		if len(sc.Bytes()) == 0 {
			continue
		}
		var c vplCase
		if err := json.Unmarshal(sc.Bytes(), &c); err != nil {
			t.Fatalf("bad case: %v", err)
		}
		cases = append(cases, c)
	}
	// one cluster connection per (policy, mapping)
	groups := map[string][]vplCase{}
	for _, c := range cases {
		k := fmt.Sprintf("%s/%v/%s", c.Policy, c.Mapping, c.Transport)
		if c.Fresh {
			k += fmt.Sprintf("/fresh-%s-%d", c.M.Method, c.ID)
		}
		groups[k] = append(groups[k], c)
	}
	keys := []string{}
	for k := range groups {
		keys = append(keys, k)
	}
	sort.Strings(keys)
	for _, k := range keys {
		g := groups[k]
		e := vplSetup(t, g[0].Policy, g[0].Mapping, g[0].Transport)
		if g[0].Transport == "mux" && g[0].Fresh {
			// wait for the mux session without making a call: the peer's client side reports it
			dl := time.Now().Add(20 * time.Second)
			for time.Now().Before(dl) && !e.peer.AcceptingOutboundTraffic() {
				time.Sleep(20 * time.Millisecond)
			}
		} else if g[0].Transport == "mux" {
			// wait for the mux session: a harmless call through the peer must reach the local fake
			dl := time.Now().Add(8 * time.Second)
			for time.Now().Before(dl) {
				r := vplRun(e, vplCase{Side: "inbound", Policy: "none", M: struct {
					Service string `json:"service"`
					Method  string `json:"method"`
					Stream  bool   `json:"stream"`
					HasNs   bool   `json:"hasns"`
				}{"admin", "DescribeCluster", false, false}})
				if r["status"] == "OK" {
					break
				}
				time.Sleep(50 * time.Millisecond)
			}
		}
		// wait until both proxy servers accept connections
		deadline := time.Now().Add(5 * time.Second)
		for time.Now().Before(deadline) {
			c1, e1 := net.DialTimeout("tcp", e.inAddr, 200*time.Millisecond)
			c2, e2 := net.DialTimeout("tcp", e.outAddr, 200*time.Millisecond)
			if c1 != nil {
				_ = c1.Close()
			}
			if c2 != nil {
				_ = c2.Close()
			}
			if e1 == nil && e2 == nil {
				break
			}
			time.Sleep(10 * time.Millisecond)
		}
		for _, c := range g {
			_ = enc.Encode(vplRun(e, c))
		}
		e.close()
	}
}

// C13 start-up clause: mapping lists that are not one-to-one are rejected when the cluster connection is built.
// The lists come from TLC (spec/Pipeline MappingLists); the verdict is PipelineObs!JudgeMap's.
// Search-attribute direction on the ASSEMBLED servers (C14): one record per (side, transport, leg). The caller speaks its own
// cluster's names; the record holds the keys the receiving side got (request leg: the serving fake; response leg: the caller).
type vplSaCase struct {
	ID        int    `json:"id"`
	Side      string `json:"side"`
	Transport string `json:"transport"`
	Leg       string `json:"leg"`
}

func TestVerifPipelineSA(t *testing.T) {
	in := os.Getenv("VERIF_IN")
	if in == "" {
		t.Skip("VERIF_IN not set")
	}
	raw, err := os.ReadFile(in)
	if err != nil {
		t.Fatal(err)
	}
	outf, err := os.Create(os.Getenv("VERIF_OUT"))
	if err != nil {
		t.Fatal(err)
	}
	defer outf.Close()
	enc := json.NewEncoder(outf)
	vplSA = true
	defer func() { vplSA = false }()
	envs := map[string]*vplEnv{}
	defer func() {
		for _, e := range envs {
			e.close()
		}
	}()
	for _, line := range strings.Split(string(raw), "\n") {
		if strings.TrimSpace(line) == "" {
			continue
		}
		var c vplSaCase
		if err := json.Unmarshal([]byte(line), &c); err != nil {
			t.Fatalf("bad case: %v", err)
		}
		e := envs[c.Transport]
		if e == nil {
			e = vplSetup(t, "none", true, c.Transport)
			envs[c.Transport] = e
			time.Sleep(300 * time.Millisecond)
		}
		rec := map[string]interface{}{"ev": "SaCase", "case": c, "ran": false, "keys": []string{}, "err": ""}
		conn, serving, own := e.inConn, e.local, "sa-r" // inbound: the caller is the remote cluster
		if c.Side == "outbound" {
			conn, serving, own = e.outConn, e.remote, "sa-l"
		}
		e.local.take()
		e.remote.take()
		ctx, cancel := context.WithTimeout(context.Background(), 5*time.Second)
		cl := adminservice.NewAdminServiceClient(conn)
		if c.Leg == "req" {
			_, err := cl.ImportWorkflowExecution(ctx, &adminservice.ImportWorkflowExecutionRequest{
				HistoryBatches: []*commonpb.DataBlob{vplSaBlob([]string{own, "sa-same", "sa-free"})}})
			if err != nil {
				rec["err"] = err.Error()
			} else {
				for _, call := range serving.take() {
					if call.Method == "ImportWorkflowExecution" {
						rec["ran"], rec["keys"] = true, call.SaKeys
					}
				}
			}
		} else {
			resp, err := cl.GetWorkflowExecutionRawHistoryV2(ctx, &adminservice.GetWorkflowExecutionRawHistoryV2Request{})
			if err != nil {
				rec["err"] = err.Error()
			} else {
				rec["ran"], rec["keys"] = true, vplSaKeysOf(resp.GetHistoryBatches())
			}
		}
		cancel()
		_ = enc.Encode(rec)
	}
}

// ListNamespaces through the ASSEMBLED inbound server under a namespace allow-list (C16): one record per (page shape, mapping,
// transport): the names the remote caller gets back.
type vplListCase struct {
	ID        int      `json:"id"`
	Shape     []string `json:"shape"`
	Mapping   bool     `json:"mapping"`
	Transport string   `json:"transport"`
}

func TestVerifPipelineList(t *testing.T) {
	in := os.Getenv("VERIF_IN")
	if in == "" {
		t.Skip("VERIF_IN not set")
	}
	raw, err := os.ReadFile(in)
	if err != nil {
		t.Fatal(err)
	}
	outf, err := os.Create(os.Getenv("VERIF_OUT"))
	if err != nil {
		t.Fatal(err)
	}
	defer outf.Close()
	enc := json.NewEncoder(outf)
	envs := map[string]*vplEnv{}
	defer func() {
		for _, e := range envs {
			e.close()
		}
	}()
	for _, line := range strings.Split(string(raw), "\n") {
		if strings.TrimSpace(line) == "" {
			continue
		}
		var c vplListCase
		if err := json.Unmarshal([]byte(line), &c); err != nil {
			t.Fatalf("bad case: %v", err)
		}
		key := fmt.Sprint(c.Mapping, c.Transport)
		e := envs[key]
		if e == nil {
			e = vplSetup(t, "namespaces", c.Mapping, c.Transport)
			envs[key] = e
			time.Sleep(300 * time.Millisecond)
		}
		page := []string{}
		for _, x := range c.Shape {
			if x == "a" {
				page = append(page, "ns-allowed")
			} else if x == "c" {
				page = append(page, "Ns-Allowed")
			} else {
				page = append(page, "ns-forbidden")
			}
		}
		e.local.mu.Lock()
		e.local.list = page
		e.local.mu.Unlock()
		rec := map[string]interface{}{"ev": "ListCase", "case": c, "ran": false, "names": []string{}, "err": ""}
		ctx, cancel := context.WithTimeout(context.Background(), 5*time.Second)
		resp, err := workflowservice.NewWorkflowServiceClient(e.inConn).ListNamespaces(ctx, &workflowservice.ListNamespacesRequest{})
		cancel()
		if err != nil {
			rec["err"] = err.Error()
		} else {
			names := []string{}
			for _, n := range resp.GetNamespaces() {
				names = append(names, n.GetNamespaceInfo().GetName())
			}
			rec["ran"], rec["names"] = true, names
		}
		e.local.take()
		_ = enc.Encode(rec)
	}
}

func TestVerifPipelineBadMappings(t *testing.T) {
	in, out := os.Getenv("VERIF_IN"), os.Getenv("VERIF_OUT")
	if in == "" || out == "" {
		t.Skip("VERIF_IN / VERIF_OUT not set")
	}
	fin, err := os.Open(in)
	if err != nil {
		t.Fatal(err)
	}
	defer fin.Close()
	f, err := os.Create(out)
	if err != nil {
		t.Fatal(err)
	}
	defer f.Close()
	w := bufio.NewWriterSize(f, 1<<20)
	defer w.Flush()
	enc := json.NewEncoder(w)
	sc := bufio.NewScanner(fin)
	sc.Buffer(make([]byte, 1<<20), 1<<26)
	for sc.Scan() {
		if len(sc.Bytes()) == 0 {
			continue
		}
		var c struct {
			List []struct {
				Local  string `json:"local"`
				Remote string `json:"remote"`
			} `json:"list"`
		}
		if err := json.Unmarshal(sc.Bytes(), &c); err != nil {
			t.Fatalf("bad mapping case: %v", err)
		}
		var ms []config.StringMapping
		for _, p := range c.List {
			ms = append(ms, config.StringMapping{Local: p.Local, Remote: p.Remote})
		}
		a1, a2 := vplFreeAddr(t), vplFreeAddr(t)
		cfg := config.ClusterConnConfig{Name: "verif-badmap",
			Local:                config.ClusterDefinition{ConnectionType: config.ConnTypeTCP, TcpServer: config.TCPTLSInfo{ConnectionString: a1}, TcpClient: config.TCPTLSInfo{ConnectionString: "127.0.0.1:1"}},
			Remote:               config.ClusterDefinition{ConnectionType: config.ConnTypeTCP, TcpServer: config.TCPTLSInfo{ConnectionString: a2}, TcpClient: config.TCPTLSInfo{ConnectionString: "127.0.0.1:1"}},
			NamespaceTranslation: config.StringTranslator{Mappings: ms}}
		ctx, cancel := context.WithCancel(context.Background())
		_, err := NewClusterConnection(ctx, cfg, vrtLoggers())
		cancel()
		msg := ""
		if err != nil {
			msg = err.Error()
		}
		_ = enc.Encode(map[string]interface{}{"ev": "BadMap", "list": c.List, "rejected": err != nil, "err": msg})
	}
}
