//go:build verif

package proxy

// Verification harness for C09 (Gossip): 2-3 REAL shardManagerImpl instances in one process. The harness IS
// memberlist: it delivers announcements, full-state pushes and leave events in the order of a TLC behaviour
// (spec/Gossip). The announcements are the REAL ones: broadcastShardChange really runs (sm.started, sm.ml set to
// an un-joined memberlist on an in-memory transport) and its marshalled ShardMessage - including the real
// timestamp - is captured at the vhook point "sm.broadcast.msg". Claim and announcement are separated with the
// hook "sm.register.afterAdd"; eviction/release and their announcement with "sm.unregister.window".

import (
	"bufio"
	"encoding/json"
	"fmt"
	"os"
	"sort"
	"strings"
	"sync"
	"testing"
	"time"

	"github.com/hashicorp/memberlist"
	"go.temporal.io/server/api/adminservice/v1"
	replicationv1 "go.temporal.io/server/api/replication/v1"
	"go.temporal.io/server/client/history"
	"go.temporal.io/server/common/channel"
	"go.temporal.io/server/common/log"
	"google.golang.org/grpc"

	"github.com/temporalio/s2s-proxy/config"
	"github.com/temporalio/s2s-proxy/encryption"
	"github.com/temporalio/s2s-proxy/internal/vhook"
)

type vgoCmd struct {
	A    string `json:"a"`
	I    string `json:"i,omitempty"`    // acting instance
	J    string `json:"j,omitempty"`    // peer
	Sh   int    `json:"sh,omitempty"`   // shard
	Type string `json:"type,omitempty"` // register | unregister
	Ts   int    `json:"ts,omitempty"`   // spec timestamp identifying the announcement
	Cts  int    `json:"cts,omitempty"`
	Keep bool   `json:"keep,omitempty"`
	Val  int    `json:"val,omitempty"` // snapshot index
}
type vgoSched struct {
	ID   string   `json:"id"`
	Inst []string `json:"inst"`
	Late []string `json:"late"` // instances that are not members at the start (Join command)
	Cmds []vgoCmd `json:"cmds"`
}

type vgoInst struct {
	name string
	sm   *shardManagerImpl
	ml   *memberlist.Memberlist
	left bool
	late bool // not a member yet
	// pending goroutines parked at a gate, by key
	parked map[string]*vlfGate
}

type vgoHarness struct {
	mu        sync.Mutex
	enc       *json.Encoder
	seq, run  int
	inst      map[string]*vgoInst
	gidInst   map[int64]string  // goroutine -> instance it acts for
	gidKey    map[int64]string  // goroutine -> gate key it should park under
	captured  map[string][]byte // announcement key -> real bytes
	lastCap   map[int64][]byte  // goroutine -> last captured announcement
	snaps     map[string][]byte
	snapKeys  []string
	nextSplit bool
	splitRead map[int64]bool // goroutine ids of NotifyMsg calls that are to park after reading the local entry
	readDone  map[string]chan struct{}
	lastSnap  []int // shard ids held by the most recent Snapshot / Join
	merged    map[string]bool
	outbox    []*vgoMsg
	leaves    map[string]bool // "i>j" leave notifications delivered
	wait      time.Duration
}

type vgoMsg struct {
	key       string
	from      string
	sh        int
	data      []byte
	to        []string
	delivered map[string]bool
}

func vgoShard(k int) history.ClusterShardID {
	return history.ClusterShardID{ClusterID: 2, ShardID: int32(k)}
}

func (h *vgoHarness) emit(ev map[string]interface{}) {
	h.seq++
	ev["n"], ev["run"] = h.seq, h.run
	_ = h.enc.Encode(ev)
}

func (h *vgoHarness) hook(point string, kv ...any) {
	gid := vlfGID()
	h.mu.Lock()
	key, mine := h.gidKey[gid]
	if !mine {
		h.mu.Unlock()
		return
	}
	if point == "sm.broadcast.msg" {
		if len(kv) >= 4 {
			if b, ok := kv[3].([]byte); ok {
				h.lastCap[gid] = append([]byte{}, b...)
			}
		}
		h.mu.Unlock()
		return
	}
	if point == "sm.notifymsg.afterRead" && h.splitRead[gid] {
		// first half of NotifyMsg done (the local entry has been read): park until the Evict command
		in := h.inst[h.gidInst[gid]]
		g := &vlfGate{arrived: true, release: make(chan struct{}), kv: []any{gid}}
		in.parked["rd:"+key] = g
		h.mu.Unlock()
		<-g.release
		return
	}
	if point != "sm.register.afterAdd" && point != "sm.unregister.window" {
		h.mu.Unlock()
		return
	}
	in := h.inst[h.gidInst[gid]]
	g := &vlfGate{arrived: true, release: make(chan struct{}), kv: []any{gid}}
	in.parked[key] = g
	h.mu.Unlock()
	<-g.release
}

// spawn runs fn on a goroutine acting for instance i; it may park at a gate under `key`. Returns when fn has
// finished or parked.
func (h *vgoHarness) spawn(i, key string, fn func()) (parked bool, done chan struct{}) {
	done = make(chan struct{})
	started := make(chan struct{})
	go func() {
		gid := vlfGID()
		h.mu.Lock()
		h.gidInst[gid], h.gidKey[gid] = i, key
		if h.nextSplit {
			h.splitRead[gid] = true
			h.nextSplit = false
		}
		h.mu.Unlock()
		close(started)
		defer close(done)
		defer func() {
			h.mu.Lock()
			delete(h.gidKey, gid)
			delete(h.gidInst, gid)
			h.mu.Unlock()
		}()
		fn()
	}()
	<-started
	deadline := time.Now().Add(h.wait)
	for time.Now().Before(deadline) {
		select {
		case <-done:
			return false, done
		default:
		}
		h.mu.Lock()
		_, p := h.inst[i].parked[key]
		_, p2 := h.inst[i].parked["rd:"+key]
		h.mu.Unlock()
		if p || p2 {
			return true, done
		}
		time.Sleep(50 * time.Microsecond)
	}
	return false, done
}

func (h *vgoHarness) reset(sc *vgoSched) {
	h.mu.Lock()
	defer h.mu.Unlock()
	h.run++
	for _, in := range h.inst {
		if in.ml != nil {
			_ = in.ml.Shutdown()
		}
	}
	h.inst = map[string]*vgoInst{}
	h.gidInst, h.gidKey = map[int64]string{}, map[int64]string{}
	h.captured, h.lastCap, h.snaps = map[string][]byte{}, map[int64][]byte{}, map[string][]byte{}
	h.snapKeys, h.merged, h.outbox, h.leaves = nil, map[string]bool{}, nil, map[string]bool{}
	h.splitRead, h.readDone = map[int64]bool{}, map[string]chan struct{}{}
	net := &memberlist.MockNetwork{}
	addrs := map[string]string{}
	for _, n := range sc.Inst {
		addrs[n] = "127.0.0.1:1"
	}
	for _, n := range sc.Inst {
		cfg := &config.MemberlistConfig{NodeName: n, BindAddr: "127.0.0.1", BindPort: 0, ProxyAddresses: addrs}
		sm := NewShardManager(cfg, config.ShardCountConfig{Mode: config.ShardCountRouting, LocalShardCount: 2, RemoteShardCount: 2},
			encryption.TLSConfig{}, vrtLoggers()).(*shardManagerImpl)
		sm.SetupCallbacks()
		mc := memberlist.DefaultLocalConfig()
		mc.Name = n
		mc.Transport = net.NewTransport(n)
		mc.Delegate = sm.delegate
		mc.Events = &shardEventDelegate{manager: sm, logger: log.NewNoopLogger()}
		mc.LogOutput = devNull{}
		ml, err := memberlist.Create(mc)
		if err != nil {
			panic(err)
		}
		sm.ml = ml
		sm.started = true
		h.inst[n] = &vgoInst{name: n, sm: sm, ml: ml, parked: map[string]*vlfGate{}}
	}
	for _, n := range sc.Late {
		h.inst[n].late = true
	}
	// "instances that know each other": every member has merged every member's (empty) state
	for _, a := range sc.Inst {
		st := h.inst[a].sm.delegate.LocalState(false)
		for _, b := range sc.Inst {
			if a != b && !h.inst[a].late && !h.inst[b].late {
				h.inst[b].sm.delegate.MergeRemoteState(st, false)
			}
		}
	}
	h.emit(map[string]interface{}{"ev": "Config", "id": sc.ID, "inst": sc.Inst})
}

func splitKey(k string) []string {
	out := []string{}
	cur := ""
	for _, ch := range k {
		if ch == '/' {
			out = append(out, cur)
			cur = ""
		} else {
			cur += string(ch)
		}
	}
	return append(out, cur)
}
func splitSnap(k string) []string { // "i>j/val"
	a := splitKey(k)
	ij := a[0]
	for x := 0; x < len(ij); x++ {
		if ij[x] == '>' {
			return []string{ij[:x], ij[x+1:], a[1]}
		}
	}
	return []string{ij, "", a[1]}
}

type devNull struct{}

func (devNull) Write(p []byte) (int, error) { return len(p), nil }

func (h *vgoHarness) snapNow() []int {
	if h.lastSnap == nil {
		return []int{}
	}
	return h.lastSnap
}

func (h *vgoHarness) localOf(in *vgoInst) []int {
	loc := []int{}
	for _, s := range in.sm.GetLocalShards() {
		loc = append(loc, int(s.ShardID))
	}
	sort.Ints(loc)
	return loc
}

func (h *vgoHarness) view() map[string]interface{} { // caller holds mu
	out := map[string]interface{}{}
	for n, in := range h.inst {
		if in.left {
			continue
		}
		loc := []int{}
		for _, s := range in.sm.GetLocalShards() {
			loc = append(loc, int(s.ShardID))
		}
		sort.Ints(loc)
		peers := []string{}
		remote := map[string][]int{}
		rs, _ := in.sm.GetRemoteShardsForPeer("")
		for p, st := range rs {
			peers = append(peers, p)
			sh := []int{}
			for _, si := range st.Shards {
				sh = append(sh, int(si.ID.ShardID))
			}
			sort.Ints(sh)
			remote[p] = sh
		}
		sort.Strings(peers)
		out[n] = map[string]interface{}{"local": loc, "peers": peers, "remote": remote}
	}
	return out
}

func annKey(from, typ string, sh, ts int) string {
	return fmt.Sprintf("%s/%s/%d/%d", from, typ, sh, ts)
}

func (h *vgoHarness) exec(c vgoCmd) bool {
	in := h.inst[c.I]
	switch c.A {
	case "Claim":
		key := fmt.Sprintf("reg/%d", c.Sh)
		parked, _ := h.spawn(c.I, key, func() { in.sm.RegisterShard(vgoShard(c.Sh)) })
		return parked
	case "Announce":
		var key string
		if c.Type == "register" {
			key = fmt.Sprintf("reg/%d", c.Sh)
		} else {
			key = fmt.Sprintf("unreg/%d", c.Sh)
		}
		h.mu.Lock()
		g := in.parked[key]
		delete(in.parked, key)
		var gid int64
		if g != nil {
			gid = g.kv[0].(int64)
		}
		h.mu.Unlock()
		if g == nil {
			return false
		}
		close(g.release)
		// wait for the announcement to be marshalled by that goroutine
		ok := false
		deadline := time.Now().Add(h.wait)
		for time.Now().Before(deadline) {
			h.mu.Lock()
			b, have := h.lastCap[gid]
			if have {
				to := []string{}
				in.sm.remoteNodeStatesMu.RLock()
				for n := range in.sm.remoteNodeStates {
					if n != c.I {
						to = append(to, n)
					}
				}
				in.sm.remoteNodeStatesMu.RUnlock()
				sort.Strings(to)
				h.outbox = append(h.outbox, &vgoMsg{key: annKey(c.I, c.Type, c.Sh, c.Ts), from: c.I, sh: c.Sh, data: b, to: to, delivered: map[string]bool{}})
				h.captured[annKey(c.I, c.Type, c.Sh, c.Ts)] = b
				delete(h.lastCap, gid)
				ok = true
			}
			h.mu.Unlock()
			if ok {
				break
			}
			time.Sleep(50 * time.Microsecond)
		}
		return ok
	case "Release":
		key := fmt.Sprintf("unreg/%d", c.Sh)
		in.sm.mutex.RLock()
		si, have := in.sm.localShards[ClusterShardIDtoShortString(vgoShard(c.Sh))]
		in.sm.mutex.RUnlock()
		if !have {
			return false
		}
		parked, _ := h.spawn(c.I, key, func() { in.sm.UnregisterShard(vgoShard(c.Sh), si.Created) })
		return parked
	case "Deliver":
		h.mu.Lock()
		data := h.captured[annKey(c.I, c.Type, c.Sh, c.Ts)]
		h.mu.Unlock()
		to := h.inst[c.J]
		if data == nil || to == nil {
			return false
		}
		h.mu.Lock()
		for _, m := range h.outbox {
			if m.key == annKey(c.I, c.Type, c.Sh, c.Ts) {
				m.delivered[c.J] = true
			}
		}
		h.mu.Unlock()
		if to.left {
			return true
		}
		key := fmt.Sprintf("unreg/%d", c.Sh)
		if os.Getenv("VERIF_DEBUG") != "" {
			to.sm.mutex.RLock()
			fmt.Fprintf(os.Stderr, "DELIVER %s -> %s local=%v\n", string(data), c.J, to.sm.localShards)
			to.sm.mutex.RUnlock()
		}
		_, done := h.spawn(c.J, key, func() { to.sm.delegate.NotifyMsg(data) })
		h.mu.Lock()
		_, parked := to.parked[key]
		h.mu.Unlock()
		if !parked {
			select {
			case <-done:
			case <-time.After(h.wait):
				return false
			}
		}
		return true
	case "Read":
		// first half of NotifyMsg for a register announcement: runs up to the hook after the local entry was read
		h.mu.Lock()
		data := h.captured[annKey(c.I, c.Type, c.Sh, c.Ts)]
		for _, m := range h.outbox {
			if m.key == annKey(c.I, c.Type, c.Sh, c.Ts) {
				m.delivered[c.J] = true
			}
		}
		h.mu.Unlock()
		to := h.inst[c.J]
		if data == nil || to == nil {
			return false
		}
		if to.left {
			return true
		}
		key := fmt.Sprintf("unreg/%d", c.Sh)
		h.mu.Lock()
		h.nextSplit = true
		h.mu.Unlock()
		parked, done := h.spawn(c.J, key, func() { to.sm.delegate.NotifyMsg(data) })
		h.mu.Lock()
		h.readDone[c.J+"/"+key] = done
		h.mu.Unlock()
		return parked
	case "Evict":
		to := h.inst[c.J]
		if to == nil {
			return false
		}
		if to.left {
			return true
		}
		key := fmt.Sprintf("unreg/%d", c.Sh)
		h.mu.Lock()
		g := to.parked["rd:"+key]
		delete(to.parked, "rd:"+key)
		done := h.readDone[c.J+"/"+key]
		delete(h.readDone, c.J+"/"+key)
		h.mu.Unlock()
		if g == nil || done == nil {
			return false
		}
		close(g.release)
		// second half: it either finishes (nothing to evict) or parks in UnregisterShard's window (an eviction to be announced)
		deadline := time.Now().Add(h.wait)
		for time.Now().Before(deadline) {
			select {
			case <-done:
				return true
			default:
			}
			h.mu.Lock()
			_, p := to.parked[key]
			h.mu.Unlock()
			if p {
				return true
			}
			time.Sleep(50 * time.Microsecond)
		}
		return false
	case "Snapshot":
		h.mu.Lock()
		k := fmt.Sprintf("%s>%s/%d", c.I, c.J, c.Val)
		h.snaps[k] = in.sm.delegate.LocalState(false)
		h.snapKeys = append(h.snapKeys, k)
		h.lastSnap = h.localOf(in)
		h.mu.Unlock()
		return true
	case "Merge":
		h.mu.Lock()
		data := h.snaps[fmt.Sprintf("%s>%s/%d", c.I, c.J, c.Val)]
		h.merged[fmt.Sprintf("%s>%s/%d", c.I, c.J, c.Val)] = true
		h.mu.Unlock()
		to := h.inst[c.J]
		if data == nil {
			return false
		}
		if !to.left {
			to.sm.delegate.MergeRemoteState(data, false)
		}
		return true
	case "Join":
		// the joiner's half of the push/pull: it merges every member's state now; the members' half (its state reaching
		// them) is a state push in flight, delivered by a later Merge
		if !in.late {
			return false
		}
		names := []string{}
		for n, o := range h.inst {
			if n != c.I && !o.late && !o.left {
				names = append(names, n)
			}
		}
		sort.Strings(names)
		for _, n := range names {
			in.sm.delegate.MergeRemoteState(h.inst[n].sm.delegate.LocalState(true), true)
		}
		h.mu.Lock()
		for _, n := range names {
			k := fmt.Sprintf("%s>%s/%d", c.I, n, c.Val)
			h.snaps[k] = in.sm.delegate.LocalState(true)
			h.snapKeys = append(h.snapKeys, k)
		}
		h.lastSnap = h.localOf(in)
		h.mu.Unlock()
		in.late = false
		return true
	case "Leave":
		in.left = true
		return true
	case "NotifyLeave":
		h.leaves[c.I+">"+c.J] = true
		to := h.inst[c.J]
		if !to.left {
			(&shardEventDelegate{manager: to.sm, logger: log.NewNoopLogger()}).NotifyLeave(&memberlist.Node{Name: c.I})
		}
		return true
	}
	return false
}

func (h *vgoHarness) runSchedule(sc *vgoSched) {
	h.reset(sc)
	for i, c := range sc.Cmds {
		ok := h.exec(c)
		h.mu.Lock()
		h.emit(map[string]interface{}{"ev": "Step", "a": c.A, "i": c.I, "j": c.J, "sh": c.Sh, "type": c.Type, "ts": c.Ts, "keep": c.Keep, "ok": ok, "val": c.Val, "snap": h.snapNow(), "view": h.view()})
		h.mu.Unlock()
		if !ok {
			h.mu.Lock()
			h.emit(map[string]interface{}{"ev": "Unrealised", "at": i, "cmd": c})
			h.mu.Unlock()
			break
		}
	}
	// complete the behaviour to quiescence ("each announcement reaches every other instance at least once"): pending
	// announcements are made, undelivered messages / state pushes / leave events are delivered, in a fixed order
	pend := 0
	for round := 0; round < 50; round++ {
		progressed := false
		names := []string{}
		for n := range h.inst {
			names = append(names, n)
		}
		sort.Strings(names)
		for _, n := range names {
			in := h.inst[n]
			h.mu.Lock()
			keys := []string{}
			for k := range in.parked {
				keys = append(keys, k)
			}
			h.mu.Unlock()
			sort.Strings(keys)
			for _, k := range keys {
				if strings.HasPrefix(k, "rd:") {
					// a NotifyMsg still parked after its read: let it act on its snapshot
					var sh int
					fmt.Sscanf(k, "rd:unreg/%d", &sh)
					c := vgoCmd{A: "Evict", J: n, Sh: sh, Type: "register"}
					ok := h.exec(c)
					h.mu.Lock()
					h.emit(map[string]interface{}{"ev": "Step", "a": c.A, "i": "", "j": c.J, "sh": c.Sh, "type": c.Type, "ts": 0, "keep": false, "ok": ok, "flush": true, "val": 0, "snap": h.snapNow(), "view": h.view()})
					h.mu.Unlock()
					progressed = true
					continue
				}
				var sh int
				typ := "register"
				if _, err := fmt.Sscanf(k, "reg/%d", &sh); err != nil {
					fmt.Sscanf(k, "unreg/%d", &sh)
					typ = "unregister"
				}
				c := vgoCmd{A: "Announce", I: n, Sh: sh, Type: typ, Ts: 100000 + h.seq}
				ok := h.exec(c)
				h.mu.Lock()
				h.emit(map[string]interface{}{"ev": "Step", "a": c.A, "i": c.I, "j": "", "sh": c.Sh, "type": c.Type, "ts": c.Ts, "keep": false, "ok": ok, "flush": true, "val": c.Val, "snap": h.snapNow(), "view": h.view()})
				h.mu.Unlock()
				progressed = true
			}
		}
		h.mu.Lock()
		box := append([]*vgoMsg{}, h.outbox...)
		h.mu.Unlock()
		for _, m := range box {
			for _, to := range m.to {
				if m.delivered[to] {
					continue
				}
				var typ string
				var sh, ts int
				var from string
				parts := splitKey(m.key)
				from, typ = parts[0], parts[1]
				fmt.Sscanf(parts[2], "%d", &sh)
				fmt.Sscanf(parts[3], "%d", &ts)
				c := vgoCmd{A: "Deliver", I: from, J: to, Sh: sh, Type: typ, Ts: ts}
				ok := h.exec(c)
				h.mu.Lock()
				h.emit(map[string]interface{}{"ev": "Step", "a": c.A, "i": c.I, "j": c.J, "sh": c.Sh, "type": c.Type, "ts": c.Ts, "keep": false, "ok": ok, "flush": true, "val": c.Val, "snap": h.snapNow(), "view": h.view()})
				h.mu.Unlock()
				progressed = true
			}
		}
		for _, k := range h.snapKeys {
			if !h.merged[k] {
				var i, j string
				var val int
				p := splitSnap(k)
				i, j = p[0], p[1]
				fmt.Sscanf(p[2], "%d", &val)
				c := vgoCmd{A: "Merge", I: i, J: j, Val: val}
				ok := h.exec(c)
				h.mu.Lock()
				h.emit(map[string]interface{}{"ev": "Step", "a": c.A, "i": c.I, "j": c.J, "sh": 0, "type": "", "ts": 0, "keep": false, "ok": ok, "flush": true, "val": c.Val, "snap": h.snapNow(), "view": h.view()})
				h.mu.Unlock()
				progressed = true
			}
		}
		for _, n := range names {
			if !h.inst[n].left {
				continue
			}
			for _, j := range names {
				if j != n && !h.leaves[n+">"+j] {
					c := vgoCmd{A: "NotifyLeave", I: n, J: j}
					ok := h.exec(c)
					h.mu.Lock()
					h.emit(map[string]interface{}{"ev": "Step", "a": c.A, "i": c.I, "j": c.J, "sh": 0, "type": "", "ts": 0, "keep": false, "ok": ok, "flush": true, "val": c.Val, "snap": h.snapNow(), "view": h.view()})
					h.mu.Unlock()
					progressed = true
				}
			}
		}
		if !progressed {
			break
		}
	}
	time.Sleep(time.Millisecond)
	h.mu.Lock()
	left := []string{}
	for n, in := range h.inst {
		if in.left {
			left = append(left, n)
		}
	}
	sort.Strings(left)
	h.emit(map[string]interface{}{"ev": "Quiet", "view": h.view(), "left": left, "pendingAtEnd": pend})
	h.mu.Unlock()
}

// ---- routing clause: DeliverMessagesToShardOwner / DeliverAckToShardOwner decision
type vgoCapSrv struct {
	grpc.ServerStream
	got int
}

func (s *vgoCapSrv) Recv() (*adminservice.StreamWorkflowReplicationMessagesRequest, error) {
	select {}
}
func (s *vgoCapSrv) Send(*adminservice.StreamWorkflowReplicationMessagesResponse) error {
	s.got++
	return nil
}

type vgoCapCli struct {
	grpc.ClientStream
	got int
}

func (s *vgoCapCli) Recv() (*adminservice.StreamWorkflowReplicationMessagesResponse, error) {
	select {}
}
func (s *vgoCapCli) Send(*adminservice.StreamWorkflowReplicationMessagesRequest) error {
	s.got++
	return nil
}

type vgoRouteCase struct {
	ID         int    `json:"id"`
	Kind       string `json:"kind"` // msg | ack
	HaveLocal  bool   `json:"haveLocal"`
	Closed     bool   `json:"closed"` // the local channel is registered but already closed
	Owner      string `json:"owner"`  // "" = nobody, "self", or peer name
	Addr       bool   `json:"addr"`
	Stream     bool   `json:"stream"`
	OtherPair  bool   `json:"otherpair"` // peer state for the owner exists, but only with streams of another shard pair
	Memberlist bool   `json:"memberlist"`
}

func vgoRunRoute(rc vgoRouteCase) map[string]interface{} {
	self := "a"
	var mcfg *config.MemberlistConfig
	if rc.Memberlist {
		mcfg = &config.MemberlistConfig{NodeName: self, ProxyAddresses: map[string]string{}}
		if rc.Addr {
			mcfg.ProxyAddresses["b"] = "127.0.0.1:1"
			mcfg.ProxyAddresses[self] = "127.0.0.1:2"
		}
	}
	sm := NewShardManager(mcfg, config.ShardCountConfig{Mode: config.ShardCountRouting, LocalShardCount: 2, RemoteShardCount: 2},
		encryption.TLSConfig{}, vrtLoggers()).(*shardManagerImpl)
	tgt := history.ClusterShardID{ClusterID: 2, ShardID: 1}
	src := history.ClusterShardID{ClusterID: 1, ShardID: 1}
	shard := tgt
	if rc.Kind == "ack" {
		shard = src
	}
	localMsg := make(chan RoutedMessage, 4)
	localAck := make(chan RoutedAck, 4)
	if rc.HaveLocal {
		if rc.Kind == "msg" {
			sm.SetRemoteSendChan(tgt, localMsg)
		} else {
			sm.SetLocalAckChan(src, localAck)
		}
	}
	if rc.HaveLocal && rc.Closed {
		close(localMsg)
		close(localAck)
	}
	if rc.Owner != "" {
		name := rc.Owner
		if name == "self" {
			name = self
		}
		sm.remoteNodeStates[name] = NodeShardState{NodeName: name, Shards: map[string]ShardInfo{ClusterShardIDtoShortString(shard): {ID: shard, Created: time.Now()}}}
	}
	srv, cli := &vgoCapSrv{}, &vgoCapCli{}
	if rc.Stream && sm.intraMgr != nil {
		key := peerStreamKey{targetShard: tgt, sourceShard: src}
		sm.intraMgr.peers["b"] = &peerState{
			senders:      map[peerStreamKey]*intraProxyStreamSender{key: {logger: log.NewNoopLogger(), sourceStreamServer: srv, targetShardID: tgt, sourceShardID: src}},
			receivers:    map[peerStreamKey]*intraProxyStreamReceiver{key: {logger: log.NewNoopLogger(), streamClient: cli, targetShardID: tgt, sourceShardID: src}},
			recvShutdown: map[peerStreamKey]channel.ShutdownOnce{},
		}
	}
	srvO, cliO := &vgoCapSrv{}, &vgoCapCli{}
	if rc.OtherPair && !rc.Stream && sm.intraMgr != nil {
		tgt2 := history.ClusterShardID{ClusterID: 2, ShardID: 2}
		src2 := history.ClusterShardID{ClusterID: 1, ShardID: 2}
		key := peerStreamKey{targetShard: tgt2, sourceShard: src2}
		sm.intraMgr.peers["b"] = &peerState{
			senders:      map[peerStreamKey]*intraProxyStreamSender{key: {logger: log.NewNoopLogger(), sourceStreamServer: srvO, targetShardID: tgt2, sourceShardID: src2}},
			receivers:    map[peerStreamKey]*intraProxyStreamReceiver{key: {logger: log.NewNoopLogger(), streamClient: cliO, targetShardID: tgt2, sourceShardID: src2}},
			recvShutdown: map[peerStreamKey]channel.ShutdownOnce{},
		}
	}
	sd := channel.NewShutdownOnce()
	var res bool
	pan := ""
	func() {
		defer func() {
			if r := recover(); r != nil {
				pan = fmt.Sprint(r)
			}
		}()
		if rc.Kind == "msg" {
			m := &RoutedMessage{SourceShard: src, Resp: &adminservice.StreamWorkflowReplicationMessagesResponse{Attributes: &adminservice.StreamWorkflowReplicationMessagesResponse_Messages{
				Messages: &replicationv1.WorkflowReplicationMessages{ExclusiveHighWatermark: 5}}}}
			res = sm.DeliverMessagesToShardOwner(tgt, m, sd, log.NewNoopLogger())
		} else {
			a := &RoutedAck{TargetShard: tgt, Req: &adminservice.StreamWorkflowReplicationMessagesRequest{Attributes: &adminservice.StreamWorkflowReplicationMessagesRequest_SyncReplicationState{
				SyncReplicationState: &replicationv1.SyncReplicationState{InclusiveLowWatermark: 5}}}}
			res = sm.DeliverAckToShardOwner(src, a, sd, log.NewNoopLogger(), 5, true)
		}
	}()
	nLocal := len(localMsg) + len(localAck)
	nRemote := srv.got + cli.got + srvO.got + cliO.got // a hand-off on another pair's stream is a wrong delivery too
	return map[string]interface{}{"ev": "Route", "id": rc.ID, "kind": rc.Kind, "haveLocal": rc.HaveLocal, "closed": rc.Closed, "owner": rc.Owner, "addr": rc.Addr,
		"stream": rc.Stream, "otherpair": rc.OtherPair, "memberlist": rc.Memberlist, "result": res, "local": nLocal, "remote": nRemote, "panic": pan}
}

func TestVerifGossipSchedules(t *testing.T) {
	in := os.Getenv("VERIF_IN")
	if in == "" {
		t.Skip("VERIF_IN not set")
	}
	f, err := os.Open(in)
	if err != nil {
		t.Fatal(err)
	}
	defer f.Close()
	outf, err := os.Create(os.Getenv("VERIF_OUT"))
	if err != nil {
		t.Fatal(err)
	}
	defer outf.Close()
	w := bufio.NewWriterSize(outf, 1<<16)
	defer w.Flush()
	h := &vgoHarness{enc: json.NewEncoder(w), wait: 1500 * time.Millisecond, inst: map[string]*vgoInst{}}
	vhook.Set(h.hook)
	defer vhook.Set(nil)
	sc := bufio.NewScanner(f)
	sc.Buffer(make([]byte, 1<<20), 1<<26)
	for sc.Scan() {
		if len(sc.Bytes()) == 0 {
			continue
		}
		var probe struct {
			Route *vgoRouteCase `json:"route"`
		}
		_ = json.Unmarshal(sc.Bytes(), &probe)
		if probe.Route != nil {
			h.mu.Lock()
			h.emit(vgoRunRoute(*probe.Route))
			h.mu.Unlock()
			continue
		}
		var s vgoSched
		if err := json.Unmarshal(sc.Bytes(), &s); err != nil {
			t.Fatalf("bad schedule: %v", err)
		}
		h.runSchedule(&s)
		w.Flush()
	}
	for _, in := range h.inst {
		if in.ml != nil {
			_ = in.ml.Shutdown()
		}
	}
}
