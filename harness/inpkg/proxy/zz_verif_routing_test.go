//go:build verif

package proxy

// Verification harness for C01-C04 (Routing): drives the REAL streamRouting / proxyStreamSender /
// proxyStreamReceiver / shardManagerImpl with fake gRPC streams whose methods are the scheduling gates
// and the logging points. The harness executes schedules derived from TLC behaviours
// (spec/Routing) and records one NDJSON event per linearization point; it contains no oracle:
// verdicts come from TLC evaluating spec/Routing/RoutingObs.tla on the recorded trace.
//
// Source cluster A = cluster id 1 (shards s), target cluster B = cluster id 2 (shards t); data flows A -> B.

import (
	"bufio"
	"context"
	"encoding/json"
	"errors"
	"fmt"
	"io"
	"math/rand"
	"os"
	"sync"
	"testing"
	"time"

	commonpb "go.temporal.io/api/common/v1"
	"go.temporal.io/server/api/adminservice/v1"
	enumsspb "go.temporal.io/server/api/enums/v1"
	persistencespb "go.temporal.io/server/api/persistence/v1"
	replicationv1 "go.temporal.io/server/api/replication/v1"
	"go.temporal.io/server/client/history"
	servercommon "go.temporal.io/server/common"
	"go.temporal.io/server/common/log"
	"google.golang.org/grpc"
	"google.golang.org/grpc/metadata"
	"google.golang.org/protobuf/proto"

	"github.com/temporalio/s2s-proxy/config"
	"github.com/temporalio/s2s-proxy/encryption"
	"github.com/temporalio/s2s-proxy/internal/vhook"
	"github.com/temporalio/s2s-proxy/logging"
)

const (
	vrtClusterA = 1
	vrtClusterB = 2
)

type vrtCmd struct {
	C   string `json:"c"`
	S   int    `json:"s,omitempty"`
	T   int    `json:"t,omitempty"`
	K   int    `json:"k,omitempty"`
	I   int    `json:"i,omitempty"`
	Pid int64  `json:"pid,omitempty"`
	N   int    `json:"n,omitempty"`
}

type vrtSchedule struct {
	ID    string           `json:"id"`
	NS    int              `json:"ns"`
	NT    int              `json:"nt"`
	Route map[string][]int `json:"route"` // source shard -> owner target of id 1..MaxId
	Late  []int            `json:"late"`
	// Stride: the k-th task of a source carries task id k*Stride and a batch ending before k carries the exclusive high
	// watermark k*Stride-1 (Stride > 1): Temporal's task ids are sparse and its watermark is not "last id + 1"
	Stride int `json:"stride"`
	// Rawless: tasks carry no raw_task_info (what a sender older than the field sends); namespace id, workflow id and run id are
	// in the task attributes only
	Rawless bool     `json:"rawless"`
	Cmds    []vrtCmd `json:"cmds"`
}

type vrtTok struct {
	S  int
	ID int64
}

// ---------------------------------------------------------------- harness state
type vrtHarness struct {
	mu      sync.Mutex // the single trace mutex: event order = linearization
	enc     *json.Encoder
	seq     int
	run     int
	sm      *shardManagerImpl
	sched   *vrtSchedule
	wfByTgt map[int]string
	srcs    map[int]*vrtSrc
	tgts    map[int]*vrtTgt
	tokens  map[string]vrtTok
	orig    map[string]*replicationv1.ReplicationTask
	rng     *rand.Rand
	nextID  map[int]int64
	srcAck  map[int]int64
	cmdWait time.Duration
	holdTgt map[int]chan struct{} // target shard -> release channel while its sender is to be held after close(sendMsgChan)
	heldTgt map[int]bool
	ackHold map[int]string        // source shard -> "armed" | "blocked": its receiver is (to be) parked inside Send of an ack
	ackGate map[int]chan struct{} // release channel of a parked Send
	idPool  map[[2]int][3]string  // (ownerA, ownerB) -> nsA, nsB, wf with hash(nsA,wf)=ownerA and hash(nsB,wf)=ownerB
	wfPool  map[int][]string
}

// hook handler: holds a proxyStreamSender right after close(sendMsgChan) when the schedule asks for it
func (h *vrtHarness) hook(point string, kv ...any) {
	if point != "sender.run.afterClose" || len(kv) < 2 {
		return
	}
	sh, ok := kv[1].(history.ClusterShardID)
	if !ok || sh.ClusterID != vrtClusterB {
		return
	}
	h.mu.Lock()
	rel := h.holdTgt[int(sh.ShardID)]
	if rel == nil {
		h.mu.Unlock()
		return
	}
	h.heldTgt[int(sh.ShardID)] = true
	h.emit(map[string]interface{}{"ev": "TgtHeld", "t": int(sh.ShardID)})
	h.mu.Unlock()
	<-rel
}

func (h *vrtHarness) emit(ev map[string]interface{}) { // caller holds h.mu
	h.seq++
	ev["n"] = h.seq
	ev["run"] = h.run
	_ = h.enc.Encode(ev)
}
func (h *vrtHarness) log(ev map[string]interface{}) {
	h.mu.Lock()
	h.emit(ev)
	h.mu.Unlock()
}

// ---------------------------------------------------------------- fake source side (client stream opened by R[s])
type vrtSrc struct {
	h      *vrtHarness
	s      int
	inc    int
	stream *vrtSrcStream
	done   chan struct{} // closed when streamRouting for this incarnation returned
	srv    *vrtSrvStream
}

type vrtSrcStream struct {
	grpc.ClientStream
	h        *vrtHarness
	s, inc   int
	ctx      context.Context
	batchCh  chan *adminservice.StreamWorkflowReplicationMessagesResponse
	broken   chan struct{}
	brokenMu sync.Once
	halfMu   sync.Once
	half     chan struct{}
	inRecv   bool // guarded by h.mu
	lastReq  *adminservice.StreamWorkflowReplicationMessagesRequest
	run      int
}

func (c *vrtSrcStream) Context() context.Context { return c.ctx }
func (c *vrtSrcStream) CloseSend() error {
	c.halfMu.Do(func() { close(c.half) })
	return nil
}
func (c *vrtSrcStream) Recv() (*adminservice.StreamWorkflowReplicationMessagesResponse, error) {
	c.h.mu.Lock()
	c.inRecv = true
	c.h.mu.Unlock()
	defer func() {
		c.h.mu.Lock()
		c.inRecv = false
		c.h.mu.Unlock()
	}()
	select {
	case m := <-c.batchCh:
		ids := []int64{}
		for _, t := range m.GetMessages().GetReplicationTasks() {
			ids = append(ids, t.SourceTaskId)
		}
		c.h.mu.Lock()
		c.inRecv = false
		if c.run != c.h.run {
			c.h.mu.Unlock()
			return nil, errors.New("verif: stream of an earlier run")
		}
		c.h.emit(map[string]interface{}{"ev": "SrcBatch", "s": c.s, "inc": c.inc, "ids": ids,
			"high": m.GetMessages().GetExclusiveHighWatermark()})
		c.h.mu.Unlock()
		return m, nil
	case <-c.broken:
		return nil, errors.New("verif: source stream broken")
	case <-c.half:
		return nil, io.EOF // peer ends the stream after the proxy half-closed
	case <-c.ctx.Done():
		return nil, c.ctx.Err()
	}
}
func (c *vrtSrcStream) Send(req *adminservice.StreamWorkflowReplicationMessagesRequest) error {
	select {
	case <-c.broken:
		return io.EOF
	case <-c.ctx.Done():
		return c.ctx.Err()
	default:
	}
	a := req.GetSyncReplicationState().GetInclusiveLowWatermark()
	c.h.mu.Lock()
	if c.run != c.h.run {
		c.h.mu.Unlock()
		return io.EOF
	}
	// the receiver's keep-alive re-sends the very same request object; aggregated acks are fresh allocations
	ka := req == c.lastReq
	c.lastReq = req
	ev := map[string]interface{}{"ev": "SrcAck", "s": c.s, "inc": c.inc, "a": a, "ka": ka}
	c.h.srcAck[c.s] = a
	c.h.emit(ev)
	// "holdack": this Send (the ack has been handed to the stream) blocks until "releaseack": the receiver's ack loop is parked,
	// later acks for this source queue up in its ack channel
	var gate chan struct{}
	if c.h.ackHold[c.s] == "armed" && !ka {
		c.h.ackHold[c.s] = "blocked"
		gate = make(chan struct{})
		c.h.ackGate[c.s] = gate
		c.h.emit(map[string]interface{}{"ev": "SrcAckHeld", "s": c.s})
	}
	c.h.mu.Unlock()
	if gate != nil {
		select {
		case <-gate:
		case <-c.broken:
		case <-c.ctx.Done():
		}
	}
	return nil
}

// fake AdminServiceClient handed to streamRouting as adminClientReverse
type vrtClient struct {
	adminservice.AdminServiceClient
	h       *vrtHarness
	cluster int
	run     int
}

func (c *vrtClient) StreamWorkflowReplicationMessages(ctx context.Context, _ ...grpc.CallOption) (adminservice.AdminService_StreamWorkflowReplicationMessagesClient, error) {
	md, _ := metadata.FromOutgoingContext(ctx)
	var shard int
	if v := md.Get(history.MetadataKeyServerShardID); len(v) > 0 {
		fmt.Sscanf(v[0], "%d", &shard)
	}
	c.h.mu.Lock()
	runNow := c.h.run
	c.h.mu.Unlock()
	if c.run != runNow {
		return nil, errors.New("verif: client of an earlier run")
	}
	st := &vrtSrcStream{h: c.h, run: runNow, s: shard, ctx: ctx, batchCh: make(chan *adminservice.StreamWorkflowReplicationMessagesResponse),
		broken: make(chan struct{}), half: make(chan struct{})}
	if c.cluster == vrtClusterA {
		c.h.mu.Lock()
		src := c.h.srcs[shard]
		st.inc = src.inc
		src.stream = st
		// the new receiver incarnation exists from here on (before it registers its ack channel)
		c.h.emit(map[string]interface{}{"ev": "SrcOpen", "s": shard, "inc": src.inc, "resume": c.h.srcAck[shard]})
		c.h.mu.Unlock()
	}
	return st, nil
}

// ---------------------------------------------------------------- fake server stream (a cluster shard connected to the proxy)
type vrtTrkTask struct {
	pid int64
}
type vrtSrvStream struct {
	grpc.ServerStream
	h        *vrtHarness
	cluster  int
	shard    int
	inc      int
	ctx      context.Context
	cancel   context.CancelFunc
	broken   chan struct{}
	brokenMu sync.Once
	ackCh    chan int64
	gate     chan struct{} // one token per "send" command
	run      int           // the run this stream belongs to (a straggler of an earlier run must not log into a later one)
	// guarded by h.mu:
	waiting bool // the proxy is blocked in Send
	inRecv  bool
	trkHigh int64
	hasHigh bool
	trkQ    []int64
	lastMsg time.Time
}

func (s *vrtSrvStream) Context() context.Context { return s.ctx }
func (s *vrtSrvStream) doBreak() {
	s.brokenMu.Do(func() { close(s.broken) })
}
func (s *vrtSrvStream) lowWm() (int64, bool) { // caller holds h.mu
	if len(s.trkQ) > 0 {
		return s.trkQ[0], true
	}
	return s.trkHigh, s.hasHigh
}
func (s *vrtSrvStream) Recv() (*adminservice.StreamWorkflowReplicationMessagesRequest, error) {
	s.h.mu.Lock()
	s.inRecv = true
	s.h.mu.Unlock()
	defer func() {
		s.h.mu.Lock()
		s.inRecv = false
		s.h.mu.Unlock()
	}()
	select {
	case w := <-s.ackCh:
		return &adminservice.StreamWorkflowReplicationMessagesRequest{
			Attributes: &adminservice.StreamWorkflowReplicationMessagesRequest_SyncReplicationState{
				SyncReplicationState: &replicationv1.SyncReplicationState{InclusiveLowWatermark: w}}}, nil
	case <-s.broken:
		return nil, errors.New("verif: target stream broken")
	}
}
func (s *vrtSrvStream) Send(resp *adminservice.StreamWorkflowReplicationMessagesResponse) error {
	s.h.mu.Lock()
	s.waiting = true
	s.h.mu.Unlock()
	select {
	case <-s.gate:
	case <-s.broken:
		s.h.mu.Lock()
		s.waiting = false
		s.h.mu.Unlock()
		return errors.New("verif: target stream broken")
	}
	m := resp.GetMessages()
	s.h.mu.Lock()
	defer s.h.mu.Unlock()
	s.waiting = false
	if s.run != s.h.run {
		return errors.New("verif: stream of an earlier run")
	}
	high := m.GetExclusiveHighWatermark()
	pids := []int64{}
	tasks := []map[string]interface{}{}
	payloadOK := true
	for _, t := range m.GetReplicationTasks() {
		pids = append(pids, t.SourceTaskId)
		tok := t.GetHistoryTaskAttributes().GetRunId()
		if t.RawTaskInfo != nil {
			tok = t.RawTaskInfo.RunId
			if t.RawTaskInfo.TaskId != t.SourceTaskId {
				payloadOK = false
			}
		}
		tk, known := s.h.tokens[tok]
		if !known {
			payloadOK = false
		} else {
			// payload unchanged apart from the task-id fields
			o := proto.Clone(s.h.orig[tok]).(*replicationv1.ReplicationTask)
			g := proto.Clone(t).(*replicationv1.ReplicationTask)
			o.SourceTaskId, g.SourceTaskId = 0, 0
			if o.RawTaskInfo != nil && g.RawTaskInfo != nil {
				o.RawTaskInfo.TaskId, g.RawTaskInfo.TaskId = 0, 0
			}
			if !proto.Equal(o, g) {
				payloadOK = false
			}
		}
		owner := 0
		if t.RawTaskInfo != nil {
			owner = int(servercommon.WorkflowIDToHistoryShard(t.RawTaskInfo.NamespaceId, t.RawTaskInfo.WorkflowId, int32(s.h.sched.NT)))
		} else if a := t.GetHistoryTaskAttributes(); a != nil {
			owner = int(servercommon.WorkflowIDToHistoryShard(a.NamespaceId, a.WorkflowId, int32(s.h.sched.NT)))
		}
		tasks = append(tasks, map[string]interface{}{"pid": t.SourceTaskId, "s": tk.S, "id": tk.ID, "owner": owner})
	}
	// Temporal's ExecutableTaskTracker.TrackTasks
	accepted := !(s.hasHigh && high <= s.trkHigh)
	droppedTasks := 0
	panicky := false
	if accepted {
		last := int64(-1)
		if len(s.trkQ) > 0 {
			last = s.trkQ[len(s.trkQ)-1]
		}
		for _, p := range pids {
			if last >= p {
				droppedTasks++
				continue
			}
			s.trkQ = append(s.trkQ, p)
			last = p
		}
		if high <= last {
			panicky = true
		}
		s.trkHigh, s.hasHigh = high, true
	} else {
		droppedTasks = len(pids)
	}
	// the sender's keep-alive needs 1 s without a message on this stream
	ka := len(pids) == 0 && !s.lastMsg.IsZero() && time.Since(s.lastMsg) > 900*time.Millisecond
	s.lastMsg = time.Now()
	s.h.emit(map[string]interface{}{"ev": "TgtMsg", "t": s.shard, "inc": s.inc, "pids": pids, "high": high, "ka": ka,
		"tasks": tasks, "accepted": accepted, "dropped": droppedTasks, "panic": panicky, "payload_ok": payloadOK,
		"prio": int(m.GetPriority())})
	return nil
}

// ---------------------------------------------------------------- target side bookkeeping
type vrtTgt struct {
	h    *vrtHarness
	t    int
	inc  int
	srv  *vrtSrvStream
	done chan struct{}
	up   bool
	// replaced incarnation that is still open (the target cluster re-established the stream before the proxy noticed the
	// old one's death): replacetgt / endold
	old     *vrtSrvStream
	oldDone chan struct{}
}

func vrtIsLocal(sm *shardManagerImpl, k history.ClusterShardID) bool {
	sm.mutex.RLock()
	defer sm.mutex.RUnlock()
	_, ok := sm.localShards[ClusterShardIDtoShortString(k)]
	return ok
}

func vrtLoggers() logging.LoggerProvider {
	return logging.NewLoggerProvider(log.NewNoopLogger(), config.NewMockConfigProvider(config.S2SProxyConfig{}))
}

func vrtNewHarness(enc *json.Encoder, seed int64) *vrtHarness {
	return &vrtHarness{enc: enc, rng: rand.New(rand.NewSource(seed)), cmdWait: 1500 * time.Millisecond}
}

func (h *vrtHarness) reset(sc *vrtSchedule) {
	h.mu.Lock()
	h.run++
	h.sched = sc
	h.sm = NewShardManager(nil, config.ShardCountConfig{Mode: config.ShardCountRouting, LocalShardCount: int32(sc.NS), RemoteShardCount: int32(sc.NT)},
		encryption.TLSConfig{}, vrtLoggers()).(*shardManagerImpl)
	h.sm.SetupCallbacks()
	h.srcs, h.tgts = map[int]*vrtSrc{}, map[int]*vrtTgt{}
	h.tokens, h.orig = map[string]vrtTok{}, map[string]*replicationv1.ReplicationTask{}
	h.nextID, h.srcAck = map[int]int64{}, map[int]int64{}
	h.holdTgt, h.heldTgt = map[int]chan struct{}{}, map[int]bool{}
	for _, g := range h.ackGate {
		close(g)
	}
	h.ackHold, h.ackGate = map[int]string{}, map[int]chan struct{}{}
	h.wfByTgt = map[int]string{}
	h.wfPool = map[int][]string{}
	h.idPool = map[[2]int][3]string{}
	for i := 0; i < 4000; i++ {
		wf := fmt.Sprintf("wf-%d", i)
		t := int(servercommon.WorkflowIDToHistoryShard("verif-ns-id", wf, int32(sc.NT)))
		if _, ok := h.wfByTgt[t]; !ok {
			h.wfByTgt[t] = wf
		}
		if len(h.wfPool[t]) < 4 {
			h.wfPool[t] = append(h.wfPool[t], wf)
		}
		// one workflow id that lives in two namespaces with different owners
		ta := int(servercommon.WorkflowIDToHistoryShard("verif-ns-a", wf, int32(sc.NT)))
		tb := int(servercommon.WorkflowIDToHistoryShard("verif-ns-b", wf, int32(sc.NT)))
		if ta != tb {
			if _, ok := h.idPool[[2]int{ta, tb}]; !ok {
				h.idPool[[2]int{ta, tb}] = [3]string{"verif-ns-a", "verif-ns-b", wf}
			}
		}
	}
	h.emit(map[string]interface{}{"ev": "Config", "id": sc.ID, "ns": sc.NS, "nt": sc.NT, "route": sc.Route, "late": sc.Late, "stride": h.stride(), "rawless": sc.Rawless})
	h.mu.Unlock()
	late := map[int]bool{}
	for _, t := range sc.Late {
		late[t] = true
	}
	for t := 1; t <= sc.NT; t++ {
		h.tgts[t] = &vrtTgt{h: h, t: t}
		if !late[t] {
			h.openTgt(t)
		}
	}
	for s := 1; s <= sc.NS; s++ {
		h.srcs[s] = &vrtSrc{h: h, s: s}
		h.nextID[s] = 1
		h.openSrc(s)
	}
}

func (h *vrtHarness) waitFor(cond func() bool, d time.Duration) bool {
	deadline := time.Now().Add(d)
	for {
		h.mu.Lock()
		ok := cond()
		h.mu.Unlock()
		if ok {
			return true
		}
		if time.Now().After(deadline) {
			return false
		}
		time.Sleep(200 * time.Microsecond)
	}
}

func (h *vrtHarness) newSrv(cluster, shard, inc int) *vrtSrvStream {
	ctx, cancel := context.WithCancel(context.Background())
	return &vrtSrvStream{h: h, run: h.run, cluster: cluster, shard: shard, inc: inc, ctx: ctx, cancel: cancel,
		broken: make(chan struct{}), ackCh: make(chan int64, 8), gate: make(chan struct{}, 64)}
}

// openTgt: target shard t (cluster B) opens its stream to the proxy, as handleStream would run it.
func (h *vrtHarness) openTgt(t int) bool {
	tg := h.tgts[t]
	// a replacement registers over its predecessor: wait for ITS channel
	prevChan, _ := h.sm.GetRemoteSendChan(history.ClusterShardID{ClusterID: vrtClusterB, ShardID: int32(t)})
	h.mu.Lock()
	tg.inc++
	srv := h.newSrv(vrtClusterB, t, tg.inc)
	tg.srv = srv
	tg.done = make(chan struct{})
	done := tg.done
	h.mu.Unlock()
	go func() {
		defer close(done)
		_ = streamRouting(log.NewNoopLogger(), srv,
			history.ClusterShardID{ClusterID: vrtClusterA, ShardID: 1}, // server shard named by the connecting target
			history.ClusterShardID{ClusterID: vrtClusterB, ShardID: int32(t)},
			h.sm, &vrtClient{h: h, cluster: vrtClusterB, run: srv.run},
			RoutingParameters{RoutingLocalShardCount: int32(h.sched.NS), DirectionLabel: "inbound"}, context.Background())
	}()
	key := history.ClusterShardID{ClusterID: vrtClusterB, ShardID: int32(t)}
	ok := h.waitFor(func() bool {
		ch, reg := h.sm.GetRemoteSendChan(key)
		return reg && vrtIsLocal(h.sm, key) && ch != prevChan
	}, 2*time.Second)
	h.mu.Lock()
	tg.up = true
	h.emit(map[string]interface{}{"ev": "TgtOpen", "t": t, "inc": tg.inc, "registered": ok})
	h.mu.Unlock()
	return ok
}

func (h *vrtHarness) openSrc(s int) bool {
	src := h.srcs[s]
	h.mu.Lock()
	src.inc++
	src.stream = nil
	srv := h.newSrv(vrtClusterA, s, src.inc)
	src.srv = srv
	src.done = make(chan struct{})
	done := src.done
	h.mu.Unlock()
	go func() {
		defer close(done)
		_ = streamRouting(log.NewNoopLogger(), srv,
			history.ClusterShardID{ClusterID: vrtClusterB, ShardID: 1},
			history.ClusterShardID{ClusterID: vrtClusterA, ShardID: int32(s)},
			h.sm, &vrtClient{h: h, cluster: vrtClusterA, run: srv.run},
			RoutingParameters{RoutingLocalShardCount: int32(h.sched.NT), DirectionLabel: "outbound"}, context.Background())
	}()
	key := history.ClusterShardID{ClusterID: vrtClusterA, ShardID: int32(s)}
	ok := h.waitFor(func() bool {
		_, reg := h.sm.GetLocalAckChan(key)
		_, act := h.sm.GetActiveReceiver(key)
		return reg && act && src.stream != nil
	}, 2*time.Second)
	return ok
}

func (h *vrtHarness) stride() int64 {
	if h.sched == nil || h.sched.Stride <= 1 {
		return 1
	}
	return int64(h.sched.Stride)
}

// real task id / exclusive high watermark on the wire for position id / "everything before position high"
func (h *vrtHarness) real(id int64) int64 { return id * h.stride() }
func (h *vrtHarness) realHigh(high int64) int64 {
	if h.stride() == 1 {
		return high
	}
	return high*h.stride() - 1
}

// position of a wire value (task id or watermark)
func (h *vrtHarness) unreal(x int64) int64 { return (x + h.stride() - 1) / h.stride() }

func (h *vrtHarness) ownerOf(s int, id int64) int {
	r := h.sched.Route[fmt.Sprint(s)]
	if int(id) <= len(r) {
		return r[id-1]
	}
	return r[len(r)-1]
}

func (h *vrtHarness) mkTask(s int, id int64, ns, wf string) *replicationv1.ReplicationTask {
	owner := h.ownerOf(s, id)
	if wf == "" {
		ns = "verif-ns-id"
		pool := h.wfPool[owner]
		wf = pool[h.rng.Intn(len(pool))]
	}
	tok := fmt.Sprintf("tok-%d-%d-%d-%d", h.run, s, id, h.rng.Intn(1<<30))
	data := make([]byte, 8+h.rng.Intn(24))
	h.rng.Read(data)
	t := &replicationv1.ReplicationTask{
		TaskType:     enumsspb.REPLICATION_TASK_TYPE_HISTORY_TASK,
		SourceTaskId: h.real(id),
		Priority:     enumsspb.TASK_PRIORITY_UNSPECIFIED,
		RawTaskInfo: &persistencespb.ReplicationTaskInfo{
			NamespaceId: ns, WorkflowId: wf, RunId: tok, TaskId: h.real(id), Version: int64(100 + h.rng.Intn(100)),
			FirstEventId: int64(h.rng.Intn(1000)), NextEventId: int64(1000 + h.rng.Intn(1000)),
		},
		Data: &commonpb.DataBlob{Data: data},
	}
	if h.sched.Rawless {
		t.RawTaskInfo = nil
		t.Attributes = &replicationv1.ReplicationTask_HistoryTaskAttributes{HistoryTaskAttributes: &replicationv1.HistoryTaskAttributes{
			NamespaceId: ns, WorkflowId: wf, RunId: tok}}
	}
	h.tokens[tok] = vrtTok{S: s, ID: h.real(id)}
	h.orig[tok] = proto.Clone(t).(*replicationv1.ReplicationTask)
	return t
}

// exec runs one command; returns false when the command could not be realised in time.
func (h *vrtHarness) exec(c vrtCmd) bool {
	switch c.C {
	case "tasks", "wm":
		src := h.srcs[c.S]
		var st *vrtSrcStream
		if !h.waitFor(func() bool { st = src.stream; return st != nil && st.inRecv }, h.cmdWait) {
			return false
		}
		h.mu.Lock()
		first := h.nextID[c.S]
		var tasks []*replicationv1.ReplicationTask
		if c.C == "tasks" {
			// adjacent tasks with different owners share one workflow id in two namespaces when possible
			nss, wfs := make([]string, c.K), make([]string, c.K)
			for i := 1; i < c.K; i++ {
				oa, ob := h.ownerOf(c.S, first+int64(i-1)), h.ownerOf(c.S, first+int64(i))
				if p, ok := h.idPool[[2]int{oa, ob}]; ok && wfs[i-1] == "" {
					nss[i-1], wfs[i-1], nss[i], wfs[i] = p[0], p[2], p[1], p[2]
				}
			}
			for i := 0; i < c.K; i++ {
				tasks = append(tasks, h.mkTask(c.S, first+int64(i), nss[i], wfs[i]))
			}
			h.nextID[c.S] = first + int64(c.K)
		}
		high := h.nextID[c.S]
		h.mu.Unlock()
		msg := &adminservice.StreamWorkflowReplicationMessagesResponse{
			Attributes: &adminservice.StreamWorkflowReplicationMessagesResponse_Messages{
				Messages: &replicationv1.WorkflowReplicationMessages{ReplicationTasks: tasks, ExclusiveHighWatermark: h.realHigh(high)}}}
		before := h.seqNow()
		select {
		case st.batchCh <- msg:
			return h.waitFor(func() bool { return h.seq > before }, h.cmdWait)
		case <-time.After(h.cmdWait):
			return false
		}
	case "send":
		tg := h.tgts[c.T]
		var srv *vrtSrvStream
		if !h.waitFor(func() bool { srv = tg.srv; return tg.up && srv != nil && srv.waiting }, h.cmdWait) {
			return false
		}
		before := h.seqNow()
		srv.gate <- struct{}{}
		return h.waitFor(func() bool { return h.seq > before }, h.cmdWait)
	case "done":
		tg := h.tgts[c.T]
		h.mu.Lock()
		defer h.mu.Unlock()
		srv := tg.srv
		if !tg.up || srv == nil || c.I < 1 || c.I > len(srv.trkQ) {
			return false
		}
		pid := srv.trkQ[c.I-1]
		srv.trkQ = append(append([]int64{}, srv.trkQ[:c.I-1]...), srv.trkQ[c.I:]...)
		h.emit(map[string]interface{}{"ev": "TgtDone", "t": c.T, "inc": srv.inc, "pid": pid})
		return true
	case "ack":
		tg := h.tgts[c.T]
		h.mu.Lock()
		defer h.mu.Unlock()
		srv := tg.srv
		if !tg.up || srv == nil {
			return false
		}
		w, ok := srv.lowWm()
		if !ok || len(srv.ackCh) == cap(srv.ackCh) {
			return false
		}
		srv.ackCh <- w
		h.emit(map[string]interface{}{"ev": "TgtAck", "t": c.T, "inc": srv.inc, "w": w})
		return true
	case "breaktgt":
		tg := h.tgts[c.T]
		h.mu.Lock()
		if !tg.up {
			h.mu.Unlock()
			return false
		}
		tg.up = false
		srv := tg.srv
		h.emit(map[string]interface{}{"ev": "TgtClose", "t": c.T, "inc": srv.inc})
		h.mu.Unlock()
		srv.doBreak()
		select {
		case <-tg.done:
		case <-time.After(5 * time.Second):
			h.log(map[string]interface{}{"ev": "Stuck", "what": "target stream did not end", "t": c.T})
			return false
		}
		h.log(map[string]interface{}{"ev": "TgtGone", "t": c.T, "inc": srv.inc})
		return true
	case "holdack":
		h.mu.Lock()
		h.ackHold[c.S] = "armed"
		h.emit(map[string]interface{}{"ev": "SrcAckArm", "s": c.S})
		h.mu.Unlock()
		return true
	case "releaseack":
		h.mu.Lock()
		g := h.ackGate[c.S]
		st := h.ackHold[c.S]
		delete(h.ackGate, c.S)
		delete(h.ackHold, c.S)
		h.emit(map[string]interface{}{"ev": "SrcAckRelease", "s": c.S, "was": st})
		h.mu.Unlock()
		if g != nil {
			close(g)
		}
		return st == "blocked"
	case "holdtgt":
		// break the target stream and hold its sender right after close(sendMsgChan): closed but still registered
		tg := h.tgts[c.T]
		h.mu.Lock()
		if !tg.up {
			h.mu.Unlock()
			return false
		}
		tg.up = false
		srv := tg.srv
		h.holdTgt[c.T] = make(chan struct{})
		h.emit(map[string]interface{}{"ev": "TgtClose", "t": c.T, "inc": srv.inc})
		h.mu.Unlock()
		srv.doBreak()
		return h.waitFor(func() bool { return h.heldTgt[c.T] }, 3*time.Second)
	case "releasetgt":
		tg := h.tgts[c.T]
		h.mu.Lock()
		rel := h.holdTgt[c.T]
		delete(h.holdTgt, c.T)
		delete(h.heldTgt, c.T)
		if rel == nil {
			h.mu.Unlock()
			return false
		}
		h.emit(map[string]interface{}{"ev": "TgtRelease", "t": c.T})
		h.mu.Unlock()
		close(rel)
		select {
		case <-tg.done:
		case <-time.After(5 * time.Second):
			h.log(map[string]interface{}{"ev": "Stuck", "what": "target stream did not end", "t": c.T})
			return false
		}
		h.log(map[string]interface{}{"ev": "TgtGone", "t": c.T, "inc": tg.srv.inc})
		return true
	case "idle":
		// one second without traffic: the proxy's keep-alive timers fire; targets accept what they are sent
		time.Sleep(2100 * time.Millisecond)
		for t := 1; t <= h.sched.NT; t++ {
			tg := h.tgts[t]
			h.mu.Lock()
			w := tg.up && tg.srv != nil && tg.srv.waiting && len(h.chanOf(t)) == 0
			h.mu.Unlock()
			if w {
				h.exec(vrtCmd{C: "send", T: t})
			}
		}
		h.log(map[string]interface{}{"ev": "Idle"})
		return true
	case "flood":
		// c.N rounds of (one task, one watermark) from source c.S while target c.T is stalled (accepts nothing);
		// every other target keeps up. Fills the stalled target's real 100-slot queue with watermarks.
		for r := 0; r < c.N; r++ {
			if !h.exec(vrtCmd{C: "tasks", S: c.S, K: 1}) || !h.exec(vrtCmd{C: "wm", S: c.S}) {
				return false
			}
			if !h.drainExcept(c.T) {
				return false
			}
		}
		return true
	case "reopentgt":
		if h.tgts[c.T].up {
			return false
		}
		return h.openTgt(c.T)
	case "replacetgt":
		// the target cluster re-establishes the stream of shard c.T while its previous incarnation is still open
		tg := h.tgts[c.T]
		h.mu.Lock()
		if !tg.up || tg.old != nil {
			h.mu.Unlock()
			return false
		}
		tg.old, tg.oldDone = tg.srv, tg.done
		h.emit(map[string]interface{}{"ev": "TgtReplace", "t": c.T, "inc": tg.srv.inc})
		h.mu.Unlock()
		return h.openTgt(c.T)
	case "endold":
		// ... and the previous incarnation's stream ends
		tg := h.tgts[c.T]
		h.mu.Lock()
		old, done := tg.old, tg.oldDone
		tg.old, tg.oldDone = nil, nil
		if old == nil {
			h.mu.Unlock()
			return false
		}
		h.emit(map[string]interface{}{"ev": "TgtOldClose", "t": c.T, "inc": old.inc})
		h.mu.Unlock()
		old.doBreak()
		select {
		case <-done:
		case <-time.After(5 * time.Second):
			h.log(map[string]interface{}{"ev": "Stuck", "what": "replaced target stream did not end", "t": c.T})
			return false
		}
		h.log(map[string]interface{}{"ev": "TgtOldGone", "t": c.T, "inc": old.inc})
		return true
	case "breaksrc":
		src := h.srcs[c.S]
		h.mu.Lock()
		st := src.stream
		if st == nil {
			h.mu.Unlock()
			return false
		}
		src.stream = nil
		h.emit(map[string]interface{}{"ev": "SrcClose", "s": c.S, "inc": st.inc})
		h.mu.Unlock()
		st.brokenMu.Do(func() { close(st.broken) })
		src.srv.doBreak()
		select {
		case <-src.done:
		case <-time.After(5 * time.Second):
			h.log(map[string]interface{}{"ev": "Stuck", "what": "source stream did not end", "s": c.S})
			return false
		}
		h.mu.Lock()
		// the source cluster resumes from the level it was last acknowledged
		if a := h.srcAck[c.S]; a > 0 {
			h.nextID[c.S] = h.unreal(a)
		} else {
			h.nextID[c.S] = 1
		}
		h.emit(map[string]interface{}{"ev": "SrcGone", "s": c.S, "inc": st.inc, "resume": h.nextID[c.S]})
		h.mu.Unlock()
		return true
	case "reopensrc":
		if h.srcs[c.S].stream != nil {
			return false
		}
		return h.openSrc(c.S)
	case "drain":
		return h.drain()
	case "tick":
		// one virtual second of a cooperative environment (Temporal's periodic behaviour): every source sends its
		// watermark-only batch, every target that has received anything re-sends its low watermark
		for s := 1; s <= h.sched.NS; s++ {
			if h.srcs[s].stream != nil && h.nextID[s] > 1 {
				if !h.exec(vrtCmd{C: "wm", S: s}) {
					return false
				}
			}
		}
		if !h.drain() {
			return false
		}
		for t := 1; t <= h.sched.NT; t++ {
			tg := h.tgts[t]
			h.mu.Lock()
			can := tg.up && tg.srv != nil && tg.srv.hasHigh
			h.mu.Unlock()
			if can && !h.exec(vrtCmd{C: "ack", T: t}) {
				return false
			}
		}
		ok := h.drain()
		h.log(map[string]interface{}{"ev": "Tick"})
		return ok
	case "final":
		h.log(map[string]interface{}{"ev": "Final"})
		return true
	case "settle":
		ok := h.settle(h.cmdWait)
		h.mu.Lock()
		h.emit(h.quietEvent(ok))
		h.mu.Unlock()
		return true
	}
	return false
}

func (h *vrtHarness) chanOf(t int) chan RoutedMessage { // caller may hold mu
	ch, _ := h.sm.GetRemoteSendChan(history.ClusterShardID{ClusterID: vrtClusterB, ShardID: int32(t)})
	return ch
}

// drainExcept: like drain, but target `stalled` accepts nothing and is not waited for.
func (h *vrtHarness) drainExcept(stalled int) bool {
	deadline := time.Now().Add(4 * h.cmdWait)
	for time.Now().Before(deadline) {
		progressed := false
		busy := false
		for t := 1; t <= h.sched.NT; t++ {
			if t == stalled {
				continue
			}
			tg := h.tgts[t]
			h.mu.Lock()
			srv := tg.srv
			waiting := tg.up && srv != nil && srv.waiting
			nq := 0
			if tg.up && srv != nil {
				nq = len(srv.trkQ)
			}
			pendingCh := tg.up && len(h.chanOf(t)) > 0
			h.mu.Unlock()
			if waiting && h.exec(vrtCmd{C: "send", T: t}) {
				progressed = true
			}
			for i := 0; i < nq; i++ {
				if h.exec(vrtCmd{C: "done", T: t, I: 1}) {
					progressed = true
				}
			}
			if pendingCh || waiting {
				busy = true
			}
		}
		// the receiver must be back in Recv before the next batch
		h.mu.Lock()
		idle := true
		for _, src := range h.srcs {
			if src.stream != nil && !src.stream.inRecv {
				idle = false
			}
		}
		h.mu.Unlock()
		if !progressed && !busy && idle {
			return true
		}
		if !progressed {
			time.Sleep(200 * time.Microsecond)
		}
	}
	return false
}

// drain: the target clusters accept everything the proxy wants to send and complete every task, until quiescence.
func (h *vrtHarness) drain() bool {
	// a cooperative environment has every target connected
	for t := 1; t <= h.sched.NT; t++ {
		if !h.tgts[t].up && h.tgts[t].inc == 0 {
			h.openTgt(t)
		}
	}
	deadline := time.Now().Add(4 * h.cmdWait)
	for time.Now().Before(deadline) {
		progressed := false
		for t := 1; t <= h.sched.NT; t++ {
			tg := h.tgts[t]
			h.mu.Lock()
			srv := tg.srv
			waiting := tg.up && srv != nil && srv.waiting
			nq := 0
			if tg.up && srv != nil {
				nq = len(srv.trkQ)
			}
			h.mu.Unlock()
			if waiting {
				if h.exec(vrtCmd{C: "send", T: t}) {
					progressed = true
				}
			}
			for i := 0; i < nq; i++ {
				if h.exec(vrtCmd{C: "done", T: t, I: 1}) {
					progressed = true
				}
			}
		}
		if !progressed {
			if h.settle(h.cmdWait) {
				h.mu.Lock()
				any := false
				for _, tg := range h.tgts {
					if tg.up && tg.srv != nil && (tg.srv.waiting || len(tg.srv.trkQ) > 0) {
						any = true
					}
				}
				h.mu.Unlock()
				if !any {
					return true
				}
			}
		}
	}
	return false
}

func (h *vrtHarness) seqNow() int {
	h.mu.Lock()
	defer h.mu.Unlock()
	return h.seq
}

// quiescent: every receiver is blocked in Recv, every sender is idle or blocked in the Send gate, all queues empty.
func (h *vrtHarness) quiescentLocked() bool {
	for _, src := range h.srcs {
		if src.stream == nil {
			continue
		}
		if !src.stream.inRecv {
			return false
		}
		if ch, ok := h.sm.GetLocalAckChan(history.ClusterShardID{ClusterID: vrtClusterA, ShardID: int32(src.s)}); ok && len(ch) > 0 {
			return false
		}
	}
	for _, tg := range h.tgts {
		if !tg.up || tg.srv == nil {
			continue
		}
		if ch, ok := h.sm.GetRemoteSendChan(history.ClusterShardID{ClusterID: vrtClusterB, ShardID: int32(tg.t)}); ok && len(ch) > 0 && !tg.srv.waiting {
			return false
		}
		if !tg.srv.inRecv || len(tg.srv.ackCh) > 0 {
			return false
		}
	}
	return true
}

func (h *vrtHarness) settle(d time.Duration) bool {
	deadline := time.Now().Add(d)
	stable := 0
	last := -1
	for time.Now().Before(deadline) {
		h.mu.Lock()
		q := h.quiescentLocked()
		seq := h.seq
		h.mu.Unlock()
		if q && seq == last {
			stable++
			if stable >= 4 {
				return true
			}
		} else {
			stable = 0
		}
		last = seq
		time.Sleep(500 * time.Microsecond)
	}
	return false
}

func (h *vrtHarness) quietEvent(ok bool) map[string]interface{} {
	chans := map[string]int{}
	waiting := []int{}
	for _, tg := range h.tgts {
		if ch, reg := h.sm.GetRemoteSendChan(history.ClusterShardID{ClusterID: vrtClusterB, ShardID: int32(tg.t)}); reg {
			chans[fmt.Sprint(tg.t)] = len(ch)
		}
		if tg.srv != nil && tg.srv.waiting {
			waiting = append(waiting, tg.t)
		}
	}
	return map[string]interface{}{"ev": "Quiet", "ok": ok, "chans": chans, "waiting": waiting}
}

// teardown ends every stream and checks that every streamRouting call returns.
func (h *vrtHarness) teardown() bool {
	ok := true
	h.mu.Lock()
	for t, rel := range h.holdTgt {
		close(rel)
		delete(h.holdTgt, t)
	}
	h.mu.Unlock()
	for _, tg := range h.tgts {
		if tg.srv != nil {
			tg.srv.doBreak()
		}
	}
	for _, src := range h.srcs {
		h.mu.Lock()
		st := src.stream
		h.mu.Unlock()
		if st != nil {
			st.brokenMu.Do(func() { close(st.broken) })
		}
		if src.srv != nil {
			src.srv.doBreak()
		}
	}
	for _, tg := range h.tgts {
		if tg.done != nil {
			select {
			case <-tg.done:
			case <-time.After(5 * time.Second):
				ok = false
			}
		}
	}
	for _, src := range h.srcs {
		if src.done != nil {
			select {
			case <-src.done:
			case <-time.After(5 * time.Second):
				ok = false
			}
		}
	}
	return ok
}

// stallProbe: the cooperative phase (every target connected and taking everything, every source in Recv between batches) did
// not reach quiescence. Slow is not a verdict; a receiver that has STOPPED READING its source is: the environment keeps taking
// whatever the senders offer for another 10 s, and a source stream whose receiver is still not back in Recv is reported.
func (h *vrtHarness) stallProbe() {
	deadline := time.Now().Add(10 * time.Second)
	for time.Now().Before(deadline) {
		for t := 1; t <= h.sched.NT; t++ {
			tg := h.tgts[t]
			h.mu.Lock()
			srv := tg.srv
			waiting := tg.up && srv != nil && srv.waiting
			h.mu.Unlock()
			if waiting {
				select {
				case srv.gate <- struct{}{}:
				default:
				}
			}
		}
		h.mu.Lock()
		all := true
		for _, src := range h.srcs {
			if src.stream != nil && !src.stream.inRecv {
				all = false
			}
		}
		h.mu.Unlock()
		if all {
			return
		}
		time.Sleep(20 * time.Millisecond)
	}
	h.mu.Lock()
	for _, src := range h.srcs {
		if src.stream != nil && !src.stream.inRecv {
			h.emit(map[string]interface{}{"ev": "Stalled", "s": src.s})
		}
	}
	h.mu.Unlock()
}

func (h *vrtHarness) runSchedule(sc *vrtSchedule) (realised int, unrealisedAt int) {
	h.reset(sc)
	unrealisedAt = -1
	for i, c := range sc.Cmds {
		if !h.exec(c) {
			unrealisedAt = i
			h.log(map[string]interface{}{"ev": "Unrealised", "at": i, "cmd": c})
			if c.C == "drain" || c.C == "tick" {
				h.stallProbe()
			}
			break
		}
		realised++
	}
	if unrealisedAt < 0 {
		okq := h.settle(h.cmdWait)
		h.mu.Lock()
		h.emit(h.quietEvent(okq))
		h.mu.Unlock()
	}
	clean := h.teardown()
	h.log(map[string]interface{}{"ev": "End", "clean": clean, "realised": realised, "of": len(sc.Cmds)})
	return
}

// TestVerifRoutingSchedules executes the schedules of VERIF_IN (one JSON object per line) on the real code and
// writes the recorded trace to VERIF_OUT.
func TestVerifRoutingSchedules(t *testing.T) {
	in := os.Getenv("VERIF_IN")
	if in == "" {
		t.Skip("VERIF_IN not set")
	}
	f, err := os.Open(in)
	if err != nil {
		t.Fatal(err)
	}
	defer f.Close()
	outf, err := os.Create(os.Getenv("VERIF_OUT"))
	if err != nil {
		t.Fatal(err)
	}
	defer outf.Close()
	w := bufio.NewWriterSize(outf, 1<<20)
	defer w.Flush()
	var seed int64 = 1
	fmt.Sscanf(os.Getenv("VERIF_SEED"), "%d", &seed)
	h := vrtNewHarness(json.NewEncoder(w), seed)
	vhook.Set(h.hook)
	defer vhook.Set(nil)
	sc := bufio.NewScanner(f)
	sc.Buffer(make([]byte, 1<<20), 1<<26)
	total, unreal := 0, 0
	for sc.Scan() {
		if len(sc.Bytes()) == 0 {
			continue
		}
		var s vrtSchedule
		if err := json.Unmarshal(sc.Bytes(), &s); err != nil {
			t.Fatalf("bad schedule: %v", err)
		}
		total++
		if _, u := h.runSchedule(&s); u >= 0 {
			unreal++
		}
	}
	w.Flush()
	sum, _ := json.Marshal(map[string]int{"schedules": total, "unrealised": unreal})
	_ = os.WriteFile(os.Getenv("VERIF_OUT")+".summary", sum, 0o644)
}
