//go:build verif

package proxy

// Verification harness for C09 / module IntraProxy (spec/IntraProxy): the intra-proxy peer streams of
// proxy/intra_proxy_router.go. 2-3 REAL shardManagerImpl objects with their REAL intraProxyManager run in one process;
// every instance serves the REAL adminServiceProxyServer (routing mode) on a loopback TCP listener, so the receivers
// that ensureStream creates dial the peer exactly as in production (ensurePeer -> grpc.NewClient(ProxyAddresses[peer]))
// and the peer's handler goes StreamWorkflowReplicationMessages -> handleStream -> streamIntraProxyRouting ->
// intraProxyStreamSender.Run -> RegisterSender.
//
// The harness is the environment and the scheduler, it holds no oracle:
//   - local shards are added / removed with RegisterShard / UnregisterShard (+ the channels the local stream would set),
//   - remote views are set with the real delegate (MergeRemoteState with a marshalled NodeShardState, NotifyLeave),
//   - the 1 s timer loop is NOT started: a "Reconcile" command is one call of ReconcilePeerStreams("") (the loop body),
//   - a listener wrapper can hold new connections of a peer ("slow connect") and cut established ones ("stream breaks"),
//   - the two places where a stream end is cleaned up are schedulable: the server side parks when RecvMsg returns an
//     error (before intraProxyStreamSender.Run's deferred UnregisterSender), the client side parks in the deferred
//     UnregisterActiveReceiver of intraProxyStreamReceiver.Run (before ensureStream's goroutine deletes the entry),
//     using instruments at boundaries the code already has (grpc stream interceptor, ShardManager interface),
//   - after every command the harness waits (bounded, explicit progress signals, no sleeps as synchronisation) until
//     every stream end is either running, parked or gone; a wait that expires is recorded in the event ("unsettled").
// One event per command with a snapshot of all peer tables, of both ends of every stream and of what arrived on the
// local channels. The Obs monitor (spec/IntraProxy/IntraProxyObs.tla) judges.

import (
	"bufio"
	"context"
	"encoding/json"
	"fmt"
	"net"
	"os"
	"runtime"
	"sort"
	"strconv"
	"strings"
	"sync"
	"testing"
	"time"

	"github.com/hashicorp/memberlist"
	"go.temporal.io/server/api/adminservice/v1"
	replicationv1 "go.temporal.io/server/api/replication/v1"
	"go.temporal.io/server/client/history"
	"go.temporal.io/server/common/channel"
	"go.temporal.io/server/common/headers"
	"go.temporal.io/server/common/log"
	"google.golang.org/grpc"
	"google.golang.org/grpc/connectivity"
	"google.golang.org/grpc/metadata"
	"google.golang.org/grpc/peer"

	"github.com/temporalio/s2s-proxy/common"
	"github.com/temporalio/s2s-proxy/config"
	"github.com/temporalio/s2s-proxy/encryption"
	"github.com/temporalio/s2s-proxy/logging"
)

// shard numbers of the spec: cluster = n / 10, shard id = n % 10
func vipShard(n int) history.ClusterShardID {
	return history.ClusterShardID{ClusterID: int32(n / 10), ShardID: int32(n % 10)}
}
func vipNum(s history.ClusterShardID) int { return int(s.ClusterID)*10 + int(s.ShardID) }

func vipGID() int64 {
	var buf [64]byte
	n := runtime.Stack(buf[:], false)
	f := strings.Fields(string(buf[:n]))
	id, _ := strconv.ParseInt(f[1], 10, 64)
	return id
}

type vipCmd struct {
	A   string `json:"a"`
	I   string `json:"i,omitempty"`
	J   string `json:"j,omitempty"`
	Sh  int    `json:"sh,omitempty"`
	T   int    `json:"t,omitempty"`
	S   int    `json:"s,omitempty"`
	Set []int  `json:"set,omitempty"`
}
type vipSched struct {
	ID   string   `json:"id"`
	Inst []string `json:"inst"`
	Cmds []vipCmd `json:"cmds"`
}

type vipCtxKey struct{}

// ---- server end of a stream (grpc.ServerStream wrapper installed by the stream interceptor)
type vipSrvStream struct {
	grpc.ServerStream
	h      *vipHarness
	inst   *vipInst
	seq    int
	origin string
	t, s   int
	ctx    context.Context
	remote string
	// guarded by h.mu
	state    string // start | serve | park | gone
	returned bool   // the handler returned
	inRecv   bool
	gid      int64 // goroutine of intraProxyStreamSender.Run
	release  chan struct{}
	sent     []int64
	recvd    []int64
}

func (w *vipSrvStream) Context() context.Context { return w.ctx }
func (w *vipSrvStream) RecvMsg(m any) error {
	w.h.mu.Lock()
	if w.state == "start" {
		w.state = "serve"
	}
	w.gid = vipGID()
	w.inRecv = true
	w.h.mu.Unlock()
	err := w.ServerStream.RecvMsg(m)
	w.h.mu.Lock()
	w.inRecv = false
	if err != nil {
		w.state = "park"
		ch := w.release
		w.h.mu.Unlock()
		<-ch
		return err
	}
	if req, ok := m.(*adminservice.StreamWorkflowReplicationMessagesRequest); ok {
		if st := req.GetSyncReplicationState(); st != nil {
			w.recvd = append(w.recvd, st.InclusiveLowWatermark)
		}
	}
	w.h.mu.Unlock()
	return nil
}
func (w *vipSrvStream) SendMsg(m any) error {
	err := w.ServerStream.SendMsg(m)
	if resp, ok := m.(*adminservice.StreamWorkflowReplicationMessagesResponse); ok && err == nil {
		if ms := resp.GetMessages(); ms != nil {
			w.h.mu.Lock()
			w.sent = append(w.sent, ms.ExclusiveHighWatermark)
			w.h.mu.Unlock()
		}
	}
	return err
}

// ---- client end of a stream: seen through the ShardManager interface the receiver calls
type vipCli struct {
	r       *intraProxyStreamReceiver
	inst    *vipInst
	gid     int64
	state   string // run | park | gone
	release chan struct{}
}

type vipSM struct {
	*shardManagerImpl
	h    *vipHarness
	inst *vipInst
}

func (w *vipSM) RegisterActiveReceiver(src history.ClusterShardID, r ActiveReceiver) {
	if rr, ok := r.(*intraProxyStreamReceiver); ok {
		w.h.mu.Lock()
		w.inst.clis = append(w.inst.clis, &vipCli{r: rr, inst: w.inst, gid: vipGID(), state: "run", release: make(chan struct{})})
		w.h.mu.Unlock()
	}
	w.shardManagerImpl.RegisterActiveReceiver(src, r)
}
func (w *vipSM) UnregisterActiveReceiver(src history.ClusterShardID) {
	gid := vipGID()
	var c *vipCli
	w.h.mu.Lock()
	for _, x := range w.inst.clis {
		if x.gid == gid && x.state == "run" {
			c = x
		}
	}
	if c != nil {
		c.state = "park"
	}
	w.h.mu.Unlock()
	if c != nil {
		<-c.release
	}
	w.shardManagerImpl.UnregisterActiveReceiver(src)
}

// ---- listener wrapper: hold new connections, cut established ones
type vipListener struct {
	net.Listener
	mu    sync.Mutex
	cond  *sync.Cond
	held  bool
	conns map[string]net.Conn
}

func (l *vipListener) Accept() (net.Conn, error) {
	c, err := l.Listener.Accept()
	if err != nil {
		return nil, err
	}
	l.mu.Lock()
	for l.held {
		l.cond.Wait()
	}
	l.conns[c.RemoteAddr().String()] = c
	l.mu.Unlock()
	return c, nil
}
func (l *vipListener) setHeld(b bool) {
	l.mu.Lock()
	l.held = b
	l.mu.Unlock()
	l.cond.Broadcast()
}

// the local stream of a shard as far as the intra-proxy code sees it: the two channels it registered (capacity 1, so that one
// unconsumed entry is back-pressure) and a consumer that the schedule can stall
type vipLocal struct {
	msgs    chan RoutedMessage
	acks    chan RoutedAck
	regAt   time.Time
	mu      sync.Mutex
	stalled bool
	gate    chan struct{} // closed while the consumer runs
	kick    chan struct{}
	pending []int64 // ids handed to a stream towards this shard while its consumer was stalled
}

func vipNewLocal() *vipLocal {
	l := &vipLocal{msgs: make(chan RoutedMessage, 1), acks: make(chan RoutedAck, 1), gate: make(chan struct{}), kick: make(chan struct{}, 1)}
	close(l.gate)
	return l
}
func (l *vipLocal) isStalled() bool {
	l.mu.Lock()
	defer l.mu.Unlock()
	return l.stalled
}
func (l *vipLocal) curGate() chan struct{} {
	l.mu.Lock()
	defer l.mu.Unlock()
	return l.gate
}

// stall stops the consumer (called when nothing is on its way to the channels); returns when the consumer waits at its gate
func (l *vipLocal) stall(bound time.Duration) bool {
	l.mu.Lock()
	if l.stalled {
		l.mu.Unlock()
		return true
	}
	l.stalled = true
	l.gate = make(chan struct{})
	l.mu.Unlock()
	select {
	case l.kick <- struct{}{}:
	default:
	}
	deadline := time.Now().Add(bound)
	for len(l.kick) > 0 {
		if time.Now().After(deadline) {
			return false
		}
		time.Sleep(50 * time.Microsecond)
	}
	return true
}
func (l *vipLocal) unstall() {
	l.mu.Lock()
	if l.stalled {
		l.stalled = false
		close(l.gate)
	}
	l.mu.Unlock()
}

type vipInst struct {
	name    string
	sm      *shardManagerImpl
	wrap    *vipSM
	srv     *grpc.Server
	lis     *vipListener
	cancel  context.CancelFunc
	local   map[int]*vipLocal
	streams []*vipSrvStream
	clis    []*vipCli
	origins map[string]string // remote addr -> origin instance
}

type vipArrival struct {
	Inst string
	Kind string // msg | wm | ack
	Chan int
	T, S int
	ID   int64
}

type vipHarness struct {
	mu                  sync.Mutex
	enc                 *json.Encoder
	seq, run            int
	names               []string
	inst                map[string]*vipInst
	arrivals            []vipArrival
	seen                map[*intraProxyStreamReceiver]bool // every receiver object ever seen in a table of this run
	wasReady            map[*grpc.ClientConn]bool
	spun                map[int64]bool // pruned receivers that kept waiting for a local channel for a full bound (reported)
	nextID              int64
	wait                time.Duration // bound of every wait for progress in the current run
	waitFull, waitShort time.Duration
	stop                chan struct{}
	nsrv                int
	baseRecv            int // receiver goroutines a previous run left behind (reported in its Teardown event)
	wg                  sync.WaitGroup
}

func vipLoggers() logging.LoggerProvider {
	return logging.NewLoggerProvider(log.NewNoopLogger(), config.NewMockConfigProvider(config.S2SProxyConfig{}))
}

func (in *vipInst) intercept(h *vipHarness) grpc.StreamServerInterceptor {
	return func(srv any, ss grpc.ServerStream, info *grpc.StreamServerInfo, handler grpc.StreamHandler) error {
		origin := ""
		if md, ok := metadata.FromIncomingContext(ss.Context()); ok {
			if v := md.Get(common.IntraProxyOriginProxyIDHeader); len(v) > 0 {
				origin = v[0]
			}
		}
		tgt, src, _ := history.DecodeClusterShardMD(headers.NewGRPCHeaderGetter(ss.Context()))
		w := &vipSrvStream{ServerStream: ss, h: h, inst: in, origin: origin, t: vipNum(tgt), s: vipNum(src), state: "start", release: make(chan struct{})}
		if p, ok := peer.FromContext(ss.Context()); ok && p.Addr != nil {
			w.remote = p.Addr.String()
		}
		w.ctx = context.WithValue(ss.Context(), vipCtxKey{}, w)
		h.mu.Lock()
		h.nsrv++
		w.seq = h.nsrv
		in.streams = append(in.streams, w)
		if w.remote != "" {
			in.origins[w.remote] = origin
		}
		h.mu.Unlock()
		err := handler(srv, w)
		h.mu.Lock()
		w.returned = true
		if w.state == "start" {
			w.state = "gone" // rejected: the handler returned without serving
		}
		h.mu.Unlock()
		return err
	}
}

func (h *vipHarness) reset(sc *vipSched) {
	h.teardown()
	h.mu.Lock()
	defer h.mu.Unlock()
	h.run++
	h.wait = h.waitFull
	h.names = append([]string{}, sc.Inst...)
	h.inst = map[string]*vipInst{}
	h.arrivals = nil
	h.seen = map[*intraProxyStreamReceiver]bool{}
	h.spun = map[int64]bool{}
	h.wasReady = map[*grpc.ClientConn]bool{}
	h.nextID = 0
	h.stop = make(chan struct{})
	addrs := map[string]string{}
	for _, n := range sc.Inst {
		l, err := net.Listen("tcp", "127.0.0.1:0")
		if err != nil {
			panic(err)
		}
		vl := &vipListener{Listener: l, conns: map[string]net.Conn{}}
		vl.cond = sync.NewCond(&vl.mu)
		addrs[n] = l.Addr().String()
		h.inst[n] = &vipInst{name: n, lis: vl, local: map[int]*vipLocal{}, origins: map[string]string{}}
	}
	for _, n := range sc.Inst {
		in := h.inst[n]
		cfg := &config.MemberlistConfig{NodeName: n, BindAddr: "127.0.0.1", BindPort: 0, ProxyAddresses: addrs}
		scc := config.ShardCountConfig{Mode: config.ShardCountRouting, LocalShardCount: 4, RemoteShardCount: 4}
		sm := NewShardManager(cfg, scc, encryption.TLSConfig{}, vipLoggers()).(*shardManagerImpl)
		sm.SetupCallbacks()
		sm.started = true // IsLocalShard consults localShards only once the manager is started; no memberlist: the harness is the gossip
		in.sm = sm
		in.wrap = &vipSM{shardManagerImpl: sm, h: h, inst: in}
		sm.intraMgr.shardManager = in.wrap
		lifetime, cancel := context.WithCancel(context.Background())
		in.cancel = cancel
		impl := NewAdminServiceProxyServer("intraAdminService", nil, nil, AdminServiceOverrides{}, []string{"inbound"},
			func(int32, int32) {}, scc, LCMParameters{}, RoutingParameters{DirectionLabel: "inbound"}, vipLoggers(), sm, lifetime)
		in.srv = grpc.NewServer(grpc.StreamInterceptor(in.intercept(h)))
		adminservice.RegisterAdminServiceServer(in.srv, impl)
		h.wg.Add(1)
		go func(in *vipInst) {
			defer h.wg.Done()
			_ = in.srv.Serve(in.lis)
		}(in)
	}
}

func (h *vipHarness) teardown() {
	h.mu.Lock()
	insts := []*vipInst{}
	for _, in := range h.inst {
		insts = append(insts, in)
	}
	stop := h.stop
	h.stop = nil
	h.mu.Unlock()
	if len(insts) == 0 {
		return
	}
	for _, in := range insts {
		in.lis.setHeld(false)
		for _, l := range in.local {
			l.unstall()
		}
	}
	h.releaseAll()
	for _, in := range insts {
		in.cancel()
		in.sm.intraMgr.streamsMu.Lock()
		peers := []string{}
		for p := range in.sm.intraMgr.peers {
			peers = append(peers, p)
		}
		in.sm.intraMgr.streamsMu.Unlock()
		for _, p := range peers {
			in.sm.intraMgr.ClosePeer(p)
		}
	}
	for _, in := range insts {
		in.lis.mu.Lock()
		for _, c := range in.lis.conns {
			_ = c.Close()
		}
		in.lis.mu.Unlock()
		in.srv.Stop()
	}
	// a receiver that waits for a local channel of its target shard looks at its shutdown handle only after a hand-over: give it one
	sink := make(chan RoutedMessage, 1024)
	for _, in := range insts {
		for _, sh := range []int{11, 12, 13, 21, 22, 23} {
			in.sm.SetRemoteSendChan(vipShard(sh), sink)
		}
	}
	// everything that parks from now on is released at once
	deadline := time.Now().Add(10 * time.Second)
	nr, ns := 0, 0
	for time.Now().Before(deadline) {
		h.releaseAll()
		nr, ns = vipStackCount("ensureStream."), vipStackCount("intraProxyStreamSender).Run")
		if nr-h.baseRecv <= 0 && ns == 0 {
			break
		}
		time.Sleep(time.Millisecond)
	}
	h.mu.Lock()
	h.emit(map[string]interface{}{"ev": "Teardown", "receivers": nr - h.baseRecv, "senders": ns})
	h.baseRecv = nr
	h.mu.Unlock()
	if stop != nil {
		close(stop)
	}
	h.wg.Wait()
	h.mu.Lock()
	h.inst = map[string]*vipInst{}
	h.mu.Unlock()
}

func (h *vipHarness) releaseAll() {
	h.mu.Lock()
	defer h.mu.Unlock()
	for _, in := range h.inst {
		for _, w := range in.streams {
			if w.state == "park" {
				w.state = "gone"
				close(w.release)
			}
		}
		for _, c := range in.clis {
			if c.state == "park" {
				c.state = "gone"
				close(c.release)
			}
		}
	}
}

// ---- goroutine stacks: the only way to know that a cleanup that runs after the last observable call has finished
func vipStacks() string {
	buf := make([]byte, 1<<20)
	for {
		n := runtime.Stack(buf, true)
		if n < len(buf) {
			return string(buf[:n])
		}
		buf = make([]byte, 2*len(buf))
	}
}
func vipStackCount(sub string) int {
	n := 0
	for _, b := range strings.Split(vipStacks(), "\n\n") {
		if strings.Contains(b, sub) {
			n++
		}
	}
	return n
}
func vipLiveGIDs() map[int64]bool {
	out := map[int64]bool{}
	for _, b := range strings.Split(vipStacks(), "\n\n") {
		f := strings.Fields(b)
		if len(f) > 1 && f[0] == "goroutine" {
			if id, err := strconv.ParseInt(f[1], 10, 64); err == nil {
				out[id] = true
			}
		}
	}
	return out
}

// vipSpinners: goroutines that are inside recvReplicationMessages' "no local send channel yet" retry loop (sleeping between two
// look-ups) instead of in Recv
func vipSpinners() map[int64]bool {
	out := map[int64]bool{}
	for _, b := range strings.Split(vipStacks(), "\n\n") {
		if strings.Contains(b, "recvReplicationMessages") && strings.Contains(b, "time.Sleep") {
			f := strings.Fields(b)
			if len(f) > 1 && f[0] == "goroutine" {
				if id, err := strconv.ParseInt(f[1], 10, 64); err == nil {
					out[id] = true
				}
			}
		}
	}
	return out
}

// ---- snapshot of the real tables
type vipRecvEntry struct {
	i, p  string
	t, s  int
	r     *intraProxyStreamReceiver
	open  bool
	ready bool // the client connection to the peer is READY: a stream that is being created will not wait for the link
}
type vipSendEntry struct {
	i, p string
	t, s int
	w    *vipSrvStream
}

func (h *vipHarness) tables() ([]vipRecvEntry, []vipSendEntry) {
	var rs []vipRecvEntry
	var ss []vipSendEntry
	for _, n := range h.names {
		in := h.inst[n]
		m := in.sm.intraMgr
		m.streamsMu.RLock()
		for p, ps := range m.peers {
			ready := ps.conn != nil && ps.conn.GetState() == connectivity.Ready
			for k, r := range ps.receivers {
				rs = append(rs, vipRecvEntry{i: n, p: p, t: vipNum(k.targetShard), s: vipNum(k.sourceShard), r: r, open: r != nil && r.streamClient != nil, ready: ready})
			}
			for k, s := range ps.senders {
				var w *vipSrvStream
				if s != nil && s.sourceStreamServer != nil {
					w, _ = s.sourceStreamServer.Context().Value(vipCtxKey{}).(*vipSrvStream)
				}
				ss = append(ss, vipSendEntry{i: n, p: p, t: vipNum(k.targetShard), s: vipNum(k.sourceShard), w: w})
			}
		}
		m.streamsMu.RUnlock()
	}
	sort.Slice(rs, func(a, b int) bool {
		return fmt.Sprint(rs[a].i, rs[a].p, rs[a].t, rs[a].s) < fmt.Sprint(rs[b].i, rs[b].p, rs[b].t, rs[b].s)
	})
	sort.Slice(ss, func(a, b int) bool {
		return fmt.Sprint(ss[a].i, ss[a].p, ss[a].t, ss[a].s) < fmt.Sprint(ss[b].i, ss[b].p, ss[b].t, ss[b].s)
	})
	return rs, ss
}

// settle waits until every stream end is running, parked or gone. Returns the conditions that did not come true in time.
func (h *vipHarness) settle() []string {
	deadline := time.Now().Add(h.wait)
	var why []string
	for {
		why = h.unsettled()
		if len(why) == 0 {
			// the table/stream marks are read before the goroutine stacks: something that moved on between the two readings
			// (a handler that returned right after the marks were read) shows in the marks of a second evaluation
			why = h.unsettled()
		}
		if len(why) == 0 {
			return why
		}
		if time.Now().After(deadline) {
			// the expired wait is the observation (recorded in the event); the rest of this run does not pay the full bound again
			h.wait = h.waitShort
			// a pruned receiver that still waits for a local channel is reported through its state ("spin") in the snapshots
			rest := []string{}
			h.mu.Lock()
			for _, x := range why {
				var gid int64
				if n, _ := fmt.Sscanf(x, "spin-pruned:%d", &gid); n == 1 {
					h.spun[gid] = true
				} else {
					rest = append(rest, x)
				}
			}
			h.mu.Unlock()
			return rest
		}
		time.Sleep(200 * time.Microsecond)
	}
}

func (h *vipHarness) unsettled() []string {
	var why []string
	rs, _ := h.tables()
	var gids map[int64]bool
	h.mu.Lock()
	need := false
	for _, in := range h.inst {
		for _, w := range in.streams {
			if w.state == "serve" && w.returned {
				need = true
			}
		}
	}
	h.mu.Unlock()
	if need {
		gids = vipLiveGIDs()
	}
	// client connections: a reconnect that is under way finishes (unless the peer is held); a connection that sits in its
	// reconnect backoff is told to retry now - otherwise what a pass finds depends on the wall clock
	for _, n := range h.names {
		m := h.inst[n].sm.intraMgr
		m.streamsMu.RLock()
		for p, ps := range m.peers {
			if ps.conn == nil {
				continue
			}
			held := false
			if pi, ok := h.inst[p]; ok {
				pi.lis.mu.Lock()
				held = pi.lis.held
				pi.lis.mu.Unlock()
			}
			switch ps.conn.GetState() {
			case connectivity.Ready:
				h.wasReady[ps.conn] = true
			case connectivity.Idle:
				// a connection that was established and broke reconnects by itself (round_robin): IDLE is a passing state then
				if h.wasReady[ps.conn] {
					why = append(why, "reconnecting:"+n+">"+p)
				}
			case connectivity.TransientFailure:
				// (the channel keeps reporting TRANSIENT_FAILURE until it is READY again: stable while the peer is held)
				if !held {
					ps.conn.ResetConnectBackoff()
					why = append(why, "conn-backoff:"+n+">"+p)
				}
			case connectivity.Connecting:
				if !held {
					why = append(why, "connecting:"+n+">"+p)
				}
			}
		}
		m.streamsMu.RUnlock()
	}
	spin := h.spinIfSuspect()
	h.mu.Lock()
	defer h.mu.Unlock()
	inTable := map[*intraProxyStreamReceiver]bool{}
	for _, e := range rs {
		inTable[e.r] = true
		if !e.open {
			h.inst[e.p].lis.mu.Lock()
			held := h.inst[e.p].lis.held
			h.inst[e.p].lis.mu.Unlock()
			if !held || e.ready {
				why = append(why, "opening")
			}
		}
	}
	// both ends of every (client, server, pair) agree on how many streams run
	cnt := map[string]int{}
	alive := map[*intraProxyStreamReceiver]bool{}
	for r := range inTable {
		alive[r] = true
		h.seen[r] = true
	}
	registered := map[*intraProxyStreamReceiver]bool{}
	for _, in := range h.inst {
		for _, c := range in.clis {
			registered[c.r] = true
		}
	}
	for r := range h.seen {
		// replaced in the table while its goroutine still waits for the connection: it is alive until the link is released
		if !inTable[r] && !registered[r] && r.streamClient == nil && (r.shutdown == nil || !r.shutdown.IsShutdown()) {
			if p, ok := h.inst[r.peerNodeName]; ok {
				p.lis.mu.Lock()
				if p.lis.held {
					alive[r] = true
				}
				p.lis.mu.Unlock()
			}
		}
	}
	for _, n := range h.names {
		in := h.inst[n]
		for _, c := range in.clis {
			if c.state == "run" && !spin[c.gid] {
				cnt[fmt.Sprint(n, ">", c.r.peerNodeName, "/", vipNum(c.r.targetShardID), "/", vipNum(c.r.sourceShardID))]++
			}
			if c.state != "gone" {
				alive[c.r] = true
			}
			if c.state == "run" && spin[c.gid] && !inTable[c.r] && !h.spun[c.gid] {
				// pruned while it waits for a local channel: it has to notice (progress clause, bounded wait)
				why = append(why, fmt.Sprintf("spin-pruned:%d", c.gid))
			}
		}
		for _, w := range in.streams {
			switch {
			case w.state == "start":
				why = append(why, "handler-starting")
			case w.state == "serve" && w.returned:
				// the handler returned: the sender goroutine is about to see the stream end (parks) or has left without another Recv
				if gids != nil && !gids[w.gid] {
					w.state = "gone"
				} else {
					why = append(why, "sender-ending")
				}
			case w.state == "serve" && w.ctx.Err() != nil:
				why = append(why, "server-end-pending")
			case w.state == "serve":
				cnt[fmt.Sprint(w.origin, ">", n, "/", w.t, "/", w.s)]--
			}
		}
	}
	for k, v := range cnt {
		if v != 0 {
			why = append(why, "ends-differ:"+k)
		}
	}
	if len(why) == 0 {
		h.mu.Unlock()
		self := vipGID()
		nrecv, busy := 0, 0
		handoff := map[int64]string{} // goroutines inside a blocking hand-over to a local channel
		for _, b := range strings.Split(vipStacks(), "\n\n") {
			if strings.Contains(b, "ensureStream.") {
				nrecv++
			}
			if strings.Contains(b, "recvReplicationMessages.func1") || strings.Contains(b, "DeliverAckToShardOwner.func1") {
				f := strings.Fields(b)
				if len(f) > 1 && f[0] == "goroutine" {
					if id, err := strconv.ParseInt(f[1], 10, 64); err == nil {
						handoff[id] = "x"
					}
				}
			}
			// a goroutine of the proxy package that is about to run (or waits for a lock): something is still happening that
			// has no other visible mark yet (e.g. a handler whose shutdown channel has just been closed)
			if strings.Contains(b, "s2s-proxy/proxy.") {
				f := strings.Fields(b)
				if len(f) > 2 && f[0] == "goroutine" {
					id, _ := strconv.ParseInt(f[1], 10, 64)
					st := strings.Trim(f[2], "[],:")
					if id != self && (st == "running" || st == "runnable" || st == "syscall" || strings.HasPrefix(st, "sync.Mutex") || strings.HasPrefix(st, "sync.RWMutex")) &&
						!strings.Contains(b, "vipHarness).drain") {
						busy++
					}
				}
			}
		}
		h.mu.Lock()
		if nrecv-h.baseRecv != len(alive) {
			why = append(why, fmt.Sprintf("receiver-goroutines:%d/%d", nrecv-h.baseRecv, len(alive)))
		}
		if busy > 0 {
			why = append(why, fmt.Sprintf("busy:%d", busy))
		}
		// back-pressure is a stable state only while the consumer is stalled: otherwise the channel drains and the hand-over ends
		for _, n := range h.names {
			in := h.inst[n]
			for sh, l := range in.local {
				if !l.isStalled() && (len(l.msgs) > 0 || len(l.acks) > 0) {
					why = append(why, fmt.Sprintf("draining:%s/%d", n, sh))
				}
			}
			for _, c := range in.clis {
				if c.state == "run" && handoff[c.gid] != "" {
					if l := in.local[vipNum(c.r.targetShardID)]; l == nil || !l.isStalled() {
						why = append(why, "handing-over:"+n)
					}
				}
			}
			for _, w := range in.streams {
				if (w.state == "serve" || w.state == "park") && handoff[w.gid] != "" {
					if l := in.local[w.s]; l == nil || !l.isStalled() {
						why = append(why, "ack-handing-over:"+n)
					}
				}
			}
		}
	}
	sort.Strings(why)
	return why
}

// spinIfSuspect looks at the stacks only when some client end runs while no server end of its pair serves
func (h *vipHarness) spinIfSuspect() map[int64]bool {
	h.mu.Lock()
	suspect := false
	for _, n := range h.names {
		for _, c := range h.inst[n].clis {
			if c.state != "run" {
				continue
			}
			served := false
			if p, ok := h.inst[c.r.peerNodeName]; ok {
				for _, w := range p.streams {
					if w.origin == n && w.t == vipNum(c.r.targetShardID) && w.s == vipNum(c.r.sourceShardID) && (w.state == "serve" || w.state == "start") && w.ctx.Err() == nil {
						served = true
					}
				}
			}
			if !served {
				suspect = true
			}
		}
	}
	h.mu.Unlock()
	if !suspect {
		return nil
	}
	return vipSpinners()
}

// waitGone waits until the goroutine has finished (its cleanup has run)
func (h *vipHarness) waitGone(gid int64) bool {
	deadline := time.Now().Add(h.wait)
	for {
		if !vipLiveGIDs()[gid] {
			return true
		}
		if time.Now().After(deadline) {
			return false
		}
		time.Sleep(100 * time.Microsecond)
	}
}

func (h *vipHarness) drain(in *vipInst, sh int, l *vipLocal, stop chan struct{}) {
	defer h.wg.Done()
	for {
		select {
		case <-stop:
			return
		case <-l.curGate():
		}
		select {
		case <-l.kick: // look at the gate again
		case m := <-l.msgs:
			a := vipArrival{Inst: in.name, Kind: "wm", Chan: sh, T: sh, S: vipNum(m.SourceShard)}
			if ms := m.Resp.GetMessages(); ms != nil {
				a.ID = ms.ExclusiveHighWatermark
				if len(ms.ReplicationTasks) > 0 {
					a.Kind = "msg"
				}
			}
			h.mu.Lock()
			h.arrivals = append(h.arrivals, a)
			h.mu.Unlock()
		case k := <-l.acks:
			a := vipArrival{Inst: in.name, Kind: "ack", Chan: sh, T: vipNum(k.TargetShard), S: sh}
			if st := k.Req.GetSyncReplicationState(); st != nil {
				a.ID = st.InclusiveLowWatermark
			}
			h.mu.Lock()
			h.arrivals = append(h.arrivals, a)
			h.mu.Unlock()
		case <-stop:
			return
		}
	}
}

func (h *vipHarness) mergeView(in *vipInst, peer string, set []int) {
	st := NodeShardState{NodeName: peer, Shards: map[string]ShardInfo{}, Updated: time.Now()}
	for _, sh := range set {
		id := vipShard(sh)
		st.Shards[ClusterShardIDtoShortString(id)] = ShardInfo{ID: id, Created: time.Now()}
	}
	b, _ := json.Marshal(st)
	in.sm.delegate.MergeRemoteState(b, false)
}

func (h *vipHarness) emit(ev map[string]interface{}) {
	h.seq++
	ev["n"], ev["run"] = h.seq, h.run
	_ = h.enc.Encode(ev)
}

// snapshot adds the observable state to the event
func (h *vipHarness) snapshot(ev map[string]interface{}) {
	rs, ss := h.tables()
	local := [][]interface{}{}
	view := [][]interface{}{}
	for _, n := range h.names {
		in := h.inst[n]
		ls := []int{}
		for _, s := range in.sm.GetLocalShards() {
			ls = append(ls, vipNum(s))
		}
		sort.Ints(ls)
		for _, s := range ls {
			local = append(local, []interface{}{n, s})
		}
		rem, _ := in.sm.GetRemoteShardsForPeer("")
		ps := []string{}
		for p := range rem {
			ps = append(ps, p)
		}
		sort.Strings(ps)
		for _, p := range ps {
			vs := []int{}
			for _, si := range rem[p].Shards {
				vs = append(vs, vipNum(si.ID))
			}
			sort.Ints(vs)
			for _, s := range vs {
				view = append(view, []interface{}{n, p, s})
			}
		}
	}
	spin := h.spinIfSuspect()
	h.mu.Lock()
	defer h.mu.Unlock()
	inTable := map[*intraProxyStreamReceiver]bool{}
	recv := [][]interface{}{}
	for _, e := range rs {
		inTable[e.r] = true
		recv = append(recv, []interface{}{e.i, e.p, e.t, e.s, e.open})
	}
	listed := map[*vipSrvStream]bool{}
	send := [][]interface{}{}
	for _, e := range ss {
		if e.w != nil {
			listed[e.w] = true
		}
		st := "?"
		if e.w != nil {
			st = e.w.state
		}
		send = append(send, []interface{}{e.i, e.p, e.t, e.s, st})
	}
	// both ends of every stream that is not gone: [client, server, t, s, state, listed in the table of its end]
	cli := [][]interface{}{}
	srv := [][]interface{}{}
	for _, n := range h.names {
		in := h.inst[n]
		for _, c := range in.clis {
			if c.state != "gone" {
				st := c.state
				if st == "run" && spin[c.gid] && (inTable[c.r] || h.spun[c.gid]) {
					st = "spin" // waits for a local channel of its target shard (retry loop with sleeps)
				}
				cli = append(cli, []interface{}{n, c.r.peerNodeName, vipNum(c.r.targetShardID), vipNum(c.r.sourceShardID), st, inTable[c.r]})
			}
		}
		for _, w := range in.streams {
			if w.state != "gone" {
				st := w.state
				if st == "serve" && w.ctx.Err() != nil {
					st = "ending"
				}
				srv = append(srv, []interface{}{w.origin, n, w.t, w.s, st, listed[w], len(w.sent), len(w.recvd)})
			}
		}
	}
	arr := [][]interface{}{}
	for _, a := range h.arrivals {
		arr = append(arr, []interface{}{a.Inst, a.Kind, a.Chan, a.T, a.S, a.ID})
	}
	h.arrivals = nil
	held := []string{}
	for _, n := range h.names {
		h.inst[n].lis.mu.Lock()
		if h.inst[n].lis.held {
			held = append(held, n)
		}
		h.inst[n].lis.mu.Unlock()
	}
	// state of the shared client connection per (instance, peer)
	conn := [][]interface{}{}
	for _, n := range h.names {
		m := h.inst[n].sm.intraMgr
		m.streamsMu.RLock()
		ps := []string{}
		for p := range m.peers {
			ps = append(ps, p)
		}
		sort.Strings(ps)
		for _, p := range ps {
			st := "none"
			if m.peers[p].conn != nil {
				st = m.peers[p].conn.GetState().String()
			}
			conn = append(conn, []interface{}{n, p, st})
		}
		m.streamsMu.RUnlock()
	}
	ev["conn"] = conn
	ev["local"], ev["view"], ev["recv"], ev["send"], ev["cli"], ev["srv"], ev["arr"], ev["held"] = local, view, recv, send, cli, srv, arr, held
}

func (h *vipHarness) exec(c vipCmd) map[string]interface{} {
	ev := map[string]interface{}{"ev": "Step", "a": c.A, "i": c.I, "j": c.J, "sh": c.Sh, "t": c.T, "s": c.S, "set": append([]int{}, c.Set...), "ok": true}
	in := h.inst[c.I]
	switch c.A {
	case "AddLocal":
		if _, have := in.local[c.Sh]; have {
			ev["ok"] = false
			break
		}
		l := vipNewLocal()
		in.local[c.Sh] = l
		h.wg.Add(1)
		go h.drain(in, c.Sh, l, h.stop)
		// what the local stream of the shard sets up (proxyStreamSender.Run): its channels, then the registration
		in.sm.SetRemoteSendChan(vipShard(c.Sh), l.msgs)
		in.sm.SetLocalAckChan(vipShard(c.Sh), l.acks)
		l.regAt = in.sm.RegisterShard(vipShard(c.Sh))
	case "RemoveLocal":
		l, have := in.local[c.Sh]
		if !have {
			ev["ok"] = false
			break
		}
		delete(in.local, c.Sh)
		l.unstall()
		in.sm.RemoveRemoteSendChan(vipShard(c.Sh), l.msgs)
		in.sm.RemoveLocalAckChan(vipShard(c.Sh), l.acks)
		in.sm.UnregisterShard(vipShard(c.Sh), l.regAt)
	case "Stall":
		// back-pressure: the shard's local stream stops taking entries out of its channels
		if l, have := in.local[c.Sh]; !have {
			ev["ok"] = false
		} else if !l.stall(h.wait) {
			ev["stuck"] = "stall"
		}
	case "Unstall":
		if l, have := in.local[c.Sh]; !have || !l.isStalled() {
			ev["ok"] = false
		} else {
			ev["missing"] = h.release(l)
		}
	case "SetView":
		h.mergeView(in, c.J, c.Set)
	case "Leave":
		(&shardEventDelegate{manager: in.sm, logger: log.NewNoopLogger()}).NotifyLeave(&memberlist.Node{Name: c.J, Addr: net.IPv4(127, 0, 0, 1)})
	case "Hold":
		// the server of j is unreachable: new connections do not get ready, the established ones die
		l := h.inst[c.J].lis
		l.setHeld(true)
		l.mu.Lock()
		for addr, conn := range l.conns {
			_ = conn.Close()
			delete(l.conns, addr)
		}
		l.mu.Unlock()
	case "Unhold":
		h.inst[c.J].lis.setHeld(false)
	case "Break":
		// cut the connections that instance i has established to the server of j
		srv := h.inst[c.J]
		n := 0
		srv.lis.mu.Lock()
		h.mu.Lock()
		for addr, conn := range srv.lis.conns {
			if srv.origins[addr] == c.I {
				_ = conn.Close()
				delete(srv.lis.conns, addr)
				n++
			}
		}
		h.mu.Unlock()
		srv.lis.mu.Unlock()
		ev["ok"] = n > 0
	case "Reconcile":
		in.sm.intraMgr.ReconcilePeerStreams("")
	case "Freeze":
		// gossip has converged: every instance holds every other instance's real state; nothing is held back any more
		miss := []int64{}
		for _, a := range h.names {
			for _, l := range h.inst[a].local {
				if l.isStalled() {
					miss = append(miss, h.release(l)...)
				}
			}
		}
		ev["missing"] = miss
		for _, a := range h.names {
			st := h.inst[a].sm.delegate.LocalState(false)
			for _, b := range h.names {
				if a != b {
					h.inst[b].sm.delegate.MergeRemoteState(st, false)
				}
			}
			h.inst[a].lis.setHeld(false)
		}
	case "CliExit":
		var x *vipCli
		h.mu.Lock()
		for _, k := range in.clis {
			if x == nil && k.state == "park" && k.r.peerNodeName == c.J && vipNum(k.r.targetShardID) == c.T && vipNum(k.r.sourceShardID) == c.S {
				x = k
			}
		}
		if x != nil {
			x.state = "gone"
			close(x.release)
		}
		h.mu.Unlock()
		if x == nil {
			ev["ok"] = false
		} else if !h.waitGone(x.gid) {
			ev["stuck"] = "client-exit"
		}
	case "SrvExit":
		var x *vipSrvStream
		h.mu.Lock()
		for _, w := range h.inst[c.J].streams {
			if x == nil && w.state == "park" && w.origin == c.I && w.t == c.T && w.s == c.S {
				x = w
			}
		}
		if x != nil {
			x.state = "gone"
			close(x.release)
		}
		h.mu.Unlock()
		if x == nil {
			ev["ok"] = false
		} else if !h.waitGone(x.gid) {
			ev["stuck"] = "server-exit"
		}
	case "RouteMsg", "RouteAck":
		h.mu.Lock()
		h.nextID++
		id := h.nextID
		h.mu.Unlock()
		shard := c.T
		if c.A == "RouteAck" {
			shard = c.S
		}
		owner, _ := in.sm.getShardOwner(vipShard(shard))
		ev["id"], ev["owner"] = id, owner
		ownerHas := false
		if o, ok := h.inst[owner]; ok {
			if c.A == "RouteMsg" {
				_, ownerHas = o.sm.GetRemoteSendChan(vipShard(shard))
			} else {
				_, ownerHas = o.sm.GetLocalAckChan(vipShard(shard))
			}
		}
		ev["ownerHas"] = ownerHas
		var ownerLocal *vipLocal
		if o, ok := h.inst[owner]; ok {
			ownerLocal = o.local[shard]
		}
		stalled := ownerLocal != nil && ownerLocal.isStalled()
		ev["stalled"] = stalled
		var res bool
		t0 := time.Now()
		if c.A == "RouteMsg" {
			m := &RoutedMessage{SourceShard: vipShard(c.S), Resp: &adminservice.StreamWorkflowReplicationMessagesResponse{
				Attributes: &adminservice.StreamWorkflowReplicationMessagesResponse_Messages{Messages: &replicationv1.WorkflowReplicationMessages{
					ExclusiveHighWatermark: id, ReplicationTasks: []*replicationv1.ReplicationTask{{SourceTaskId: id}}}}}}
			res = in.sm.DeliverMessagesToShardOwner(vipShard(c.T), m, channel.NewShutdownOnce(), log.NewNoopLogger())
		} else {
			a := &RoutedAck{TargetShard: vipShard(c.T), Req: &adminservice.StreamWorkflowReplicationMessagesRequest{
				Attributes: &adminservice.StreamWorkflowReplicationMessagesRequest_SyncReplicationState{
					SyncReplicationState: &replicationv1.SyncReplicationState{InclusiveLowWatermark: id}}}}
			res = in.sm.DeliverAckToShardOwner(vipShard(c.S), a, channel.NewShutdownOnce(), log.NewNoopLogger(), id, true)
		}
		ev["result"], ev["ms"] = res, time.Since(t0).Milliseconds()
		if res && !ownerHas && c.A == "RouteAck" {
			// the forwarder's send succeeded but the recorded owner has no local ack channel for the source shard: wait (bounded)
			// until the owner's end of the stream has read it - what it does with it (ends the stream / goes on) shows in the snapshot
			deadline := time.Now().Add(h.wait)
			for {
				got, serving := false, false
				h.mu.Lock()
				if o, ok := h.inst[owner]; ok {
					for _, w := range o.streams {
						if w.origin == c.I && w.t == c.T && w.s == c.S {
							for _, x := range w.recvd {
								if x == id {
									got = true
								}
							}
							if w.state == "serve" && w.ctx.Err() == nil {
								serving = true
							}
						}
					}
				}
				h.mu.Unlock()
				if got || !serving || time.Now().After(deadline) {
					ev["received"] = got
					break
				}
				time.Sleep(100 * time.Microsecond)
			}
		}
		if res && ownerHas && stalled {
			// the consumer is stalled: the entry stays in the channel / the stream until it is released (checked at Unstall)
			ownerLocal.mu.Lock()
			ownerLocal.pending = append(ownerLocal.pending, id)
			ownerLocal.mu.Unlock()
		} else if res && ownerHas {
			// bounded wait for the arrival at the owner's local channel; an expired wait is the observation "not arrived"
			deadline := time.Now().Add(h.wait)
			for {
				got := false
				h.mu.Lock()
				for _, a := range h.arrivals {
					if a.ID == id && a.Kind != "wm" {
						got = true
					}
				}
				h.mu.Unlock()
				if got || time.Now().After(deadline) {
					break
				}
				time.Sleep(100 * time.Microsecond)
			}
		}
	default:
		ev["ok"] = false
	}
	return ev
}

// release lets the stalled consumer run again and waits (bounded) until everything that was handed over meanwhile has come out
// of the local channels at least once; returns the ids that have not
func (h *vipHarness) release(l *vipLocal) []int64 {
	l.unstall()
	l.mu.Lock()
	pending := l.pending
	l.pending = nil
	l.mu.Unlock()
	missing := []int64{}
	deadline := time.Now().Add(h.wait)
	for {
		missing = missing[:0]
		h.mu.Lock()
		for _, id := range pending {
			got := false
			for _, a := range h.arrivals {
				if a.ID == id && a.Kind != "wm" {
					got = true
				}
			}
			if !got {
				missing = append(missing, id)
			}
		}
		h.mu.Unlock()
		if len(missing) == 0 || time.Now().After(deadline) {
			return missing
		}
		time.Sleep(100 * time.Microsecond)
	}
}

func (h *vipHarness) step(c vipCmd) {
	ev := h.exec(c)
	ev["unsettled"] = append([]string{}, h.settle()...)
	h.snapshot(ev)
	h.emit(ev)
}

func (h *vipHarness) fingerprint() string {
	rs, ss := h.tables()
	for k := range rs {
		rs[k].ready = false
	}
	return fmt.Sprint(rs, ss)
}

func (h *vipHarness) runSchedule(sc *vipSched) {
	h.reset(sc)
	cfg := map[string]interface{}{"ev": "Config", "id": sc.ID, "inst": sc.Inst}
	h.emit(cfg)
	frozen := false
	for _, c := range sc.Cmds {
		if c.A == "Freeze" {
			frozen = true
		}
		h.step(c)
	}
	// the environment has stopped changing: gossip converges, whatever was parked finishes (one cleanup at a time, each its
	// own event), reconciliation runs on every instance until the tables do not change any more
	if !frozen {
		h.step(vipCmd{A: "Freeze"})
	}
	rounds, stable := 0, false
	for rounds < 6 && !stable {
		rounds++
		before := h.fingerprint()
		n := h.releaseOneByOne()
		for _, name := range h.names {
			h.step(vipCmd{A: "Reconcile", I: name})
			n += h.releaseOneByOne()
		}
		stable = n == 0 && before == h.fingerprint()
	}
	ev := map[string]interface{}{"ev": "Quiet", "inst": sc.Inst, "rounds": rounds, "stable": stable, "unsettled": append([]string{}, h.settle()...)}
	h.snapshot(ev)
	h.emit(ev)
}

// releaseOneByOne lets every parked cleanup run, the client ends first, oldest first; returns how many ran
func (h *vipHarness) releaseOneByOne() int {
	n := 0
	for n < 64 {
		var cmd *vipCmd
		h.mu.Lock()
		for _, name := range h.names {
			for _, c := range h.inst[name].clis {
				if cmd == nil && c.state == "park" {
					cmd = &vipCmd{A: "CliExit", I: name, J: c.r.peerNodeName, T: vipNum(c.r.targetShardID), S: vipNum(c.r.sourceShardID)}
				}
			}
		}
		for _, name := range h.names {
			for _, w := range h.inst[name].streams {
				if cmd == nil && w.state == "park" {
					cmd = &vipCmd{A: "SrvExit", I: w.origin, J: name, T: w.t, S: w.s}
				}
			}
		}
		h.mu.Unlock()
		if cmd == nil {
			break
		}
		h.step(*cmd)
		n++
	}
	return n
}

func TestVerifIntraProxySchedules(t *testing.T) {
	in := os.Getenv("VERIF_IN")
	if in == "" {
		t.Skip("VERIF_IN not set")
	}
	f, err := os.Open(in)
	if err != nil {
		t.Fatal(err)
	}
	defer f.Close()
	outf, err := os.Create(os.Getenv("VERIF_OUT"))
	if err != nil {
		t.Fatal(err)
	}
	defer outf.Close()
	w := bufio.NewWriterSize(outf, 1<<16)
	defer w.Flush()
	h := &vipHarness{enc: json.NewEncoder(w), wait: 5 * time.Second, waitFull: 5 * time.Second, waitShort: 250 * time.Millisecond, inst: map[string]*vipInst{}}
	sc := bufio.NewScanner(f)
	sc.Buffer(make([]byte, 1<<20), 1<<26)
	for sc.Scan() {
		if len(sc.Bytes()) == 0 {
			continue
		}
		var s vipSched
		if err := json.Unmarshal(sc.Bytes(), &s); err != nil {
			t.Fatalf("bad schedule: %v", err)
		}
		h.runSchedule(&s)
		w.Flush()
	}
	h.teardown()
}
