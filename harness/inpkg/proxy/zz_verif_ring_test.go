package proxy

// Verification harness for C05 (injected with `go test -overlay`, never committed to /repo).
// It holds NO model of the ring: every expected value comes from TLC (spec/Ring/Ring.tla).

import (
	"bufio"
	"encoding/json"
	"fmt"
	"os"
	"reflect"
	"testing"

	"go.temporal.io/server/client/history"
)

type vrSlot struct {
	Sh   int   `json:"sh"`
	Task int64 `json:"task"`
}
type vrConc struct {
	Cap   int      `json:"cap"`
	Head  int      `json:"head"`
	Size  int      `json:"size"`
	Start int64    `json:"start"`
	Slots []vrSlot `json:"slots"`
}
type vrLogEnt struct {
	Pid  int64 `json:"pid"`
	Sh   int   `json:"sh"`
	Task int64 `json:"task"`
}
type vrOp struct {
	Op     string  `json:"op"`
	Pid    int64   `json:"pid"`
	Sh     int     `json:"sh"`
	Task   int64   `json:"task"`
	W      int64   `json:"w"`
	N      int     `json:"n"`
	Res    []int64 `json:"res"`
	Count  int     `json:"count"`
	Ares   []int64 `json:"ares"`
	Acount int     `json:"acount"`
	Cap    int     `json:"cap"` // "new" pseudo-op in sequences
}
type vrTransition struct {
	Op   vrOp       `json:"op"`
	From vrConc     `json:"from"`
	To   vrConc     `json:"to"`
	Alog []vrLogEnt `json:"alog"`
}

func vrShard(k int) history.ClusterShardID {
	switch k {
	case 0:
		return history.ClusterShardID{}
	case 1:
		return history.ClusterShardID{ClusterID: 1, ShardID: 1}
	case 2:
		return history.ClusterShardID{ClusterID: 1, ShardID: 2}
	case 3:
		return history.ClusterShardID{ClusterID: 2, ShardID: 1}
	}
	return history.ClusterShardID{ClusterID: 3, ShardID: int32(k)}
}
func vrShardIdx(s history.ClusterShardID) int {
	for k := 0; k < 8; k++ {
		if vrShard(k) == s {
			return k
		}
	}
	return -1
}

func vrLoad(c vrConc) *proxyIDRingBuffer {
	b := newProxyIDRingBuffer(c.Cap)
	b.head, b.size, b.startProxyID = c.Head, c.Size, c.Start
	for i, s := range c.Slots {
		b.entries[i] = proxyIDMapping{sourceShard: vrShard(s.Sh), sourceTask: s.Task}
	}
	return b
}
func vrDump(b *proxyIDRingBuffer) vrConc {
	c := vrConc{Cap: len(b.entries), Head: b.head, Size: b.size, Start: b.startProxyID}
	for _, e := range b.entries {
		c.Slots = append(c.Slots, vrSlot{Sh: vrShardIdx(e.sourceShard), Task: e.sourceTask})
	}
	return c
}

// vrView is the abstract projection of the real ring: outstanding entries in order.
// It deliberately does not trust size<=cap (reads modulo capacity like the code does).
func vrView(b *proxyIDRingBuffer) []vrLogEnt {
	out := []vrLogEnt{}
	for i := 0; i < b.size; i++ {
		e := b.entries[(b.head+i)%len(b.entries)]
		out = append(out, vrLogEnt{Pid: b.startProxyID + int64(i), Sh: vrShardIdx(e.sourceShard), Task: e.sourceTask})
	}
	return out
}
func vrAgg(b *proxyIDRingBuffer, w int64, nsh int) ([]int64, int) {
	m, n := b.AggregateUpTo(w)
	res := make([]int64, nsh)
	for i := range res {
		res[i] = -1
	}
	for k, v := range m {
		idx := vrShardIdx(k)
		if idx < 1 || idx > nsh {
			// an aggregation key outside the shard universe (e.g. the hole): report as extra slot
			res = append(res, int64(1000+idx))
			continue
		}
		res[idx-1] = v
	}
	return res, n
}

type vrMismatch struct {
	Kind string       `json:"kind"` // "abstract" (property violated) | "concrete" (code left the spec only)
	What string       `json:"what"`
	T    vrTransition `json:"t"`
	Got  interface{}  `json:"got"`
}

func vrApply(b *proxyIDRingBuffer, op vrOp, nsh int) (res []int64, count int, panicked string) {
	defer func() {
		if r := recover(); r != nil {
			panicked = fmt.Sprint(r)
		}
	}()
	switch op.Op {
	case "append":
		b.Append(op.Pid, vrShard(op.Sh), op.Task)
	case "aggregate":
		res, count = vrAgg(b, op.W, nsh)
	case "discard":
		b.Discard(op.N)
	}
	return
}

// TestVerifRingTransitions replays every transition TLC explored on a real proxyIDRingBuffer.
func TestVerifRingTransitions(t *testing.T) {
	in := os.Getenv("VERIF_IN")
	if in == "" {
		t.Skip("VERIF_IN not set")
	}
	f, err := os.Open(in)
	if err != nil {
		t.Fatal(err)
	}
	defer f.Close()
	sc := bufio.NewScanner(f)
	sc.Buffer(make([]byte, 1<<20), 1<<26)
	total, byOp := 0, map[string]int{}
	var mism []vrMismatch
	nAbs, nConc := 0, 0
	var samples []vrTransition
	for sc.Scan() {
		line := sc.Bytes()
		if len(line) == 0 {
			continue
		}
		var s string
		var tr vrTransition
		if line[0] == '"' {
			if err := json.Unmarshal(line, &s); err != nil {
				t.Fatalf("bad line: %v", err)
			}
			if err := json.Unmarshal([]byte(s), &tr); err != nil {
				t.Fatalf("bad json: %v: %s", err, s)
			}
		} else if err := json.Unmarshal(line, &tr); err != nil {
			t.Fatalf("bad json: %v", err)
		}
		total++
		byOp[tr.Op.Op]++
		if total%100003 == 1 && len(samples) < 4 {
			samples = append(samples, tr)
		}
		nsh := len(tr.Op.Res)
		b := vrLoad(tr.From)
		res, count, pan := vrApply(b, tr.Op, nsh)
		add := func(kind, what string, got interface{}) {
			if kind == "abstract" {
				nAbs++
			} else {
				nConc++
			}
			if len(mism) < 40 {
				mism = append(mism, vrMismatch{Kind: kind, What: what, T: tr, Got: got})
			}
		}
		if pan != "" {
			add("abstract", "panic: "+pan, nil)
			continue
		}
		// abstract expectation (the property): TLC's log' and AggAbstract
		view := vrView(b)
		if len(tr.Alog) == 0 && len(view) == 0 {
		} else if !reflect.DeepEqual(view, tr.Alog) {
			add("abstract", "entries after "+tr.Op.Op+" differ from the abstract log", view)
			continue
		}
		if tr.Op.Op == "aggregate" {
			if !reflect.DeepEqual(res, tr.Op.Ares) || count != tr.Op.Acount {
				add("abstract", "aggregate result differs from abstract model", map[string]interface{}{"res": res, "count": count})
				continue
			}
		}
		// concrete expectation (conformance with the spec's transcription of the algorithm)
		got := vrDump(b)
		if !reflect.DeepEqual(got, tr.To) {
			add("concrete", "concrete fields differ from spec", got)
		} else if tr.Op.Op == "aggregate" && (!reflect.DeepEqual(res, tr.Op.Res) || count != tr.Op.Count) {
			add("concrete", "aggregate differs from spec's concrete computation", res)
		}
	}
	if err := sc.Err(); err != nil {
		t.Fatal(err)
	}
	out := map[string]interface{}{"total": total, "by_op": byOp, "abstract_mismatches": nAbs,
		"concrete_mismatches": nConc, "mismatches": mism, "samples": samples}
	data, _ := json.Marshal(out)
	if err := os.WriteFile(os.Getenv("VERIF_OUT"), data, 0o644); err != nil {
		t.Fatal(err)
	}
}

// TestVerifRingSequences runs TLC-generated operation sequences on a fresh real ring, starting from
// newProxyIDRingBuffer(cap), and records what the real code returned as an NDJSON trace that TLC
// validates against the abstract log (spec/Ring/RingObs.tla).
func TestVerifRingSequences(t *testing.T) {
	in := os.Getenv("VERIF_IN")
	if in == "" {
		t.Skip("VERIF_IN not set")
	}
	f, err := os.Open(in)
	if err != nil {
		t.Fatal(err)
	}
	defer f.Close()
	outf, err := os.Create(os.Getenv("VERIF_OUT"))
	if err != nil {
		t.Fatal(err)
	}
	defer outf.Close()
	w := bufio.NewWriterSize(outf, 1<<20)
	defer w.Flush()
	enc := json.NewEncoder(w)
	sc := bufio.NewScanner(f)
	sc.Buffer(make([]byte, 1<<20), 1<<26)
	nsh := 3
	run := 0
	for sc.Scan() {
		line := sc.Bytes()
		if len(line) == 0 {
			continue
		}
		var seq struct {
			Cap int    `json:"cap"`
			Ops []vrOp `json:"ops"`
		}
		if err := json.Unmarshal(line, &seq); err != nil {
			t.Fatalf("bad sequence: %v", err)
		}
		run++
		b := newProxyIDRingBuffer(seq.Cap)
		_ = enc.Encode(map[string]interface{}{"ev": "new", "run": run, "cap": seq.Cap})
		for _, op := range seq.Ops {
			res, count, pan := vrApply(b, op, nsh)
			ev := map[string]interface{}{"ev": op.Op, "run": run, "view": vrView(b), "panic": pan}
			switch op.Op {
			case "append":
				ev["pid"], ev["sh"], ev["task"] = op.Pid, op.Sh, op.Task
			case "aggregate":
				ev["w"], ev["res"], ev["count"] = op.W, res, count
			case "discard":
				ev["n"] = op.N
			}
			_ = enc.Encode(ev)
			if pan != "" {
				break
			}
		}
	}
}
