//go:build verif

package proxy

// Verification harness for C08 (ShardLife): overlapping incarnations of one sender shard and one receiver
// shard on a REAL shardManagerImpl, scheduled step by step with the vhook gates (in-method windows) and the
// fake-stream gates (stream open, Recv return). Commands come from TLC behaviours of spec/ShardLife;
// every command logs the registries as incarnation numbers; verdicts come from ShardLifeObs.tla.

import (
	"sort"
	"bufio"
	"bytes"
	"context"
	"encoding/json"
	"errors"
	"fmt"
	"io"
	"os"
	"runtime"
	"strconv"
	"strings"
	"sync"
	"testing"
	"time"

	"go.temporal.io/server/api/adminservice/v1"
	persistencespb "go.temporal.io/server/api/persistence/v1"
	replicationv1 "go.temporal.io/server/api/replication/v1"
	"go.temporal.io/server/client/history"
	"go.temporal.io/server/common/channel"
	"go.temporal.io/server/common/log"
	"google.golang.org/grpc"

	"github.com/temporalio/s2s-proxy/config"
	"github.com/temporalio/s2s-proxy/encryption"
	"github.com/temporalio/s2s-proxy/internal/vhook"
)

var (
	vlfTgt = history.ClusterShardID{ClusterID: 2, ShardID: 1} // the sender shard under test
	vlfSrc = history.ClusterShardID{ClusterID: 1, ShardID: 1} // the receiver shard under test
)

func vlfGID() int64 {
	var buf [64]byte
	n := runtime.Stack(buf[:], false)
	f := strings.Fields(string(buf[:n]))
	id, _ := strconv.ParseInt(f[1], 10, 64)
	return id
}

type vlfGate struct {
	arrived bool
	release chan struct{}
	kv      []any
}

type vlfSched struct {
	ID   string   `json:"id"`
	Cmds []vlfCmd `json:"cmds"`
}
type vlfCmd struct {
	A string `json:"a"`
	K int    `json:"k,omitempty"`
}

type vlfSender struct {
	k       int
	obj     *proxyStreamSender
	srv     *vlfSrv
	gid     int64
	done    chan struct{}
	pc      string
	at      time.Time
	hasAt   bool
	sd      channel.ShutdownOnce
	paniced string
	primed  bool // has forwarded something of the source shard (its id table has an entry to acknowledge)
	retry   bool // holds an acknowledgement in its retry loop
	retryN  int
}
type vlfReceiver struct {
	k        int
	obj      *proxyStreamReceiver
	cli      *vlfCliStream
	gid      int64
	done     chan struct{}
	pc       string
	sd       channel.ShutdownOnce
	openGate chan struct{}
	atOpen   bool
	retry    bool // holds a task batch in the routing retry loop
}

type vlfHarness struct {
	mu    sync.Mutex
	enc   *json.Encoder
	seq   int
	run   int
	sm    *shardManagerImpl
	gates map[string]*vlfGate // key: point + "@" + gid
	armed map[int64]bool      // goroutines whose hook points block
	snd   map[int]*vlfSender
	rcv   map[int]*vlfReceiver
	ngid  int64
	ndone chan struct{}
	npc   string
	crash string
	wait  time.Duration
	nbatch int
}

func (h *vlfHarness) emit(ev map[string]interface{}) {
	h.seq++
	ev["n"], ev["run"] = h.seq, h.run
	_ = h.enc.Encode(ev)
}

// hook handler: record arrival, block while the goroutine is armed
func (h *vlfHarness) hook(point string, kv ...any) {
	gid := vlfGID()
	h.mu.Lock()
	if point == "sm.register.afterAdd" {
		// remember which registration timestamp belongs to which incarnation
		for _, s := range h.snd {
			if s.gid == gid && len(kv) >= 6 {
				if t, ok := kv[5].(time.Time); ok {
					s.at, s.hasAt = t, true
				}
			}
		}
	}
	if !h.armed[gid] {
		h.mu.Unlock()
		return
	}
	g := &vlfGate{arrived: true, release: make(chan struct{}), kv: kv}
	h.gates[fmt.Sprintf("%s@%d", point, gid)] = g
	h.mu.Unlock()
	<-g.release
}

func (h *vlfHarness) waitCond(cond func() bool) bool {
	deadline := time.Now().Add(h.wait)
	for {
		h.mu.Lock()
		ok := cond()
		h.mu.Unlock()
		if ok {
			return true
		}
		if time.Now().After(deadline) {
			return false
		}
		time.Sleep(100 * time.Microsecond)
	}
}
func (h *vlfHarness) arrived(point string, gid int64) bool { // caller holds mu
	g := h.gates[fmt.Sprintf("%s@%d", point, gid)]
	return g != nil && g.arrived
}
func (h *vlfHarness) release(point string, gid int64) bool {
	h.mu.Lock()
	key := fmt.Sprintf("%s@%d", point, gid)
	g := h.gates[key]
	if g != nil {
		delete(h.gates, key)
	}
	h.mu.Unlock()
	if g == nil {
		return false
	}
	close(g.release)
	return true
}

// ---- fakes
type vlfSrv struct {
	grpc.ServerStream
	h      *vlfHarness
	ctx    context.Context
	broken chan struct{}
	once   sync.Once
	inRecv bool
	acks   chan *adminservice.StreamWorkflowReplicationMessagesRequest // the target's acknowledgements
	nRecv  int                                                          // Recv calls so far
	nSend  int                                                          // Send calls so far
}

func (s *vlfSrv) Context() context.Context { return s.ctx }
func (s *vlfSrv) Send(*adminservice.StreamWorkflowReplicationMessagesResponse) error {
	s.h.mu.Lock()
	s.nSend++
	s.h.mu.Unlock()
	select {
	case <-s.broken:
		return errors.New("broken")
	default:
		return nil
	}
}
func (s *vlfSrv) Recv() (*adminservice.StreamWorkflowReplicationMessagesRequest, error) {
	s.h.mu.Lock()
	s.inRecv = true
	s.nRecv++
	s.h.mu.Unlock()
	select {
	case a := <-s.acks:
		return a, nil
	case <-s.broken:
	}
	return nil, errors.New("broken")
}

type vlfCliStream struct {
	grpc.ClientStream
	h        *vlfHarness
	ctx      context.Context
	batch    chan *adminservice.StreamWorkflowReplicationMessagesResponse
	end      chan struct{} // harness ends the stream
	endOnce  sync.Once
	half     chan struct{}
	halfOnce sync.Once
	exitGate chan struct{} // Recv returns its terminal result only after this is closed
	inRecv   bool
	ctxDone  bool
}

func (c *vlfCliStream) Context() context.Context { return c.ctx }
func (c *vlfCliStream) CloseSend() error {
	c.halfOnce.Do(func() { close(c.half) })
	return nil
}
func (c *vlfCliStream) Send(*adminservice.StreamWorkflowReplicationMessagesRequest) error { return nil }
func (c *vlfCliStream) Recv() (*adminservice.StreamWorkflowReplicationMessagesResponse, error) {
	c.h.mu.Lock()
	c.inRecv = true
	c.h.mu.Unlock()
	var err error
	select {
	case m := <-c.batch:
		c.h.mu.Lock()
		c.inRecv = false
		c.h.mu.Unlock()
		return m, nil
	case <-c.end:
		err = io.EOF
	case <-c.half:
		err = io.EOF
	case <-c.ctx.Done():
		err = c.ctx.Err()
		c.h.mu.Lock()
		c.ctxDone = true
		c.h.mu.Unlock()
	}
	<-c.exitGate // the harness decides when the old incarnation notices
	return nil, err
}

type vlfClient struct {
	adminservice.AdminServiceClient
	h *vlfHarness
	r *vlfReceiver
}

func (c *vlfClient) StreamWorkflowReplicationMessages(ctx context.Context, _ ...grpc.CallOption) (adminservice.AdminService_StreamWorkflowReplicationMessagesClient, error) {
	st := &vlfCliStream{h: c.h, ctx: ctx, batch: make(chan *adminservice.StreamWorkflowReplicationMessagesResponse),
		end: make(chan struct{}), half: make(chan struct{}), exitGate: make(chan struct{})}
	c.h.mu.Lock()
	c.r.cli = st
	c.r.atOpen = true
	c.h.mu.Unlock()
	<-c.r.openGate // gate: between TerminatePreviousLocalReceiver and SetLocalAckChan
	return st, nil
}

// ---- snapshot of the registries as incarnation numbers (0 = none, -1 = unknown object)
func (h *vlfHarness) snapshot() map[string]interface{} { // caller holds mu
	sm := h.sm
	local, send, ack, active, cancel := 0, 0, 0, 0, 0
	sm.mutex.RLock()
	if si, ok := sm.localShards[ClusterShardIDtoShortString(vlfTgt)]; ok {
		local = -1
		for _, s := range h.snd {
			if s.hasAt && s.at.Equal(si.Created) {
				local = s.k
			}
		}
	}
	sm.mutex.RUnlock()
	if ch, ok := sm.GetRemoteSendChan(vlfTgt); ok {
		send = -1
		for _, s := range h.snd {
			if s.obj.sendMsgChan == ch {
				send = s.k
			}
		}
	}
	if ch, ok := sm.GetLocalAckChan(vlfSrc); ok {
		ack = -1
		for _, r := range h.rcv {
			if r.obj.ackChan == ch {
				ack = r.k
			}
		}
	}
	if ar, ok := sm.GetActiveReceiver(vlfSrc); ok {
		active = -1
		for _, r := range h.rcv {
			if ActiveReceiver(r.obj) == ar {
				active = r.k
			}
		}
	}
	if _, ok := sm.GetLocalReceiverCancelFunc(vlfSrc); ok {
		cancel = -1 // present; identity is probed destructively at the end of the run
	}
	pcs, pcr := map[string]string{}, map[string]string{}
	dead := []int{} // receiver incarnations whose upstream stream context is done
	for k, s := range h.snd {
		pcs[fmt.Sprint(k)] = s.pc
	}
	for k, r := range h.rcv {
		pcr[fmt.Sprint(k)] = r.pc
		if r.cli != nil && r.cli.ctx != nil && r.cli.ctx.Err() != nil {
			dead = append(dead, k)
		}
	}
	sort.Ints(dead)
	return map[string]interface{}{"local": local, "send": send, "ack": ack, "active": active, "cancel": cancel, "pcS": pcs, "pcR": pcr, "dead": dead}
}

func (h *vlfHarness) step(name string, k int, ok bool, before map[string]interface{}) {
	h.mu.Lock()
	h.emit(map[string]interface{}{"ev": "Step", "a": name, "k": k, "ok": ok, "before": before, "after": h.snapshot(), "crash": h.crash})
	h.mu.Unlock()
}

func (h *vlfHarness) goSafe(fn func(), onPanic func(string)) {
	go func() {
		defer func() {
			if r := recover(); r != nil {
				buf := make([]byte, 4096)
				n := runtime.Stack(buf, false)
				onPanic(fmt.Sprintf("%v\n%s", r, buf[:n]))
			}
		}()
		fn()
	}()
}

func (h *vlfHarness) reset(id string) {
	h.mu.Lock()
	h.run++
	h.sm = NewShardManager(nil, config.ShardCountConfig{Mode: config.ShardCountRouting, LocalShardCount: 1, RemoteShardCount: 1},
		encryption.TLSConfig{}, vrtLoggers()).(*shardManagerImpl)
	h.sm.SetupCallbacks()
	h.gates, h.armed = map[string]*vlfGate{}, map[int64]bool{}
	h.snd, h.rcv = map[int]*vlfSender{}, map[int]*vlfReceiver{}
	h.ngid, h.npc, h.crash = 0, "idle", ""
	h.emit(map[string]interface{}{"ev": "Config", "id": id})
	h.mu.Unlock()
}

func (h *vlfHarness) senderRunning(s *vlfSender) bool { return s.srv.inRecv }

// exec performs one spec action on the real code; false = not realisable now.
func (h *vlfHarness) exec(c vlfCmd) bool {
	h.mu.Lock()
	before := h.snapshot()
	h.mu.Unlock()
	ok := h.exec1(c)
	h.step(c.A, c.K, ok, before)
	return ok
}

func (h *vlfHarness) exec1(c vlfCmd) bool {
	switch c.A {
	case "SSet":
		ctx := context.Background()
		srv := &vlfSrv{h: h, ctx: ctx, broken: make(chan struct{}), acks: make(chan *adminservice.StreamWorkflowReplicationMessagesRequest)}
		s := &vlfSender{k: c.K, srv: srv, done: make(chan struct{}), pc: "init", sd: channel.NewShutdownOnce()}
		s.obj = &proxyStreamSender{logger: log.NewNoopLogger(), shardManager: h.sm, sourceShardID: vlfSrc, targetShardID: vlfTgt, directionLabel: "verif"}
		h.mu.Lock()
		h.snd[c.K] = s
		h.mu.Unlock()
		started := make(chan struct{})
		h.goSafe(func() {
			gid := vlfGID()
			h.mu.Lock()
			s.gid = gid
			h.armed[gid] = true
			h.mu.Unlock()
			close(started)
			defer close(s.done)
			s.obj.Run(srv, s.sd)
		}, func(p string) {
			h.mu.Lock()
			h.crash = p
			s.paniced = p
			h.mu.Unlock()
		})
		<-started
		if !h.waitCond(func() bool { return h.arrived("sender.run.afterSetChan", s.gid) }) {
			return false
		}
		s.pc = "add"
		return true
	case "SAdd":
		s := h.snd[c.K]
		if s == nil || s.pc != "add" || !h.release("sender.run.afterSetChan", s.gid) {
			return false
		}
		if !h.waitCond(func() bool { return h.arrived("sm.register.afterAdd", s.gid) }) {
			return false
		}
		// let it run into the notification path (or through to running)
		h.release("sm.register.afterAdd", s.gid)
		if !h.waitCond(func() bool {
			return h.arrived("rcv.pendingwm.afterLookup", s.gid) || h.senderRunning(s) || s.paniced != ""
		}) {
			return false
		}
		h.mu.Lock()
		if h.arrived("rcv.pendingwm.afterLookup", s.gid) {
			s.pc = "nsend"
		} else {
			s.pc = "running"
		}
		h.mu.Unlock()
		return true
	case "SNLookup":
		s := h.snd[c.K]
		return s != nil && (s.pc == "nsend" || s.pc == "running") // performed eagerly by SAdd
	case "SNSend":
		s := h.snd[c.K]
		if s == nil {
			return false
		}
		if s.pc == "running" {
			return true
		}
		if s.pc != "nsend" || !h.release("rcv.pendingwm.afterLookup", s.gid) {
			return false
		}
		if !h.waitCond(func() bool { return h.senderRunning(s) || s.paniced != "" }) {
			return false
		}
		s.pc = "running"
		return true
	case "EndS":
		s := h.snd[c.K]
		if s == nil || s.pc == "init" || s.pc == "done" {
			return false
		}
		s.srv.once.Do(func() { close(s.srv.broken) })
		if s.retry {
			// not in Recv: the stream handler's shutdown handle is what tells the acknowledgement loop
			s.sd.Shutdown()
			s.retry = false
		}
		return true
	case "SAck", "SAckRetry":
		// the target acknowledges: the sender translates the watermark and hands it to the source shard's ack channel
		s := h.snd[c.K]
		if s == nil || s.pc != "running" || s.retry {
			return false
		}
		select {
		case <-s.srv.broken:
			return false
		default:
		}
		if !s.primed {
			// something of the source shard must have gone through this sender: a watermark-only message on ITS channel
			h.mu.Lock()
			n0 := s.srv.nSend
			h.mu.Unlock()
			m := RoutedMessage{SourceShard: vlfSrc, Resp: &adminservice.StreamWorkflowReplicationMessagesResponse{Attributes: &adminservice.StreamWorkflowReplicationMessagesResponse_Messages{
				Messages: &replicationv1.WorkflowReplicationMessages{ExclusiveHighWatermark: 9}}}}
			select {
			case s.obj.sendMsgChan <- m:
			case <-time.After(h.wait):
				return false
			}
			if !h.waitCond(func() bool { return s.srv.nSend > n0 }) {
				return false
			}
			s.primed = true
		}
		if !h.waitCond(func() bool { return s.srv.inRecv }) {
			return false
		}
		h.mu.Lock()
		r0 := s.srv.nRecv
		h.mu.Unlock()
		ack := &adminservice.StreamWorkflowReplicationMessagesRequest{Attributes: &adminservice.StreamWorkflowReplicationMessagesRequest_SyncReplicationState{
			SyncReplicationState: &replicationv1.SyncReplicationState{InclusiveLowWatermark: 1000}}}
		select {
		case s.srv.acks <- ack:
		case <-time.After(h.wait):
			return false
		}
		if c.A == "SAck" {
			return h.waitCond(func() bool { return s.srv.nRecv > r0 }) // handed over: back in Recv
		}
		time.Sleep(60 * time.Millisecond)
		h.mu.Lock()
		back := s.srv.nRecv > r0
		h.mu.Unlock()
		if back {
			return false
		}
		s.retry, s.retryN = true, r0
		return true
	case "SRetry":
		s := h.snd[c.K]
		if s == nil || !s.retry {
			return false
		}
		dl := time.Now().Add(3 * time.Second)
		for time.Now().Before(dl) {
			h.mu.Lock()
			back := s.srv.nRecv > s.retryN
			h.mu.Unlock()
			if back {
				s.retry = false
				return true
			}
			time.Sleep(5 * time.Millisecond)
		}
		return false
	case "SClose":
		s := h.snd[c.K]
		if s == nil || s.pc != "running" {
			return false
		}
		select {
		case <-s.srv.broken:
		default:
			return false
		}
		if !h.waitCond(func() bool { return h.arrived("sender.run.afterClose", s.gid) }) {
			return false
		}
		s.pc = "unreg"
		return true
	case "SUnreg":
		s := h.snd[c.K]
		if s == nil || s.pc != "unreg" || !h.release("sender.run.afterClose", s.gid) {
			return false
		}
		if !h.waitCond(func() bool {
			select {
			case <-s.done:
				return true
			default:
			}
			return h.arrived("sm.unregister.window", s.gid)
		}) {
			return false
		}
		h.mu.Lock()
		if h.arrived("sm.unregister.window", s.gid) {
			s.pc = "window"
		} else {
			s.pc = "done"
		}
		h.mu.Unlock()
		return true
	case "SUnreg2", "SRmChan":
		s := h.snd[c.K]
		if s == nil {
			return false
		}
		if s.pc == "done" {
			return true
		}
		if s.pc != "window" || !h.release("sm.unregister.window", s.gid) {
			return false
		}
		select {
		case <-s.done:
		case <-time.After(h.wait):
			return false
		}
		s.pc = "done"
		return true
	case "RTerm":
		r := &vlfReceiver{k: c.K, done: make(chan struct{}), pc: "init", sd: channel.NewShutdownOnce(), openGate: make(chan struct{})}
		r.obj = &proxyStreamReceiver{logger: log.NewNoopLogger(), shardManager: h.sm, adminClient: &vlfClient{h: h, r: r},
			localShardCount: 1, sourceShardID: vlfSrc, targetShardID: vlfTgt, directionLabel: "verif"}
		h.mu.Lock()
		h.rcv[c.K] = r
		h.mu.Unlock()
		started := make(chan struct{})
		h.goSafe(func() {
			gid := vlfGID()
			h.mu.Lock()
			r.gid = gid
			h.armed[gid] = true
			h.mu.Unlock()
			close(started)
			defer close(r.done)
			r.obj.Run(r.sd)
		}, func(p string) {
			h.mu.Lock()
			h.crash = p
			h.mu.Unlock()
		})
		<-started
		if !h.waitCond(func() bool { return r.atOpen }) {
			return false
		}
		r.pc = "setack"
		return true
	case "RSetAck":
		r := h.rcv[c.K]
		if r == nil || r.pc != "setack" {
			return false
		}
		close(r.openGate)
		if !h.waitCond(func() bool { return h.arrived("rcv.run.afterSetAck", r.gid) }) {
			return false
		}
		r.pc = "setrest"
		return true
	case "RSetRest":
		r := h.rcv[c.K]
		if r == nil || r.pc != "setrest" || !h.release("rcv.run.afterSetAck", r.gid) {
			return false
		}
		if !h.waitCond(func() bool { return r.cli != nil && r.cli.inRecv }) {
			return false
		}
		// give it a watermark so that the watermark-replay paths have something to send
		select {
		case r.cli.batch <- &adminservice.StreamWorkflowReplicationMessagesResponse{Attributes: &adminservice.StreamWorkflowReplicationMessagesResponse_Messages{
			Messages: &replicationv1.WorkflowReplicationMessages{ExclusiveHighWatermark: 7}}}:
		case <-time.After(h.wait):
			return false
		}
		if !h.waitCond(func() bool { return r.obj.GetLastWatermark() != nil }) {
			return false
		}
		r.pc = "running"
		return true
	case "RBatch", "RBatchRetry":
		// a task batch for the target shard (localShardCount = 1: every workflow hashes to shard 1) arrives on the receiver's stream
		r := h.rcv[c.K]
		if r == nil || r.pc != "running" || r.retry {
			return false
		}
		if !h.waitCond(func() bool { return r.cli != nil && r.cli.inRecv }) {
			return false
		}
		h.nbatch++
		id := int64(100 + h.nbatch)
		msg := &adminservice.StreamWorkflowReplicationMessagesResponse{Attributes: &adminservice.StreamWorkflowReplicationMessagesResponse_Messages{
			Messages: &replicationv1.WorkflowReplicationMessages{ExclusiveHighWatermark: id + 1, ReplicationTasks: []*replicationv1.ReplicationTask{{
				SourceTaskId: id, RawTaskInfo: &persistencespb.ReplicationTaskInfo{NamespaceId: "verif-ns", WorkflowId: "wf", RunId: "run", TaskId: id}}}}}}
		select {
		case r.cli.batch <- msg:
		case <-time.After(h.wait):
			return false
		}
		h.mu.Lock()
		r.cli.inRecv = false // taken by Recv; true again when the receiver calls Recv the next time
		h.mu.Unlock()
		if c.A == "RBatch" {
			// handed to the registered delivery channel: the receiver is back in Recv
			return h.waitCond(func() bool { return r.cli.inRecv })
		}
		// nowhere to hand it: the receiver stays in its retry loop (it does not come back to Recv)
		time.Sleep(60 * time.Millisecond)
		h.mu.Lock()
		back := r.cli.inRecv
		h.mu.Unlock()
		if back {
			return false
		}
		r.retry = true
		return true
	case "RRetry":
		r := h.rcv[c.K]
		if r == nil || !r.retry {
			return false
		}
		// the back-off of the retry loop grows to 1 s
		dl := time.Now().Add(3 * time.Second)
		for time.Now().Before(dl) {
			h.mu.Lock()
			back := r.cli.inRecv
			h.mu.Unlock()
			if back {
				r.retry = false
				return true
			}
			time.Sleep(5 * time.Millisecond)
		}
		return false
	case "RExit", "RCleanup":
		r := h.rcv[c.K]
		if r == nil {
			return false
		}
		if r.pc == "done" {
			return true
		}
		if r.pc != "running" {
			return false
		}
		r.cli.endOnce.Do(func() { close(r.cli.end) })
		close(r.cli.exitGate)
		exitWait := h.wait
		if r.retry {
			// the receiver is not in Recv: its stream's shutdown handle is what tells it (the handler's other half has ended)
			r.sd.Shutdown()
			exitWait = 3 * time.Second
		}
		select {
		case <-r.done:
		case <-time.After(exitWait):
			return false
		}
		r.retry = false
		r.pc = "done"
		return true
	case "NLookup":
		if h.npc != "idle" {
			return false
		}
		msg := ShardMessage{Type: "register", NodeName: "peer-x", ClientShard: vlfTgt, Timestamp: time.Unix(1, 0)}
		data, _ := json.Marshal(msg)
		done := make(chan struct{})
		h.ndone = done
		started := make(chan struct{})
		h.goSafe(func() {
			gid := vlfGID()
			h.mu.Lock()
			h.ngid = gid
			h.armed[gid] = true
			h.mu.Unlock()
			close(started)
			defer close(done)
			h.sm.delegate.NotifyMsg(data)
		}, func(p string) {
			h.mu.Lock()
			h.crash = p
			h.mu.Unlock()
		})
		<-started
		fin := false
		if !h.waitCond(func() bool {
			select {
			case <-done:
				fin = true
				return true
			default:
			}
			return h.arrived("rcv.pendingwm.afterLookup", h.ngid) || h.arrived("sm.notifymsg.afterRead", h.ngid)
		}) {
			return false
		}
		h.release("sm.notifymsg.afterRead", h.ngid)
		if !fin && !h.waitCond(func() bool {
			select {
			case <-done:
				fin = true
				return true
			default:
			}
			return h.arrived("rcv.pendingwm.afterLookup", h.ngid)
		}) {
			return false
		}
		if fin {
			h.npc = "idle"
		} else {
			h.npc = "send"
		}
		return true
	case "NSend":
		if h.npc == "idle" {
			return true
		}
		h.release("rcv.pendingwm.afterLookup", h.ngid)
		select {
		case <-h.ndone:
		case <-time.After(h.wait):
			return false
		}
		h.npc = "idle"
		return true
	case "DLookup":
		m := &RoutedMessage{SourceShard: vlfSrc, Resp: &adminservice.StreamWorkflowReplicationMessagesResponse{Attributes: &adminservice.StreamWorkflowReplicationMessagesResponse_Messages{
			Messages: &replicationv1.WorkflowReplicationMessages{ExclusiveHighWatermark: 9}}}}
		res := make(chan bool, 1)
		sd := channel.NewShutdownOnce()
		h.goSafe(func() { res <- h.sm.DeliverMessagesToShardOwner(vlfTgt, m, sd, log.NewNoopLogger()) }, func(p string) {
			h.mu.Lock()
			h.crash = p
			h.mu.Unlock()
			res <- false
		})
		select {
		case <-res:
		case <-time.After(50 * time.Millisecond):
			sd.Shutdown() // channel full: the call is allowed to block; release it
			<-res
		}
		return true
	case "DSend":
		return true
	}
	return false
}

// finish: let everything go, end all streams, and report what is left.
func (h *vlfHarness) finish() {
	h.mu.Lock()
	for gid := range h.armed {
		h.armed[gid] = false
	}
	gs := h.gates
	h.gates = map[string]*vlfGate{}
	// settled snapshot before tearing down: who is live, what do the registries say
	h.mu.Unlock()
	for _, g := range gs {
		close(g.release)
	}
	for _, r := range h.rcv {
		select {
		case <-r.openGate:
		default:
			close(r.openGate)
		}
	}
	time.Sleep(3 * time.Millisecond)
	// destructive probe: whose context does the registered cancel func cancel?
	h.mu.Lock()
	snap := h.snapshot()
	h.mu.Unlock()
	probe := 0
	cancelledBefore := map[int]bool{}
	for _, r := range h.rcv {
		cancelledBefore[r.k] = r.cli != nil && r.cli.ctx.Err() != nil
	}
	if fn, ok := h.sm.GetLocalReceiverCancelFunc(vlfSrc); ok {
		probe = -1
		fn()
		for _, r := range h.rcv {
			if r.cli != nil && r.cli.ctx.Err() != nil && !cancelledBefore[r.k] {
				probe = r.k
			}
		}
	}
	liveS, liveR := []int{}, []int{}
	for _, s := range h.snd {
		select {
		case <-s.done:
		default:
			if h.senderRunning(s) {
				liveS = append(liveS, s.k)
			}
		}
	}
	for _, r := range h.rcv {
		select {
		case <-r.done:
		default:
			if r.pc == "running" && !cancelledBefore[r.k] {
				liveR = append(liveR, r.k)
			}
		}
	}
	h.mu.Lock()
	h.emit(map[string]interface{}{"ev": "Settled", "snap": snap, "liveS": liveS, "liveR": liveR, "cancelProbe": probe, "crash": h.crash})
	h.mu.Unlock()
	// end everything
	for _, s := range h.snd {
		s.srv.once.Do(func() { close(s.srv.broken) })
		s.sd.Shutdown()
	}
	for _, r := range h.rcv {
		if r.cli != nil {
			r.cli.endOnce.Do(func() { close(r.cli.end) })
			select {
			case <-r.cli.exitGate:
			default:
				close(r.cli.exitGate)
			}
		}
		// a receiver that is not in Recv (routing retry loop) learns of the end through the stream handler's shutdown handle
		r.sd.Shutdown()
	}
	clean := true
	for _, s := range h.snd {
		select {
		case <-s.done:
		case <-time.After(3 * time.Second):
			clean = false
		}
	}
	for _, r := range h.rcv {
		select {
		case <-r.done:
		case <-time.After(3 * time.Second):
			clean = false
		}
	}
	time.Sleep(2 * time.Millisecond)
	// goroutine census: proxy stream workers still running. The sender's Run does not wait for its acknowledgement loop, and
	// a retry loop sleeps up to 1 s between two looks at its shutdown handle: a worker counts when it is still there after
	// a bounded wait
	buf := make([]byte, 1<<20)
	var n int
	for dl := time.Now().Add(5 * time.Second); ; {
		n = runtime.Stack(buf, true)
		fresh := 0
		for _, g := range bytes.Split(buf[:n], []byte("\n\n")) {
			if (bytes.Contains(g, []byte("proxy.(*proxyStreamSender)")) || bytes.Contains(g, []byte("proxy.(*proxyStreamReceiver)"))) &&
				!vlfLeaked[string(bytes.SplitN(g, []byte(" ["), 2)[0])] {
				fresh++
			}
		}
		if fresh == 0 || time.Now().After(dl) {
			break
		}
		time.Sleep(10 * time.Millisecond)
	}
	workers := 0
	kinds := []string{}
	for _, g := range bytes.Split(buf[:n], []byte("\n\n")) {
		if bytes.Contains(g, []byte("proxy.(*proxyStreamSender)")) || bytes.Contains(g, []byte("proxy.(*proxyStreamReceiver)")) {
			// a worker that an earlier run of this process left behind was reported there
			gl := string(bytes.SplitN(g, []byte(" ["), 2)[0])
			if vlfLeaked[gl] {
				continue
			}
			vlfLeaked[gl] = true
			workers++
			for _, ln := range bytes.Split(g, []byte("\n")) {
				if bytes.Contains(ln, []byte("proxy.(*proxyStream")) {
					kinds = append(kinds, string(bytes.TrimSpace(ln)))
					break
				}
			}
		}
	}
	sort.Strings(kinds)
	h.mu.Lock()
	h.emit(map[string]interface{}{"ev": "End", "snap": h.snapshot(), "clean": clean, "workers": workers, "kinds": kinds, "crash": h.crash})
	h.mu.Unlock()
}

var vlfLeaked = map[string]bool{}

func TestVerifLifeSchedules(t *testing.T) {
	in := os.Getenv("VERIF_IN")
	if in == "" {
		t.Skip("VERIF_IN not set")
	}
	f, err := os.Open(in)
	if err != nil {
		t.Fatal(err)
	}
	defer f.Close()
	outf, err := os.Create(os.Getenv("VERIF_OUT"))
	if err != nil {
		t.Fatal(err)
	}
	defer outf.Close()
	w := bufio.NewWriterSize(outf, 1<<16)
	h := &vlfHarness{enc: json.NewEncoder(w), wait: 1500 * time.Millisecond}
	vhook.Set(h.hook)
	defer vhook.Set(nil)
	sc := bufio.NewScanner(f)
	sc.Buffer(make([]byte, 1<<20), 1<<26)
	for sc.Scan() {
		if len(sc.Bytes()) == 0 {
			continue
		}
		var s vlfSched
		if err := json.Unmarshal(sc.Bytes(), &s); err != nil {
			t.Fatalf("bad schedule: %v", err)
		}
		h.reset(s.ID)
		for i, c := range s.Cmds {
			if !h.exec(c) {
				h.mu.Lock()
				h.emit(map[string]interface{}{"ev": "Unrealised", "at": i, "cmd": c})
				h.mu.Unlock()
				break
			}
		}
		h.finish()
		w.Flush()
	}
	w.Flush()
}
