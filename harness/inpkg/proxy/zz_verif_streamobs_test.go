//go:build verif

package proxy

// Verification harness for C20 (StreamObs).  Uses the rig of zz_verif_lcm_test.go: a REAL ClusterConnection
// (NewClusterConnection, TCP loopback, both grpc servers started, real ReplicationStreamObserver wired by
// createTCPServer) between two fake clusters.  Every probe gets a fresh rig:
//
//   Hold      a well-formed stream is opened and kept open
//   Open      a stream whose metadata carries the value under test in one of the four keys
//   Result    served (a fake cluster saw the proxy's upstream open, and the stream ended normally after the client
//             half-closed) | rejected (grpc status) | hang | ended-ok (closed without error and without serving)
//   FollowUp  a well-formed stream opened afterwards: served within the bound?  PrintActiveStreams of the server's
//             real observer while Hold and FollowUp are open, and after everything was closed
//
// No oracle here: spec/StreamObs/StreamObsObs.tla judges the events.

import (
	"bufio"
	"context"
	"encoding/json"
	"errors"
	"fmt"
	"io"
	"os"
	"runtime"
	"runtime/debug"
	"sort"
	"strconv"
	"strings"
	"sync"
	"sync/atomic"
	"testing"
	"time"

	"go.temporal.io/server/api/adminservice/v1"
	"google.golang.org/grpc"
	"google.golang.org/grpc/metadata"
	"google.golang.org/grpc/status"

	"github.com/temporalio/s2s-proxy/config"
)

type vsoCase struct {
	N       int    `json:"n"`
	ID      int    `json:"id"`
	Mode    string `json:"mode"` // "default" | "lcm" | "routing"
	Srv     string `json:"srv"`  // "inbound" | "outbound"
	Key     string `json:"key"`  // "ccl" | "csh" | "scl" | "ssh"
	Val     string `json:"val"`
	Absent  bool   `json:"absent"`
	Numeric bool   `json:"numeric"`
	Limbs   []int  `json:"limbs"`
	Big     bool   `json:"big"`
}

type vsoOut struct {
	mu sync.Mutex
	f  *os.File
}

func (o *vsoOut) emit(v interface{}) {
	b, _ := json.Marshal(v)
	o.mu.Lock()
	_, _ = o.f.Write(append(b, '\n'))
	o.mu.Unlock()
}

const (
	vsoHoldShard   = 9
	vsoFollowShard = 7
	vsoHold2Shard  = 2000 // beyond the observer's initial 1024 counters
)

type vsoStream struct {
	cl     adminservice.AdminService_StreamWorkflowReplicationMessagesClient
	cancel context.CancelFunc
	ended  chan error
}

func vsoDrain(r *vlRig) {
	for _, u := range []*vlUpstream{r.upLocal, r.upRemote} {
		for {
			select {
			case <-u.opens:
				continue
			default:
			}
			break
		}
	}
}

// vsoOpen opens a stream and waits until a fake cluster has seen the proxy's upstream open, the stream ended, or the
// bound expired.  what: "served-open" | "ended" | "hang".
func vsoOpen(r *vlRig, srv string, md metadata.MD, bound time.Duration) (s *vsoStream, what string, err error, took time.Duration) {
	vsoDrain(r)
	t0 := time.Now()
	ctx, cancel := context.WithCancel(metadata.NewOutgoingContext(context.Background(), md))
	cl, e := adminservice.NewAdminServiceClient(r.conn[srv]).StreamWorkflowReplicationMessages(ctx)
	if e != nil {
		cancel()
		return nil, "ended", e, time.Since(t0)
	}
	s = &vsoStream{cl: cl, cancel: cancel, ended: make(chan error, 1)}
	go func() {
		for {
			if _, err := cl.Recv(); err != nil {
				s.ended <- err
				return
			}
		}
	}()
	tm := time.NewTimer(bound)
	defer tm.Stop()
	select {
	case <-r.upLocal.opens:
		return s, "served-open", nil, time.Since(t0)
	case <-r.upRemote.opens:
		return s, "served-open", nil, time.Since(t0)
	case e := <-s.ended:
		s.ended <- e
		return s, "ended", e, time.Since(t0)
	case <-tm.C:
		return s, "hang", nil, time.Since(t0)
	}
}

// vsoClose half-closes and waits for the end of the stream: "ok" (EOF), "error", "hang".
func vsoClose(s *vsoStream, bound time.Duration) (string, string) {
	if s == nil {
		return "error", "not opened"
	}
	defer s.cancel()
	_ = s.cl.CloseSend()
	tm := time.NewTimer(bound)
	defer tm.Stop()
	select {
	case e := <-s.ended:
		if e == io.EOF {
			return "ok", ""
		}
		return "error", e.Error()
	case <-tm.C:
		return "hang", ""
	}
}

func vsoPrinter(o *ReplicationStreamObserver, bound time.Duration) (string, []int) {
	ch := make(chan string, 1)
	go func() { ch <- o.PrintActiveStreams() }()
	tm := time.NewTimer(bound)
	defer tm.Stop()
	select {
	case s := <-ch:
		ids := []int{}
		for _, p := range strings.Split(strings.Trim(s, "[]"), ",") {
			if p == "" {
				continue
			}
			n, err := strconv.Atoi(p)
			if err != nil {
				return "garbled:" + s, ids
			}
			ids = append(ids, n)
		}
		return "ok", ids
	case <-tm.C:
		return "blocked", []int{}
	}
}

func vsoMD(c *vsoCase) metadata.MD {
	v := map[string]string{"ccl": "1", "csh": "5", "scl": "2", "ssh": "6"}
	if c != nil {
		v[c.Key] = c.Val
		if c.Absent {
			v[c.Key] = "\x00absent"
		}
	}
	return vlStreamMD(v["ccl"], v["csh"], v["scl"], v["ssh"], "")
}

func vsoWellFormed(csh, ssh int) metadata.MD {
	return vlStreamMD("1", strconv.Itoa(csh), "2", strconv.Itoa(ssh), "")
}

func vsoShardCfg(mode string) config.ShardCountConfig {
	switch mode {
	case "lcm":
		return config.ShardCountConfig{Mode: config.ShardCountLCM, LocalShardCount: 4, RemoteShardCount: 6}
	case "routing":
		return config.ShardCountConfig{Mode: config.ShardCountRouting, LocalShardCount: 4, RemoteShardCount: 6}
	}
	return config.ShardCountConfig{}
}

func vsoProbe(c vsoCase, out *vsoOut, followBound time.Duration) error {
	// the rig: a fresh ClusterConnection with two well-formed streams held open. On an overloaded machine (several probing
	// processes, some of them allocating gigabytes) even that can take long: three attempts with a generous bound, and a probe
	// whose rig still does not come up is reported as skipped (no verdict either way; the check fails as broken when many are)
	var rig *vlRig
	var hold, hold2 *vsoStream
	why := ""
	for attempt := 0; attempt < 3 && rig == nil; attempt++ {
		r, err := vlNewRig(vsoShardCfg(c.Mode), 4, 6)
		if err != nil {
			why = err.Error()
			continue
		}
		h1, hw, herr, _ := vsoOpen(r, c.Srv, vsoWellFormed(3, vsoHoldShard), 30*time.Second)
		if hw != "served-open" {
			why = fmt.Sprintf("the first well-formed stream was not served (%s %v)", hw, herr)
			if h1 != nil {
				h1.cancel()
			}
			r.close()
			continue
		}
		// a second held stream whose id lies beyond the observer's initial capacity (in the grown part of the counter slice):
		// its bookkeeping must survive whatever the probed open and its close do to the slice
		h2, hw2, herr2, _ := vsoOpen(r, c.Srv, vsoWellFormed(2, vsoHold2Shard), 30*time.Second)
		if hw2 != "served-open" {
			why = fmt.Sprintf("the second well-formed stream was not served (%s %v)", hw2, herr2)
			h1.cancel()
			if h2 != nil {
				h2.cancel()
			}
			r.close()
			continue
		}
		rig, hold, hold2 = r, h1, h2
	}
	if rig == nil {
		out.emit(map[string]interface{}{"ev": "Skipped", "id": c.ID, "why": why})
		return nil
	}
	defer rig.close()
	obs := rig.cc.inboundObserver
	if c.Srv == "outbound" {
		obs = rig.cc.outboundObserver
	}
	// "never" is the failure, not "slow": growing to 2^27 counters allocates and copies hundreds of MB (seconds under load)
	resultBound := 15 * time.Second
	if c.Big {
		resultBound = 120 * time.Second
	}
	short := 500 * time.Millisecond
	open := map[string]interface{}{"ev": "Open", "id": c.ID, "n": c.N, "mode": c.Mode, "srv": c.Srv, "key": c.Key, "val": c.Val,
		"absent": c.Absent, "numeric": c.Numeric, "limbs": c.Limbs}
	out.emit(open)
	// ---- the probed open
	x, what, xerr, took := vsoOpen(rig, c.Srv, vsoMD(&c), resultBound)
	res := map[string]interface{}{"ev": "Result", "id": c.ID, "code": "", "detail": "", "panic": false, "ms": took.Milliseconds()}
	switch what {
	case "served-open":
		end, detail := vsoClose(x, resultBound)
		switch end {
		case "ok":
			res["result"] = "served"
		case "hang":
			res["result"] = "closehang"
		default:
			res["result"], res["detail"] = "served-then-error", detail
		}
	case "ended":
		if xerr == io.EOF {
			res["result"] = "ended-ok"
		} else {
			st, _ := status.FromError(xerr)
			res["result"], res["code"], res["detail"] = "rejected", st.Code().String(), st.Message()
			res["panic"] = vlIsPanicText(st.Message())
		}
		if x != nil {
			x.cancel()
		}
	default:
		res["result"] = "hang"
		x.cancel()
	}
	if d, _ := res["detail"].(string); len(d) > 160 {
		res["detail"] = d[:160]
	}
	out.emit(res)
	// ---- a well-formed stream opened afterwards
	f, fw, ferr, ftook := vsoOpen(rig, c.Srv, vsoWellFormed(4, vsoFollowShard), followBound)
	fu := map[string]interface{}{"ev": "FollowUp", "id": c.ID, "ms": ftook.Milliseconds(), "holdId": vsoHoldShard, "hold2Id": vsoHold2Shard, "followId": vsoFollowShard,
		"detail": "", "during": []int{}, "after": []int{}}
	closeBound := resultBound
	switch fw {
	case "served-open":
		fu["follow"] = "served"
	case "ended":
		fu["follow"], fu["detail"] = "rejected", fmt.Sprint(ferr)
	default:
		fu["follow"] = "hang"
		closeBound = short // wedged: the remaining waits give no further verdict
	}
	// PrintActiveStreams walks the whole slice (seconds for 2^28 counters under load); only "never" is a failure
	pb := 3 * time.Second
	if c.Big {
		pb = 40 * time.Second
	}
	if fw == "hang" {
		pb = short
	}
	fu["printer"], fu["during"] = vsoPrinter(obs, pb)
	// once one wait of this probe has run into its bound the server is wedged: the remaining waits add no verdict, they get the
	// short bound (a wedged probe must not eat the process' time budget)
	if fu["printer"] != "ok" {
		closeBound, pb = short, short
	}
	if fw == "served-open" {
		fu["followEnd"], _ = vsoClose(f, closeBound)
		if fu["followEnd"] == "hang" {
			closeBound, pb = short, short
		}
	} else {
		fu["followEnd"] = "none"
		if f != nil {
			f.cancel()
		}
	}
	fu["holdEnd"], _ = vsoClose(hold, closeBound)
	if fu["holdEnd"] == "hang" {
		closeBound, pb = short, short
	}
	if e2, _ := vsoClose(hold2, closeBound); e2 != "ok" {
		fu["holdEnd"] = e2
	}
	if fu["printer"] == "ok" {
		_, fu["after"] = vsoPrinter(obs, pb)
	}
	out.emit(fu)
	return nil
}


// vsoTracked: server shard ids of the forwarder entries of the process-wide stream tracker, ascending.
func vsoTracked() []int {
	ids := []int{}
	for _, si := range GetGlobalStreamTracker().GetActiveStreams() {
		if si.Role != StreamRoleForwarder {
			continue
		}
		var cl, sh int
		if _, err := fmt.Sscanf(si.ServerShard, "(id: %d, shard: %d)", &cl, &sh); err != nil {
			sh = -1
		}
		ids = append(ids, sh)
	}
	sort.Ints(ids)
	return ids
}

// vsoOverlap: several well-formed streams open at the same time on one server - distinct server shard ids that are congruent
// modulo both clusters' shard counts (4 and 6: 1, 5, 7, 9), then a second stream on a server shard id that is already
// streaming (clusters with different shard counts; a reconnect before the old stream is gone).  After every step the
// observer's active set and (forwarder modes) the tracker's entries are recorded; StreamObsObs compares them with the
// streams that are open.
func vsoOverlap(id int, mode, srv string, out *vsoOut) error {
	// a rig that serves a well-formed stream at all (three attempts, generous bound: an overloaded machine is not a verdict)
	var rig *vlRig
	var err error
	for attempt := 0; attempt < 3 && rig == nil; attempt++ {
		var r *vlRig
		if r, err = vlNewRig(vsoShardCfg(mode), 4, 6); err != nil {
			continue
		}
		st, w, e, _ := vsoOpen(r, srv, vsoWellFormed(9, 11), 30*time.Second)
		if w != "served-open" {
			err = fmt.Errorf("rig not usable: a well-formed stream was not served (%s %v)", w, e)
			if st != nil {
				st.cancel()
			}
			r.close()
			continue
		}
		if end, _ := vsoClose(st, 30*time.Second); end != "ok" {
			err = fmt.Errorf("rig not usable: a well-formed stream did not end (%s)", end)
			r.close()
			continue
		}
		rig = r
	}
	if rig == nil {
		return err
	}
	defer rig.close()
	obs := rig.cc.inboundObserver
	if srv == "outbound" {
		obs = rig.cc.outboundObserver
	}
	// the tracker is process-wide: wait until earlier rigs' streams are gone
	base := -1
	for k := 0; k < 400; k++ {
		if base = len(vsoTracked()); base == 0 {
			break
		}
		time.Sleep(50 * time.Millisecond)
	}
	steps := []map[string]interface{}{}
	open := map[int]*vsoStream{}
	notServed := 0
	snap := func(what string, twin bool) {
		ids, all := []int{}, []int{} // server shard ids with an open stream; one per open stream
		for k := range open {
			if k < 100 {
				ids = append(ids, k)
			}
			all = append(all, k%100)
		}
		sort.Ints(ids)
		sort.Ints(all)
		// bookkeeping of a closed stream is undone when its handler returns, shortly after the client saw the end
		var pr string
		var act, trk []int
		for k := 0; k < 200; k++ {
			pr, act = vsoPrinter(obs, 3*time.Second)
			trk = vsoTracked()
			trkSettled := mode == "routing" || fmt.Sprint(trk) == fmt.Sprint(all)
			if pr != "ok" || (fmt.Sprint(act) == fmt.Sprint(ids) && trkSettled) {
				break
			}
			time.Sleep(50 * time.Millisecond)
		}
		steps = append(steps, map[string]interface{}{"what": what, "open": ids, "streams": all, "twin": twin, "printer": pr, "active": act, "tracked": trk})
	}
	op := func(key, csh, ssh int) {
		st, w, _, _ := vsoOpen(rig, srv, vsoWellFormed(csh, ssh), 30*time.Second)
		if w != "served-open" {
			notServed++
			if st != nil {
				st.cancel()
			}
			return
		}
		open[key] = st
	}
	cl := func(key int) {
		if st := open[key]; st != nil {
			if e, _ := vsoClose(st, 30*time.Second); e != "ok" {
				notServed++
			}
			delete(open, key)
		}
	}
	for i, ssh := range []int{1, 5, 7, 9} {
		op(ssh, i+1, ssh)
	}
	snap("opened 1 5 7 9", false)
	cl(1)
	snap("closed 1", false)
	op(105, 6, 5) // the twin: server shard 5 again, another client shard
	snap("opened a second stream on 5", true)
	cl(105)
	snap("closed the second stream on 5", true)
	cl(7)
	snap("closed 7", true)
	cl(5)
	cl(9)
	snap("closed 5 9", true)
	out.emit(map[string]interface{}{"ev": "Overlap", "id": id, "mode": mode, "srv": srv, "baseline": base, "notserved": notServed,
		"forwarder": mode != "routing", "steps": steps})
	return nil
}

// ---------------------------------------------------------------- one stream fails by a panic; several streams at once

// an upstream client that panics: "handleStream panics" for whatever reason (StreamObs!Serve, ServeFails)
type vsoPanicClient struct {
	adminservice.AdminServiceClient
}

func (c *vsoPanicClient) StreamWorkflowReplicationMessages(context.Context, ...grpc.CallOption) (adminservice.AdminService_StreamWorkflowReplicationMessagesClient, error) {
	panic("verif: upstream client panics")
}

// vsoCall runs the real stream handler of the real server object once (only the upstream client replaced): "served" (the
// open reached the upstream), "rejected" (an error came back), "panic-escaped", "hang".
func vsoCall(impl *adminServiceProxyServer, shard int, client adminservice.AdminServiceClient, bound time.Duration) string {
	cp := *impl
	cp.adminClient = client
	ctx, cancel := context.WithCancel(metadata.NewIncomingContext(context.Background(),
		vlStreamMD(strconv.Itoa(vlClientCluster), "1", strconv.Itoa(vlServerCluster), strconv.Itoa(shard), "x")))
	defer cancel()
	done := make(chan string, 1)
	go func() {
		res := "rejected"
		defer func() {
			if recover() != nil {
				res = "panic-escaped"
			}
			done <- res
		}()
		err := cp.StreamWorkflowReplicationMessages(&vlSrvStream{ctx: ctx})
		if errors.Is(err, errVlCaptured) {
			res = "served"
		}
	}()
	select {
	case r := <-done:
		return r
	case <-time.After(bound):
		return "hang"
	}
}

// TestVerifStreamObsExtra: (1) ServePanic: a stream whose handler panics inside handleStream, then a well-formed stream on the
// SAME shard, then the observer must show nothing active. (2) Concurrent: workers open and close small shard ids while other
// streams force the counter slice to grow again and again (real parallelism; StreamObs's H handlers on one observer); at the
// end the observer must show nothing active.
func TestVerifStreamObsExtra(t *testing.T) {
	outp := os.Getenv("VERIF_OUT")
	if outp == "" {
		t.Skip("VERIF_OUT not set")
	}
	rounds := 6
	if v, _ := strconv.Atoi(os.Getenv("VERIF_ROUNDS")); v > 0 {
		rounds = v
	}
	of, err := os.Create(outp)
	if err != nil {
		t.Fatal(err)
	}
	defer of.Close()
	out := &vsoOut{f: of}
	if runtime.GOMAXPROCS(0) < 4 {
		runtime.GOMAXPROCS(4)
	}
	id := 0
	for _, mode := range []string{"default", "lcm", "routing"} {
		for _, srv := range []string{"inbound", "outbound"} {
			id++
			if err := vsoOverlap(id, mode, srv, out); err != nil {
				t.Fatal(err)
			}
		}
	}
	for _, mode := range []string{"default", "lcm"} {
		for _, srv := range []string{"inbound", "outbound"} {
			rig, err := vlNewRig(vsoShardCfg(mode), 4, 6)
			if err != nil {
				t.Fatal(err)
			}
			impl, err := rig.adminImpl(srv)
			if err != nil {
				t.Fatal(err)
			}
			obs := rig.cc.inboundObserver
			if srv == "outbound" {
				obs = rig.cc.outboundObserver
			}
			id++
			failing := vsoCall(impl, 2, &vsoPanicClient{}, 5*time.Second)
			follow := vsoCall(impl, 2, &vlCapClient{}, 5*time.Second)
			pr, after := vsoPrinter(obs, 3*time.Second)
			out.emit(map[string]interface{}{"ev": "ServePanic", "id": id, "mode": mode, "srv": srv, "failing": failing, "follow": follow,
				"printer": pr, "after": after})
			for round := 0; round < rounds; round++ {
				id++
				var wg sync.WaitGroup
				var bad, wedged atomic.Int32
				start := make(chan struct{})
				for w := 1; w <= 8; w++ {
					wg.Add(1)
					go func(w int) {
						defer wg.Done()
						<-start
						for k := 0; k < 60 && wedged.Load() == 0; k++ {
							if r := vsoCall(impl, w, &vlCapClient{}, 10*time.Second); r != "served" {
								bad.Add(1)
								if r == "hang" { // wedged: further calls only wait for their bound
									wedged.Add(1)
								}
							}
						}
					}(w)
				}
				grows := 0
				wg.Add(1)
				go func() {
					defer wg.Done()
					<-start
					// every id is more than 9/8 of the size the previous one left behind: each forces a grow (allocate, copy, publish)
					for g := 1100 * (round + 1); g < 6000000 && wedged.Load() == 0; g = g*2 + 77 {
						if r := vsoCall(impl, g, &vlCapClient{}, 20*time.Second); r != "served" {
							bad.Add(1)
							if r == "hang" {
								wedged.Add(1)
							}
						}
						grows++
					}
				}()
				close(start)
				wg.Wait()
				pb := 10 * time.Second
				if wedged.Load() > 0 {
					pb = time.Second
				}
				pr, after := vsoPrinter(obs, pb)
				out.emit(map[string]interface{}{"ev": "Concurrent", "id": id, "mode": mode, "srv": srv, "round": round, "workers": 8, "grows": grows,
					"notserved": int(bad.Load()), "printer": pr, "after": after})
				if wedged.Load() > 0 {
					break
				}
			}
			rig.close()
			debug.FreeOSMemory()
		}
	}
}

// TestVerifStreamObs: VERIF_IN = NDJSON of vsoCase, VERIF_OUT = NDJSON events.
func TestVerifStreamObs(t *testing.T) {
	in, outp := os.Getenv("VERIF_IN"), os.Getenv("VERIF_OUT")
	if in == "" || outp == "" {
		t.Skip("VERIF_IN / VERIF_OUT not set")
	}
	followBound := 3 * time.Second
	if v, _ := strconv.Atoi(os.Getenv("VERIF_FOLLOW_BOUND_MS")); v > 0 {
		followBound = time.Duration(v) * time.Millisecond
	}
	f, err := os.Open(in)
	if err != nil {
		t.Fatal(err)
	}
	defer f.Close()
	var cases []vsoCase
	sc := bufio.NewScanner(f)
	for sc.Scan() {
		var c vsoCase
		if err := json.Unmarshal(sc.Bytes(), &c); err != nil {
			t.Fatal(err)
		}
		cases = append(cases, c)
	}
	of, err := os.Create(outp)
	if err != nil {
		t.Fatal(err)
	}
	defer of.Close()
	out := &vsoOut{f: of}
	par := 6
	if v, _ := strconv.Atoi(os.Getenv("VERIF_PAR")); v > 0 {
		par = v
	}
	sem := make(chan struct{}, par)
	bigSem := make(chan struct{}, 2)
	var wg sync.WaitGroup
	var emu sync.Mutex
	var firstErr error
	for _, c := range cases {
		wg.Add(1)
		sem <- struct{}{}
		go func(c vsoCase) {
			defer func() { <-sem; wg.Done() }()
			if c.Big {
				bigSem <- struct{}{}
				defer func() {
					debug.FreeOSMemory()
					<-bigSem
				}()
			}
			if err := vsoProbe(c, out, followBound); err != nil {
				emu.Lock()
				if firstErr == nil {
					firstErr = fmt.Errorf("case %d: %w", c.ID, err)
				}
				emu.Unlock()
			}
		}(c)
	}
	wg.Wait()
	if firstErr != nil {
		t.Fatal(firstErr) // not a verdict: the harness could not run
	}
}
