//go:build verif

package proxy

// Verification harness for C06 (Forwarder): pass-through replication streams with REAL gRPC on both sides.
//
//	initiator (real AdminServiceClient)  ->  real grpc.Server + REAL adminServiceProxyServer.StreamWorkflowReplicationMessages
//	    (default or LCM mode; handleStream -> StreamForwarder.Run)  ->  real grpc.ClientConn  ->  scripted fake source cluster
//	    (a grpc.Server with an AdminService implementation)
//
// Each input line is one environment script of spec/Forwarder/ForwarderEnv.tla (printed by ForwarderSim): the commands
// S / I / SE m / IE m / L in one total order, at most one injected fault, and sync (delivery barrier before every
// command) or not (commands fired back to back). The harness executes the script, records what both peers sent, received
// and saw end, the handler's return, and a census of forwarder goroutines. It holds no oracle: spec/Forwarder/ForwarderObs.tla
// (TLC) judges the recorded trace. Waits are condition waits with a deadline (vfwDeadline); nothing depends on a sleep
// being long enough.
//
// Fault injection: unknown kind = a message with nil attributes; Send failures = the p-th SendMsg fails, injected in a
// stream interceptor of the proxy's grpc.Server (towards the initiator) / in a wrapper of the AdminServiceClient handed to
// the proxy (towards the source); lifetime = the context given to the proxy ends, which closes the client conn
// (real buildTLSTCPClient) and gracefully stops the server (real simpleGRPCServer), as in cluster_connection.go.

import (
	"bufio"
	"context"
	"crypto/sha1"
	"encoding/hex"
	"encoding/json"
	"errors"
	"io"
	"net"
	"os"
	"regexp"
	"runtime"
	"sort"
	"strconv"
	"strings"
	"sync"
	"testing"
	"time"

	"go.temporal.io/server/api/adminservice/v1"
	replicationv1 "go.temporal.io/server/api/replication/v1"
	"go.temporal.io/server/client/history"
	"go.temporal.io/server/common/log"
	"google.golang.org/grpc"
	"google.golang.org/grpc/codes"
	"google.golang.org/grpc/credentials/insecure"
	"google.golang.org/grpc/metadata"
	"google.golang.org/grpc/status"
	"google.golang.org/protobuf/proto"
	"google.golang.org/protobuf/types/known/timestamppb"

	"github.com/temporalio/s2s-proxy/config"
	"github.com/temporalio/s2s-proxy/encryption"
	"github.com/temporalio/s2s-proxy/logging"
)

const vfwDeadline = 3 * time.Second

type vfwCmd struct {
	C string `json:"c"`
	M string `json:"m"`
}
type vfwFault struct {
	K string `json:"k"`
	P int    `json:"p"`
}
type vfwSched struct {
	ID    string   `json:"id"`
	Mode  string   `json:"mode"` // default | lcm
	Cmds  []vfwCmd `json:"cmds"`
	Fault vfwFault `json:"fault"`
	Sync  bool     `json:"sync"`
	Src   string   `json:"src"`     // coop | silent: what the source does when its Recv loop sees the half-close
	Wm    string   `json:"payload"`
	Code  string   `json:"code"` // what an injected / scripted failure looks like: a gRPC status of that code, or "plain" (no status) // inc | flat: watermarks increase / repeat and go back (identity travels in the timestamp)
}

// state of one run, guarded by vfwHarness.mu
type vfwRun struct {
	sc                             *vfwSched
	src                            *vfwSrcCall
	srcSent, iniGot                int // sent without error / received
	iniSent, srcGot                int
	nT, nS                         int // proxy Send calls towards the initiator / the source
	ended                          bool
	handlerReturned                bool
	iniEnded, srcOpened, srcReturn bool
	changed                        chan struct{}
	holdT, holdS                   chan struct{} // non-nil: the proxy's Sends towards the initiator / the source wait (slow peer)
	twinning, twinOpened           bool          // TW: a second stream with the same metadata is being opened / reached the source
}

type vfwSrcCall struct {
	mu       sync.Mutex // Send vs. return
	ss       adminservice.AdminService_StreamWorkflowReplicationMessagesServer
	returned bool
	end      chan error
	recvDone chan struct{}
}

type vfwProxy struct {
	lifetime context.Context
	cancel   context.CancelFunc
	srv      *grpc.Server
	lis      net.Listener
	conn     closableClientConn // proxy -> source
	iniConn  *grpc.ClientConn   // initiator -> proxy
	client   adminservice.AdminServiceClient
	stopped  chan struct{}
}

type vfwHarness struct {
	mu       sync.Mutex
	enc      *json.Encoder
	seq      int
	runNo    int
	cur      *vfwRun
	srcSrv   *grpc.Server
	srcAddr  string
	deadAddr string
	proxies  map[string]*vfwProxy
	leaked   map[int64]bool
	slow     int
}

func (h *vfwHarness) emit(ev map[string]interface{}) { // caller holds h.mu
	h.seq++
	ev["n"], ev["run"] = h.seq, h.runNo
	_ = h.enc.Encode(ev)
}

func (h *vfwHarness) note(r *vfwRun, ev map[string]interface{}, upd func()) {
	h.mu.Lock()
	if h.cur == r { // events of an abandoned run (after a hard reset) are dropped
		if upd != nil {
			upd()
		}
		if ev != nil {
			h.emit(ev)
		}
	}
	h.mu.Unlock()
	select {
	case r.changed <- struct{}{}:
	default:
	}
}

// waitFor blocks until cond (evaluated under h.mu) holds or the deadline passes. No sleeping: every state change signals.
func (h *vfwHarness) waitFor(r *vfwRun, cond func() bool) bool {
	t := time.NewTimer(vfwDeadline)
	defer t.Stop()
	for {
		h.mu.Lock()
		ok := cond()
		h.mu.Unlock()
		if ok {
			return true
		}
		select {
		case <-r.changed:
		case <-t.C:
			h.mu.Lock()
			ok = cond()
			h.mu.Unlock()
			return ok
		}
	}
}

func vfwDigest(m proto.Message) string {
	b, err := proto.MarshalOptions{Deterministic: true}.Marshal(m)
	if err != nil {
		return "marshal-error"
	}
	s := sha1.Sum(b)
	return hex.EncodeToString(s[:6])
}

func vfwHow(err error, self bool) string {
	if self {
		return "self"
	}
	if errors.Is(err, io.EOF) {
		return "eof"
	}
	return "status-" + status.Code(err).String()
}

// ---------------------------------------------------------------- fake source cluster

type vfwSource struct {
	adminservice.UnimplementedAdminServiceServer
	h *vfwHarness
}

func (s *vfwSource) StreamWorkflowReplicationMessages(ss adminservice.AdminService_StreamWorkflowReplicationMessagesServer) error {
	h := s.h
	h.mu.Lock()
	r := h.cur
	h.mu.Unlock()
	if r == nil {
		return status.Error(codes.FailedPrecondition, "no run")
	}
	h.mu.Lock()
	tw := r.twinning
	h.mu.Unlock()
	if tw {
		// the second stream of a TW command: the source serves it until the proxy half-closes or its context is done
		h.note(r, map[string]interface{}{"ev": "TwinSrcOpen"}, func() { r.twinOpened = true })
		for {
			if _, err := ss.Recv(); err != nil {
				return nil
			}
		}
	}
	call := &vfwSrcCall{ss: ss, end: make(chan error, 1), recvDone: make(chan struct{})}
	md, _ := metadata.FromIncomingContext(ss.Context())
	get := func(k string) int {
		if v := md.Get(k); len(v) > 0 {
			n, _ := strconv.Atoi(v[0])
			return n
		}
		return -1
	}
	h.note(r, map[string]interface{}{"ev": "SrcOpen", "clientCluster": get(history.MetadataKeyClientClusterID), "clientShard": get(history.MetadataKeyClientShardID),
		"serverCluster": get(history.MetadataKeyServerClusterID), "serverShard": get(history.MetadataKeyServerShardID)}, func() {
		r.src = call
		r.srcOpened = true
	})
	go func() {
		defer close(call.recvDone)
		for {
			req, err := ss.Recv()
			if err != nil {
				call.mu.Lock()
				self := call.returned
				call.mu.Unlock()
				h.note(r, map[string]interface{}{"ev": "SrcSawEnd", "how": vfwHow(err, self)}, nil)
				return
			}
			id := int(req.GetSyncReplicationState().GetInclusiveLowWatermarkTime().GetNanos()) // the sequence number travels here
			h.note(r, map[string]interface{}{"ev": "SrcGot", "id": id, "dg": vfwDigest(req)}, func() { r.srcGot++ })
		}
	}()
	var ret error
	select {
	case ret = <-call.end: // SE command
	case <-call.recvDone: // the Recv loop ended (half-close or cancel): a cooperative source returns
		if r.sc.Src == "silent" { // a silent one carries on until its stream's context is done (or its SE command)
			select {
			case ret = <-call.end:
			case <-ss.Context().Done():
			}
		}
	}
	call.mu.Lock()
	call.returned = true
	call.mu.Unlock()
	h.note(r, map[string]interface{}{"ev": "SrcReturned", "err": ret != nil}, func() { r.srcReturn = true })
	return ret
}

// ---------------------------------------------------------------- injection points around the real proxy

type vfwSrvStream struct {
	grpc.ServerStream
	h *vfwHarness
	r *vfwRun
}

func (s *vfwSrvStream) SendMsg(m any) error {
	fail := false
	s.h.note(s.r, nil, func() {
		s.r.nT++
		fail = s.r.sc.Fault.K == "tgtSendFail" && s.r.nT == s.r.sc.Fault.P
	})
	if fail {
		s.h.note(s.r, map[string]interface{}{"ev": "FaultFired", "k": "tgtSendFail"}, func() { s.r.ended = true })
		return vfwFail(s.r.sc.Code, "verif: injected Send failure")
	}
	s.h.held(s.r, "T", s.Context())
	return s.ServerStream.SendMsg(m)
}

// held: back-pressure. While the script holds that direction a Send of the proxy waits, as it does when the peer's flow-control
// window is exhausted; it goes on when the script releases the direction or the stream's context is done.
func (h *vfwHarness) held(r *vfwRun, dir string, ctx context.Context) {
	h.mu.Lock()
	g := r.holdT
	if dir == "S" {
		g = r.holdS
	}
	h.mu.Unlock()
	if g == nil {
		return
	}
	h.note(r, map[string]interface{}{"ev": "SendWaits", "dir": dir}, nil)
	select {
	case <-g:
	case <-ctx.Done():
	}
}

// stream interceptor of the proxy's grpc.Server: observes the handler's return, wraps the stream for tgtSendFail
func (h *vfwHarness) serverInterceptor(srv any, ss grpc.ServerStream, info *grpc.StreamServerInfo, handler grpc.StreamHandler) error {
	h.mu.Lock()
	r := h.cur
	h.mu.Unlock()
	if r == nil || r.twinning {
		return handler(srv, ss)
	}
	err := handler(srv, &vfwSrvStream{ServerStream: ss, h: h, r: r})
	h.note(r, map[string]interface{}{"ev": "HandlerReturned", "err": err != nil, "code": status.Code(err).String()}, func() { r.handlerReturned = true })
	return err
}

type vfwFaultClient struct {
	adminservice.AdminServiceClient
	h *vfwHarness
}
type vfwCliStream struct {
	adminservice.AdminService_StreamWorkflowReplicationMessagesClient
	h *vfwHarness
	r *vfwRun
}

func (c *vfwFaultClient) StreamWorkflowReplicationMessages(ctx context.Context, opts ...grpc.CallOption) (adminservice.AdminService_StreamWorkflowReplicationMessagesClient, error) {
	st, err := c.AdminServiceClient.StreamWorkflowReplicationMessages(ctx, opts...)
	if err != nil {
		return nil, err
	}
	c.h.mu.Lock()
	r := c.h.cur
	c.h.mu.Unlock()
	if r == nil {
		return st, nil
	}
	return &vfwCliStream{AdminService_StreamWorkflowReplicationMessagesClient: st, h: c.h, r: r}, nil
}

func (s *vfwCliStream) Send(req *adminservice.StreamWorkflowReplicationMessagesRequest) error {
	fail := false
	s.h.note(s.r, nil, func() {
		s.r.nS++
		fail = s.r.sc.Fault.K == "srcSendFail" && s.r.nS == s.r.sc.Fault.P
	})
	if fail {
		s.h.note(s.r, map[string]interface{}{"ev": "FaultFired", "k": "srcSendFail"}, func() { s.r.ended = true })
		return vfwFail(s.r.sc.Code, "verif: injected Send failure")
	}
	s.h.held(s.r, "S", s.Context())
	return s.AdminService_StreamWorkflowReplicationMessagesClient.Send(req)
}

// ---------------------------------------------------------------- the proxy under test

func vfwLoggers() logging.LoggerProvider {
	return logging.NewLoggerProvider(log.NewNoopLogger(), config.NewMockConfigProvider(config.S2SProxyConfig{}))
}

func (h *vfwHarness) proxy(mode string, srcAddr string) (*vfwProxy, error) {
	key := mode + "@" + srcAddr
	if p := h.proxies[key]; p != nil {
		return p, nil
	}
	p := &vfwProxy{stopped: make(chan struct{})}
	p.lifetime, p.cancel = context.WithCancel(context.Background())
	// the proxy's client towards the source cluster: the real TCP client of cluster_connection.go (closed by the lifetime)
	conn, err := buildTLSTCPClient(p.lifetime, srcAddr, encryption.TLSConfig{}, "outbound")
	if err != nil {
		return nil, err
	}
	p.conn = conn
	scc := config.ShardCountConfig{}
	lcm := LCMParameters{}
	if mode == "lcm" {
		scc.Mode = config.ShardCountLCM
		lcm = LCMParameters{LCM: 12, TargetShardCount: 4}
	}
	admin := NewAdminServiceProxyServer("verifAdminService", &vfwFaultClient{AdminServiceClient: adminservice.NewAdminServiceClient(conn), h: h},
		nil, AdminServiceOverrides{}, []string{"outbound"}, func(int32, int32) {}, scc, lcm, RoutingParameters{}, vfwLoggers(), nil, p.lifetime)
	p.srv = grpc.NewServer(grpc.ChainStreamInterceptor(h.serverInterceptor))
	adminservice.RegisterAdminServiceServer(p.srv, admin)
	p.lis, err = net.Listen("tcp", "127.0.0.1:0")
	if err != nil {
		return nil, err
	}
	// the real server wrapper: Serve loop, and GracefulStop + listener close when the lifetime ends
	(&simpleGRPCServer{name: "verif-" + mode, lifetime: p.lifetime, listener: p.lis, server: p.srv, logger: log.NewNoopLogger()}).Start()
	p.iniConn, err = grpc.NewClient(p.lis.Addr().String(), grpc.WithTransportCredentials(insecure.NewCredentials()))
	if err != nil {
		return nil, err
	}
	p.client = adminservice.NewAdminServiceClient(p.iniConn)
	h.proxies[key] = p
	return p, nil
}

func (h *vfwHarness) dropProxy(mode, srcAddr string, hard bool) {
	key := mode + "@" + srcAddr
	p := h.proxies[key]
	if p == nil {
		return
	}
	delete(h.proxies, key)
	p.cancel()
	if hard {
		p.srv.Stop()
	}
	_ = p.iniConn.Close()
	_ = p.conn.Close()
}

// ---------------------------------------------------------------- goroutine census

var vfwGoroutineHdr = regexp.MustCompile(`^goroutine (\d+) \[`)

func vfwCensus() map[int64]string {
	buf := make([]byte, 1<<20)
	for {
		n := runtime.Stack(buf, true)
		if n < len(buf) {
			buf = buf[:n]
			break
		}
		buf = make([]byte, 2*len(buf))
	}
	out := map[int64]string{}
	for _, blk := range strings.Split(string(buf), "\n\n") {
		m := vfwGoroutineHdr.FindStringSubmatch(blk)
		if m == nil {
			continue
		}
		kind := ""
		switch {
		case strings.Contains(blk, "proxy.startListener["):
			kind = "startListener"
		case strings.Contains(blk, "(*StreamForwarder).forwardAcks"):
			kind = "forwardAcks"
		case strings.Contains(blk, "(*StreamForwarder).forwardReplicationMessages"):
			kind = "forwardReplicationMessages"
		case strings.Contains(blk, "(*StreamForwarder).Run"):
			kind = "Run"
		}
		if kind != "" {
			id, _ := strconv.ParseInt(m[1], 10, 64)
			out[id] = kind
		}
	}
	return out
}

// census waits (bounded) for the forwarder goroutines of this run to be gone and reports the ones that are not
func (h *vfwHarness) census(after string) int {
	deadline := time.Now().Add(vfwDeadline)
	var kinds []string
	for {
		kinds = kinds[:0]
		cur := vfwCensus()
		for id, k := range cur {
			if !h.leaked[id] {
				kinds = append(kinds, k)
			}
		}
		if len(kinds) == 0 || time.Now().After(deadline) {
			for id := range cur {
				h.leaked[id] = true
			}
			break
		}
		runtime.Gosched()
		time.Sleep(200 * time.Microsecond) // pacing of the poll only; the verdict is the condition at the deadline
	}
	sort.Strings(kinds)
	h.mu.Lock()
	h.emit(map[string]interface{}{"ev": "Census", "after": after, "stuck": len(kinds), "kinds": strings.Join(kinds, ",")})
	h.mu.Unlock()
	return len(kinds)
}

// vfwFail: the error an injected Send failure / a scripted source failure carries
func vfwFail(code, what string) error {
	switch code {
	case "resource_exhausted":
		return status.Error(codes.ResourceExhausted, what)
	case "internal":
		return status.Error(codes.Internal, what)
	case "canceled":
		return status.Error(codes.Canceled, what)
	case "deadline_exceeded":
		return status.Error(codes.DeadlineExceeded, what)
	case "plain":
		return errors.New(what)
	}
	return status.Error(codes.Unavailable, what)
}

// ---------------------------------------------------------------- messages

// vfwWm: the watermark the n-th message carries. "flat": repeats and steps back (heartbeats, duplicate acks, regressions).
var vfwFlat = []int64{10, 10, 12, 11, 12, 12}

func vfwWm(payload string, n int) int64 {
	if payload == "flat" {
		return vfwFlat[n%len(vfwFlat)]
	}
	return int64(n)
}

func vfwMsg(run, n int, unk bool, payload string) *adminservice.StreamWorkflowReplicationMessagesResponse {
	if unk {
		return &adminservice.StreamWorkflowReplicationMessagesResponse{} // nil attributes: unknown kind
	}
	tasks := make([]*replicationv1.ReplicationTask, 0, n)
	for i := 0; i < n; i++ {
		tasks = append(tasks, &replicationv1.ReplicationTask{SourceTaskId: int64(1000*n + i), VisibilityTime: timestamppb.New(time.Unix(int64(1700000000+run), 0))})
	}
	return &adminservice.StreamWorkflowReplicationMessagesResponse{Attributes: &adminservice.StreamWorkflowReplicationMessagesResponse_Messages{
		Messages: &replicationv1.WorkflowReplicationMessages{ReplicationTasks: tasks, ExclusiveHighWatermark: vfwWm(payload, n),
			ExclusiveHighWatermarkTime: timestamppb.New(time.Unix(int64(1700000000+run), int64(n)))}}}
}

func vfwAck(run, n int, unk bool, payload string) *adminservice.StreamWorkflowReplicationMessagesRequest {
	if unk {
		return &adminservice.StreamWorkflowReplicationMessagesRequest{}
	}
	return &adminservice.StreamWorkflowReplicationMessagesRequest{Attributes: &adminservice.StreamWorkflowReplicationMessagesRequest_SyncReplicationState{
		SyncReplicationState: &replicationv1.SyncReplicationState{InclusiveLowWatermark: vfwWm(payload, n),
			InclusiveLowWatermarkTime: timestamppb.New(time.Unix(int64(1700000000+run), int64(n)))}}}
}

// ---------------------------------------------------------------- one script

func (h *vfwHarness) runSchedule(sc *vfwSched) {
	r := &vfwRun{sc: sc, changed: make(chan struct{}, 1)}
	srcAddr := h.srcAddr
	if sc.Fault.K == "openFail" {
		srcAddr = h.deadAddr
	}
	h.mu.Lock()
	h.runNo++
	h.cur = r
	h.emit(map[string]interface{}{"ev": "Config", "id": sc.ID, "mode": sc.Mode, "sync": sc.Sync, "fault": sc.Fault.K, "p": sc.Fault.P, "ncmds": len(sc.Cmds)})
	h.mu.Unlock()
	p, err := h.proxy(sc.Mode, srcAddr)
	if err != nil {
		h.mu.Lock()
		h.emit(map[string]interface{}{"ev": "Unrealised", "why": err.Error()})
		h.cur = nil
		h.mu.Unlock()
		return
	}
	// the initiator: a real client stream with the cluster / shard metadata Temporal sends
	md := history.EncodeClusterShardMD(history.ClusterShardID{ClusterID: 2, ShardID: 7}, history.ClusterShardID{ClusterID: 1, ShardID: 7})
	ctx, cancel := context.WithCancel(metadata.NewOutgoingContext(context.Background(), md))
	defer cancel()
	stream, err := p.client.StreamWorkflowReplicationMessages(ctx)
	if err != nil {
		h.note(r, map[string]interface{}{"ev": "Unrealised", "why": "initiator open: " + err.Error()}, nil)
		h.mu.Lock()
		h.cur = nil
		h.mu.Unlock()
		return
	}
	cancelled := false
	go func() {
		for {
			resp, err := stream.Recv()
			if err != nil {
				h.note(r, map[string]interface{}{"ev": "IniSawEnd", "how": vfwHow(err, false)}, func() { r.iniEnded = true })
				return
			}
			id := int(resp.GetMessages().GetExclusiveHighWatermarkTime().GetNanos())
			h.note(r, map[string]interface{}{"ev": "IniGot", "id": id, "dg": vfwDigest(resp)}, func() { r.iniGot++ })
		}
	}()
	// the stream is open when the source handler runs (or the proxy's handler has already given up: openFail)
	opened := h.waitFor(r, func() bool { return r.srcOpened || r.handlerReturned })
	if !opened {
		h.note(r, map[string]interface{}{"ev": "OpenTimeout"}, nil)
	}
	torn := func() bool { return r.handlerReturned && r.iniEnded && (!r.srcOpened || r.srcReturn) }
	delivered := func() bool { return r.iniGot == r.srcSent && r.srcGot == r.iniSent }
	nSrc, nIni := 0, 0
	expired := false
	for i, c := range sc.Cmds {
		if sc.Sync || c.C == "B" || c.C == "BM" || c.C == "BA" {
			// delivery barrier: everything sent so far has arrived; once an end has happened: everything is torn down.
			// BM / BA: one direction only (messages / acks) - the other direction may be held by a slow peer meanwhile
			ended := false
			cond := func() bool {
				ended = r.ended
				if r.ended {
					return torn()
				}
				switch c.C {
				case "BM":
					return r.iniGot == r.srcSent
				case "BA":
					return r.srcGot == r.iniSent
				}
				return delivered()
			}
			ok := false
			if expired {
				// a barrier of this run has already run into the deadline: report the state as it is, do not wait again
				h.mu.Lock()
				ok = cond()
				h.mu.Unlock()
			} else {
				ok = h.waitFor(r, cond)
			}
			expired = expired || !ok
			h.note(r, map[string]interface{}{"ev": "Barrier", "i": i + 1, "ok": ok, "ended": ended}, nil)
		}
		h.mu.Lock()
		call := r.src
		h.mu.Unlock()
		switch c.C {
		case "B", "BM", "BA": // an explicit barrier in a racing script
		case "TW":
			// a second stream with the SAME cluster / shard metadata is opened while the first is up (a reconnect before the old
			// stream is torn down), served by the source, and half-closed again: both must be relayed independently
			h.note(r, nil, func() { r.twinning = true })
			tctx, tcancel := context.WithCancel(metadata.NewOutgoingContext(context.Background(), md))
			tw, terr := p.client.StreamWorkflowReplicationMessages(tctx)
			twEnded := make(chan error, 1)
			if terr == nil {
				go func() {
					for {
						if _, e := tw.Recv(); e != nil {
							twEnded <- e
							return
						}
					}
				}()
			} else {
				twEnded <- terr
			}
			var early error
			dl := time.NewTimer(vfwDeadline)
		twait:
			for {
				h.mu.Lock()
				op := r.twinOpened
				h.mu.Unlock()
				if op {
					break
				}
				select {
				case early = <-twEnded:
					twEnded <- early
					break twait
				case <-r.changed:
				case <-dl.C:
					break twait
				}
			}
			dl.Stop()
			errText := ""
			if early != nil {
				errText = early.Error()
			}
			h.note(r, map[string]interface{}{"ev": "Twin", "opened": r.twinOpened, "err": errText}, func() { r.twinning = false })
			if terr == nil {
				_ = tw.CloseSend()
			}
			endOK := false
			select {
			case <-twEnded:
				endOK = true
			case <-time.After(vfwDeadline):
			}
			tcancel()
			h.note(r, map[string]interface{}{"ev": "TwinEnd", "ok": endOK}, nil)
		case "TH", "SH": // the peer stops taking: the proxy's Sends in that direction wait
			h.note(r, map[string]interface{}{"ev": "Hold", "dir": c.C[:1]}, func() {
				if c.C == "TH" {
					r.holdT = make(chan struct{})
				} else {
					r.holdS = make(chan struct{})
				}
			})
		case "TR", "SR":
			h.note(r, map[string]interface{}{"ev": "Release", "dir": c.C[:1]}, func() {
				if c.C == "TR" && r.holdT != nil {
					close(r.holdT)
					r.holdT = nil
				}
				if c.C == "SR" && r.holdS != nil {
					close(r.holdS)
					r.holdS = nil
				}
			})
		case "W": // the peer stays slow for this long (a duration of the environment, not a wait for the proxy)
			ms, _ := strconv.Atoi(c.M)
			time.Sleep(time.Duration(ms) * time.Millisecond)
		case "S":
			if call == nil {
				h.note(r, map[string]interface{}{"ev": "Skipped", "i": i + 1, "c": c.C}, nil)
				break
			}
			nSrc++
			unk := sc.Fault.K == "unkMsg" && sc.Fault.P == nSrc
			m := vfwMsg(h.runNo, nSrc, unk, sc.Wm)
			call.mu.Lock()
			if call.returned {
				call.mu.Unlock()
				nSrc--
				h.note(r, map[string]interface{}{"ev": "Skipped", "i": i + 1, "c": c.C}, nil)
				break
			}
			h.note(r, map[string]interface{}{"ev": "SrcSent", "id": nSrc, "dg": vfwDigest(m), "unk": unk}, func() {
				if unk {
					r.ended = true
				} else {
					r.srcSent++
				}
			})
			err := call.ss.Send(m)
			call.mu.Unlock()
			if err != nil {
				h.note(r, map[string]interface{}{"ev": "SrcSendErr", "id": nSrc}, func() {
					if !unk {
						r.srcSent--
					}
				})
			}
		case "I":
			nIni++
			unk := sc.Fault.K == "unkAck" && sc.Fault.P == nIni
			m := vfwAck(h.runNo, nIni, unk, sc.Wm)
			h.note(r, map[string]interface{}{"ev": "IniSent", "id": nIni, "dg": vfwDigest(m), "unk": unk}, func() {
				if unk {
					r.ended = true
				} else {
					r.iniSent++
				}
			})
			if err := stream.Send(m); err != nil {
				h.note(r, map[string]interface{}{"ev": "IniSendErr", "id": nIni}, func() {
					if !unk {
						r.iniSent--
					}
				})
			}
		case "SE":
			h.note(r, map[string]interface{}{"ev": "End", "by": "source", "m": c.M}, func() { r.ended = true })
			if call != nil {
				var e error
				if c.M == "err" {
					e = vfwFail(sc.Code, "verif: scripted source failure")
				}
				select {
				case call.end <- e:
				default:
				}
			}
		case "IE":
			h.note(r, map[string]interface{}{"ev": "End", "by": "initiator", "m": c.M}, func() { r.ended = true })
			if c.M == "closesend" {
				_ = stream.CloseSend()
			} else {
				cancelled = true
				cancel()
			}
		case "L":
			h.note(r, map[string]interface{}{"ev": "End", "by": "lifetime", "m": "-"}, func() { r.ended = true })
			p.cancel()
		}
	}
	h.note(r, nil, func() { // a script that ends while a direction is held: the peer takes again
		if r.holdT != nil {
			close(r.holdT)
			r.holdT = nil
		}
		if r.holdS != nil {
			close(r.holdS)
			r.holdS = nil
		}
	})
	// the property's progress clause: both peers see the end and the handler returns
	ok := h.waitFor(r, torn)
	h.mu.Lock()
	h.emit(map[string]interface{}{"ev": "Final", "handler": r.handlerReturned, "ini": r.iniEnded, "src": !r.srcOpened || r.srcReturn, "open": r.srcOpened, "ended": r.ended})
	h.mu.Unlock()
	stuck := 0
	if ok {
		stuck = h.census("final")
	} else {
		// not part of the script: the initiator gives up (another legitimate end) so that the run can be closed
		if !cancelled {
			cancel()
		}
		ok2 := h.waitFor(r, torn)
		h.mu.Lock()
		h.emit(map[string]interface{}{"ev": "Cleanup", "handler": r.handlerReturned, "ini": r.iniEnded, "src": !r.srcOpened || r.srcReturn})
		h.mu.Unlock()
		stuck = h.census("cleanup")
		if !ok2 {
			stuck++
		}
	}
	cancel()
	lifetimeUsed := false
	for _, c := range sc.Cmds {
		lifetimeUsed = lifetimeUsed || c.C == "L"
	}
	if !ok || stuck > 0 || expired {
		h.slow++ // a wait of this run ran into its deadline
	}
	h.mu.Lock()
	h.cur = nil
	call := r.src
	h.mu.Unlock()
	if !ok || stuck > 0 || lifetimeUsed {
		// a fresh proxy for the next run; a source handler that is still waiting is released
		h.dropProxy(sc.Mode, srcAddr, !ok || stuck > 0)
		if call != nil {
			select {
			case call.end <- nil:
			default:
			}
		}
	}
}

func TestVerifForwarderSchedules(t *testing.T) {
	in := os.Getenv("VERIF_IN")
	if in == "" {
		t.Skip("VERIF_IN not set")
	}
	f, err := os.Open(in)
	if err != nil {
		t.Fatal(err)
	}
	defer f.Close()
	outf, err := os.Create(os.Getenv("VERIF_OUT"))
	if err != nil {
		t.Fatal(err)
	}
	defer outf.Close()
	w := bufio.NewWriterSize(outf, 1<<16)
	defer w.Flush()
	h := &vfwHarness{enc: json.NewEncoder(w), proxies: map[string]*vfwProxy{}, leaked: map[int64]bool{}}
	maxSlow := 6
	if v, err := strconv.Atoi(os.Getenv("VERIF_FWD_MAXSLOW")); err == nil && v > 0 {
		maxSlow = v
	}
	// scripted fake source cluster
	lis, err := net.Listen("tcp", "127.0.0.1:0")
	if err != nil {
		t.Fatal(err)
	}
	h.srcSrv = grpc.NewServer()
	adminservice.RegisterAdminServiceServer(h.srcSrv, &vfwSource{h: h})
	go func() { _ = h.srcSrv.Serve(lis) }()
	defer h.srcSrv.Stop()
	h.srcAddr = lis.Addr().String()
	// an unreachable source cluster (openFail): the port stays ours (parallel shards), every connection is dropped at once
	dl, err := net.Listen("tcp", "127.0.0.1:0")
	if err != nil {
		t.Fatal(err)
	}
	defer dl.Close()
	h.deadAddr = dl.Addr().String()
	go func() {
		for {
			c, err := dl.Accept()
			if err != nil {
				return
			}
			_ = c.Close()
		}
	}()

	sc := bufio.NewScanner(f)
	sc.Buffer(make([]byte, 1<<20), 1<<26)
	total, done := 0, 0
	var lines [][]byte
	for sc.Scan() {
		if len(sc.Bytes()) > 0 {
			lines = append(lines, append([]byte{}, sc.Bytes()...))
		}
	}
	total = len(lines)
	for _, ln := range lines {
		var s vfwSched
		if err := json.Unmarshal(ln, &s); err != nil {
			t.Fatalf("bad schedule: %v", err)
		}
		if h.slow >= maxSlow {
			break // budget, not a verdict: enough runs hit a deadline; the rest is reported as not executed
		}
		h.runSchedule(&s)
		done++
		_ = w.Flush()
	}
	h.mu.Lock()
	h.runNo++
	h.emit(map[string]interface{}{"ev": "ShardEnd", "executed": done, "total": total, "slow": h.slow})
	h.mu.Unlock()
	for _, p := range h.proxies {
		p.cancel()
		p.srv.Stop()
		_ = p.iniConn.Close()
		_ = p.conn.Close()
	}
}
