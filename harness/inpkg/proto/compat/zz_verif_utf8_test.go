//go:build verif

package compat

// Verification harness for C17 / C18 (UTF-8 repair).
//  - TestVerifLegacyExport: reflects over the LEGACY (Temporal 1.22, gogo) structs the proxy can down-convert to and writes
//    their field graph as a generated TLA+ module (same shape as SchemaGen), marking Failure.message leaves. TLC enumerates
//    every structural path to a failure message (spec/SchemaWalk with Want = {"fail"}).
//  - TestVerifUtf8Obligations: one real RepairUTF8Codec.Unmarshal per path / per abstract wire class on wire bytes that
//    carry raw invalid UTF-8; records what came out. The verdict is TLC's (Utf8Obs.tla); the byte-level comparison of
//    "everything else intact" is made against the standard codec's decode of a sanitised copy of the same wire bytes.

import (
	"bufio"
	"bytes"
	"encoding/json"
	"fmt"
	enumspb "go.temporal.io/api/enums/v1"
	"os"
	"reflect"
	"sort"
	"strings"
	"testing"
	"unicode/utf8"

	_ "go.temporal.io/api/workflowservice/v1"
	_ "go.temporal.io/server/api/adminservice/v1"
	"google.golang.org/grpc/encoding"
	grpcproto "google.golang.org/grpc/encoding/proto"
	"google.golang.org/grpc/mem"
	"google.golang.org/protobuf/proto"
	"google.golang.org/protobuf/reflect/protoreflect"
	"google.golang.org/protobuf/reflect/protoregistry"
)

func vu8Roots() []protoreflect.MessageDescriptor {
	var out []protoreflect.MessageDescriptor
	for _, full := range []string{"temporal.api.workflowservice.v1.WorkflowService", "temporal.server.api.adminservice.v1.AdminService"} {
		d, err := protoregistry.GlobalFiles.FindDescriptorByName(protoreflect.FullName(full))
		if err != nil {
			continue
		}
		sd := d.(protoreflect.ServiceDescriptor)
		for i := 0; i < sd.Methods().Len(); i++ {
			out = append(out, sd.Methods().Get(i).Input(), sd.Methods().Get(i).Output())
		}
	}
	return out
}

func vu8New(md protoreflect.MessageDescriptor) proto.Message {
	mt, err := protoregistry.GlobalTypes.FindMessageByName(md.FullName())
	if err != nil {
		panic(err)
	}
	return mt.New().Interface()
}

func vu8Legacy(m proto.Message) (any, bool) {
	if l, ok := adminConvertTo122(m); ok && l != nil {
		return l, true
	}
	if l, ok := frontendConvertTo122(m); ok && l != nil {
		return l, true
	}
	return nil, false
}

type vu8Field struct {
	Name, Kind, Card, Target, Oneof string
	Fail                            bool
}

func vu8Tag(tag, key string) string {
	for _, p := range strings.Split(tag, ",") {
		if strings.HasPrefix(p, key+"=") {
			return strings.TrimPrefix(p, key+"=")
		}
	}
	return ""
}

// vu8Graph walks the legacy struct types (gogo): regular fields by their protobuf tag, oneofs through XXX_OneofWrappers.
func vu8Graph(rootTypes []reflect.Type) (map[string][]vu8Field, []string) {
	fields := map[string][]vu8Field{}
	var order []string
	seen := map[reflect.Type]bool{}
	queue := append([]reflect.Type{}, rootTypes...)
	for _, t := range rootTypes {
		seen[t] = true
	}
	name := func(t reflect.Type) string { return t.PkgPath() + "." + t.Name() }
	push := func(t reflect.Type) {
		if !seen[t] {
			seen[t] = true
			queue = append(queue, t)
		}
	}
	addField := func(owner reflect.Type, sf reflect.StructField, oneof string, fs *[]vu8Field) {
		tag := sf.Tag.Get("protobuf")
		if tag == "" {
			return
		}
		f := vu8Field{Name: vu8Tag(tag, "name"), Card: "one", Oneof: oneof}
		ft := sf.Type
		if ft.Kind() == reflect.Slice && ft.Elem().Kind() != reflect.Uint8 {
			f.Card = "list"
			ft = ft.Elem()
		}
		if ft.Kind() == reflect.Map {
			f.Card = "map"
			ft = ft.Elem()
		}
		for ft.Kind() == reflect.Ptr {
			ft = ft.Elem()
		}
		switch ft.Kind() {
		case reflect.Struct:
			f.Kind, f.Target = "msg", name(ft)
			push(ft)
		case reflect.String:
			f.Kind = "string"
		case reflect.Slice:
			f.Kind = "bytes"
		default:
			f.Kind = "scalar"
		}
		if strings.HasSuffix(name(owner), "api/failure/v1.Failure") && f.Name == "message" {
			f.Fail = true
		}
		*fs = append(*fs, f)
	}
	for len(queue) > 0 {
		t := queue[0]
		queue = queue[1:]
		order = append(order, name(t))
		var fs []vu8Field
		for i := 0; i < t.NumField(); i++ {
			sf := t.Field(i)
			if on := sf.Tag.Get("protobuf_oneof"); on != "" {
				// members: the wrapper types registered by XXX_OneofWrappers whose interface matches this field
				pv := reflect.New(t)
				if m := pv.MethodByName("XXX_OneofWrappers"); m.IsValid() {
					for _, w := range m.Call(nil)[0].Interface().([]interface{}) {
						wt := reflect.TypeOf(w).Elem()
						if reflect.PtrTo(wt).Implements(sf.Type) && wt.NumField() == 1 {
							addField(t, wt.Field(0), on, &fs)
						}
					}
				}
				continue
			}
			addField(t, sf, "", &fs)
		}
		fields[name(t)] = fs
	}
	return fields, order
}

func vu8Q(s string) string { return `"` + s + `"` }
func vu8B(b bool) string {
	if b {
		return "TRUE"
	}
	return "FALSE"
}

func TestVerifLegacyExport(t *testing.T) {
	out := os.Getenv("VERIF_OUT")
	if out == "" {
		t.Skip("VERIF_OUT not set")
	}
	type root struct {
		newName, legacy string
	}
	var roots []root
	var rts []reflect.Type
	unconv := []string{}
	for _, md := range vu8Roots() {
		l, ok := vu8Legacy(vu8New(md))
		if !ok {
			unconv = append(unconv, string(md.FullName()))
			continue
		}
		rt := reflect.TypeOf(l).Elem()
		roots = append(roots, root{string(md.FullName()), rt.PkgPath() + "." + rt.Name()})
		rts = append(rts, rt)
	}
	fields, order := vu8Graph(rts)
	var b strings.Builder
	b.WriteString("---- MODULE SchemaGen ----\nEXTENDS TLC\n\\* GENERATED: field graph of the legacy (1.22, gogo) structs of every convertible request / response type.\n")
	b.WriteString("Roots == {\n")
	for i, r := range roots {
		sep := ","
		if i == len(roots)-1 {
			sep = ""
		}
		fmt.Fprintf(&b, "  [type |-> %s, service |-> \"legacy\", method |-> %s, dir |-> \"x\", stream |-> FALSE]%s\n", vu8Q(r.legacy), vu8Q(r.newName), sep)
	}
	b.WriteString("}\nFields ==\n")
	nf := 0
	for i, tn := range order {
		op := "@@"
		if i == 0 {
			op = "  "
		}
		fmt.Fprintf(&b, "  %s %s :> <<", op, vu8Q(tn))
		for j, f := range fields[tn] {
			if j > 0 {
				b.WriteString(", ")
			}
			nf++
			fmt.Fprintf(&b, "[name |-> %s, go |-> \"\", kind |-> %s, card |-> %s, target |-> %s, oneof |-> %s, oNS |-> FALSE, oBlob |-> FALSE, oSA |-> FALSE, oFail |-> %s]",
				vu8Q(f.Name), vu8Q(f.Kind), vu8Q(f.Card), vu8Q(f.Target), vu8Q(f.Oneof), vu8B(f.Fail))
		}
		b.WriteString(">>\n")
	}
	b.WriteString("NamespaceFieldNames == {}\nDataBlobFieldNames == {}\nSearchAttributeFieldNames == {}\nSkippableAttrFields == {}\nUnknownSkippable == {}\n")
	sort.Strings(unconv)
	pick := ""
	for _, u := range unconv {
		if md := vu8Descriptor(u); md != nil {
			if fd := md.Fields().ByName("namespace"); fd != nil && fd.Kind() == protoreflect.StringKind && pick == "" {
				pick = u
			}
		}
	}
	fmt.Fprintf(&b, "UnconvertibleSample == %s\n", vu8Q(pick))
	fmt.Fprintf(&b, "NTypes == %d\nNFields == %d\nNUnconvertible == %d\n====\n", len(order), nf, len(unconv))
	if err := os.WriteFile(out, []byte(b.String()), 0o644); err != nil {
		t.Fatal(err)
	}
}

// ---- building concrete messages on the NEW generated types along a path of proto field names
const vu8Placeholder = "bad@#@# tail" // "@#@#" is overwritten with raw invalid bytes in the wire encoding

// the supported failure-chain depth (failure + 9 nested causes); pinned here, not read from the code under test
const vu8SupportedDepth = 10

// kinds of invalid content written over the 4-byte marker: invalid runs of 4, 3, 2 and 1 bytes and two separate runs. perRun /
// perByte: what the marker's place reads after a repair that puts one U+FFFD per invalid run / per invalid byte (both satisfy
// "only the offending bytes are replaced by U+FFFD").
type vu8Seq struct {
	raw             []byte
	perRun, perByte string
}

var vu8Seqs = []vu8Seq{
	{[]byte{0xff, 0xfe, 0xff, 0xfe}, "\ufffd", "\ufffd\ufffd\ufffd\ufffd"},
	{[]byte{0x80, 0x80, 0xbf, 0x80}, "\ufffd", "\ufffd\ufffd\ufffd\ufffd"},
	{[]byte{0xc0, 0xaf, 0xc0, 0xaf}, "\ufffd", "\ufffd\ufffd\ufffd\ufffd"},
	{[]byte{0xed, 0xa0, 0x80, 0xff}, "\ufffd", "\ufffd\ufffd\ufffd\ufffd"},
	{[]byte{0xf8, 0x88, 0x80, 0x80}, "\ufffd", "\ufffd\ufffd\ufffd\ufffd"},
	{[]byte{0xf0, 0x9f, 0x98, 'x'}, "\ufffdx", "\ufffd\ufffd\ufffdx"},       // a 4-byte rune cut short: run of 3
	{[]byte{0xe2, 0x82, 'y', 'z'}, "\ufffdyz", "\ufffd\ufffdyz"},            // run of 2
	{[]byte{'q', 0xff, 'r', 's'}, "q\ufffdrs", "q\ufffdrs"},                 // run of 1
	{[]byte{0xfe, 'm', 0xe2, 0x82}, "\ufffdm\ufffd", "\ufffdm\ufffd\ufffd"}, // two runs
}

func vu8Repaired(q vu8Seq, perByte bool) string {
	if perByte {
		return "bad" + q.perByte + " tail"
	}
	return "bad" + q.perRun + " tail"
}

// vu8Wrap: every failure on the way to the one under test carries a valid, non-empty message of its own (a well-formed
// wrapper - "activity error" - around the failure with the bad bytes)
var vu8Wrap bool

func vu8Build(m protoreflect.Message, path []string, leaf string) error {
	md := m.Descriptor()
	if vu8Wrap && len(path) > 1 && path[0] == "cause" && md.FullName() == "temporal.api.failure.v1.Failure" {
		m.Set(md.Fields().ByName("message"), protoreflect.ValueOfString("wrapper: valid text"))
	}
	fd := md.Fields().ByName(protoreflect.Name(path[0]))
	if fd == nil {
		return fmt.Errorf("no field %s in %s", path[0], md.FullName())
	}
	// a real server writes the discriminating enum next to the oneof member: HistoryEvent.event_type, Command.command_type
	if od := fd.ContainingOneof(); od != nil && od.Name() == "attributes" {
		switch md.FullName() {
		case "temporal.api.history.v1.HistoryEvent":
			m.Set(md.Fields().ByName("event_id"), protoreflect.ValueOfInt64(7))
			if ev, ok := enumspb.EventType_value["EVENT_TYPE_"+strings.ToUpper(strings.TrimSuffix(path[0], "_event_attributes"))]; ok {
				m.Set(md.Fields().ByName("event_type"), protoreflect.ValueOfEnum(protoreflect.EnumNumber(ev)))
			}
		case "temporal.api.command.v1.Command":
			if cv, ok := enumspb.CommandType_value["COMMAND_TYPE_"+strings.ToUpper(strings.TrimSuffix(path[0], "_command_attributes"))]; ok {
				m.Set(md.Fields().ByName("command_type"), protoreflect.ValueOfEnum(protoreflect.EnumNumber(cv)))
			}
		}
	}
	if len(path) == 1 {
		if fd.Kind() != protoreflect.StringKind {
			return fmt.Errorf("leaf %s is not a string", path[0])
		}
		m.Set(fd, protoreflect.ValueOfString(leaf))
		return nil
	}
	switch {
	case fd.IsList():
		return vu8Build(m.Mutable(fd).List().AppendMutable().Message(), path[1:], leaf)
	case fd.IsMap():
		mp := m.Mutable(fd).Map()
		v := mp.NewValue()
		if err := vu8Build(v.Message(), path[1:], leaf); err != nil {
			return err
		}
		if fd.MapKey().Kind() == protoreflect.StringKind {
			mp.Set(protoreflect.ValueOfString("k").MapKey(), v)
		} else {
			mp.Set(protoreflect.ValueOfInt32(1).MapKey(), v)
		}
		return nil
	default:
		if fd.Kind() != protoreflect.MessageKind {
			return fmt.Errorf("field %s is not a message", path[0])
		}
		return vu8Build(m.Mutable(fd).Message(), path[1:], leaf)
	}
}

func vu8AllStringsValid(m protoreflect.Message) bool {
	ok := true
	var walk func(protoreflect.Message)
	walk = func(x protoreflect.Message) {
		x.Range(func(fd protoreflect.FieldDescriptor, v protoreflect.Value) bool {
			switch {
			case fd.IsList():
				for i := 0; i < v.List().Len(); i++ {
					if fd.Kind() == protoreflect.MessageKind {
						walk(v.List().Get(i).Message())
					} else if fd.Kind() == protoreflect.StringKind && !utf8.ValidString(v.List().Get(i).String()) {
						ok = false
					}
				}
			case fd.IsMap():
				v.Map().Range(func(_ protoreflect.MapKey, mv protoreflect.Value) bool {
					if fd.MapValue().Kind() == protoreflect.MessageKind {
						walk(mv.Message())
					}
					return true
				})
			case fd.Kind() == protoreflect.MessageKind:
				walk(v.Message())
			case fd.Kind() == protoreflect.StringKind:
				if !utf8.ValidString(v.String()) {
					ok = false
				}
			}
			return true
		})
	}
	walk(m)
	return ok
}

type vu8Oblig struct {
	ID    int      `json:"id"`
	Kind  string   `json:"kind"` // "path" | "class"
	Type  string   `json:"type"` // new full message name
	Path  []string `json:"path"` // path to the failure message (kind path)
	Class struct { // abstract wire class (kind class), see spec/Utf8Codec
		Root  string `json:"root"`  // "conv" | "unconv"
		Fail  int    `json:"fail"`  // number of invalid failure messages (0..2)
		Other bool   `json:"other"` // invalid UTF-8 in a non-failure string
		Depth string `json:"depth"` // "in" (<= max) | "at" (= max) | "over" (> max)
		Wire  string `json:"wire"`  // "ok" | "truncated"
		Prior string `json:"prior"` // what this process decoded for the same type just before: "none" | "overdeep" | "repaired"
	} `json:"class"`
	Paths [][]string `json:"paths"` // kind "all": every failure path of the root type realised in ONE message
	Wrap  bool       `json:"wrap"`  // the failures above the one under test have valid non-empty messages
	Deep  bool       `json:"deep"`  // kind path: the failure message sits at the end of a cause chain of exactly the supported depth
	Seq   int        `json:"seq"`   // which kind of invalid content
}

func vu8Codecs() (encoding.CodecV2, encoding.CodecV2) {
	return GetCodec(), encoding.GetCodecV2(grpcproto.Name)
}

func vu8Unmarshal(c encoding.CodecV2, wire []byte, into proto.Message) (err error) {
	defer func() {
		if r := recover(); r != nil {
			err = fmt.Errorf("panic: %v", r)
		}
	}()
	return c.Unmarshal(mem.BufferSlice{mem.SliceBuffer(wire)}, into)
}

func vu8Descriptor(full string) protoreflect.MessageDescriptor {
	d, err := protoregistry.GlobalFiles.FindDescriptorByName(protoreflect.FullName(full))
	if err != nil {
		return nil
	}
	return d.(protoreflect.MessageDescriptor)
}

func TestVerifUtf8Obligations(t *testing.T) {
	in := os.Getenv("VERIF_IN")
	if in == "" {
		t.Skip("VERIF_IN not set")
	}
	f, err := os.Open(in)
	if err != nil {
		t.Fatal(err)
	}
	defer f.Close()
	outf, err := os.Create(os.Getenv("VERIF_OUT"))
	if err != nil {
		t.Fatal(err)
	}
	defer outf.Close()
	w := bufio.NewWriterSize(outf, 1<<20)
	defer w.Flush()
	enc := json.NewEncoder(w)
	ours, std := vu8Codecs()
	poisoned := map[string]bool{}
	sc := bufio.NewScanner(f)
	sc.Buffer(make([]byte, 1<<20), 1<<26)
	for sc.Scan() {
		if len(sc.Bytes()) == 0 {
			continue
		}
		var ob vu8Oblig
		if err := json.Unmarshal(sc.Bytes(), &ob); err != nil {
			t.Fatalf("bad obligation: %v", err)
		}
		rec := map[string]interface{}{"ev": "Utf8", "id": ob.ID, "kind": ob.Kind, "type": ob.Type, "path": ob.Path, "class": ob.Class, "deep": ob.Deep, "wrap": ob.Wrap, "seq": ob.Seq % len(vu8Seqs),
			"built": false, "ok": false, "err": "", "all_valid": false, "equals_reference": false, "std_ok": false, "same_as_std": false}
		func() {
			md := vu8Descriptor(ob.Type)
			if md == nil {
				rec["err"] = "build: unknown type"
				return
			}
			msg := vu8New(md)
			vu8Wrap = false
			q := vu8Seqs[ob.Seq%len(vu8Seqs)]
			bad := q.raw
			nbad := 1
			expectRepairable := true
			var reference, reference2 proto.Message // one U+FFFD per run / per byte
			if ob.Kind == "all" {
				reference, reference2 = vu8New(md), vu8New(md)
				for _, p := range ob.Paths {
					if err := vu8Build(msg.ProtoReflect(), p, vu8Placeholder); err != nil {
						rec["err"] = "build: " + err.Error()
						return
					}
					_ = vu8Build(reference.ProtoReflect(), p, vu8Repaired(q, false))
					_ = vu8Build(reference2.ProtoReflect(), p, vu8Repaired(q, true))
				}
			} else if ob.Kind == "valid" {
				// valid text (non-ASCII) at the failure message, valid wrappers above it: nothing to repair
				path := ob.Path
				if ob.Deep {
					path = append([]string{}, ob.Path[:len(ob.Path)-1]...)
					for i := 1; i < vu8SupportedDepth; i++ {
						path = append(path, "cause")
					}
					path = append(path, "message")
				}
				vu8Wrap = true
				defer func() { vu8Wrap = false }()
				if err := vu8Build(msg.ProtoReflect(), path, "gültig ✓ 有効"); err != nil {
					rec["err"] = "build: " + err.Error()
					return
				}
				reference = proto.Clone(msg)
				reference2 = reference
			} else if ob.Kind == "path" {
				path := ob.Path
				if ob.Deep {
					path = append([]string{}, ob.Path[:len(ob.Path)-1]...)
					for i := 1; i < vu8SupportedDepth; i++ {
						path = append(path, "cause")
					}
					path = append(path, "message")
				}
				// once per type and process: a message of this type whose failure chain is too deep went through the codec before
				if !poisoned[ob.Type] {
					poisoned[ob.Type] = true
					pp := append([]string{}, ob.Path[:len(ob.Path)-1]...)
					for i := 0; i < vu8SupportedDepth+1; i++ {
						pp = append(pp, "cause")
					}
					pp = append(pp, "message")
					pm := vu8New(md)
					if err := vu8Build(pm.ProtoReflect(), pp, vu8Placeholder); err == nil {
						if pw, err := proto.Marshal(pm); err == nil {
							pw = bytes.ReplaceAll(pw, []byte("@#@#"), bad)
							_ = vu8Unmarshal(ours, pw, vu8New(md))
						}
					}
				}
				vu8Wrap = ob.Wrap
				defer func() { vu8Wrap = false }()
				if err := vu8Build(msg.ProtoReflect(), path, vu8Placeholder); err != nil {
					rec["err"] = "build: " + err.Error()
					return
				}
				reference, reference2 = vu8New(md), vu8New(md)
				_ = vu8Build(reference.ProtoReflect(), path, vu8Repaired(q, false))
				_ = vu8Build(reference2.ProtoReflect(), path, vu8Repaired(q, true))
			} else {
				// abstract classes are realised on RespondWorkflowTaskFailedRequest (failure + identity) or, for the
				// unconvertible root, on a message type the conversion tables do not know
				reference, reference2 = vu8New(md), vu8New(md)
				both := func(path []string, a, b string) {
					_ = vu8Build(reference.ProtoReflect(), path, a)
					_ = vu8Build(reference2.ProtoReflect(), path, b)
				}
				// the history of this process for this type (the codec must not remember anything)
				if ob.Class.Root == "conv" && ob.Class.Prior != "none" {
					pm := vu8New(md)
					pp := []string{"failure"}
					if ob.Class.Prior == "overdeep" {
						for i := 0; i < vu8SupportedDepth+1; i++ {
							pp = append(pp, "cause")
						}
					}
					_ = vu8Build(pm.ProtoReflect(), append(pp, "message"), vu8Placeholder)
					_ = vu8Build(pm.ProtoReflect(), []string{"namespace"}, "prior-namespace")
					_ = vu8Build(pm.ProtoReflect(), []string{"binary_checksum"}, "prior-checksum")
					_ = vu8Build(pm.ProtoReflect(), []string{"messages", "id"}, "prior-message")
					if pw, err := proto.Marshal(pm); err == nil {
						pw = bytes.ReplaceAll(pw, []byte("@#@#"), bad)
						_ = vu8Unmarshal(ours, pw, vu8New(md))
					}
				}
				if ob.Class.Root == "unconv" {
					// a type the conversion tables do not know: invalid bytes (if any) go into its namespace field
					v := "fine"
					if ob.Class.Fail > 0 || ob.Class.Other {
						v = vu8Placeholder
					}
					if err := vu8Build(msg.ProtoReflect(), []string{"namespace"}, v); err != nil {
						rec["err"] = "build: " + err.Error()
						return
					}
					both([]string{"namespace"}, "fine", "fine")
				} else {
					depth := map[string]int{"in": 3, "at": vu8SupportedDepth, "over": vu8SupportedDepth + 1}[ob.Class.Depth]
					chain := []string{"failure"}
					for i := 1; i < depth; i++ {
						chain = append(chain, "cause")
					}
					if ob.Class.Fail >= 1 {
						p := append(append([]string{}, chain...), "message")
						if err := vu8Build(msg.ProtoReflect(), p, vu8Placeholder); err != nil {
							rec["err"] = "build: " + err.Error()
							return
						}
						both(p, vu8Repaired(q, false), vu8Repaired(q, true))
					} else {
						p := append(append([]string{}, chain...), "message")
						_ = vu8Build(msg.ProtoReflect(), p, "fine")
						both(p, "fine", "fine")
					}
					if ob.Class.Fail >= 2 {
						_ = vu8Build(msg.ProtoReflect(), []string{"failure", "message"}, vu8Placeholder)
						both([]string{"failure", "message"}, vu8Repaired(q, false), vu8Repaired(q, true))
						nbad++
						if depth == 1 {
							nbad--
						}
					}
					if ob.Class.Other {
						_ = vu8Build(msg.ProtoReflect(), []string{"identity"}, vu8Placeholder)
						nbad++
					}
				}
				_ = expectRepairable
			}
			wire, err := proto.Marshal(msg)
			if err != nil {
				rec["err"] = "build: marshal: " + err.Error()
				return
			}
			if ob.Kind != "valid" && (ob.Kind == "path" || ob.Kind == "all" || ob.Class.Fail > 0 || ob.Class.Other) {
				n := bytes.Count(wire, []byte("@#@#"))
				if n < 1 {
					rec["err"] = "build: placeholder not found"
					return
				}
				wire = bytes.ReplaceAll(wire, []byte("@#@#"), bad)
			}
			if ob.Kind == "valid" {
				// a field this schema does not know (field 19999, varint 7): the standard codec keeps it as an unknown field
				wire = append(wire, 0xf8, 0xe1, 0x09, 0x07)
			}
			if ob.Kind == "class" && ob.Class.Wire == "truncated" {
				wire = wire[:len(wire)-3]
			}
			rec["built"] = true
			got := vu8New(md)
			err = vu8Unmarshal(ours, wire, got)
			rec["ok"] = err == nil
			if err != nil {
				rec["err"] = err.Error()
			} else {
				rec["all_valid"] = vu8AllStringsValid(got.ProtoReflect())
				rec["equals_reference"] = proto.Equal(got, reference) || proto.Equal(got, reference2)
			}
			// what the standard codec does with the same bytes (transparency clause)
			stdGot := vu8New(md)
			serr := vu8Unmarshal(std, wire, stdGot)
			rec["std_ok"] = serr == nil
			if serr == nil && err == nil {
				rec["same_as_std"] = proto.Equal(got, stdGot)
			}
		}()
		_ = enc.Encode(rec)
	}
}
