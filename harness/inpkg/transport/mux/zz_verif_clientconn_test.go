//go:build verif

package mux

// Verification harness for C11 (spec/ClientConn). The REAL wiring of grpc_mux_manager.go is rebuilt on pipes: a real
// multiMuxManager (NewCustomMultiMuxManager) with a real muxProvider, whose connection listener is a REAL
// grpcutil.MultiClientConn.OnConnectionListUpdate, created with the production dial options
// (grpcutil.MakeDialOptions). Every session is a real yamux pair on net.Pipe; on the peer end the harness serves a
// real gRPC server (EchoAdminService) that answers DescribeCluster with its session id and whose interceptor can hold
// a call inside the handler. TLC-generated schedules (ClientConnSim.tla) add sessions, kill them (peer hang-up or
// ManagedMuxSession.Close), issue bursts of calls at quiescent points and keep calls in flight across changes.
// Recorded: Update(keys) (a second listener, i.e. under the table lock, after the MultiClientConn applied the
// update), RpcStart / RpcArrive(session) / RpcEnd(code, servedBy), and Quiet snapshots (table, connMap keys from
// MultiClientConn.Describe, CanMakeCalls). ClientConnObs.tla judges; the harness holds no oracle.

import (
	"bufio"
	"context"
	"encoding/json"
	"fmt"
	"io"
	"net"
	"os"
	"reflect"
	"regexp"
	"runtime"
	"sort"
	"strconv"
	"strings"
	"sync"
	"sync/atomic"
	"testing"
	"time"
	"unsafe"

	"github.com/hashicorp/yamux"
	"go.temporal.io/server/api/adminservice/v1"
	"go.temporal.io/server/common/log"
	"google.golang.org/grpc"
	"google.golang.org/grpc/connectivity"
	"google.golang.org/grpc/metadata"
	"google.golang.org/grpc/stats"
	"google.golang.org/grpc/status"

	"github.com/temporalio/s2s-proxy/endtoendtest/testservices"
	"github.com/temporalio/s2s-proxy/internal/vhook"
	"github.com/temporalio/s2s-proxy/metrics"
	"github.com/temporalio/s2s-proxy/transport/grpcutil"
	"github.com/temporalio/s2s-proxy/transport/mux/session"
)

func init() { MuxManagerStartDelay = 0 }

type vccCmd struct {
	A    string `json:"a"`
	K    int    `json:"k"`
	How  string `json:"how,omitempty"`
	W    bool   `json:"w,omitempty"`    // Add: the peer of the new session never accepts streams ("wedged")
	Hold bool   `json:"hold,omitempty"` // Add: park the listener notification of this AddConnection until AddRelease
	S    bool   `json:"s,omitempty"`    // Add: "sick" - the session's first health ping fails (State() = Error), it stays alive
}
type vccSched struct {
	ID    string   `json:"id"`
	N     int      `json:"n"`
	Burst int      `json:"burst"`
	Bg    bool     `json:"bg"`
	Idle  bool     `json:"idle"` // the schedule has Idle commands: the client connection gets a short gRPC idle timeout
	Cmds  []vccCmd `json:"cmds"`
}

type vccSess struct {
	id       int
	local    net.Conn
	peer     net.Conn
	sess     *yamux.Session // pool side
	peerSess *yamux.Session
	srv      *grpc.Server
	key      string
	wedged   bool
	prefill  net.Conn // the stream that fills a wedged session's accept backlog
	sick     bool
	cfg      *yamux.Config // the pool side's yamux config (its ConnectionWriteTimeout is read at every call)
	peerConn *vccPeerConn
	lis      *vccRecListener
}

// vccRecListener remembers the yamux streams the peer's gRPC server accepted (each is one gRPC transport), so that the
// harness can lose a transport without touching the mux session that carries it.
type vccRecListener struct {
	net.Listener
	mu       sync.Mutex
	conns    []net.Conn
	accepted int
	shaken   atomic.Int64 // transports whose handshake completed (stats.ConnBegin)
}

func (l *vccRecListener) Accept() (net.Conn, error) {
	c, err := l.Listener.Accept()
	if err == nil {
		l.mu.Lock()
		l.conns = append(l.conns, c)
		l.accepted++
		l.mu.Unlock()
	}
	return c, err
}

// ready: every accepted stream has finished its HTTP/2 handshake (the server reports ConnBegin after it)
func (l *vccRecListener) ready() bool {
	l.mu.Lock()
	defer l.mu.Unlock()
	return int64(l.accepted) == l.shaken.Load()
}

func (l *vccRecListener) TagConn(ctx context.Context, _ *stats.ConnTagInfo) context.Context {
	return ctx
}
func (l *vccRecListener) HandleConn(_ context.Context, s stats.ConnStats) {
	if _, ok := s.(*stats.ConnBegin); ok {
		l.shaken.Add(1)
	}
}
func (l *vccRecListener) TagRPC(ctx context.Context, _ *stats.RPCTagInfo) context.Context { return ctx }
func (l *vccRecListener) HandleRPC(context.Context, stats.RPCStats)                       {}

// reset closes every transport stream accepted so far; returns how many were accepted up to now
func (l *vccRecListener) reset() int {
	l.mu.Lock()
	defer l.mu.Unlock()
	for _, c := range l.conns {
		_ = c.Close()
	}
	l.conns = nil
	return l.accepted
}

func (l *vccRecListener) count() int {
	l.mu.Lock()
	defer l.mu.Unlock()
	return l.accepted
}

// vccPeerConn is the peer's end of the pipe. While ackBudget >= 0 the peer answers only that many more yamux pings: the
// frame carrying a ping answer is swallowed (everything else flows), so a ping of the pool side runs into its timeout
// without the session being closed - a peer that stalls for one health check and then recovers.
type vccPeerConn struct {
	net.Conn
	ackBudget atomic.Int64 // -1 = answer everything
}

func (c *vccPeerConn) Write(b []byte) (int, error) {
	// yamux writes every 12-byte header with its own Write: version, type, flags(2), stream id(4), length(4)
	if len(b) == 12 && b[1] == 2 /* typePing */ && b[3]&0x2 != 0 /* flagACK */ {
		for {
			n := c.ackBudget.Load()
			if n < 0 {
				break
			}
			if n == 0 {
				return len(b), nil // swallowed
			}
			if c.ackBudget.CompareAndSwap(n, n-1) {
				break
			}
		}
	}
	return c.Conn.Write(b)
}

type vccRpc struct {
	id      string
	gate    chan struct{} // nil = not held
	arrived chan struct{}
	done    chan struct{}
	once    sync.Once
}

type vccHarness struct {
	mu   sync.Mutex
	enc  *json.Encoder
	seq  int
	run  int
	wait time.Duration

	n       int
	ctx     context.Context
	cancel  context.CancelFunc
	mgr     MultiMuxManager
	mcc     *grpcutil.MultiClientConn
	client  adminservice.AdminServiceClient
	dialCh  chan net.Conn
	parked  bool
	sess    map[int]*vccSess
	bySess  map[*yamux.Session]*vccSess
	keySess map[string]int
	table   []int
	updates int
	begun   int
	nextID  int
	rpcs    map[string]*vccRpc
	burstN  int
	broken  bool
	ended   bool

	handles map[int]session.ManagedMuxSession // registered sessions as the listeners saw them (no manager lock needed)
	// a held add: the gate listener (in front of the MultiClientConn's) parks the notification of that AddConnection
	holdArmed   bool
	holdKey     string
	holdParked  bool
	holdArrived chan struct{}
	holdCh      chan struct{}
	holdID      int
	holdHandle  session.ManagedMuxSession
	sickPending *vccSess
	holdKilled  []int
	underLock   bool

	stuckRuns int
	fullWait  time.Duration
}

func (h *vccHarness) emit(ev map[string]interface{}) { // caller holds h.mu
	h.seq++
	ev["n"], ev["run"] = h.seq, h.run
	_ = h.enc.Encode(ev)
}
func (h *vccHarness) log(ev map[string]interface{}) {
	h.mu.Lock()
	h.emit(ev)
	h.mu.Unlock()
}

type vccConnProvider struct{ h *vccHarness }

var vccClosedCh = func() chan struct{} { c := make(chan struct{}); close(c); return c }()

func (p *vccConnProvider) NewConnection() (net.Conn, error) {
	h := p.h
	h.mu.Lock()
	ch, ctx := h.dialCh, h.ctx
	h.parked = true
	h.mu.Unlock()
	select {
	case c := <-ch:
		return c, nil
	case <-ctx.Done():
		return nil, ctx.Err()
	}
}
func (p *vccConnProvider) CloseCh() <-chan struct{} { return vccClosedCh }
func (p *vccConnProvider) Address() string          { return "vcc-pipe" }

func vccYamuxCfg() *yamux.Config {
	cfg := yamux.DefaultConfig()
	cfg.LogOutput = io.Discard
	return cfg
}

func (h *vccHarness) sessionFn(conn net.Conn) (*yamux.Session, error) {
	h.mu.Lock()
	var mine *vccSess
	for _, vs := range h.sess {
		if vs.local == conn {
			mine = vs
		}
	}
	h.mu.Unlock()
	cfg := vccYamuxCfg()
	if mine != nil && mine.wedged {
		cfg.AcceptBacklog = 1
	}
	s, err := yamux.Client(conn, cfg) // as establisher.go
	if err == nil && mine != nil {
		mine.cfg = cfg
		if mine.wedged {
			// the peer never accepts: this stream is never acknowledged and fills the backlog, every further Open blocks
			// until the session closes. Pings are still answered, so the session is healthy and stays registered.
			mine.prefill, _ = s.Open()
		}
		h.mu.Lock()
		mine.sess = s
		h.bySess[s] = mine
		h.mu.Unlock()
	}
	return s, err
}

func (h *vccHarness) component(_ context.Context, id string, s *yamux.Session) {
	h.mu.Lock()
	if vs := h.bySess[s]; vs != nil {
		vs.key = id
		h.keySess[id] = vs.id
		if h.holdArmed {
			h.holdArmed, h.holdKey = false, id
		}
	}
	h.mu.Unlock()
}

// gate is registered IN FRONT of MultiClientConn.OnConnectionListUpdate. It parks the first notification that carries
// the session of a held Add - the notification of that AddConnection - until the schedule releases it. While it is
// parked the harness kills other sessions. With notifyChange under muxesLock their removal can only be published after
// the release; if the add is published outside the lock the removal overtakes it.
func (h *vccHarness) gate(gen int) OnConnectionListUpdate {
	return func(m map[string]session.ManagedMuxSession) {
		h.mu.Lock()
		if gen != h.run || h.ended {
			h.mu.Unlock()
			return
		}
		h.begun++ // notifications begun (the harness's logging listener, last in the list, counts the finished ones)
		if h.holdKey == "" || h.holdParked {
			h.mu.Unlock()
			return
		}
		if _, ok := m[h.holdKey]; !ok {
			h.mu.Unlock()
			return
		}
		h.holdHandle = m[h.holdKey]
		h.holdParked = true
		ch := h.holdCh
		close(h.holdArrived)
		h.mu.Unlock()
		<-ch
	}
}

// listener is registered AFTER MultiClientConn.OnConnectionListUpdate: when it runs (still under muxesLock) the
// client connection has applied the same table.
func (h *vccHarness) listener(gen int) OnConnectionListUpdate {
	return func(m map[string]session.ManagedMuxSession) { h.onUpdate(gen, m) }
}

func (h *vccHarness) onUpdate(gen int, m map[string]session.ManagedMuxSession) {
	h.mu.Lock()
	if gen != h.run || h.ended { // teardown of a finished run: the client connection's lifetime is over as well
		h.mu.Unlock()
		return
	}
	ids := make([]int, 0, len(m))
	for k := range m {
		if c, ok := h.keySess[k]; ok {
			ids = append(ids, c)
		} else {
			ids = append(ids, -1)
		}
	}
	sort.Ints(ids)
	h.table = ids
	h.handles = map[int]session.ManagedMuxSession{}
	for k, v := range m {
		if c, ok := h.keySess[k]; ok {
			h.handles[c] = v
		}
	}
	h.updates++
	h.emit(map[string]interface{}{"ev": "Update", "keys": ids, "can": h.mcc.CanMakeCalls()})
	h.mu.Unlock()
}

// intercept runs on the peer's gRPC server of session k: records which session a call reached and holds it if the
// schedule keeps that call in flight.
func (h *vccHarness) intercept(k int) grpc.UnaryServerInterceptor {
	return func(ctx context.Context, req any, info *grpc.UnaryServerInfo, handler grpc.UnaryHandler) (any, error) {
		id := ""
		if md, ok := metadata.FromIncomingContext(ctx); ok {
			if v := md.Get("vcc-rpc"); len(v) > 0 {
				id = v[0]
			}
		}
		h.mu.Lock()
		r := h.rpcs[id]
		h.emit(map[string]interface{}{"ev": "RpcArrive", "r": id, "k": k})
		h.mu.Unlock()
		if r != nil {
			r.once.Do(func() { close(r.arrived) })
			if r.gate != nil {
				<-r.gate
			}
		}
		return handler(ctx, req)
	}
}

func (h *vccHarness) poll(cond func() bool) bool {
	dl := time.Now().Add(h.wait)
	for i := 0; ; i++ {
		if cond() {
			return true
		}
		if time.Now().After(dl) {
			return false
		}
		if i < 50 {
			time.Sleep(50 * time.Microsecond)
		} else {
			time.Sleep(time.Millisecond)
		}
	}
}

func (h *vccHarness) reset(sc *vccSched) {
	h.run++
	h.n, h.burstN = sc.N, sc.Burst
	if h.burstN == 0 {
		h.burstN = 4
	}
	h.ctx, h.cancel = context.WithCancel(context.Background())
	h.dialCh, h.parked = make(chan net.Conn), false
	h.sess, h.bySess, h.keySess = map[int]*vccSess{}, map[*yamux.Session]*vccSess{}, map[string]int{}
	h.table, h.updates, h.begun, h.nextID, h.rpcs, h.broken, h.ended = nil, 0, 0, 0, map[string]*vccRpc{}, false, false
	h.handles = map[int]session.ManagedMuxSession{}
	h.holdArmed, h.holdKey, h.holdParked, h.holdID, h.holdKilled, h.underLock = false, "", false, 0, nil, false
	h.log(map[string]interface{}{"ev": "Config", "id": sc.ID, "N": sc.N})
	if h.fullWait == 0 {
		h.fullWait = h.wait
	}
	if h.stuckRuns >= 3 {
		h.wait = h.fullWait / 20
	} else {
		h.wait = h.fullWait
	}
	logger := log.NewNoopLogger()
	opts := grpcutil.MakeDialOptions(nil, metrics.GRPCOutboundClientMetrics)
	if sc.Idle {
		// production leaves gRPC's idle timeout at its default (30 min); a schedule that lets the channel go idle gets a
		// short one through the same variadic options NewMultiClientConn hands to grpc.NewClient
		opts = append(opts, grpc.WithIdleTimeout(150*time.Millisecond))
	}
	mcc, err := grpcutil.NewMultiClientConn(h.ctx, fmt.Sprintf("vcc-%d", h.run), opts...)
	if err != nil {
		panic(err)
	}
	h.mcc = mcc
	h.client = adminservice.NewAdminServiceClient(mcc)
	builder := func(cb AddNewMux, lifetime context.Context) (MuxProvider, error) {
		return NewMuxProvider(lifetime, "vcc", &vccConnProvider{h}, h.sessionFn, int64(sc.N), cb,
			[]string{"vcc", "mux", "manager"}, logger), nil
	}
	// grpc_mux_manager.go: []OnConnectionListUpdate{listener.OnConnectionListUpdate}
	mgr, err := NewCustomMultiMuxManager(h.ctx, "vcc", builder, []session.StartManagedComponentFn{h.component},
		[]OnConnectionListUpdate{h.gate(h.run), mcc.OnConnectionListUpdate, h.listener(h.run)}, logger)
	if err != nil {
		panic(err)
	}
	h.mgr = mgr
	mgr.Start()
}

var vccConnsRe = regexp.MustCompile(`conns=\{(.*)\}`)
var vccKeyRe = regexp.MustCompile(`([0-9]+)=\[connFn\]`)

// mccKeys reads the keys of MultiClientConn.connMap from its Describe() output.
func (h *vccHarness) mccKeys() []int {
	d := h.mcc.Describe()
	out := []int{}
	m := vccConnsRe.FindStringSubmatch(d)
	if m == nil {
		return []int{-2}
	}
	h.mu.Lock()
	defer h.mu.Unlock()
	for _, km := range vccKeyRe.FindAllStringSubmatch(m[1], -1) {
		if c, ok := h.keySess[km[1]]; ok {
			out = append(out, c)
		} else {
			out = append(out, -1)
		}
	}
	sort.Ints(out)
	return out
}

// bounded runs f on a goroutine and gives up after the bounded wait: a tree in which a lock is never released must
// give a verdict, not hang the harness (GetMuxConnections, Describe and CanMakeCalls all take locks of the proxy).
func (h *vccHarness) bounded(f func()) bool {
	done := make(chan struct{})
	go func() {
		f()
		close(done)
	}()
	select {
	case <-done:
		return true
	case <-time.After(h.wait):
		return false
	}
}

func (h *vccHarness) quiet(stuck string) {
	tbl, keys, can := []int{}, []int{}, false
	okLocks := h.bounded(func() {
		t := []int{}
		for k := range h.mgr.GetMuxConnections() {
			h.mu.Lock()
			c, ok := h.keySess[k]
			h.mu.Unlock()
			if !ok {
				c = -1
			}
			t = append(t, c)
		}
		sort.Ints(t)
		k2 := h.mccKeys()
		c2 := h.mcc.CanMakeCalls()
		h.mu.Lock()
		tbl, keys, can = t, k2, c2
		h.mu.Unlock()
	})
	h.mu.Lock()
	tbl, keys, can = append([]int{}, tbl...), append([]int{}, keys...), can
	h.mu.Unlock()
	if !okLocks && stuck == "" {
		stuck = "lock" // the table or the client connection's map could not even be read within the bounded wait
	}
	if stuck != "" && !h.broken {
		// reported once; the rest of this run (and, after a few such runs, of this process) is not waited for as patiently
		h.stuckRuns++
		h.wait = h.fullWait / 20
	}
	h.log(map[string]interface{}{"ev": "Quiet", "table": tbl, "mcc": keys, "can": can, "stuck": stuck, "broken": h.broken})
	if stuck != "" {
		h.broken = true
	}
}

// dialHangs: a goroutine of the client connection sits in muxSession.Open (scheduling aid only, never a verdict)
func vccDialHangs() bool {
	buf := make([]byte, 1<<20)
	n := runtime.Stack(buf, true)
	return strings.Contains(string(buf[:n]), "session.(*muxSession).Open")
}

func (h *vccHarness) tableHas(c int) bool { // caller holds h.mu
	for _, x := range h.table {
		if x == c {
			return true
		}
	}
	return false
}

func (h *vccHarness) call(id string) int {
	h.log(map[string]interface{}{"ev": "RpcStart", "r": id})
	ctx, cancel := context.WithTimeout(metadata.AppendToOutgoingContext(context.Background(), "vcc-rpc", id), h.wait)
	resp, err := h.client.DescribeCluster(ctx, &adminservice.DescribeClusterRequest{})
	cancel()
	served := -1
	if err == nil {
		if v, e := strconv.Atoi(resp.GetClusterName()); e == nil {
			served = v
		}
	}
	msg := ""
	if err != nil {
		msg = err.Error()
		if len(msg) > 160 {
			msg = msg[:160]
		}
	}
	h.log(map[string]interface{}{"ev": "RpcEnd", "r": id, "code": status.Code(err).String(), "k": served, "msg": msg})
	return served
}

// background issues un-held calls ("c<i>") for as long as the schedule runs, about one per millisecond: calls that
// race with the table changes instead of sitting at quiescent points.
func (h *vccHarness) background(stop chan struct{}, done chan struct{}) {
	defer close(done)
	for i := 0; i < 60; i++ {
		select {
		case <-stop:
			return
		default:
		}
		_ = h.call(fmt.Sprintf("c%d", i))
		select {
		case <-stop:
			return
		case <-time.After(time.Millisecond):
		}
	}
}

// hook (vhook, build tag verif): right before the provider hands a pinged session to the manager. For a "sick" add the
// pool side's ConnectionWriteTimeout is cut here, so that the health ping NewManagedMuxSession starts next - whose
// answer the peer swallows - fails after 20ms instead of 10s. Nothing else uses the session in that window (its
// publication to the client connection is held by the gate listener); the timeout is restored before the release.
func (h *vccHarness) hook(point string, kv ...any) {
	if point != "mux.provider.beforeAdd" || len(kv) < 2 || kv[1] != "vcc" {
		return
	}
	h.mu.Lock()
	if vs := h.sickPending; vs != nil && vs.cfg != nil {
		vs.cfg.ConnectionWriteTimeout = 20 * time.Millisecond
	}
	h.mu.Unlock()
}

func (h *vccHarness) releaseHold() {
	h.mu.Lock()
	ch := h.holdCh
	h.holdCh, h.holdKey, h.holdArmed, h.holdParked, h.holdHandle, h.sickPending = nil, "", false, false, nil, nil
	h.mu.Unlock()
	if ch != nil {
		close(ch)
	}
}

func (h *vccHarness) exec(cmd vccCmd, idx int) bool {
	switch cmd.A {
	case "Add":
		if !h.poll(func() bool { h.mu.Lock(); defer h.mu.Unlock(); return h.parked }) {
			return false
		}
		l, p := net.Pipe()
		h.mu.Lock()
		h.nextID++
		pw := &vccPeerConn{Conn: p}
		pw.ackBudget.Store(-1)
		vs := &vccSess{id: h.nextID, local: l, peer: p, wedged: cmd.W, sick: cmd.S, peerConn: pw}
		h.sess[vs.id] = vs
		h.parked = false
		if cmd.S {
			pw.ackBudget.Store(1) // the provider's ping is answered, the health ping that follows is not
			h.sickPending = vs
		}
		if cmd.Hold || cmd.S {
			h.holdArmed, h.holdKey, h.holdParked, h.holdID, h.holdKilled = true, "", false, vs.id, nil
			h.holdArrived, h.holdCh = make(chan struct{}), make(chan struct{})
		}
		h.emit(map[string]interface{}{"ev": "Cmd", "a": "Add", "k": vs.id, "w": cmd.W, "hold": cmd.Hold, "s": cmd.S})
		ch := h.dialCh
		arrived := h.holdArrived
		h.mu.Unlock()
		var err error
		vs.peerSess, err = yamux.Server(pw, vccYamuxCfg())
		if err != nil {
			panic(err)
		}
		if !cmd.W { // a wedged peer answers pings (yamux does) but never accepts a stream: no server on it
			vs.lis = &vccRecListener{}
			vs.srv = grpc.NewServer(grpc.UnaryInterceptor(h.intercept(vs.id)), grpc.StatsHandler(vs.lis))
			adminservice.RegisterAdminServiceServer(vs.srv, &testservices.EchoAdminService{
				ServiceName: strconv.Itoa(vs.id), Logger: log.NewNoopLogger(), Namespaces: map[string]bool{}, PayloadSize: 16})
			vs.lis.Listener = vs.peerSess
			go func() { _ = vs.srv.Serve(vs.lis) }()
		}
		select {
		case ch <- l:
		case <-time.After(h.wait):
			return false
		}
		if cmd.S {
			// the publication of this session is parked in the gate listener; its health check is running
			select {
			case <-arrived:
			case <-time.After(h.wait):
				h.releaseHold()
				h.quiet("hold")
				return true
			}
			h.mu.Lock()
			hd := h.holdHandle
			h.mu.Unlock()
			sick := hd != nil && h.poll(func() bool { return hd.State().State == session.Error })
			// the peer recovers: pings are answered again, the write timeout is the usual one
			pw.ackBudget.Store(-1)
			vs.cfg.ConnectionWriteTimeout = vccYamuxCfg().ConnectionWriteTimeout
			st := -1
			if hd != nil {
				st = int(hd.State().State)
			}
			h.log(map[string]interface{}{"ev": "Sick", "k": vs.id, "state": st, "closed": vs.sess.IsClosed()})
			h.releaseHold()
			if !sick || vs.sess.IsClosed() {
				return false // the harness did not get the session into that state
			}
			if !h.poll(func() bool { h.mu.Lock(); defer h.mu.Unlock(); return h.tableHas(vs.id) && h.updates >= h.begun }) {
				h.quiet("add")
				return true
			}
			break
		}
		if cmd.Hold {
			// the notification of this AddConnection is parked in the gate listener
			select {
			case <-arrived:
			case <-time.After(h.wait):
				h.releaseHold()
				h.quiet("hold")
				return true
			}
			// is the table lock held across the notification? Only decides whether waiting for a removal to be published
			// before the release can succeed at all; what is judged is the state after the release.
			mm := h.mgr.(*multiMuxManager)
			under := true
			if mm.muxesLock.TryLock() {
				mm.muxesLock.Unlock()
				under = false
			}
			h.mu.Lock()
			h.underLock = under
			h.emit(map[string]interface{}{"ev": "Held", "k": vs.id, "underLock": under})
			h.mu.Unlock()
			return true // no snapshot while held (reading the table would wait for the same lock)
		}
		if !h.poll(func() bool { h.mu.Lock(); defer h.mu.Unlock(); return h.tableHas(vs.id) }) {
			h.quiet("add")
			return true
		}
		if cmd.W {
			// give the client connection's connect attempt the time to get into session.Open (never a verdict)
			dl := time.Now().Add(2 * time.Second)
			for !vccDialHangs() && time.Now().Before(dl) {
				time.Sleep(200 * time.Microsecond)
			}
		}
	case "Idle":
		// nobody calls until gRPC has put the channel into IDLE (it drops resolver, balancer and transports); the next
		// call makes it rebuild them from what the resolver was last given
		h.log(map[string]interface{}{"ev": "Cmd", "a": "Idle", "k": 0})
		cc := (*grpc.ClientConn)(unsafe.Pointer(reflect.ValueOf(h.mcc).Elem().FieldByName("clientConn").Pointer()))
		if !h.poll(func() bool { return cc.GetState() == connectivity.Idle }) {
			return false // the harness did not get the channel idle (e.g. a call is still in flight)
		}
	case "Reset":
		// the peer loses the gRPC transport of session K: the yamux STREAM(s) its server accepted are closed, the session
		// stays alive and registered. The client connection re-dials the same endpoint (bound to happen: round_robin
		// reconnects by itself) - the harness waits for that new stream, so calls issued afterwards do not race with
		// the client still noticing the loss.
		h.mu.Lock()
		vs := h.sess[cmd.K]
		ok := vs != nil && vs.lis != nil && h.tableHas(cmd.K)
		if ok {
			h.emit(map[string]interface{}{"ev": "Cmd", "a": "Reset", "k": cmd.K})
		}
		h.mu.Unlock()
		if !ok {
			return false
		}
		// never in the middle of a handshake: a connect attempt that fails puts the endpoint into gRPC's back-off, during
		// which calls fail fast - that would be the environment refusing connections, not the transport being lost
		if !h.poll(func() bool { return vs.lis.count() > 0 && vs.lis.ready() }) {
			h.quiet("connect")
			return true
		}
		before := vs.lis.reset()
		ok = h.poll(func() bool { return vs.lis.count() > before && vs.lis.ready() })
		h.log(map[string]interface{}{"ev": "Redial", "k": cmd.K, "ok": ok})
		if !ok {
			h.quiet("redial")
			return true
		}
	case "AddRelease":
		h.mu.Lock()
		id, killed, held := h.holdID, h.holdKilled, h.holdKey != "" || h.holdArmed
		if held {
			h.emit(map[string]interface{}{"ev": "Cmd", "a": "AddRelease", "k": id})
		}
		h.mu.Unlock()
		if !held {
			return false
		}
		h.releaseHold()
		if !h.poll(func() bool {
			h.mu.Lock()
			defer h.mu.Unlock()
			for _, k := range killed {
				if h.tableHas(k) {
					return false
				}
			}
			return h.tableHas(id)
		}) {
			h.quiet("release")
			return true
		}
		// every publication that was under way has to have landed before the state is judged: with the add published
		// outside the lock, the late (stale) one is applied after the release
		if !h.poll(func() bool { h.mu.Lock(); defer h.mu.Unlock(); return h.updates >= h.begun }) {
			h.quiet("notify")
			return true
		}
	case "Kill":
		h.mu.Lock()
		vs := h.sess[cmd.K]
		holding := h.holdParked
		ok := vs != nil && (h.tableHas(cmd.K) || (holding && vs.key != ""))
		hd := h.handles[cmd.K]
		under := h.underLock
		if ok {
			if holding {
				h.holdKilled = append(h.holdKilled, cmd.K)
			}
			h.emit(map[string]interface{}{"ev": "Cmd", "a": "Kill", "k": cmd.K, "how": cmd.How, "held": holding})
		}
		h.mu.Unlock()
		if !ok {
			return false
		}
		if cmd.How == "local" && hd != nil {
			hd.Close()
		} else {
			_ = vs.peerSess.Close()
		}
		if holding && under {
			return true // its removal cannot be published before the held add's notification returns
		}
		if !h.poll(func() bool { h.mu.Lock(); defer h.mu.Unlock(); return !h.tableHas(cmd.K) }) {
			h.quiet("kill")
			return true
		}
		if holding {
			return true
		}
	case "Burst":
		h.log(map[string]interface{}{"ev": "Cmd", "a": "Burst", "k": 0})
		// at least burstN sequential calls; with a non-empty table, go on (bounded) until every registered session has
		// answered one: round_robin over the resolver's endpoints reaches each of them once its subconn is ready
		h.mu.Lock()
		tbl, wedged := []int{}, []int{}
		for _, k := range h.table {
			if vs := h.sess[k]; vs != nil && vs.wedged {
				wedged = append(wedged, k) // registered and alive, but its peer never accepts a stream: cannot answer
			} else {
				tbl = append(tbl, k)
			}
		}
		h.mu.Unlock()
		servedBy := map[int]bool{}
		covered := func() bool {
			for _, k := range tbl {
				if !servedBy[k] {
					return false
				}
			}
			return true
		}
		dl := time.Now().Add(h.wait)
		extra := 0
		for i := 0; i < h.burstN || (len(tbl) > 0 && !covered() && time.Now().Before(dl)); i++ {
			if i >= h.burstN+2*len(tbl) { // a subconn is not ready yet (or never will be): keep trying, spaced out
				extra++
				d := time.Duration(extra) * 2 * time.Millisecond
				if d > 200*time.Millisecond {
					d = 200 * time.Millisecond
				}
				time.Sleep(d)
			}
			if k := h.call(fmt.Sprintf("b%d.%d", idx, i)); k >= 0 {
				servedBy[k] = true
			}
		}
		sv := []int{}
		for k := range servedBy {
			sv = append(sv, k)
		}
		sort.Ints(sv)
		h.log(map[string]interface{}{"ev": "Spread", "table": tbl, "wedged": wedged, "served": sv, "broken": h.broken})
		if !covered() && !h.broken {
			h.stuckRuns++
			h.wait = h.fullWait / 20
			h.broken = true
		}
	case "RpcStart":
		id := fmt.Sprintf("g%d", cmd.K)
		r := &vccRpc{id: id, gate: make(chan struct{}), arrived: make(chan struct{}), done: make(chan struct{})}
		h.mu.Lock()
		h.rpcs[id] = r
		h.emit(map[string]interface{}{"ev": "Cmd", "a": "RpcStart", "k": cmd.K})
		h.mu.Unlock()
		go func() {
			_ = h.call(id)
			close(r.done)
		}()
		select {
		case <-r.arrived:
		case <-r.done:
		case <-time.After(h.wait):
			h.quiet("rpcstart")
			return true
		}
	case "RpcRelease":
		id := fmt.Sprintf("g%d", cmd.K)
		h.mu.Lock()
		r := h.rpcs[id]
		if r != nil {
			h.emit(map[string]interface{}{"ev": "Cmd", "a": "RpcRelease", "k": cmd.K})
		}
		h.mu.Unlock()
		if r == nil {
			return false
		}
		select {
		case <-r.gate:
		default:
			close(r.gate)
		}
		select {
		case <-r.done:
		case <-time.After(h.wait):
			h.quiet("rpcrelease")
			return true
		}
	default:
		return false
	}
	h.quiet("")
	return true
}

func (h *vccHarness) runSchedule(sc *vccSched) bool {
	h.reset(sc)
	ok := true
	var bgStop, bgDone chan struct{}
	for i, c := range sc.Cmds {
		if bgStop == nil && sc.Bg && i > 0 { // after the first Add: before any update gRPC only waits for the resolver
			bgStop, bgDone = make(chan struct{}), make(chan struct{})
			go h.background(bgStop, bgDone)
		}
		if h.broken { // a bounded wait ran out (reported by the event that found it): the rest would only wait again
			break
		}
		if !h.exec(c, i) {
			ok = false
			h.broken = true
			h.log(map[string]interface{}{"ev": "Unrealised", "at": i, "a": c.A, "k": c.K})
			break
		}
	}
	h.mu.Lock()
	stillHeld := h.holdCh != nil
	h.mu.Unlock()
	if stillHeld { // the schedule ended (or was cut) with an add still held: release it as the command would, i.e. wait
		// for the held publication AND the removals of the sessions killed meanwhile before anything is read
		h.exec(vccCmd{A: "AddRelease"}, len(sc.Cmds))
	}
	if bgStop != nil {
		close(bgStop)
		select {
		case <-bgDone:
		case <-time.After(2 * h.wait):
		}
	}
	// answer whatever is still held, wait for the calls to end
	h.mu.Lock()
	rpcs := make([]*vccRpc, 0, len(h.rpcs))
	for _, r := range h.rpcs {
		rpcs = append(rpcs, r)
	}
	h.mu.Unlock()
	for _, r := range rpcs {
		select {
		case <-r.gate:
		default:
			close(r.gate)
		}
	}
	for _, r := range rpcs {
		select {
		case <-r.done:
		case <-time.After(h.wait):
		}
	}
	h.quiet("")
	h.mu.Lock()
	h.ended = true
	h.emit(map[string]interface{}{"ev": "End"})
	h.mu.Unlock()
	h.cancel()
	h.mu.Lock()
	ss := make([]*vccSess, 0, len(h.sess))
	for _, s := range h.sess {
		ss = append(ss, s)
	}
	h.mu.Unlock()
	// sessions first: whatever sits in a hanging session.Open (and whoever waits behind it) gets out when they close
	for _, s := range ss {
		if s.srv != nil {
			go s.srv.Stop()
		}
		if s.peerSess != nil {
			go s.peerSess.Close()
		}
		if s.sess != nil {
			go s.sess.Close()
		}
		_ = s.peer.Close()
		_ = s.local.Close()
	}
	h.poll(h.mgr.IsClosed)
	return ok
}

// TestVerifClientConnSchedules executes the schedules of VERIF_IN on the real code, trace to VERIF_OUT.
func TestVerifClientConnSchedules(t *testing.T) {
	in := os.Getenv("VERIF_IN")
	if in == "" {
		t.Skip("VERIF_IN not set")
	}
	f, err := os.Open(in)
	if err != nil {
		t.Fatal(err)
	}
	defer f.Close()
	outf, err := os.Create(os.Getenv("VERIF_OUT"))
	if err != nil {
		t.Fatal(err)
	}
	defer outf.Close()
	w := bufio.NewWriterSize(outf, 1<<20)
	defer w.Flush()
	h := &vccHarness{enc: json.NewEncoder(w), wait: 10 * time.Second}
	vhook.Set(h.hook)
	defer vhook.Set(nil)
	if d, err := time.ParseDuration(os.Getenv("VERIF_WAIT")); err == nil && d > 0 {
		h.wait = d
	}
	sc := bufio.NewScanner(f)
	sc.Buffer(make([]byte, 1<<20), 1<<26)
	total, unreal := 0, 0
	for sc.Scan() {
		if len(sc.Bytes()) == 0 {
			continue
		}
		var s vccSched
		if err := json.Unmarshal(sc.Bytes(), &s); err != nil {
			t.Fatalf("bad schedule: %v", err)
		}
		total++
		if !h.runSchedule(&s) {
			unreal++
		}
	}
	w.Flush()
	sum, _ := json.Marshal(map[string]int{"schedules": total, "unrealised": unreal})
	_ = os.WriteFile(os.Getenv("VERIF_OUT")+".summary", sum, 0o644)
}
