"""C08 -- overlapping stream incarnations (spec/ShardLife).

1. TLC checks the design on the bounded instances (current tree with the known findings factored out; the
   "ideal" instance shows the recorded findings are the only causes).
2. TLC -simulate generates step schedules (every step is a gate release: vhook points + fake-stream gates).
3. The Go harness replays them on the REAL shardManagerImpl / proxyStreamSender.Run / proxyStreamReceiver.Run.
4. TLC evaluates ShardLifeObs.tla on the recorded registries: the only source of VIOLATION.
"""
import json
import os
import re

from vlib import Broken, NCPU, log

PROPS = {"C08": "model_checking"}
HARNESS = ["zz_verif_routing_test.go", "zz_verif_life_test.go"]
PROFILES = {
    "quick": dict(design=[("life_cur.cfg", 900), ("life_cur_full.cfg", 900), ("life_ideal.cfg", 900), ("life_batch.cfg", 900),
                          ("life_batch_mut.cfg", 900), ("life_ack_mut.cfg", 900)],
                  gen=[("sim_q.cfg", 150, 40), ("sim_b.cfg", 60, 40)], limit=1500),
    "thorough": dict(design=[("life_cur.cfg", 300), ("life_cur_full.cfg", 300), ("life_ideal.cfg", 300),
                             ("life_cur3.cfg", 3000), ("life_ideal3.cfg", 3000), ("life_batch.cfg", 900), ("life_batch_mut.cfg", 900), ("life_ack_mut.cfg", 900)],
                     gen=[("sim_q.cfg", 1500, 40), ("sim_t.cfg", 800, 60), ("sim_b.cfg", 600, 40)], limit=30000),
}
OBS_RE = re.compile(r'<<(\d+), "(\w+)", "(\w+)", (-?\d+)>>')


def classify(run, viols):
    """Run-level cause signature (labels only)."""
    steps = [e for e in run if e["ev"] == "Step"]
    clauses = {v[1] for v in viols}
    sig = {"module": "ShardLife"}
    # overlap of registration sections
    def overlap(start, end_set):
        open_k = set()
        for e in steps:
            if e["a"] == start:
                if open_k:
                    return True
                open_k.add(e["k"])
            elif e["a"] in end_set and e["k"] in open_k:
                open_k.discard(e["k"])
        return False
    # (e): a successor ran TerminatePrevious while a predecessor had not stored its cancel function yet
    def term_before_cancel():
        pend = set()
        for e in steps:
            if e["a"] == "RTerm":
                if pend:
                    return True
                pend.add(e["k"])
            elif e["a"] == "RSetRest":
                pend.discard(e["k"])
        return False
    if "crash" in clauses:
        v = [x for x in viols if x[1] == "crash"][0]
        txt = " ".join(e.get("crash", "") for e in run if e.get("crash"))
        sig.update(clause="crash", cause="closed-chan-send" if "send on closed channel" in txt else "other-panic")
        return sig
    if "killed" in clauses:
        # never explained by a listed finding: an older incarnation's step ended a newer incarnation's stream
        v = [x for x in viols if x[1] == "killed"][0]
        sig.update(clause="killed", cause="older-incarnation-ends-newer-stream-in-" + v[2])
        return sig
    if "stole" in clauses:
        v = [x for x in viols if x[1] == "stole"][0]
        cause = {"SUnreg2": "window-steal", "SRmChan": "window-steal", "RExit": "unconditional-cleanup-steal", "RCleanup": "unconditional-cleanup-steal"}.get(v[2], "other-" + v[2])
        sig.update(clause="stole", cause=cause)
        return sig
    if "newest" in clauses:
        v = [x for x in viols if x[1] == "newest"][0]
        if v[2] == "S" and overlap("SSet", {"SAdd"}):
            sig.update(clause="newest", cause="concurrent-sender-registration")
        elif v[2] == "R" and term_before_cancel():
            sig.update(clause="newest", cause="concurrent-receiver-registration")
        else:
            sig.update(clause="newest", cause="unexplained-" + v[2])
        return sig
    sig.update(clause=sorted(clauses)[0], cause="unexplained")
    return sig


def retry_schedules():
    """the receiver holds a task batch for a target shard whose sender is between incarnations (routing retry loop): its stream
    ends meanwhile / a sender registers meanwhile.  Constructed (the generator reaches them too, rarely)."""
    A = lambda a, k: {"a": a, "k": k}
    up = [A("RTerm", 1), A("RSetAck", 1), A("RSetRest", 1)]
    snd = [A("SSet", 1), A("SAdd", 1), A("SNLookup", 1), A("SNSend", 1)]
    return [
        {"id": "retry-exit", "cmds": up + [A("RBatchRetry", 1), A("RExit", 1), A("RCleanup", 1)]},
        {"id": "retry-deliver", "cmds": up + [A("RBatchRetry", 1)] + snd + [A("RRetry", 1), A("RExit", 1), A("RCleanup", 1)]},
        {"id": "retry-successor", "cmds": up + [A("RBatchRetry", 1), A("RTerm", 2), A("RSetAck", 2), A("RSetRest", 2), A("RExit", 1), A("RCleanup", 1)]},
        {"id": "batch-deliver", "cmds": snd + up + [A("RBatch", 1), A("RExit", 1), A("RCleanup", 1)]},
        # the sender's side of the same: an acknowledgement of the target for a source shard whose receiver is between incarnations
        {"id": "sretry-end", "cmds": snd + [A("SAckRetry", 1), A("EndS", 1), A("SClose", 1), A("SUnreg", 1), A("SRmChan", 1)]},
        {"id": "sretry-deliver", "cmds": snd + [A("SAckRetry", 1)] + up + [A("SRetry", 1), A("EndS", 1), A("SClose", 1), A("SUnreg", 1), A("SRmChan", 1)]},
        {"id": "sack-deliver", "cmds": up + snd + [A("SAck", 1), A("SAck", 1), A("EndS", 1), A("SClose", 1), A("SUnreg", 1), A("SRmChan", 1)]},
    ]


def run(c, a):
    prof = PROFILES[c.tier]
    c.assumptions += [
        "every step of an incarnation is released by the harness (vhook gates in /repo under build tag verif, fake-stream gates)",
        "panics are observed by recover() in the harness goroutine that stands for the memberlist / stream-handler goroutine",
    ]
    for cfg, tmo in prof["design"]:
        r = c.tlc("ShardLife", "ShardLife", cfg, workers=12, timeout=tmo, name="design-" + cfg[:-4])
        if cfg.endswith("_mut.cfg"):
            if not r.violated:
                raise Broken("design mutant %s was expected to violate its invariant (vacuity guard)" % cfg)
            continue
        if r.violated:
            c.notes.append("design-level counterexample in %s: %s" % (cfg, r.violated))
        elif not r.ok:
            raise Broken("TLC did not complete on %s: %s" % (cfg, r.error_text[-600:]))
    # behaviours
    seen = {}

    def on_line(line):
        try:
            h = json.loads(line)
            if isinstance(h, str):
                h = json.loads(h)
        except ValueError:
            return
        cmds = [{"a": x["a"], "k": x["k"]} for x in h if x["a"] != "Pad"]
        key = json.dumps(cmds)
        if key not in seen:
            seen[key] = cmds
    for cfg, num, depth in prof["gen"]:
        c.tlc("ShardLife", "ShardLifeSim", cfg, workers=8, simulate="num=%d" % num, depth=depth, seed=c.seed,
              timeout=900, line_cb=on_line, name="gen-" + cfg[:-4])
    scheds = [{"id": "s%d" % i, "cmds": seen[k]} for i, k in enumerate(sorted(seen))]
    if not scheds:
        raise Broken("no behaviours generated")
    import random
    if len(scheds) > prof["limit"]:
        scheds = random.Random(c.seed).sample(scheds, prof["limit"])
    scheds += retry_schedules()
    binpath = c.go_test_build("proxy", HARNESS, name="life")
    nshard = min(NCPU, max(1, len(scheds) // 25))
    files = []
    for i in range(nshard):
        p = os.path.join(c.scratch, "life-in-%d.ndjson" % i)
        with open(p, "w") as f:
            for s in scheds[i::nshard]:
                f.write(json.dumps(s) + "\n")
        files.append(p)
    res = c.run_shards(binpath, "^TestVerifLifeSchedules$", files, os.path.join(c.scratch, "life-out"), timeout=900)
    runs = []
    for rc, out, outp in res:
        cur = None
        if os.path.exists(outp):
            for line in open(outp):
                try:
                    e = json.loads(line)
                except ValueError:
                    continue
                if e["ev"] == "Config":
                    cur = []
                    runs.append(cur)
                if cur is not None:
                    cur.append(e)
        if rc != 0:
            if "panic:" in out and "s2s-proxy/proxy." in out:
                # an unrecovered panic killed the shard: process crash on the schedule that was running
                last = runs[-1] if runs else []
                c.violation({"module": "ShardLife", "clause": "crash", "cause": "process-death"},
                            "process crashed during run %s: %s" % (last[0].get("id") if last else "?", out[-500:]),
                            {"kind": "life-trace", "trace": last, "log": out[-3000:]})
            else:
                raise Broken("harness shard failed rc=%s: %s" % (rc, out[-1500:]))
    lines, owner = [], []
    for ri, r in enumerate(runs):
        for li, e in enumerate(r):
            lines.append(json.dumps(e))
            owner.append((ri, li))
    ro = c.tlc("ShardLife", "ShardLifeObs", "obs.cfg", workers=1, timeout=1200,
               files={"trace.ndjson": "\n".join(lines) + "\n"}, name="obs")
    text = open(ro.out).read()
    m = re.search(r'<<\s*"OBS_VIOLATIONS",\s*(\{.*?\})\s*>>\s*\n<<\s*"OBS_TRACE_LEN"', text, re.S)
    if not m or not ro.ok:
        raise Broken("ShardLifeObs did not report: " + ro.error_text[-1200:])
    per_run = {}
    for g in OBS_RE.finditer(m.group(1)):
        ln = int(g.group(1))
        ri, li = owner[ln - 1]
        per_run.setdefault(ri, []).append((li, g.group(2), g.group(3), int(g.group(4))))
    unreal = sum(1 for r in runs if any(e["ev"] == "Unrealised" for e in r))
    if unreal > 0.2 * max(1, len(runs)):
        raise Broken("%d of %d schedules could not be realised" % (unreal, len(runs)))
    causes = {}
    for ri, vs in sorted(per_run.items()):
        vs.sort()
        sig = classify(runs[ri], vs)
        causes[sig.get("cause")] = causes.get(sig.get("cause"), 0) + 1
        c.violation(sig, "%s (%s) in run %s: %s" % (sig.get("clause"), sig.get("cause"), runs[ri][0].get("id"), vs[:3]),
                    {"kind": "life-trace", "signature": sig, "violations": vs,
                     "schedule": [{"a": e["a"], "k": e["k"]} for e in runs[ri] if e["ev"] == "Step"], "trace": runs[ri]})
    acts = {}
    for r in runs:
        for e in r:
            if e["ev"] == "Step" and e["ok"]:
                acts[e["a"]] = acts.get(e["a"], 0) + 1
    c.coverage.update({
        "schedules_replayed": len(runs), "unrealised": unreal, "events_validated": len(lines),
        "runs_with_violation": len(per_run), "violation_causes": causes, "steps_by_action": acts,
        "evaluations": len(runs), "distinct_nontrivial": len(scheds),
        "rule": "distinct TLC-simulated step schedules of the ShardLife model (2-3 incarnations of one sender and one receiver "
                "shard, a remote announcement, a deliverer); each schedule overlaps at least two incarnations or a notifier",
    })
    samples = [{"schedule": scheds[0]["cmds"], "trace": runs[0][:12]}] if runs else []
    return c.finish(samples, traces_validated=len(runs) - len(per_run))
