"""C06 -- pass-through streams relay both directions faithfully and end together (spec/Forwarder).

1. TLC checks the design (Forwarder.tla: the four goroutines of StreamForwarder, the latch, gRPC stream semantics) against
   every environment script of ForwarderEnv.tla: InOrder, NoUnknownForwarded, NoStuck (safety), EndTogether / Complete
   (leads-to under weak fairness); design mutants show the invariants are not vacuous.
2. TLC (ForwarderSim.tla) prints every script: message counts, end mode, position, what follows the end, injected fault,
   with / without delivery barriers.
3. The Go harness runs each script (x default / LCM mode) with REAL gRPC on both sides of the REAL
   adminServiceProxyServer.StreamWorkflowReplicationMessages and records events + a goroutine census.
4. TLC evaluates ForwarderObs.tla on the recorded trace: the only source of VIOLATION.
"""
import json
import os
import random
import re
from concurrent.futures import ThreadPoolExecutor

from vlib import Broken, NCPU, ROOT, log

PROPS = {"C06": "model_checking"}
MANIFEST = {"C06": dict(
    engine="Forwarder", category="model_checking", design_ref="3.5",
    technique="TLA+ spec of the pass-through forwarder (Forwarder.tla: startListener x2, forwardReplicationMessages, forwardAcks, "
              "Run, the shutdown latch, grpc-go stream semantics) model-checked by TLC against every environment script "
              "(ForwarderEnv.tla); the same scripts (ForwarderSim.tla) are executed with real gRPC on both sides of the real "
              "adminServiceProxyServer.StreamWorkflowReplicationMessages in default and LCM mode; recorded peer events and a "
              "goroutine census are judged by TLC (ForwarderObs.tla)",
    text="TLC explores every interleaving of the four forwarder goroutines, the network queues and the scripted peers for all "
         "scripts with up to K messages per direction (K=1..2 racing scripts, K=3 barrier scripts; thorough adds K=3 racing "
         "ends), every end mode (source EOF / error, initiator CloseSend / cancel, lifetime end), every position of the end, "
         "one more send / the other side's end after it, and every injected fault (unknown kind, Send failure either side at "
         "every position, unreachable source): InOrder, NoUnknownForwarded, NoStuck, and EndTogether / Complete as leads-to "
         "under weak fairness. Every script (quick: a seeded stratified third) is then run on the real proxy between a scripted "
         "gRPC source server and a real gRPC client; TLC judges prefix order, byte identity, completeness before the first end "
         "(delivery barriers), both peers seeing the end, handler return and no forwarder goroutine left.",
    note="Trusted: TLC; grpc-go as the transport (its semantics are modelled, not verified); Send failures are injected by a "
         "stream interceptor / client wrapper around the real proxy objects; lifetime end uses the real buildTLSTCPClient and "
         "simpleGRPCServer wiring. The proxy's internal interleavings are not scheduled (no hooks): they are covered by the "
         "design check and by what the Go scheduler produces. Messages sent together with / after an end are judged for "
         "order only (tail loss at an end is recorded as an observation, DESIGN 3.5). Namespace translation is off.")}
HARNESS = ["zz_verif_forwarder_test.go"]
CODES = ["unavailable", "resource_exhausted", "internal", "canceled", "deadline_exceeded", "plain"]
# (cfg, must_hold, workers, timeout)
PROFILES = {
    "quick": dict(design=[("fwd_k1.cfg", True, 6, 900), ("fwd_bp.cfg", True, 3, 900), ("mut_handofftimeout.cfg", False, 1, 600), ("fwd_t3s.cfg", True, 3, 900), ("fwd_live_q.cfg", True, 3, 900),
                          ("mut_nolatchmsg.cfg", False, 1, 600), ("mut_nowake.cfg", False, 1, 600)],   # generous: a timeout under load is exit 2, not a verdict
                  gen="sim_t.cfg", keep=8),
    "thorough": dict(design=[("fwd_q.cfg", True, 8, 840), ("fwd_bp.cfg", True, 3, 900), ("fwd_bp_race.cfg", True, 4, 900),
                             ("fwd_bp_live.cfg", True, 2, 900), ("mut_handofftimeout.cfg", False, 1, 600), ("mut_handofftimeout_sync.cfg", False, 1, 600), ("fwd_t3n.cfg", True, 6, 840), ("fwd_t3s.cfg", True, 2, 600),
                             ("fwd_live.cfg", True, 2, 800), ("fwd_draft.cfg", True, 2, 600),
                             ("mut_nolatchmsg.cfg", False, 1, 300), ("mut_nolatchack_noclosesend.cfg", False, 1, 300),
                             ("mut_nolatchack.cfg", False, 1, 600), ("mut_nolatchack_coop.cfg", True, 1, 600), ("mut_noclosesend.cfg", True, 1, 600),
                             ("mut_nocancel.cfg", True, 1, 600), ("mut_noclosesend_nocancel.cfg", True, 1, 600)],
                     gen="sim_t.cfg", keep=1),
}
OBS_RE = re.compile(r'<<(\d+), "(\w+)", "([^"]*)", (-?\d+)>>')


def bp_schedules():
    """Back-pressure (Forwarder!NetCap): the peer of one direction stops taking for a while - the proxy's Send in that direction
    waits (as with an exhausted flow-control window) while the sender goes on - and then takes again, or the stream ends
    (every end mode) while the Send still waits.  Constructed: the design covers the interleavings (fwd_bp*.cfg), these
    are the environment's timing classes the eager scripts never produce."""
    def C(c, m="-"):
        return {"c": c, "m": m}
    out = []
    ends = [("SE", "eof"), ("SE", "err"), ("IE", "closesend"), ("IE", "cancel"), ("L", "-")]
    for d, send, other_end in (("T", "S", ("SE", "eof")), ("S", "I", ("IE", "closesend"))):
        hold, rel = C(d + "H"), C(d + "R")
        for mode in ("default", "lcm"):
            for src in ("coop", "silent"):
                out.append(dict(id="bp-%s-release-%s-%s" % (d, mode, src), mode=mode, src=src,
                                cmds=[hold] + [C(send)] * 4 + [C("W", "2500"), rel, C("B"), C(send), C("B"), C(*other_end)]))
            for e in ends:
                out.append(dict(id="bp-%s-%s%s-%s" % (d, e[0], e[1], mode), mode=mode, src="coop",
                                cmds=[hold] + [C(send)] * 4 + [C("W", "1300"), C(*e), C("W", "300"), rel]))
            # the two directions are independent: while one peer does not take, what the OTHER direction carries still arrives
            other, bar = ("I", "BA") if d == "T" else ("S", "BM")
            out.append(dict(id="bp-%s-cross-%s" % (d, mode), mode=mode, src="coop",
                            cmds=[hold, C(send), C("W", "200"), C(other), C(bar), C(other), C(bar), rel, C("B"), C(*other_end)]))
    for mode in ("default", "lcm"):
        # a reconnect before the old stream is torn down: a second stream with the same metadata while the first is up
        out.append(dict(id="bp-X-twin-%s" % mode, mode=mode, src="coop",
                        cmds=[C("S"), C("I"), C("B"), C("TW"), C("S"), C("I"), C("B"), C("SE", "eof")]))
    for i, x in enumerate(out):
        x.update(fault={"k": "none", "p": 0}, sync=False, payload=("inc", "flat")[i % 2], code=CODES[i % len(CODES)])
    return out


def klass(s):
    """Label of a script: what ends the stream first."""
    if s["fault"]["k"] != "none":
        return s["fault"]["k"]
    for c in s["cmds"]:
        if c["c"] in ("SE", "IE"):
            return "%s-%s" % (c["c"], c["m"])
        if c["c"] == "L":
            return "L"
    return "none"


def run(c, a):
    prof = PROFILES[c.tier]
    c.assumptions += [
        "grpc-go is the transport on both sides (TCP loopback, ports chosen by the OS); its stream semantics are modelled in "
        "Forwarder.tla, not verified",
        "the scripted source either returns when its Recv loop ends (coop, as Temporal's stream sender does) or ignores the half-close "
        "and returns only when its stream's context is done (silent); watermarks either increase or repeat / step back (payload)",
        "Send failures are injected around the real objects (server stream interceptor / AdminServiceClient wrapper); an "
        "unknown kind is a message with nil attributes",
        "the proxy's internal interleavings are whatever the Go scheduler produces; bounded waits (3 s) only for the "
        "progress clauses (delivery before the first end, both peers see the end, handler returns, goroutines gone)",
    ]
    binbox = {}

    def build():
        binbox["bin"] = c.go_test_build("proxy", HARNESS, name="forwarder")
    scripts = []

    def gen():
        def on_line(line):
            try:
                d = json.loads(line)
                if isinstance(d, str):
                    d = json.loads(d)
            except ValueError:
                return
            if isinstance(d, dict) and "cmds" in d:
                scripts.append(d)
        c.tlc("Forwarder", "ForwarderSim", prof["gen"], workers=1, timeout=300, line_cb=on_line, name="gen-" + prof["gen"][:-4])

    def design(job):
        cfg, must_hold, workers, tmo = job
        return job, c.tlc("Forwarder", "Forwarder", cfg, workers=workers, timeout=tmo, name="design-" + cfg[:-4])

    with ThreadPoolExecutor(max_workers=12) as ex:
        fb = ex.submit(build)
        if a.replay:
            scheds = [json.load(open(a.replay))["schedule"]]
            design_results = []
        else:
            fg = ex.submit(gen)
            design_results = list(ex.map(design, prof["design"]))
            fg.result()
        fb.result()
    mutants = []
    for (cfg, must_hold, _, _), r in design_results:
        if must_hold:
            if r.violated:
                raise Broken("design property violated in %s: %s -- the spec does not describe the code (which passes) or the "
                             "design changed: %s" % (cfg, r.violated, r.error_text[-1500:]))
            if not r.ok:
                raise Broken("TLC did not complete on %s: %s" % (cfg, r.error_text[-600:]))
        else:
            if not r.violated:
                raise Broken("design mutant %s was expected to violate its invariant and did not (vacuous invariant?)" % cfg)
            mutants.append("%s: %s" % (cfg[:-4], ",".join(r.violated[:1])))
    if not a.replay:
        if len(scripts) < 100:
            raise Broken("script generation failed (%d scripts)" % len(scripts))
        scripts.sort(key=lambda s: json.dumps(s, sort_keys=True))
        scheds = []
        for i, s in enumerate(scripts):
            for mode in ("default", "lcm"):
                for payload in ("inc", "flat"):
                    d = dict(s)
                    d["id"] = "%s-%d-%s-%s" % (prof["gen"][:-4], i, mode, payload)
                    d["mode"] = mode
                    d["payload"] = payload
                    # what an injected / scripted failure looks like (gRPC status codes, a plain error): a binding dimension
                    d["code"] = CODES[len(scheds) % len(CODES)]
                    scheds.append(d)
        total_scheds = len(scheds)
        if prof["keep"] > 1:
            # seeded stratified sample: 1/keep of every (first end / fault, sync, mode) class, at least 4 of each
            rng = random.Random(c.seed)
            groups = {}
            for s in scheds:
                fk = s["code"] if (s["fault"]["k"] != "none" or klass(s) == "SE-err") else ""
                groups.setdefault((klass(s), s["sync"], s["mode"], s.get("src", "coop"), s["payload"], fk), []).append(s)
            scheds = []
            for k in sorted(groups, key=str):
                g = groups[k]
                n = max(min(4, len(g)), len(g) // prof["keep"])
                scheds += rng.sample(g, n)
        scheds += bp_schedules()
        random.Random(c.seed).shuffle(scheds)
    else:
        total_scheds = 1
    by_id = {s["id"]: s for s in scheds}
    nshard = max(1, min(NCPU, 12, len(scheds) // 40 + 1))
    files = []
    for i in range(nshard):
        p = os.path.join(c.scratch, "fwd-in-%d.ndjson" % i)
        with open(p, "w") as f:
            for s in scheds[i::nshard]:
                f.write(json.dumps(s) + "\n")
        files.append(p)
    res = c.run_shards(binbox["bin"], "^TestVerifForwarderSchedules$", files, os.path.join(c.scratch, "fwd-out"), timeout=800)
    events = []
    for rc, out, outp in res:
        if rc != 0 or not os.path.exists(outp):
            if c.crash_verdict("Forwarder", rc, outp):
                continue
            raise Broken("harness shard failed rc=%s: %s" % (rc, out[-1500:]))
        for line in open(outp):
            events.append(json.loads(line))
    lines = [json.dumps(e) for e in events]
    ro = c.tlc("Forwarder", "ForwarderObs", "obs.cfg", workers=1, timeout=1200, files={"trace.ndjson": "\n".join(lines) + "\n"},
               name="obs")
    text = open(ro.out).read()
    m = re.search(r'<<\s*"OBS_VIOLATIONS",\s*(\{.*?\})\s*>>\s*\n<<\s*"OBS_TRACE_LEN",\s*(\d+)', text, re.S)
    if not m or not ro.ok or int(m.group(2)) != len(lines):
        raise Broken("ForwarderObs did not report: " + ro.error_text[-1200:])
    # split into runs
    runs, run_of, cur = [], [], -1
    executed = total_in = slow = 0
    for e in events:
        if e["ev"] == "Config":
            runs.append([])
            cur = len(runs) - 1
        if e["ev"] == "ShardEnd":
            executed += e["executed"]
            total_in += e["total"]
            slow += e["slow"]
            run_of.append(None)
            continue
        run_of.append(cur)
        runs[cur].append(e)
    viol_runs = {}
    for g in OBS_RE.finditer(m.group(1)):
        ln, clause, detail, num = int(g.group(1)), g.group(2), g.group(3), int(g.group(4))
        ri = run_of[ln - 1]
        viol_runs.setdefault(ri, []).append((clause, detail, num, events[ln - 1]))
    causes = {}
    for ri in sorted(viol_runs):
        r = runs[ri]
        sc = by_id.get(r[0]["id"], {"id": r[0]["id"]})
        first = {}
        for clause, detail, num, e in viol_runs[ri]:
            first.setdefault(clause, (detail, num, e))
        for clause in sorted(first):
            detail, num, e = first[clause]
            cause = klass(sc) if "cmds" in sc else "?"
            if str(sc.get("id", "")).startswith("bp-"):
                cause = "backpressure-%s-%s" % (sc["id"].split("-")[1], cause)
            key = "%s/%s" % (clause, cause)
            causes[key] = causes.get(key, 0) + 1
            what = {"order": "a peer received something that is not the next element the other peer sent",
                    "modified": "payload changed in transit", "unknown": "a message of unknown kind was forwarded",
                    "incomplete": "a message that raced no end was not delivered within the deadline",
                    "handler": "the handler did not return after an end", "inihalfopen": "the initiator never saw the stream end",
                    "srchalfopen": "the source never saw the stream end", "stuck": "forwarder goroutines left behind",
                    "twin": "a second stream with the same metadata was not relayed independently"}.get(clause, clause)
            c.violation({"module": "Forwarder", "clause": clause, "cause": cause, "mode": sc.get("mode", "?")},
                        "%s: %s (%s %s) in script %s [first end: %s, sync=%s, mode=%s]: %s" % (
                            clause, what, detail, num, sc.get("id"), cause, sc.get("sync"), sc.get("mode"), json.dumps(e)[:240]),
                        {"kind": "forwarder-trace", "clause": clause, "schedule": sc, "trace": r})
    unreal = sum(1 for r in runs if any(e["ev"] in ("Unrealised", "OpenTimeout") for e in r))
    incomplete_runs = [r for r in runs if not any(e["ev"] == "Census" for e in r)]
    if executed < total_in and not viol_runs:
        raise Broken("harness stopped after %d of %d scripts (%d slow runs) but the monitor saw no violation" % (executed, total_in, slow))
    if executed < total_in:
        c.notes.append("harness stopped early: %d of %d scripts executed after %d runs hit a deadline (budget, not a verdict)" % (
            executed, total_in, slow))
    if (unreal or incomplete_runs) and not viol_runs:
        raise Broken("%d scripts could not be realised, %d runs without census" % (unreal, len(incomplete_runs)))
    # observations (not verdicts)
    tail_loss = 0
    ends = {}
    classes = {}
    for r in runs:
        sc = by_id.get(r[0]["id"])
        if sc:
            k = "%s/%s/%s" % (klass(sc), "sync" if sc["sync"] else "race", sc["mode"])
            classes[k] = classes.get(k, 0) + 1
        # sent before the first end of the run (not an unknown kind, Send succeeded) and never received: tail loss at an end
        pre, errs = {"SrcSent": set(), "IniSent": set()}, {"SrcSendErr": set(), "IniSendErr": set()}
        over = False
        for e in r:
            if e["ev"] in ("End", "FaultFired") or (e["ev"] in pre and e["unk"]):
                over = True
            elif e["ev"] in pre and not over:
                pre[e["ev"]].add(e["id"])
            elif e["ev"] in errs:
                errs[e["ev"]].add(e["id"])
        got = {e["id"] for e in r if e["ev"] == "IniGot"}
        agot = {e["id"] for e in r if e["ev"] == "SrcGot"}
        if sc and not sc["sync"] and ((pre["SrcSent"] - errs["SrcSendErr"] - got) or (pre["IniSent"] - errs["IniSendErr"] - agot)):
            tail_loss += 1
        for e in r:
            if e["ev"] in ("IniSawEnd", "SrcSawEnd"):
                k = "%s:%s" % (e["ev"], e["how"])
                ends[k] = ends.get(k, 0) + 1
    c.coverage.update({
        "scripts_generated": total_scheds, "schedules_replayed": len(runs), "unrealised": unreal, "events_validated": len(lines),
        "shards": nshard, "runs_with_violation": len(viol_runs), "violation_causes": causes,
        "design_mutants_detected": mutants, "runs_by_class": classes, "end_kinds_seen": ends,
        "tail_loss_at_end_runs": tail_loss,
        "exhaustive": (not a.replay) and prof["keep"] == 1 and executed == total_in,
        "evaluations": len(runs), "distinct_nontrivial": len({r[0]["id"] for r in runs}),
        "rule": "every environment script of ForwarderEnv!Scripts with K=3 (interleavings of <=3 messages per direction, then the "
                "first end: source EOF / error, initiator CloseSend / cancel, lifetime end, or an injected fault at every position; "
                "optionally one more send or the other side's end; with and without delivery barriers) x {default, lcm}; quick runs a "
                "seeded stratified third, thorough all; scripts are distinct by construction and each contains an end or a fault",
    })
    if tail_loss:
        c.notes.append("observation tail-loss-at-end: in %d racing runs messages sent right before the first end were not "
                       "delivered (overtaken by the teardown; by design, not judged)" % tail_loss)
    samples = [{"schedule": by_id.get(runs[0][0]["id"]), "trace": runs[0][:24]}] if runs else []
    return c.finish(samples, traces_validated=len(runs) - len(viol_runs))
