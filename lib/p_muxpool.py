"""C10 -- mux session pool: bound, permit conservation, self-healing, clean shutdown (spec/MuxPool).

1. TLC checks the design (MuxPool.tla) on bounded instances: the pool accounting of the tree as it is, the three
   cause classes of the shutdown leaks one at a time, the repaired tree completely, and the bounded-liveness
   rewrite (MuxPoolTick.tla: pool back at N within N+1 ticks of a benign environment).
2. TLC generates environment fault schedules from MuxPoolSim.tla (eager normal form): ALL behaviours of the small
   pools by BFS, seeded -simulate for the larger ones.
3. The in-package Go harness runs them on a REAL muxProvider + multiMuxManager with real yamux sessions on pipes.
4. TLC evaluates MuxPoolObs.tla on the recorded events: the source of VIOLATION, together with the harness supervisor:
   a harness process that dies of a panic whose stack runs through non-test code of <repo>/transport/mux is clause
   "crash" (what the shard recorded before is still judged; the rest of its schedules run in a fresh process).
   Leaks are classified by cause from the logged commands (which call of the attempt ended it, context done or not).
The hand-over to the manager is schedulable: with AddGate the Sim emits "Add" commands and the harness parks the provider
at the hook mux.provider.beforeAdd (provider.go, build tag verif), so PeerClose of the attempt's own session, kills of
other sessions and Cancel land between the successful Ping and AddConnection. The loopback (kill / cancel only) behaviours
are also run on the scripted pool with a benign refill after every command (older session dies, newer ones live, slot is
refilled), where registered and live sessions are compared by identity (clauses leak / stale).
"""
import json
import os
import random
import re
from concurrent.futures import ThreadPoolExecutor

from vlib import Broken, NCPU, REPO, ROOT, log

PROPS = {"C10": "model_checking"}
MANIFEST = {"C10": dict(
    engine="MuxPool", category="model_checking", design_ref="3.7",
    technique="TLA+ spec of the session pool (MuxPool.tla: provider loop locations, permits, session life cycle, table, "
              "connections, context; every environment fault at every location) model-checked by TLC incl. a Tick-based "
              "bounded-liveness rewrite; TLC-generated fault schedules (exhaustive BFS for small pools, simulation beyond) "
              "replayed on a real muxProvider + multiMuxManager over real yamux sessions on net.Pipe with a scripted "
              "connProvider / sessionFn; recorded table changes, permit counts and connection closes judged by TLC "
              "(MuxPoolObs.tla)",
    text="TLC checks LiveBound, permit Conservation, NoStarvation, ShutdownCompletes and HealBound on every interleaving "
         "of the bounded pool (N = 1..3) for the tree as it is, and CleanShutdown / NoLeakWhileRunning for the repaired "
         "tree; each cause class of the known shutdown leaks is shown to break them alone. Every eager behaviour of the "
         "small pools and seeded simulations of the larger ones are executed on the real code; the monitor requires the "
         "table never to exceed N, permits to be conserved at every settled point, the pool to return to N with a "
         "reachable peer, and after shutdown every connection closed on both ends.",
    note="Trusted: TLC; the scripted connProvider/sessionFn gates (the provider has no step between sessionFn and Ping, so "
         "parking inside sessionFn stands for both locations); the verif-tagged hook mux.provider.beforeAdd as the gate of "
         "the hand-over to the manager; reading the semaphore counters by reflection at settled points. The other internal "
         "steps run eagerly in replay. A panic of proxy code that kills the harness process is reported as clause crash. The real establisher/receiver connProviders are not driven (read: "
         "receivingConnProvider.NewConnection drops an accepted conn unclosed when the lifetime ended meanwhile).")}
HARNESS = ["zz_verif_muxpool_test.go"]
PROFILES = {
    "quick": dict(
        design=[("MuxPool", "mp_cur2.cfg", True), ("MuxPool", "mp_fix2.cfg", True), ("MuxPool", "mp_fix1.cfg", True),
                ("MuxPoolTick", "mp_tick2.cfg", True),
                ("MuxPool", "mp_cls_sesserr.cfg", False), ("MuxPool", "mp_cls_ret.cfg", False), ("MuxPool", "mp_cls_add.cfg", False)],
        bfs=[("bfs_n1.cfg", 1, None)], gen=[("sim_n2.cfg", 2, 150), ("sim_n3.cfg", 3, 150)], limit=2800,
        loop=[("loop_n1.cfg", 1, 8), ("loop_n2.cfg", 2, 20), ("loop_n3.cfg", 3, 20)]),
    "thorough": dict(
        design=[("MuxPool", "mp_cur2.cfg", True), ("MuxPool", "mp_cur3.cfg", True), ("MuxPool", "mp_fix1.cfg", True),
                ("MuxPool", "mp_fix2.cfg", True), ("MuxPool", "mp_fix3.cfg", True), ("MuxPool", "mp_fix3_t.cfg", True),
                ("MuxPoolTick", "mp_tick2.cfg", True), ("MuxPoolTick", "mp_tick3.cfg", True),
                ("MuxPool", "mp_pinned.cfg", False),
                ("MuxPool", "mp_cls_sesserr.cfg", False), ("MuxPool", "mp_cls_ret.cfg", False), ("MuxPool", "mp_cls_add.cfg", False)],
        bfs=[("bfs_n1.cfg", 1, None), ("bfs_n1e.cfg", 1, None), ("bfs_n2.cfg", 2, None)],
        gen=[("sim_n1.cfg", 1, 300), ("sim_n2.cfg", 2, 1500), ("sim_n3.cfg", 3, 1500)], limit=40000,
        loop=[("loop_n1.cfg", 1, None), ("loop_n2.cfg", 2, None), ("loop_n3.cfg", 3, 400)]),
}
OBS_RE = re.compile(r'<<(\d+), "(\w+)", (-?\d+), (-?\d+)>>')
CAUSES = {("SessErr", True): "conn-open-after-sessionFn-error",
          ("SessErr", False): "attempt-in-flight-at-cancel",
          ("PingFail", False): "attempt-in-flight-at-cancel",
          ("PingOk", False): "add-after-cancel", ("Add", False): "add-after-cancel"}


def load_extra_findings(c):
    """known findings come from /verif/KNOWN_FINDINGS.json only (vlib)"""
    return


def leak_cause(run, conn):
    """Which call of the attempt that owned `conn` ended it, and was the context already done (logged, not guessed)."""
    last = None
    for e in run:
        if e["ev"] == "Cmd" and e.get("c") == conn and e["a"] in ("DialOk", "SessOk", "SessErr", "PingOk", "PingFail", "Add"):
            last = e
    for e in run:
        if e["ev"] == "Cmd" and e.get("c") == conn and e["a"] == "Silent":
            return "accepted-conn-dropped-at-cancel"    # receiver probe: a silent inbound conn that never saw a close
    if last is None:
        return "unexplained-unknown-conn"
    return CAUSES.get((last["a"], bool(last["running"])), "unexplained-after-%s-%s" % (last["a"], "running" if last["running"] else "cancelled"))


def proxy_panicked(logpath):
    """Text of the panic iff the process died of a Go panic / fatal error whose FIRST goroutine stack has a frame in
    non-test code of <repo>/transport/mux (not a zz_verif harness file, not a _test.go file, not a dependency); else ''."""
    try:
        text = open(logpath, errors="replace").read()
    except OSError:
        return ""
    ks = [k for k in (text.find("panic: "), text.find("fatal error: ")) if k >= 0]
    if not ks:
        return ""
    k = min(ks)
    if "out of memory" in text[k:k + 400] or "test timed out" in text[k:k + 200]:
        return ""
    first = "\n\n".join(text[k:].split("\n\n")[:2])      # message + the panicking goroutine's stack
    for line in first.split("\n"):
        line = line.strip()
        if "/transport/mux/" in line and ".go:" in line and "zz_verif" not in line and "_test.go" not in line \
                and "/pkg/mod/" not in line:
            return text[k:k + 4000]
    return ""


def parse_hist(line):
    try:
        h = json.loads(line)
        if isinstance(h, str):
            h = json.loads(h)
    except ValueError:
        return None
    if not isinstance(h, list):
        return None
    complete = h[-1]["a"] == "Pad"
    return [x for x in h if x["a"] != "Pad"], complete


def run(c, a):
    prof = PROFILES[c.tier]
    load_extra_findings(c)
    c.assumptions += [
        "the connProvider and sessionFn are scripted gates; the sessions are real yamux sessions on net.Pipe whose peer "
        "ends the harness plays (real yamux peer / never reads / hung up / garbage answer)",
        "internal steps of the proxy run eagerly between environment commands (eager normal form of the TLC behaviour)",
    ]
    if a.replay:
        obj = json.load(open(a.replay))
        scheds = [obj["schedule"]]
        design_results = []
    else:
        # ---- 1. design
        def one(job):
            mod, cfg, must_hold = job
            return job, c.tlc("MuxPool", mod, cfg, workers=4, timeout=1800 if c.tier == "thorough" else 900,   # generous: a TLC timeout under load is exit 2, not a verdict
                              name="design-" + cfg[:-4])
        with ThreadPoolExecutor(max_workers=4) as ex:
            design_results = list(ex.map(one, prof["design"]))
        classes_shown = []
        for (mod, cfg, must_hold), r in design_results:
            if must_hold:
                if r.violated:
                    raise Broken("design property violated in %s: %s (the spec of the pool accounting / repaired tree is wrong)"
                                 % (cfg, r.violated))
                if not r.ok:
                    raise Broken("TLC did not complete on %s: %s" % (cfg, r.error_text[-600:]))
            else:
                if not r.violated:
                    raise Broken("%s was expected to show a shutdown leak class and did not" % cfg)
                classes_shown.append("%s: %s" % (cfg[:-4], ",".join(r.violated[:1])))
        c.coverage["design_leak_classes"] = classes_shown
        # ---- 2. schedules
        scheds = []
        truncated = [0]

        def collect(cfg, n, **kw):
            seen = {}

            def on_line(line):
                p = parse_hist(line)
                if p is None:
                    return
                cmds, complete = p
                if not complete:
                    truncated[0] += 1
                seen.setdefault(json.dumps(cmds, sort_keys=True), cmds)
            c.tlc("MuxPool", "MuxPoolSim", cfg, line_cb=on_line, timeout=600, name="gen-" + cfg[:-4], **kw)
            return [seen[k] for k in sorted(seen)]
        rnd = random.Random(c.seed)
        exhaustive = []
        for cfg, n, cap in prof["bfs"]:
            got = collect(cfg, n, workers=4)
            exhaustive.append("%s: %d behaviours" % (cfg[:-4], len(got)))
            if cap and len(got) > cap:
                got = rnd.sample(got, cap)
                exhaustive[-1] += " (%d sampled)" % cap
            scheds += [{"n": n, "cmds": x} for x in got]
        for cfg, n, num in prof["gen"]:
            got = collect(cfg, n, workers=4, simulate="num=%d" % num, depth=400, seed=c.seed)
            scheds += [{"n": n, "cmds": x} for x in got]
        if not scheds:
            raise Broken("no behaviours generated")
        if len(scheds) > prof["limit"]:
            scheds = rnd.sample(scheds, prof["limit"])
        # two REAL pools (establisher <-> receiver) over loopback: session kills and cancel only; one block at the end of the
        # list, so that striping spreads the (slower) loopback runs evenly over the shards and every shard runs its
        # scripted schedules first
        loops = []
        for cfg, n, cap in prof["loop"]:
            got = collect(cfg, n, workers=2)
            exhaustive.append("%s: %d behaviours" % (cfg[:-4], len(got)))
            # the same kill / refill / cancel behaviours on the scripted pool (every conn tracked by identity): the harness
            # refills the pool benignly after every kill; cheap, so ALL of them also when the loopback runs are sampled
            scheds += [{"n": n, "cmds": x, "benign": True} for x in got]
            if cap and len(got) > cap:
                got = rnd.sample(got, cap)
                exhaustive[-1] += " (%d sampled)" % cap
            loops += [{"n": n, "cmds": x, "loop": True} for x in got]
        # the REAL establishingConnProvider (establisher.go) under a real provider + manager, dialing a listener of the
        # harness; the gate sits inside the dial, so Cancel lands while a dial is in flight that then succeeds (all behaviours)
        nest = 0
        for cfg, n in (("est_n1.cfg", 1), ("est_n2.cfg", 2)):
            got = collect(cfg, n, workers=2)
            exhaustive.append("%s: %d behaviours" % (cfg[:-4], len(got)))
            scheds += [{"n": n, "cmds": x, "est": True} for x in got]
            nest += len(got)
        c.coverage["establisher_probe_schedules"] = nest
        # the REAL receiver provider (receiver.go, TLS on) with good and silent inbound peers. A silent attempt costs the
        # unchanged tree yamux's 10s write timeout, so only behaviours with a Silent are run, each in a process of its own
        # (in parallel with the other shards): quick = the two where a good peer queues behind the silent one
        got = [x for x in collect("rcv_n1.cfg", 1, workers=2) if any(y["a"] == "Silent" for y in x)]
        exhaustive.append("rcv_n1: %d behaviours with a silent peer" % len(got))
        if c.tier == "quick":
            want = [["Silent", "Good", "Cancel"], ["Good", "PeerClose", "Silent", "Good", "Cancel"]]
            # ... plus the one where Cancel lands right after a silent connect, three times (the race with Accept: finding
            # C10-accepted-conn-dropped-at-cancel, fixed - a regression shows up in some of the repetitions)
            race = [x for x in got if [y["a"] for y in x] == ["Good", "PeerClose", "Silent", "Cancel"]]
            got = [x for x in got if [y["a"] for y in x] in want] + race * 3
        else:
            # behaviours where Cancel directly follows a Silent connect first: there the cancellation races with
            # receivingConnProvider.NewConnection's Accept (finding C10-accepted-conn-dropped-at-cancel, fixed)
            def silent_then_cancel(x):
                return any(x[i]["a"] == "Silent" and x[i + 1]["a"] == "Cancel" for i in range(len(x) - 1))
            got = ([x for x in got if silent_then_cancel(x)] * 3)[:9] + [x for x in got if not silent_then_cancel(x)][:6]
        scheds += [{"n": 1, "cmds": x, "rcv": True} for x in got]
        c.coverage["receiver_probe_schedules"] = len(got)
        scheds = scheds + loops
        for i, s in enumerate(scheds):
            s["id"] = "s%d" % i
            s["role"] = "client" if i % 2 == 0 else "server"
            s["addgate"] = any(x["a"] == "Add" for x in s["cmds"])
        c.coverage["behaviour_sets"] = exhaustive
        c.coverage["truncated_behaviours"] = truncated[0]
    # ---- 3. real code
    binpath = c.go_test_build("transport/mux", HARNESS, name="muxpool")
    rcv = [s for s in scheds if s.get("rcv")]
    main = [s for s in scheds if not s.get("rcv")]
    nshard = min(max(1, NCPU - len(rcv)), max(1, len(main) // 20))
    nloop = sum(1 for s in scheds if s.get("loop"))
    files = []
    for i, s in enumerate(rcv):         # first, each alone: they take 10s+ by construction
        p = os.path.join(c.scratch, "muxpool-in-rcv%d.ndjson" % i)
        with open(p, "w") as f:
            f.write(json.dumps(s) + "\n")
        files.append(p)
    for i in range(nshard):
        p = os.path.join(c.scratch, "muxpool-in-%d.ndjson" % i)
        with open(p, "w") as f:
            for s in main[i::nshard]:
                f.write(json.dumps(s) + "\n")
        files.append(p)
    res = c.run_shards(binpath, "^TestVerifMuxPoolSchedules$", files, os.path.join(c.scratch, "muxpool-out"),
                       timeout=600, cwd=os.path.join(REPO, "transport", "mux"))
    events = []
    crashed = []

    def read_shard(rc, outp):
        got = []
        if os.path.exists(outp):
            for line in open(outp, errors="replace"):
                try:
                    got.append(json.loads(line))
                except ValueError:
                    if rc == 0:
                        raise Broken("unreadable trace line in %s" % outp)
                    break       # the line being written when the process died
        elif rc == 0:
            raise Broken("harness shard wrote no output: " + outp)
        return got

    def running_schedule(inp, got):
        """the schedule that was running when the process died: the first of the input without an End event (both Ends
        for a loopback schedule, which is recorded as two runs written out together at its end)"""
        ended, cur = set(), None
        for e in got:
            if e["ev"] == "Config":
                cur = e.get("id", "").split("/")[0]
            elif e["ev"] == "End" and cur:
                ended.add(cur)
        todo = [json.loads(line) for line in open(inp)]
        for i, sc in enumerate(todo):
            if sc["id"] not in ended:
                return sc, todo[i + 1:]
        return None, []

    pending = [(rc, out, outp, inp) for (rc, out, outp), inp in zip(res, files)]
    for gen in range(1, 5):
        again = []
        for rc, out, outp, inp in pending:
            txt = ""
            if rc != 0:
                # a harness process that died of a panic whose stack runs through non-test code of /repo/transport/mux is
                # a verdict (the proxy crashed), not a broken check; what it recorded before is still judged, and the
                # rest of the shard's schedules are run in a fresh process (at most 3 times) so that the monitor sees them
                txt = proxy_panicked(outp + ".log")
                if not txt:
                    raise Broken("harness shard failed rc=%s: %s" % (rc, out[-1500:]))
            got = read_shard(rc, outp)
            events += got
            if txt:
                sc, rest = running_schedule(inp, got)
                crashed.append((sc, txt))
                if rest and gen <= 3:
                    inp2 = "%s.r%d" % (inp.split(".r")[0], gen)
                    with open(inp2, "w") as f:
                        for x in rest:
                            f.write(json.dumps(x) + "\n")
                    again.append(inp2)
        if not again:
            break
        r2 = c.run_shards(binpath, "^TestVerifMuxPoolSchedules$", again, os.path.join(c.scratch, "muxpool-out-r%d" % gen),
                          timeout=600, cwd=os.path.join(REPO, "transport", "mux"))
        pending = [(rc, out, outp, inp) for (rc, out, outp), inp in zip(r2, again)]
    # ---- 4. monitor
    lines = [json.dumps(e) for e in events]
    ro = c.tlc("MuxPool", "MuxPoolObs", "obs.cfg", workers=1, timeout=1200, files={"trace.ndjson": "\n".join(lines) + "\n"},
               name="obs")
    text = open(ro.out).read()
    m = re.search(r'<<\s*"OBS_VIOLATIONS",\s*(\{.*?\})\s*>>\s*\n<<\s*"OBS_TRACE_LEN",\s*(\d+)', text, re.S)
    if not m or not ro.ok:
        raise Broken("MuxPoolObs did not report: " + ro.error_text[-1200:])
    if int(m.group(2)) != len(lines):
        raise Broken("MuxPoolObs read %s of %d events" % (m.group(2), len(lines)))
    runs, run_of = [], []
    for e in events:
        if e["ev"] == "Config":
            runs.append([])
        run_of.append(len(runs) - 1)
        runs[-1].append(e)
    by_id = {s["id"]: s for s in scheds}
    for running, txt in crashed:
        frames = [ln.strip() for ln in txt.split("\n") if "/transport/mux/" in ln and "zz_verif" not in ln][:3]
        c.violation({"module": "MuxPool", "clause": "crash", "cause": "proxy-panic"},
                    "the harness process died of a panic in proxy code: %s [%s] in schedule %s"
                    % (txt.split("\n")[0][:200], "; ".join(frames), running and running["id"]),
                    {"kind": "muxpool-crash", "clause": "crash", "schedule": running, "panic": txt[:3000]})
    for s in scheds:
        if s.get("loop") or s.get("rcv"):       # a loopback schedule is recorded as two runs, one per pool
            by_id[s["id"] + "/establisher"] = s
            by_id[s["id"] + "/receiver"] = s
    bad_runs = set()
    causes = {}
    reported = set()
    for g in OBS_RE.finditer(m.group(1)):
        ln, clause, x, y = int(g.group(1)), g.group(2), int(g.group(3)), int(g.group(4))
        ri = run_of[ln - 1]
        r = runs[ri]
        bad_runs.add(ri)
        e = events[ln - 1]
        if clause == "leak":
            cause = leak_cause(r, x)
            sig = {"module": "MuxPool", "clause": "leak", "cause": cause}
            what = "connection %d still open %s (%s)" % (x, "while the pool is running" if y == 1 else "after shutdown completed", cause)
        else:
            cause = clause
            sig = {"module": "MuxPool", "clause": clause, "cause": "unexplained"}
            what = "%s: %s" % (clause, json.dumps(e)[:300])
        causes[cause] = causes.get(cause, 0) + 1
        key = (ri, clause, cause)
        if key in reported:
            continue
        reported.add(key)
        c.violation(sig, "%s in schedule %s" % (what, r[0].get("id")),
                    {"kind": "muxpool-trace", "clause": clause, "cause": cause, "schedule": by_id.get(r[0].get("id")), "trace": r})
    unreal = sum(1 for r in runs if any(e["ev"] == "Unrealised" for e in r))
    # a schedule that cannot be realised because the code confirmed a violation on the way (e.g. a lost permit starves the
    # provider) is a verdict; unrealised schedules WITHOUT any confirmed violation mean the generator and the code disagree
    if unreal > 0.2 * max(1, len(runs)) and not c.violations:
        raise Broken("%d of %d schedules could not be realised" % (unreal, len(runs)))
    if len(runs) != len(scheds) + nloop and not crashed:
        raise Broken("%d schedules (%d loopback) in, %d runs out" % (len(scheds), nloop, len(runs)))
    acts, locs, healed = {}, {}, 0
    for r in runs:
        for e in r:
            if e["ev"] == "Cmd":
                k = e["a"] + (":" + e["kind"] if e.get("kind") else "") + ("" if e["running"] else "@cancelled")
                acts[k] = acts.get(k, 0) + 1
            elif e["ev"] == "Snap":
                locs[e["loc"]] = locs.get(e["loc"], 0) + 1
            elif e["ev"] == "Healed" and e["running"]:
                healed += 1
    nontrivial = len({json.dumps(s["cmds"], sort_keys=True) + str(s["n"]) for s in scheds
                      if any(x["a"] in ("SessErr", "PingFail", "PeerClose", "LocalClose", "DialFail") for x in s["cmds"])})
    c.coverage.update({
        "schedules_replayed": len(scheds), "loopback_schedules_both_real_roles": nloop, "recorded_runs": len(runs), "unrealised": unreal, "events_validated": len(lines),
        "runs_with_violation": len(bad_runs), "violation_causes": causes, "commands_by_kind": acts,
        "snapshots_by_provider_location": locs, "heal_checks": healed,
        "evaluations": len(scheds), "distinct_nontrivial": nontrivial,
        "rule": "distinct environment schedules (dial ok/fail, sessionFn ok/error, ping ok/timeout/eof/other, peer close, local "
                "close, cancel at any location, heal) generated by TLC from MuxPoolSim for pools of 1..3; non-trivial = contains "
                "at least one fault (failed dial, sessionFn error, failed ping or a session kill); loopback schedules (two real pools, "
                "kills and cancel only) are counted in the same way",
    })
    run_by_id = {r[0].get("id"): r for r in runs}
    samples = []
    for s in scheds[:2] + ([scheds[-1]] if nloop else []):
        rid = s["id"] + "/establisher" if s.get("loop") else s["id"]
        samples.append({"schedule": s, "end": [e for e in run_by_id.get(rid, []) if e["ev"] in ("End", "Healed")][-2:]})
    bad_scheds = {runs[ri][0].get("id", "").split("/")[0] for ri in bad_runs}
    return c.finish(samples, traces_validated=len(scheds) - len(bad_scheds))
