"""Regenerates MANIFEST.json from the table below (keeps it schema-valid at all times)."""
import json
import os
import subprocess

ROOT = os.path.dirname(os.path.dirname(os.path.abspath(__file__)))

CHECKS = {
    "C05": dict(
        engine="Ring", category="model_checking", design_ref="3.1",
        technique="TLA+ spec of the ring buffer (concrete algorithm + abstract log, refinement invariants) checked "
                  "exhaustively by TLC; every explored transition replayed on the real proxyIDRingBuffer; "
                  "TLC-simulated sequences run on the real ring and validated by TLC against the abstract log",
        text="TLC explores every operation history of the bounded ring model (capacities 1..4/8, gapped and contiguous "
             "ids, watermarks below/inside/above the stored range) and checks that the concrete algorithm refines the "
             "plain map model; each explored transition is then replayed on the real Go struct and compared with "
             "TLC's abstract and concrete expectation, and long simulated histories run on the real ring are "
             "validated by TLC (RingObs). Exhaustive within the bound, sampled beyond it.",
        note="Trusted: TLC, the in-package state injection (unexported fields set directly), the transcription of "
             "Append/ensureCapacity/AggregateUpTo/Discard in Ring.tla (itself checked per transition against the code).",
    ),
}

ROUTING_TECH = ("TLA+ spec of the routing pipeline (Routing.tla: receiver, hand-off, sender id rewrite, ring, ack un-mapping, "
                "aggregation, stream faults) model-checked by TLC; TLC-generated boundary schedules replayed on the real "
                "streamRouting through gated fake streams; recorded traces judged by TLC (RoutingObs.tla observation monitor) "
                "and checked for conformance with the design (RoutingTrace.tla, internal steps inferred)")
ROUTING_NOTE = ("Trusted: TLC; the fake gRPC streams (half-close/EOF semantics modelled after grpc-go); the fake target, which "
                "applies Temporal v1.31.2 ExecutableTaskTracker rules; bounded instances only (1-2 sources, 2-3 targets, 2-3 ids). "
                "Internal proxy steps run eagerly in replay (no hooks), so schedules that need a delayed internal hand-off are "
                "covered by the design check and by whatever the Go scheduler produces, not enumerated.")
CHECKS.update({
    "C01": dict(engine="Routing", category="model_checking", design_ref="3.2", technique=ROUTING_TECH, note=ROUTING_NOTE,
        text="NoEarlyAck is checked by TLC on every interleaving of the bounded routing model (all routes, batch shapes, "
             "target speeds); every eager-normal-form boundary schedule of the small model (sampled in quick, all in thorough) "
             "is executed on the real code and the monitor requires, at every acknowledgement the real proxy sends to a "
             "source, that each received task below it was acknowledged by the target stream it was forwarded on."),
    "C02": dict(engine="Routing", category="model_checking", design_ref="3.2", technique=ROUTING_TECH, note=ROUTING_NOTE,
        text="TLC checks exactly-once delivery to the owner, source order and well-formedness (tracker never drops or panics) "
             "on the bounded model incl. late-connecting targets and two sources feeding one target; the same clauses plus "
             "payload identity and the real hash partitioning are evaluated by the monitor on real executions."),
    "C03": dict(engine="Routing", category="model_checking", design_ref="3.2", technique=ROUTING_TECH, note=ROUTING_NOTE,
        text="Ack monotonicity and the high-watermark bound are TLC invariants; eventual completeness is checked as bounded "
             "liveness rewritten as safety (RoutingTick.tla: within N virtual seconds of cooperative behaviour the final "
             "watermark is acknowledged, incl. slow targets and targets that never get a task) and on the real code by "
             "playing N+2 cooperative ticks after each replayed schedule."),
    "C04": dict(engine="Routing", category="model_checking", design_ref="3.2", technique=ROUTING_TECH, note=ROUTING_NOTE,
        text="Stream breaks (target and source) are boundary actions enabled after every step of the model, with the "
             "shutdown of an incarnation as a separate internal step; TLC shows that early acknowledgements arise only from "
             "the two recorded known findings; fault schedules are replayed on the real code (fake streams fail Recv/Send) "
             "and the monitor's violations are classified by cause: only the listed causes are tolerated."),
})

CHECKS["C08"] = dict(engine="ShardLife", category="model_checking", design_ref="3.3",
    technique="TLA+ spec of overlapping stream incarnations (ShardLife.tla: one action per critical section of "
              "proxyStreamSender.Run / proxyStreamReceiver.Run / shardManagerImpl registries, notifier and deliverer "
              "processes) model-checked by TLC; TLC-simulated step schedules replayed on the real objects with "
              "build-tag-guarded hook gates inside the in-method windows and fake-stream gates; recorded registries "
              "judged by TLC (ShardLifeObs.tla)",
    text="TLC explores every interleaving of 2 (thorough: 3) incarnations of one sender and one receiver shard with a remote "
         "announcement and a deliverer, at the granularity of the code's critical sections; the recorded known findings "
         "(unconditional receiver cleanup, concurrent registration) are factored out by constants and the 'ideal' "
         "instance shows they are the only causes. Thousands of simulated schedules are replayed step by step on the real "
         "code (each step = one gate release) and NoCrash / OwnCleanupOnly / NewestRegistered / AllGone are evaluated by "
         "TLC on the registries the real shard manager reported.",
    note="Trusted: TLC; the hook points (add-only one-liners in /repo under build tag verif) sit exactly at the windows; "
         "panics are observed through recover() in the harness goroutine that plays the memberlist / handler goroutine; "
         "cancel-function identity is probed destructively at the end of a run.")

CHECKS["C09"] = dict(engine="Gossip", category="model_checking", design_ref="3.4",
    technique="TLA+ spec of shard-ownership gossip (Gossip.tla: claim and announcement as separate clock reads, reliable "
              "messages with delay/duplication, full-state merge, leave) model-checked by TLC; TLC-simulated delivery "
              "schedules replayed on 2-3 real shardManagerImpl instances with the harness playing memberlist and the real "
              "announcement bytes captured at a hook; views at quiescence and the complete owner-routing decision table "
              "judged by TLC (GossipObs.tla)",
    text="TLC explores all delivery orders, duplications and delays of register/unregister announcements among 2-3 "
         "instances and 1-2 shards (SingleNewestOwner, LeftOwnNothing at quiescence). Simulated schedules are replayed on "
         "real shard managers whose RegisterShard/UnregisterShard/NotifyMsg/MergeRemoteState/NotifyLeave run unmodified; "
         "each run is completed to quiescence and TLC checks the recorded local-shard sets and peer tables. The routing "
         "clause is decided over the full decision table (96 cases) of DeliverMessagesToShardOwner/DeliverAckToShardOwner.",
    note="Trusted: TLC; the harness stands in for memberlist's reliable delivery (no real network); claim order = order of "
         "time.Now() reads in one process; the remote branch of routing ends at in-package fake intra-proxy streams.")

# only properties whose check has been validated by the lead on the unchanged tree are claimed
READY = ["C01", "C02", "C03", "C04", "C05", "C06", "C07", "C08", "C09", "C10", "C11", "C12", "C13", "C14", "C15", "C16", "C17", "C18", "C19", "C20"]

NOT_YET = "check not built yet (work in progress; see DESIGN.md section 6 for the order of work)"
NA = {}


def discover():
    """modules may carry their own manifest text: MANIFEST = {"Cxx": dict(engine=..., category=..., design_ref=...,
    technique=..., text=..., note=...)}"""
    import importlib
    import sys
    sys.path.insert(0, os.path.join(ROOT, "lib"))
    for fn in sorted(os.listdir(os.path.join(ROOT, "lib"))):
        if fn.startswith("p_") and fn.endswith(".py"):
            try:
                mod = importlib.import_module(fn[:-3])
            except Exception as ex:
                print("skip", fn, ex)
                continue
            for pid, d in getattr(mod, "MANIFEST", {}).items():
                CHECKS.setdefault(pid, d)


def main():
    discover()
    props = [json.loads(l) for l in open(os.path.join(ROOT, "properties.jsonl"))]
    hooks_commits = []
    try:
        out = subprocess.run(["git", "-C", "/repo", "log", "--format=%h %s"], capture_output=True, text=True).stdout
        hooks_commits = [l.split()[0] for l in out.splitlines() if l.split(" ", 1)[1].startswith("verif:")]
    except Exception:
        pass
    checks = []
    for p in props:
        pid = p["id"]
        if pid not in CHECKS or pid not in READY:
            continue
        c = CHECKS[pid]
        checks.append({
            "property_id": pid,
            "quick_cmd": "./check %s --tier quick" % pid,
            "thorough_cmd": "./check %s --tier thorough" % pid,
            "evidence_file": "/verif/evidence/%s.json" % pid,
            "replay_cmd_template": "./check %s --replay {path}" % pid,
            "engine": c["engine"],
            "level_claimed": {"category": c["category"], "text": c["text"], "design_ref": c["design_ref"]},
            "level_note": c["note"],
            "technique": c["technique"],
        })
    engines = {}
    for pid, c in CHECKS.items():
        if pid in READY:
            engines.setdefault(c["engine"], []).append(pid)
    m = {
        "version": 1,
        "setup_cmd": "./setup.sh",
        "hooks": {
            "guard": "verif",
            "enable": "go test -tags verif (harness files are injected with -overlay from /verif/harness/inpkg)",
            "baseline_off_cmd": "cd /repo && GOFLAGS=-mod=mod GOPROXY=off go test -json -vet=off -count=1 -timeout 25m ./...",
            "source_commits": hooks_commits,
            "add_only": True,
        },
        "engines": [{"name": e, "path": "/verif/spec/" + e, "serves_properties": sorted(ps),
                     "kind_free_text": "TLA+ specification checked with TLC, bound to the code by replay and trace validation"}
                    for e, ps in sorted(engines.items())],
        "checks": checks,
        "notes": "Single entry point ./check <id> --tier quick|thorough. Known findings: KNOWN_FINDINGS.json. See DESIGN.md.",
        "not_applicable": [{"property_id": p["id"], "reason": NA.get(p["id"], NOT_YET)}
                           for p in props if p["id"] not in CHECKS or p["id"] not in READY],
    }
    with open(os.path.join(ROOT, "MANIFEST.json"), "w") as f:
        json.dump(m, f, indent=1)


if __name__ == "__main__":
    main()
