"""Regenerates MANIFEST.json from the table below (keeps it schema-valid at all times)."""
import json
import os
import subprocess

ROOT = os.path.dirname(os.path.dirname(os.path.abspath(__file__)))

CHECKS = {
    "C05": dict(
        engine="Ring", category="model_checking", design_ref="3.1",
        technique="TLA+ spec of the ring buffer (concrete algorithm + abstract log, refinement invariants) checked "
                  "exhaustively by TLC; every explored transition replayed on the real proxyIDRingBuffer; "
                  "TLC-simulated sequences run on the real ring and validated by TLC against the abstract log",
        text="TLC explores every operation history of the bounded ring model (capacities 1..4/8, gapped and contiguous "
             "ids, watermarks below/inside/above the stored range) and checks that the concrete algorithm refines the "
             "plain map model; each explored transition is then replayed on the real Go struct and compared with "
             "TLC's abstract and concrete expectation, and long simulated histories run on the real ring are "
             "validated by TLC (RingObs). Exhaustive within the bound, sampled beyond it.",
        note="Trusted: TLC, the in-package state injection (unexported fields set directly), the transcription of "
             "Append/ensureCapacity/AggregateUpTo/Discard in Ring.tla (itself checked per transition against the code).",
    ),
}

NOT_YET = "check not built yet (work in progress; see DESIGN.md section 6 for the order of work)"
NA = {}


def main():
    props = [json.loads(l) for l in open(os.path.join(ROOT, "properties.jsonl"))]
    hooks_commits = []
    try:
        out = subprocess.run(["git", "-C", "/repo", "log", "--format=%h %s"], capture_output=True, text=True).stdout
        hooks_commits = [l.split()[0] for l in out.splitlines() if l.split(" ", 1)[1].startswith("verif:")]
    except Exception:
        pass
    checks = []
    for p in props:
        pid = p["id"]
        if pid not in CHECKS:
            continue
        c = CHECKS[pid]
        checks.append({
            "property_id": pid,
            "quick_cmd": "./check %s --tier quick" % pid,
            "thorough_cmd": "./check %s --tier thorough" % pid,
            "evidence_file": "/verif/evidence/%s.json" % pid,
            "replay_cmd_template": "./check %s --replay {path}" % pid,
            "engine": c["engine"],
            "level_claimed": {"category": c["category"], "text": c["text"], "design_ref": c["design_ref"]},
            "level_note": c["note"],
            "technique": c["technique"],
        })
    engines = {}
    for pid, c in CHECKS.items():
        engines.setdefault(c["engine"], []).append(pid)
    m = {
        "version": 1,
        "setup_cmd": "./setup.sh",
        "hooks": {
            "guard": "verif",
            "enable": "go test -tags verif (harness files are injected with -overlay from /verif/harness/inpkg)",
            "baseline_off_cmd": "cd /repo && GOFLAGS=-mod=mod GOPROXY=off go test -json -vet=off -count=1 -timeout 25m ./...",
            "source_commits": hooks_commits,
            "add_only": True,
        },
        "engines": [{"name": e, "path": "/verif/spec/" + e, "serves_properties": sorted(ps),
                     "kind_free_text": "TLA+ specification checked with TLC, bound to the code by replay and trace validation"}
                    for e, ps in sorted(engines.items())],
        "checks": checks,
        "notes": "Single entry point ./check <id> --tier quick|thorough. Known findings: KNOWN_FINDINGS.json. See DESIGN.md.",
        "not_applicable": [{"property_id": p["id"], "reason": NA.get(p["id"], NOT_YET)}
                           for p in props if p["id"] not in CHECKS],
    }
    with open(os.path.join(ROOT, "MANIFEST.json"), "w") as f:
        json.dump(m, f, indent=1)


if __name__ == "__main__":
    main()
