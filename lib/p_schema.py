"""C12, C14 (and the path clauses of C13 / C16) -- every structural path to a namespace name / search-attribute container
(spec/SchemaWalk).

1. The harness exports the REAL schema (protobuf descriptors of both proxied services) and the REAL walker tables as a
   generated TLA+ module.
2. TLC explores every structural path (SchemaWalk.tla), checks the completeness invariants on the tables and prints one
   obligation per leaf state.
3. The harness builds one concrete message per obligation and runs the real TranslationInterceptor / streamTranslator /
   AccessControlInterceptor on it.
4. TLC (SchemaObs.tla) judges every record.
"""
import json
import os
import re

from vlib import Broken, NCPU, log

PROPS = {"C12": "exploration", "C14": "exploration"}
HARNESS = ["zz_verif_schema_test.go", "zz_verif_oblig_test.go"]
_TECH = ("TLA+ path explorer (SchemaWalk.tla) over the REAL schema graph and the REAL walker tables, both exported at check time as a "
         "generated TLA+ module; TLC enumerates every structural path to a leaf and checks the table-completeness invariants; one real "
         "interceptor run per emitted path on a concrete message; records judged by TLC (SchemaObs.tla)")
_NOTE = ("Trusted: TLC; the descriptor rule that says which fields carry a namespace name / event blob / search attributes (DESIGN 3.11); "
         "recursion bounded (each type at most twice per path, depth 9/11); one leaf per message (all-at-once and random messages are not "
         "generated). TLC adds exhaustive enumeration and the oracle here, no interleaving insight.")
MANIFEST = {
    "C12": dict(engine="SchemaWalk", category="exploration", design_ref="3.11", technique=_TECH, note=_NOTE,
                text="Every (request/response/stream message type, structural path) to a namespace-name field of WorkflowService and "
                     "AdminService - through nested messages, repeated fields, maps, oneofs, failure chains, links and serialized "
                     "history-event blobs - is enumerated by TLC from the real descriptors (about 2.4k paths over 308 root types) and "
                     "executed on the real TranslationInterceptor / streamTranslator; the mapped name must come out. Exhaustive over paths "
                     "up to the recursion bound."),
    "C14": dict(engine="SchemaWalk", category="exploration", design_ref="3.11", technique=_TECH, note=_NOTE,
                text="Same explorer for search-attribute containers (typed container and bare map form, inside event blobs too): on "
                     "AdminService messages the mapped key must be renamed with the value untouched and the unmapped key kept; on every "
                     "WorkflowService message nothing may change (method filter)."),
}
MINE = {
    "C12": {"untranslated", "error", "chain"},
    "C14": {"sa", "sawf", "error", "chain"},
}
OBS_RE = re.compile(r'<<(\d+), "(\w+)">>')


def export_schema(c):
    out = os.path.join(c.scratch, "SchemaGen.tla")
    rc, txt = c.go_test("interceptor", HARNESS, "^TestVerifSchemaExport$", env={"VERIF_OUT": out}, timeout=300, name="export")
    if rc != 0 or not os.path.exists(out):
        raise Broken("schema export failed: " + txt[-1500:])
    return open(out).read()


def explore(c, schema, cfg):
    obligs = []

    def on_line(line):
        try:
            d = json.loads(line)
            if isinstance(d, str):
                d = json.loads(d)
        except ValueError:
            return
        d["id"] = len(obligs) + 1
        obligs.append(d)
    r = c.tlc("SchemaWalk", "SchemaWalk", cfg, workers=8, timeout=900, line_cb=on_line, files={"SchemaGen.tla": schema},
              name="walk-" + cfg[:-4], extra=None)
    if not r.ok:
        raise Broken("path exploration failed: " + r.error_text[-800:])
    return obligs, r


def cause(rec):
    if rec.get("ev") == "Populate":
        return "all-leaves-at-once", rec["type"].split(".")[-1]
    p = rec["path"]
    if not rec.get("reached", True):
        i = p.index("@blob") if "@blob" in p else 0
        return "blob-field-not-opened", p[i - 1] if i else "?"
    if rec.get("skipped"):
        idx = [x for x in p if x.endswith("_event_attributes")]
        return "skip-shortcut", idx[-1] if idx else "?"
    return "unexplained", p[-1]


def run_obligations(c, obligs, tag):
    binpath = c.go_test_build("interceptor", HARNESS, name="schema")
    nshard = min(NCPU, max(1, len(obligs) // 400))
    files = []
    for i in range(nshard):
        p = os.path.join(c.scratch, "%s-in-%d.ndjson" % (tag, i))
        with open(p, "w") as f:
            for o in obligs[i::nshard]:
                f.write(json.dumps(o) + "\n")
        files.append(p)
    res = c.run_shards(binpath, "^TestVerifSchemaObligations$", files, os.path.join(c.scratch, tag + "-out"), timeout=600,
                       cwd=os.path.join(os.environ.get("VERIF_REPO", "/repo"), "interceptor"))
    recs = []
    for rc, out, outp in res:
        if rc != 0 or not os.path.exists(outp):
            if c.crash_verdict("SchemaWalk", rc, outp):
                continue
            raise Broken("obligation shard failed rc=%s: %s" % (rc, out[-1500:]))
        for line in open(outp):
            recs.append(json.loads(line))
    return recs


def judge(c, recs, tag):
    lines = [json.dumps(r) for r in recs]
    ro = c.tlc("SchemaWalk", "SchemaObs", "obs.cfg", workers=1, timeout=900, files={"trace.ndjson": "\n".join(lines) + "\n"},
               name="obs-" + tag)
    text = open(ro.out).read()
    m = re.search(r'<<\s*"OBS_VIOLATIONS",\s*(\{.*?\})\s*>>\s*\n<<\s*"OBS_TRACE_LEN"', text, re.S)
    if not m or not ro.ok:
        raise Broken("SchemaObs did not report: " + ro.error_text[-1200:])
    return [(int(g.group(1)), g.group(2)) for g in OBS_RE.finditer(m.group(1))]


def run(c, a):
    mine = MINE[c.pid]
    c.assumptions += [
        "what a field carries is decided by the descriptor rule of DESIGN 3.11 (string fields named namespace / *_namespace, "
        "NamespaceInfo.name; DataBlob fields named events/new_run_events/event_batch(es)/events_batches/history_batches/"
        "raw_history; search_attributes of type SearchAttributes or map<string,Payload>)",
        "recursion through recursive types is bounded (quick: each type at most twice per path, depth <= 9; thorough: four times, depth <= 16)",
    ]
    schema = export_schema(c)
    m = re.search(r"NTypes == (\d+)\nNFields == (\d+)", schema)
    # design-level completeness on the real tables (informative; verdicts come from the real runs)
    rinv = c.tlc("SchemaWalk", "SchemaWalk", "walk_inv.cfg", workers=8, timeout=600, files={"SchemaGen.tla": schema}, name="walk-inv")
    if rinv.violated:
        c.notes.append("table-level completeness invariant violated: %s" % rinv.violated)
    obligs, r = explore(c, schema, "walk_t.cfg" if c.tier == "thorough" else "walk.cfg")
    want = "ns" if c.pid == "C12" else "sa"
    obligs = [o for o in obligs if o["leaf"].startswith(want)]
    if len(obligs) < 50:
        raise Broken("too few obligations (%d)" % len(obligs))
    base = len(obligs)
    # variants: the leaf sits in the middle of an event batch ("tail"), in a blob that needs UTF-8 repair ("dirty"), in a
    # JSON-encoded blob ("json"), in a message whose other namespace fields hold an unmapped name ("fill", names only) - none
    # may change the result; for names also under a chained mapping a->b, b->c (exactly one step)
    more = []
    for o in obligs:
        # a HistoryEvent list somewhere on the path (the harness decides by type and reports variants that did not apply)
        through_events = any("event" in x or x == "@blob" for x in o["path"][:-1])
        for variant in ("tail", "rich", "dirty", "dirtyfirst", "json") + (("fill",) if c.pid == "C12" else ()):
            if variant in ("tail", "rich") and not through_events:
                continue
            if variant in ("dirty", "dirtyfirst", "json") and not o["inblob"]:
                continue
            if variant in ("dirty", "dirtyfirst") and c.pid == "C14" and o["root"]["service"] != "admin":
                continue     # WorkflowService messages are not touched by the search-attribute translator: the blob stays as it is
            d = dict(o)
            d.update(variant=variant, id=base + len(more) + 1)
            more.append(d)
        # a path that leaves a history event through a field outside the attributes oneof (links): the event is of SOME type - a
        # type the translator's shortcut table lists (WorkflowTaskCompleted) and, rotating over the paths (thorough: all), any other
        if "links" in o["path"][:-1]:
            ks = [-1] + (list(range(64)) if c.tier == "thorough" else [(7 * len(more)) % 64, (7 * len(more) + 31) % 64])
            for k in ks:
                d = dict(o)
                d.update(variant="evtype", evk=k, id=base + len(more) + 1)
                more.append(d)
        if c.pid == "C12":
            for val in ("ns-a", "ns-b"):
                d = dict(o)
                d.update(mode="chain", value=val, id=base + len(more) + 1)
                more.append(d)
        elif o["root"]["service"] == "admin":
            # chained key mapping a->b, b->c with both keys present: exactly one step each, nothing lost
            d = dict(o)
            d.update(mode="chain", id=base + len(more) + 1)
            more.append(d)
    obligs = obligs + more
    if c.pid == "C12":
        # all namespace leaves of a root type at once, judged by a descriptor-driven scan of what comes out
        by_root = {}
        for o in obligs[:base]:
            by_root.setdefault(json.dumps(o["root"], sort_keys=True), []).append(o["path"])
        for rk in sorted(by_root):
            obligs.append({"id": len(obligs) + 1, "mode": "populate", "root": json.loads(rk), "paths": by_root[rk], "path": [], "leaf": "ns-recognised",
                           "reached": True, "skipped": False, "inblob": False})
    # every obligation also with ONLY the translator under test configured (namespace translation without search-attribute
    # translation and vice versa are ordinary configurations; the other translator must not be what makes it work)
    solo = []
    for o in obligs:
        if o.get("mode"):
            continue
        d = dict(o)
        d.update(solo=True, id=len(obligs) + len(solo) + 1)
        solo.append(d)
    obligs = obligs + solo
    recs = run_obligations(c, obligs, "ob")
    not_applicable = [r_ for r_ in recs if r_.get("scope") == "variant-not-applicable"]
    out_of_scope = [r_ for r_ in recs if r_.get("scope") and r_.get("scope") != "variant-not-applicable"]
    recs = [r_ for r_ in recs if not r_.get("scope")]
    c.coverage["variant_not_applicable"] = len(not_applicable)
    if out_of_scope:
        c.notes.append("%d 'dirty' obligations skipped: the path does not exist in the 1.22 schema, so a blob written by a server "
                       "of that vintage cannot hold it" % len(out_of_scope))
    unbuilt = [r_ for r_ in recs if not r_["built"]]
    if len(unbuilt) > 0.02 * len(recs):
        raise Broken("%d of %d obligations could not be materialised: %s" % (len(unbuilt), len(recs), unbuilt[0]["err"]))
    viols = judge(c, recs, "tr")
    by_cause = {}
    for ln, clause in viols:
        rec = recs[ln - 1]
        if clause not in mine:
            continue
        cz, detail = cause(rec) if clause == "untranslated" else (clause, (rec.get("path") or [rec.get("type", "?")])[-1])
        sig = {"module": "SchemaWalk", "clause": clause, "cause": cz, "detail": detail}
        key = (clause, cz, detail)
        by_cause.setdefault(key, 0)
        by_cause[key] += 1
        if by_cause[key] == 1:
            c.violation(sig, "%s (%s: %s) for %s path %s: in=%s out=%s err=%s" % (clause, cz, detail, rec["type"], "/".join(rec.get("path") or []),
                                                                                   rec.get("in", rec.get("inLocal")), rec.get("out", [rec.get("outLocal"), rec.get("outRemote"), rec.get("outOther")]), rec["err"]),
                        {"kind": "obligation", "record": rec})
    roots = len({r_["type"] for r_ in recs})
    if c.pid == "C14":
        import p_pipeline
        c.coverage.update(p_pipeline.sa_direction(c))
    c.coverage.update({
        "schema_types": int(m.group(1)) if m else 0, "schema_fields": int(m.group(2)) if m else 0,
        "path_states": r.distinct, "paths": base, "obligations": len(obligs), "executed": len(recs), "unbuilt": len(unbuilt),
        "dirty_out_of_scope": len(out_of_scope),
        "root_types_with_leaf": roots, "violations_by_cause": {"%s/%s/%s" % k: v for k, v in by_cause.items()},
        "evaluations": len(recs), "distinct_nontrivial": len(obligs), "exhaustive": True,
        "rule": "every (root message type, structural path) to a %s leaf of the real schema, enumerated by TLC with each type at "
                "most twice per path; each obligation is one distinct path; executed on the real interceptor" % want,
    })
    samples = [{"obligation": obligs[0], "record": recs[0]}, {"obligation": obligs[len(obligs) // 2]}]
    return c.finish(samples)
