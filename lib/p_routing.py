"""C01-C04 -- replication routing (spec/Routing).

Pipeline per check:
  1. TLC checks the design (Routing.tla) on the bounded instances of this property/tier.
  2. TLC generates behaviours (RoutingSim.tla: exhaustive BFS of eager-normal-form boundary schedules, or
     -simulate); they are projected to harness commands.
  3. The Go harness (harness/inpkg/proxy/zz_verif_routing_test.go) drives the REAL streamRouting with fake
     streams and records an NDJSON trace.
  4. TLC evaluates RoutingObs.tla (observation monitor) on the recorded traces: the only source of VIOLATION.
  5. TLC checks conformance of the traces with the design (RoutingTrace.tla): spec <-> code binding.
"""
import json
import os
import random
import re

from vlib import Broken, NCPU, ROOT, log

PROPS = {"C01": "model_checking", "C02": "model_checking", "C03": "model_checking", "C04": "model_checking"}
HARNESS = ["zz_verif_routing_test.go"]

# which monitor clauses decide which property
CLAUSES = {
    "C01": {"early"},
    "C02": {"malformed", "payload", "wrongowner", "dup", "disorder", "undelivered"},
    "C03": {"nonmono", "overhigh", "incomplete"},
    "C04": {"early", "stuck"},
}

# (design cfgs, [(sim cfg, mode, ns, nt, late, sample)], ...)
def hold_filter(sc):
    """keep hold schedules in which the proxy reads a task batch while a sender sits in its close window"""
    held = False
    for c in sc["cmds"]:
        if c["c"] == "holdtgt":
            held = True
        elif c["c"] == "releasetgt":
            held = False
        elif c["c"] == "tasks" and held:
            return True
    return False


def flood_schedules():
    """slow target at REAL queue capacity (100): one target is stalled while > 100 watermarks are broadcast, then it
    recovers and the cooperative phase must still complete (C03)."""
    post = [{"c": "drain"}] + [{"c": "tick"}] * 4 + [{"c": "final"}]
    out = []
    for stalled, owner in ((2, 1), (1, 2)):
        out.append({"id": "flood-stalled-t%d" % stalled, "ns": 1, "nt": 2, "route": {"1": [owner]}, "late": [],
                    "cmds": [{"c": "flood", "s": 1, "t": stalled, "n": 105}] + post})
        # ... and with the receiver blocked handing a task batch to the stalled target's full queue when that target's stream
        # fails and is re-established: the cooperative phase must still complete
        out.append({"id": "flood-break-t%d" % stalled, "ns": 1, "nt": 2, "route": {"1": [owner] * 105 + [stalled] + [owner]}, "late": [],
                    "cmds": [{"c": "flood", "s": 1, "t": stalled, "n": 105}, {"c": "tasks", "s": 1, "k": 1},
                             {"c": "breaktgt", "t": stalled}, {"c": "reopentgt", "t": stalled}] + post})
    return out + replace_schedules()


def replace_schedules():
    """a target shard's stream is RE-ESTABLISHED WHILE its previous incarnation is still open (the target cluster noticed the
    break first), traffic goes on, then the old incarnation's stream ends: every target stream that is left keeps acknowledging,
    the source keeps sending its watermark - the source must reach its final high watermark (C03), acknowledgements stay monotone
    and bounded.  (What the old incarnation had in flight is C04's subject.)"""
    post = [{"c": "drain"}] + [{"c": "tick"}] * 4 + [{"c": "final"}]
    out = []
    for t in (1, 2):
        # (a watermark-only batch before the replacement: whatever the proxy derives from the set of registered streams exists)
        pre = [{"c": "tasks", "s": 1, "k": 2}, {"c": "wm", "s": 1}, {"c": "drain"}, {"c": "ack", "t": 1}, {"c": "ack", "t": 2}]
        mid = [{"c": "tasks", "s": 1, "k": 2}, {"c": "wm", "s": 1}, {"c": "drain"}]
        out.append({"id": "replace-t%d-idle" % t, "ns": 1, "nt": 2, "route": {"1": [1, 2]}, "late": [],
                    "cmds": pre + [{"c": "replacetgt", "t": t}, {"c": "endold", "t": t}] + mid + post})
        out.append({"id": "replace-t%d-traffic" % t, "ns": 1, "nt": 2, "route": {"1": [1, 2]}, "late": [],
                    "cmds": pre + [{"c": "replacetgt", "t": t}] + mid + [{"c": "endold", "t": t}] + mid + post})
    return out


def bulk_schedules():
    """more tasks in flight on ONE target stream than the sender's id ring holds (1024) after its head has moved: the ring grows
    while wrapped (C05's subject, here end to end); then a small ack must be translated correctly (C01/C04 'early')."""
    out = []
    for owner, n in ((1, 1100), (2, 2200)):
        cmds = [{"c": "tasks", "s": 1, "k": 3}, {"c": "send", "t": owner}]
        cmds += [{"c": "done", "t": owner, "i": 1}] * 3 + [{"c": "ack", "t": owner}]
        for _ in range(n):
            cmds += [{"c": "tasks", "s": 1, "k": 1}, {"c": "send", "t": owner}]
        cmds += [{"c": "done", "t": owner, "i": 1}] * 5 + [{"c": "ack", "t": owner}, {"c": "drain"}]
        out.append({"id": "bulk-%d-t%d" % (n, owner), "ns": 1, "nt": 2, "route": {"1": [owner]}, "late": [], "cmds": cmds})
    return out


def rawless_schedules():
    """tasks without raw_task_info (what a sender older than that field sends): namespace / workflow / run id are in the task
    attributes only. The proxy must still deliver every task it reads and must not acknowledge past one it did not deliver."""
    post = [{"c": "drain"}, {"c": "tick"}, {"c": "tick"}, {"c": "final"}]
    return [
        {"id": "rawless-1", "ns": 1, "nt": 2, "route": {"1": [1, 2]}, "late": [], "rawless": True, "stride": 1,
         "cmds": [{"c": "tasks", "s": 1, "k": 2}, {"c": "wm", "s": 1}] + post},
        {"id": "rawless-2", "ns": 1, "nt": 2, "route": {"1": [2, 2, 1]}, "late": [], "rawless": True, "stride": 3,
         "cmds": [{"c": "tasks", "s": 1, "k": 1}, {"c": "tasks", "s": 1, "k": 2}, {"c": "wm", "s": 1}] + post},
    ]


def ahead_schedules():
    """proxy ids AHEAD of the source's id space on one target stream (an idle source repeats its watermark-only batch: every
    repetition takes a proxy id on every target stream), a slow and a fast target: the slow sender is inside Send of the first
    repetition while the fast one forwards them all; then tasks for the slow target, which acknowledges only what precedes them.
    The generated schedules use few watermark-only batches, so there proxy ids stay at or below the source's ids and a proxy-space
    value leaking into the source's space goes unnoticed (it under-acknowledges)."""
    out = []
    for slow, m in ((1, 5), (2, 5), (1, 9)):
        fast = 3 - slow
        cmds = [{"c": "tasks", "s": 1, "k": 1}, {"c": "drain"}, {"c": "ack", "t": fast}]
        for _ in range(m):
            cmds += [{"c": "wm", "s": 1}, {"c": "send", "t": fast}]
        cmds += [{"c": "send", "t": slow}] * m
        cmds += [{"c": "tasks", "s": 1, "k": 2}, {"c": "send", "t": slow},
                 {"c": "wm", "s": 1}, {"c": "send", "t": slow}, {"c": "send", "t": fast},
                 {"c": "ack", "t": slow}, {"c": "ack", "t": fast}, {"c": "settle"}, {"c": "drain"}]
        out.append({"id": "ahead-%d-slow%d" % (m, slow), "ns": 1, "nt": 2, "route": {"1": [fast, slow, slow]}, "late": [], "stride": 1, "cmds": cmds})
    return out


def bulk_and_rawless():
    return bulk_schedules() + rawless_schedules() + ahead_schedules()


def bulk_fault_schedules():
    """the same with a break and re-open of the OTHER target stream first (C04 judges 'early' only in runs with a fault)."""
    out = []
    for sc in bulk_schedules():
        owner = sc["route"]["1"][0]
        other = 3 - owner
        sc["id"] = sc["id"].replace("bulk-", "bulk-f-")
        sc["cmds"] = [{"c": "breaktgt", "t": other}, {"c": "reopentgt", "t": other}] + sc["cmds"]
        out.append(sc)
    return out


PROFILES = {
    ("C01", "quick"): dict(extra=bulk_and_rawless, design=[("c01.cfg", 300)],
                           gen=[("sim_c01.cfg", "bfs", 1, 2, [], 900), ("sim_c02.cfg", "bfs", 1, 2, [2], 500),
                                ("sim_c01_t.cfg", ("sim", 60, 60), 2, 2, [], 300),
                                ("sim_c03.cfg", ("sim", 600, 80), 1, 2, [], 200),
                                ("sim_c01a.cfg", ("sim", 400, 90), 2, 1, [], 250)]),
    ("C01", "thorough"): dict(extra=bulk_and_rawless, design=[("c01_t1.cfg", 2400), ("c01_t2.cfg", 2400), ("c02b_q.cfg", 1200), ("c02.cfg", 1800)],
                              gen=[("sim_c01.cfg", "bfs", 1, 2, [], 16000), ("sim_c02.cfg", "bfs", 1, 2, [2], 8000),
                                   ("sim_c01_t.cfg", ("sim", 500, 60), 2, 2, [], 8000),
                                   ("sim_c01a.cfg", ("sim", 3000, 90), 2, 1, [], 4000)]),
    ("C02", "quick"): dict(extra=rawless_schedules, design=[("c02_q.cfg", 300), ("c02b_q.cfg", 600)],
                           gen=[("sim_c02.cfg", "bfs", 1, 2, [2], 700), ("sim_c02b.cfg", "bfs", 2, 2, [], 500),
                                ("sim_c02i.cfg", ("sim", 40, 60), 1, 2, [], 48)],
                           post=["drain"]),
    ("C02", "thorough"): dict(extra=rawless_schedules, design=[("c02.cfg", 1800), ("c02_t1.cfg", 3600), ("c02b.cfg", 3600)],
                              gen=[("sim_c02.cfg", "bfs", 1, 2, [2], 12000), ("sim_c02b.cfg", "bfs", 2, 2, [], 8000),
                                   ("sim_c02_t.cfg", ("sim", 400, 70), 2, 3, [3], 6000),
                                   ("sim_c02i.cfg", ("sim", 300, 60), 1, 2, [], 480)],
                              post=["drain"]),
    ("C03", "quick"): dict(design=[("c01.cfg", 300)], tick=[("tick.cfg", 600), ("tick_2s.cfg", 600)],
                           gen=[("sim_c01.cfg", "bfs", 1, 2, [], 600), ("sim_c01_t.cfg", ("sim", 80, 60), 2, 2, [], 300),
                                ("sim_c03.cfg", ("sim", 1500, 80), 1, 2, [], 300),
                                ("sim_c03i.cfg", ("sim", 1500, 80), 1, 2, [], 120)],
                           extra=flood_schedules,
                           post=["drain", "tick", "tick", "tick", "tick", "final"]),
    ("C03", "thorough"): dict(design=[("c01_t1.cfg", 2400), ("c02b_q.cfg", 1200)],
                              tick=[("tick.cfg", 900), ("tick_slow.cfg", 1800), ("tick_2s.cfg", 1800)],
                              gen=[("sim_c01.cfg", "bfs", 1, 2, [], 12000), ("sim_c02b.cfg", "bfs", 2, 2, [], 6000),
                                   ("sim_c01_t.cfg", ("sim", 500, 60), 2, 2, [], 6000),
                                   ("sim_c03.cfg", ("sim", 6000, 80), 1, 2, [], 4000),
                                   ("sim_c03i.cfg", ("sim", 6000, 80), 1, 2, [], 2000)],
                              extra=flood_schedules,
                              post=["drain", "tick", "tick", "tick", "tick", "final"]),
    ("C04", "quick"): dict(extra=bulk_fault_schedules, design=[("c04_q.cfg", 600)],
                           gen=[("sim_c04.cfg", "bfs", 1, 2, [], 600), ("sim_c04s.cfg", "bfs", 1, 2, [], 250),
                                ("sim_c04h.cfg", "bfs", 1, 2, [], 300, hold_filter),
                                ("sim_c04a.cfg", ("sim", 500, 100), 2, 1, [], 300)]),
    ("C04", "thorough"): dict(extra=bulk_fault_schedules, design=[("c04.cfg", 2400), ("c04s.cfg", 2400), ("c04_t1.cfg", 5400)],
                              gen=[("sim_c04.cfg", "bfs", 1, 2, [], 12000), ("sim_c04s.cfg", "bfs", 1, 2, [], 3000),
                                   ("sim_c04h.cfg", "bfs", 1, 2, [], 4000, hold_filter),
                                   ("sim_c04a.cfg", ("sim", 3000, 100), 2, 1, [], 3000),
                                   ("sim_c04_t.cfg", ("sim", 300, 70), 2, 2, [], 3000)]),
}


def to_int(x):
    return int(x[1:]) if isinstance(x, str) else int(x)


def hist_to_schedule(h, ns, nt, late, idx):
    route = {str(to_int(s)): [to_int(t) for t in ts] for s, ts in h[0]["route"].items()}
    cmds = []
    tags = []
    for c in h[1:]:
        if c["c"] == "tags":
            tags = sorted(c.get("tags", []))
            continue
        d = {"c": c["c"]}
        for k in ("s", "t"):
            if k in c:
                d[k] = to_int(c[k])
        for k in ("k", "i"):
            if k in c:
                d[k] = int(c[k])
        cmds.append(d)
    # trailing settles are implied
    while cmds and cmds[-1]["c"] == "settle":
        cmds.pop()
    return {"id": "b%d" % idx, "ns": ns, "nt": nt, "route": route, "late": late, "cmds": cmds, "tags": tags}


def generate(c, cfg, mode, ns, nt, late, limit, keep=None):
    seen = {}

    def on_line(line):
        try:
            h = json.loads(line)
            if isinstance(h, str):
                h = json.loads(h)
        except ValueError:
            return
        sc = hist_to_schedule(h, ns, nt, late, 0)
        if keep is not None and not keep(sc):
            return
        key = json.dumps([sc["route"], sc["cmds"]], sort_keys=True)
        if key not in seen:
            seen[key] = sc

    if mode == "bfs":
        r = c.tlc("Routing", "RoutingSim", cfg, workers=8, timeout=900, line_cb=on_line, name="gen-" + cfg[:-4])
        if not r.ok:
            raise Broken("behaviour generation failed: " + r.error_text[-800:])
    else:
        _, num, depth = mode
        c.tlc("Routing", "RoutingSim", cfg, workers=8, simulate="num=%d" % num, depth=depth, seed=c.seed,
              timeout=900, line_cb=on_line, name="gen-" + cfg[:-4])
    scheds = [seen[k] for k in sorted(seen)]
    total = len(scheds)
    if total > limit:
        # coverage-guided selection: behaviours that exercise rare branches of the design (tags computed by TLC)
        # are replayed first; the rest of the budget is a seeded random sample
        freq = {}
        for sc in scheds:
            for t in sc.get("tags", []):
                freq[t] = freq.get(t, 0) + 1
        rnd = random.Random(c.seed)
        rnd.shuffle(scheds)
        tagged = [sc for sc in scheds if sc.get("tags")]
        tagged.sort(key=lambda sc: min(freq[t] for t in sc["tags"]))
        chosen, per_tag = [], {}
        for sc in tagged:
            rare = min(sc["tags"], key=lambda t: freq[t])
            if per_tag.get(rare, 0) < max(8, limit // 8) and len(chosen) < limit // 2:
                chosen.append(sc)
                per_tag[rare] = per_tag.get(rare, 0) + 1
        ids = {id(x) for x in chosen}
        rest = [sc for sc in scheds if id(sc) not in ids]
        scheds = chosen + rest[:limit - len(chosen)]
    for i, s in enumerate(scheds):
        s["id"] = "%s-%d" % (cfg[:-4], i)
    return scheds, total


def run_schedules(c, scheds, tag):
    """Runs schedules on the real code in parallel shards; returns list of per-run event lists."""
    binpath = c.go_test_build("proxy", HARNESS, name="routing")
    # binding dimension: task ids are positions in the design; on the wire every other schedule uses sparse ids (k-th task has
    # id 3k, a batch ending before k carries the exclusive high watermark 3k-1), as Temporal's ids are sparse
    for k, sc in enumerate(scheds):
        sc.setdefault("stride", 3 if k % 2 else 1)
    nshard = min(NCPU, max(1, len(scheds) // 3 if len(scheds) < 100 else len(scheds) // 20))
    files = []
    for i in range(nshard):
        p = os.path.join(c.scratch, "%s-in-%d.ndjson" % (tag, i))
        with open(p, "w") as f:
            for s in scheds[i::nshard]:
                f.write(json.dumps(s) + "\n")
        files.append(p)
    res = c.run_shards(binpath, "^TestVerifRoutingSchedules$", files, os.path.join(c.scratch, tag + "-out"),
                       timeout=1200)
    runs = []
    for rc, out, outp in res:
        if rc != 0 or not os.path.exists(outp):
            if "panic:" in out and "s2s-proxy/proxy." in out and "_test.go" not in out.split("panic:")[1][:2000]:
                c.violation({"module": "Routing", "clause": "crash"}, "process crashed: " + out[-600:], {"log": out})
                continue
            raise Broken("harness shard failed rc=%s: %s" % (rc, out[-1500:]))
        cur = None
        for line in open(outp):
            e = json.loads(line)
            if e["ev"] == "Config":
                cur = []
                runs.append(cur)
            cur.append(e)
    return runs


OBS_RE = re.compile(r'<<(\d+), "(\w+)", (-?\d+), (-?\d+)>>')


def observe(c, runs, tag):
    """TLC evaluates RoutingObs on the concatenated traces. Returns list of (run_index, line_in_run, clause, s, id)."""
    lines = []
    owner = []
    for ri, r in enumerate(runs):
        for li, e in enumerate(r):
            lines.append(json.dumps(e))
            owner.append((ri, li))
    res = c.tlc("Routing", "RoutingObs", "obs.cfg", workers=1, timeout=1800,
                files={"trace.ndjson": "\n".join(lines) + "\n"}, name="obs-" + tag)
    text = open(res.out).read()
    m = re.search(r'<<\s*"OBS_VIOLATIONS",\s*(\{.*?\})\s*>>\s*\n<<\s*"OBS_TRACE_LEN"', text, re.S)
    if not m or not res.ok:
        raise Broken("RoutingObs did not report: " + res.error_text[-1200:])
    out = []
    for g in OBS_RE.finditer(m.group(1)):
        ln, clause, s, i = int(g.group(1)), g.group(2), int(g.group(3)), int(g.group(4))
        ri, li = owner[ln - 1]
        out.append((ri, li, clause, s, i))
    return out, len(lines)


def positions(run):
    """The recorded run with wire task ids / watermarks of the source side mapped back to positions (identity for stride 1):
    the design spec (RoutingTrace) speaks in positions."""
    st = int(run[0].get("stride", 1) or 1)
    if st == 1:
        return run
    up = lambda x: (x + st - 1) // st
    out = []
    for e in run:
        e = dict(e)
        if e["ev"] == "SrcBatch":
            e["ids"] = [up(x) for x in e["ids"]]
            e["high"] = up(e["high"])
        elif e["ev"] == "SrcAck":
            e["a"] = up(e["a"])
        elif e["ev"] == "TgtMsg":
            e["tasks"] = [dict(t, id=up(t["id"])) for t in e["tasks"]]
        elif e["ev"] in ("SrcOpen", "SrcGone") and "resume" in e and e["ev"] == "SrcOpen":
            e["resume"] = up(e["resume"])
        out.append(e)
    return out


def conform_group(c, runs, idxs, tag, max_iter):
    remaining = list(idxs)
    rejected = []
    for it in range(max_iter):
        lines, owner = [], []
        for ri in remaining:
            for li, e in enumerate(positions(runs[ri])):
                lines.append(json.dumps(e))
                owner.append((ri, li))
        if not lines:
            break
        try:
            res = c.tlc("Routing", "RoutingTrace", "trace.cfg", workers=1, dfs=True, timeout=c.trace_timeout, heap="3g",
                        files={"trace.ndjson": "\n".join(lines) + "\n"}, name="trace-%s-%d" % (tag, it))
        except Broken as ex:
            # a rejection deep inside a group makes the depth-first search exhaustive; give up on this group
            c.notes.append("trace conformance inconclusive for %d runs (group %s): %s" % (len(remaining), tag, ex))
            return 0, rejected
        text = open(res.out).read()
        if "TRACE_ACCEPTED" in text:
            return len(remaining), rejected
        m = re.search(r'"TRACE_REJECTED_AT",\s*(\d+)', text)
        if not m:
            raise Broken("RoutingTrace did not report: " + res.error_text[-1200:])
        k = int(m.group(1))
        ri, li = owner[min(k, len(owner)) - 1]
        rejected.append((ri, li))
        remaining.remove(ri)
    return len(remaining), rejected


def conform(c, runs, tag, max_iter=2):
    """RoutingTrace: the recorded runs must be behaviours of the design. Returns (accepted_runs, rejected[(run, line)]).
    Runs are validated in parallel groups (one single-worker TLC each)."""
    from concurrent.futures import ThreadPoolExecutor
    ngroups = max(1, min(NCPU - 2, len(runs) // 40))
    groups = [list(range(g, len(runs), ngroups)) for g in range(ngroups)]
    with ThreadPoolExecutor(max_workers=ngroups) as ex:
        futs = [ex.submit(conform_group, c, runs, groups[g], "%s-g%d" % (tag, g), max_iter) for g in range(ngroups)]
        results = [f.result() for f in futs]
    return sum(r[0] for r in results), [x for r in results for x in r[1]]


def classify(run, li, clause, s, tid):
    """Cause-level signature of a violation (labels only; the verdict is the monitor's)."""
    sig = {"module": "Routing", "clause": clause}
    if run[0].get("rawless"):
        sig["cause"] = "task-without-raw-task-info"
        return sig
    if clause != "early":
        return sig
    upto = run[:li + 1]
    recv_at = 0
    for k, e in enumerate(upto):
        if e["ev"] == "SrcBatch" and e["s"] == s and tid in e["ids"]:
            recv_at = k
            break
    owner = None
    st = int(run[0].get("stride", 1) or 1)
    try:
        owner = run[0]["route"][str(s)][(tid + st - 1) // st - 1]
    except Exception:
        pass
    sent = [(k, e) for k, e in enumerate(upto) if e["ev"] == "TgtMsg" and
            any(t["s"] == s and t["id"] == tid for t in e["tasks"])]
    closed = {(e["t"], e["inc"]) for e in upto if e["ev"] == "TgtClose"}
    owner_fault_after = any(e["ev"] == "TgtClose" and e["t"] == owner for e in upto[recv_at:])
    src_fault_after = any(e["ev"] == "SrcClose" and e["s"] == s for e in upto[recv_at:])
    held_at_recv = False
    h = False
    for k, e in enumerate(upto[:recv_at + 1]):
        if e["ev"] == "TgtHeld" and e["t"] == owner:
            h = True
        elif e["ev"] == "TgtRelease" and e["t"] == owner:
            h = False
    held_at_recv = h
    if held_at_recv:
        # read while the owner's sender was closed-but-registered: the hand-off must fail and be retried
        sig["cause"] = "dropped-in-close-window"
    elif src_fault_after:
        sig["cause"] = "ack-state-reset-by-source-reconnect"
    elif sent and (sent[-1][1]["t"], sent[-1][1]["inc"]) in closed:
        sig["cause"] = "entry-lost-with-target-incarnation"
    elif not sent and owner_fault_after:
        sig["cause"] = "entry-lost-with-target-incarnation"
    elif sent:
        sig["cause"] = "unconfirmed-on-live-target"
    else:
        sig["cause"] = "never-forwarded"
    return sig


def selftest(c):
    """Binding demonstration (DESIGN 2.4): a recorded real trace is accepted by the trace spec; the same trace with one logged
    field corrupted, and with one event removed, is rejected."""
    import copy
    c.trace_timeout = 120
    scheds, _ = generate(c, "sim_c01.cfg", "bfs", 1, 2, [], 60)
    runs = run_schedules(c, scheds, "st")
    runs = [r for r in runs if any(e["ev"] == "SrcAck" for e in r) and any(e["ev"] == "TgtMsg" and e["pids"] for e in r)][:20]
    if not runs:
        raise Broken("selftest: no suitable runs")
    n0, rej0 = conform_group(c, runs, list(range(len(runs))), "st-orig", 1)
    corrupted = copy.deepcopy(runs)
    for e in corrupted[0]:
        if e["ev"] == "SrcAck":
            e["a"] += 1
            break
    n1, rej1 = conform_group(c, corrupted, list(range(len(corrupted))), "st-corrupt", 1)
    removed = copy.deepcopy(runs)
    k = next(i for i, e in enumerate(removed[0]) if e["ev"] == "TgtMsg" and e["pids"])
    del removed[0][k]
    n2, rej2 = conform_group(c, removed, list(range(len(removed))), "st-removed", 1)
    ok = (not rej0) and bool(rej1) and bool(rej2)
    print("SELFTEST original accepted=%s corrupted-field rejected=%s removed-event rejected=%s" % (not rej0, bool(rej1), bool(rej2)))
    return 0 if ok else 2


def run(c, a):
    if getattr(a, "selftest", False):
        return selftest(c)
    c.trace_timeout = 100 if c.tier == "quick" else 900
    prof = PROFILES.get((c.pid, c.tier))
    if prof is None:
        raise Broken("no profile for %s/%s" % (c.pid, c.tier))
    mine = CLAUSES[c.pid]
    c.assumptions += [
        "fake gRPC streams follow gRPC semantics (Recv returns io.EOF after the proxy half-closes; broken streams fail Send/Recv)",
        "the fake target applies Temporal v1.31.2 ExecutableTaskTracker.TrackTasks/LowWatermark rules",
        "TLC explores bounded instances only (constants in coverage.tlc_runs)",
    ]
    # 1. design
    for cfg, tmo in prof["design"]:
        r = c.tlc("Routing", "Routing", cfg, workers=12, timeout=tmo, name="design-" + cfg[:-4])
        if r.violated:
            c.notes.append("design-level counterexample in %s: %s (must be reproduced on the real code to count)" % (cfg, r.violated))
        elif not r.ok:
            raise Broken("TLC did not complete on %s: %s" % (cfg, r.error_text[-800:]))
    for cfg, tmo in prof.get("tick", []):
        r = c.tlc("Routing", "RoutingTick", cfg, workers=12, timeout=tmo, name="tick-" + cfg[:-4])
        if r.violated:
            c.notes.append("design-level counterexample in %s: %s" % (cfg, r.violated))
        elif not r.ok:
            raise Broken("TLC did not complete on %s: %s" % (cfg, r.error_text[-800:]))
    # 2-4. behaviours -> real code -> monitor
    all_runs = []
    gen_info = []
    for gi, gen in enumerate(prof["gen"]):
        cfg, mode, ns, nt, late, limit = gen[:6]
        scheds, total = generate(c, cfg, mode, ns, nt, late, limit, gen[6] if len(gen) > 6 else None)
        if not scheds:
            raise Broken("no behaviours generated from " + cfg)
        for sc in scheds:
            sc["cmds"] += [{"c": x} for x in prof.get("post", [])]
        runs = run_schedules(c, scheds, "g%d" % gi)
        gen_info.append({"cfg": cfg, "behaviours_generated": total, "replayed": len(scheds), "runs": len(runs)})
        all_runs += [(scheds, r) for r in runs]
    if prof.get("extra"):
        scheds = prof["extra"]()
        runs = run_schedules(c, scheds, "gx")
        gen_info.append({"cfg": "constructed (real queue capacity)", "behaviours_generated": len(scheds), "replayed": len(scheds), "runs": len(runs)})
        all_runs += [(scheds, r) for r in runs]
    runs_only = [r for _, r in all_runs]
    viols, nlines = observe(c, runs_only, "all")
    unreal = sum(1 for r in runs_only if any(e["ev"] == "Unrealised" for e in r))
    if runs_only and unreal > 0.2 * len(runs_only):
        raise Broken("%d of %d schedules could not be realised" % (unreal, len(runs_only)))
    other = {}
    bad_runs = set()
    for ri, li, clause, s, tid in viols:
        if clause not in mine:
            other[clause] = other.get(clause, 0) + 1
            continue
        run_ev = runs_only[ri]
        faults = sum(1 for e in run_ev[:li + 1] if e["ev"] in ("TgtClose", "SrcClose"))
        if c.pid == "C01" and faults > 0:
            continue
        if c.pid == "C04" and clause == "early" and faults == 0:
            continue
        bad_runs.add(ri)
        sig = classify(run_ev, li, clause, s, tid)
        sched = {"config": run_ev[0], "events": run_ev[:li + 1]}
        c.violation(sig, "%s at %s (source %d id %d) in run %s" % (clause, json.dumps(run_ev[li]), s, tid, run_ev[0].get("id")),
                    {"kind": "routing-trace", "clause": clause, "trace": sched})
    # 5. conformance of the recorded runs with the design spec
    conf_runs = [r for r in runs_only if not str(r[0].get("id", "")).startswith(("bulk-", "ahead-", "replace-", "flood-break")) and not r[0].get("rawless")
                 and not any(e["ev"] == "SrcAckArm" for e in r)]
    if len(conf_runs) < len(runs_only):
        c.notes.append("%d constructed bulk runs (> 1024 tasks in flight) are judged by the monitor only: the trace spec is bounded "
                       "to 400 ids" % (len(runs_only) - len(conf_runs)))
    n_conf, rejected = conform(c, conf_runs, "all")
    runs_for_report = conf_runs
    for ri, li in rejected[:5]:
        r = runs_for_report[ri]
        log("NON-CONFORMANT run %s: first event the design cannot follow: %s" % (r[0].get("id"), json.dumps(r[li])))
    c.coverage["nonconformant_runs"] = [{"run": runs_for_report[ri][0].get("id"), "line": li, "event": runs_for_report[ri][li],
                                         "prefix": runs_for_report[ri][max(0, li - 12):li]} for ri, li in rejected[:6]]
    c.coverage["conformant_runs"] = n_conf if not rejected else max(0, n_conf)
    if other:
        c.notes.append("clauses of other properties observed (not judged here): %s" % other)
    nontriv = len({json.dumps([r[0].get("route"), [(e["ev"], e.get("s"), e.get("t")) for e in r]]) for r in runs_only
                   if any(e["ev"] == "SrcAck" for e in r) or c.pid != "C01"})
    c.coverage.update({
        "generation": gen_info, "schedules_replayed": len(runs_only), "unrealised": unreal,
        "events_validated": nlines, "runs_with_violation": len(bad_runs),
        "evaluations": len(runs_only), "distinct_nontrivial": nontriv,
        "rule": "TLC-generated boundary schedules (eager normal form) executed on the real streamRouting; distinct = "
                "distinct recorded event sequences; non-trivial = the run reached at least one acknowledgement to a source",
        "clauses_judged": sorted(mine),
    })
    samples = [{"schedule": all_runs[0][0][0], "trace": runs_only[0][:40]}] if runs_only else []
    return c.finish(samples, traces_validated=max(0, min(len(conf_runs) - len(bad_runs), n_conf)))
