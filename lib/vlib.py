"""Shared orchestrator helpers (python3 stdlib only).

Verdict policy (DESIGN.md 2.6):
  exit 0  property held on everything explored (known findings printed as KNOWN-FINDING lines)
  exit 1  VIOLATION property=<id> replay=<path>   -- only from real-code behaviour
  exit 2  anything else (harness build failure, TLC crash, timeout, unreproduced counterexample,
          non-conformance on the unchanged tree)
"""
import hashlib
import json
import os
import re
import shutil
import subprocess
import threading
import sys
import time

ROOT = os.path.dirname(os.path.dirname(os.path.abspath(__file__)))
REPO = os.environ.get("VERIF_REPO", "/repo")
# trial runs against a scratch copy of the repository (seeded changes) keep their output away from the committed
# evidence: VERIF_OUT_DIR=<dir> redirects scratch/, evidence/ and replays/
OUT = os.environ.get("VERIF_OUT_DIR", ROOT)
TLA_CP = "/opt/veriftools/tla/tla2tools.jar:/opt/veriftools/tla/CommunityModules-deps.jar"
NCPU = os.cpu_count() or 4


def log(*a):
    print("[verif]", *a, file=sys.stderr, flush=True)


class Broken(Exception):
    """The check itself could not do its job (exit 2)."""


def go_env():
    e = dict(os.environ)
    e["GOFLAGS"] = "-mod=mod"
    e["GOPROXY"] = "off"
    e.pop("GOSUMDB", None)  # GOSUMDB=off breaks the cached toolchain switch
    e.setdefault("GOTOOLCHAIN", "auto")
    if e.get("GOTOOLCHAIN") == "local":
        e["GOTOOLCHAIN"] = "auto"
    return e


class TlcResult:
    def __init__(self):
        self.rc = None
        self.generated = 0
        self.distinct = 0
        self.depth = 0
        self.violated = []      # names of violated invariants / properties
        self.ok = False         # "No error has been found"
        self.out = ""           # path of stdout file
        self.wall = 0.0
        self.coverage = {}      # action -> (distinct, total) when -coverage was on
        self.timed_out = False
        self.error_text = ""


class Check:
    def __init__(self, pid, tier, seed, level):
        self.pid = pid
        self.tier = tier
        self.seed = int(seed)
        self.level = level
        self.t0 = time.time()
        self.scratch = os.path.join(OUT, "scratch", "%s-%s" % (pid, tier))
        shutil.rmtree(self.scratch, ignore_errors=True)
        os.makedirs(self.scratch, exist_ok=True)
        self.coverage = {}
        self.assumptions = []
        self.violations = []     # list of dict(signature, what, replay)
        self.known_hits = []
        self.notes = []
        self.states = 0
        self.transitions = 0
        self.tlc_runs = []
        self.findings = load_known_findings()

    # ---------------------------------------------------------------- TLC
    def tlc(self, specdir, module, cfg, workers=None, simulate=None, depth=None, timeout=600,
            coverage=False, deadlock=None, stdout_path=None, line_cb=None, dfs=False, extra=None,
            files=None, heap=None, name=None, seed=None, defines=None):
        """Run TLC in a scratch copy of specdir. Returns TlcResult.

        files: {filename: text} extra generated files (constants, traces) written into the scratch copy.
        line_cb: called with every stdout line (streamed) -- used to consume transition dumps without
        storing them.
        """
        name = name or ("%s-%s" % (module, os.path.splitext(os.path.basename(cfg))[0]))
        work = os.path.join(self.scratch, "tlc-" + name)
        shutil.rmtree(work, ignore_errors=True)
        shutil.copytree(os.path.join(ROOT, "spec", specdir), work)
        for fn, text in (files or {}).items():
            with open(os.path.join(work, fn), "w") as f:
                f.write(text)
        meta = os.path.join(work, "meta")
        jvm = ["java", "-XX:+UseParallelGC", "-Xss512m"]
        if heap:
            jvm.append("-Xmx%s" % heap)
        if dfs:
            jvm.append("-Dtlc2.tool.queue.IStateQueue=StateDeque")
        cmd = jvm + ["-cp", TLA_CP, "tlc2.TLC", "-metadir", meta, "-config", cfg]
        if workers is None:
            workers = min(12, NCPU)
        cmd += ["-workers", str(workers)]
        if simulate:
            cmd += ["-simulate", simulate]
        if depth:
            cmd += ["-depth", str(depth)]
        if seed is not None:
            cmd += ["-seed", str(seed)]
        if coverage:
            cmd += ["-coverage", "1"]
        if deadlock is False:
            cmd += ["-deadlock"]
        cmd += (extra or [])
        cmd += [module]
        res = TlcResult()
        res.out = stdout_path or os.path.join(work, "tlc.out")
        t0 = time.time()
        keep = open(res.out, "w")
        p = subprocess.Popen(cmd, cwd=work, stdout=subprocess.PIPE, stderr=subprocess.STDOUT, text=True,
                             bufsize=1 << 20)
        deadline = t0 + timeout
        tail = []
        # the deadline must hold also while TLC prints nothing (reading its output blocks): a watchdog kills the process

        def _expire():
            res.timed_out = True
            try:
                p.kill()
            except OSError:
                pass
        watchdog = threading.Timer(timeout, _expire)
        watchdog.daemon = True
        watchdog.start()
        try:
            for line in p.stdout:
                if line_cb is not None and line and line[0] in '{"[':
                    line_cb(line)
                else:
                    keep.write(line)
                    tail.append(line)
                    if len(tail) > 400:
                        del tail[:200]
                    self._parse_tlc_line(line, res)
                if time.time() > deadline:
                    res.timed_out = True
                    p.kill()
                    break
            p.wait(timeout=30)
        finally:
            watchdog.cancel()
            keep.close()
            if p.poll() is None:
                p.kill()
        res.rc = p.returncode
        res.wall = time.time() - t0
        res.error_text = "".join(tail[-60:])
        self.tlc_runs.append({"name": name, "module": module, "cfg": cfg, "generated": res.generated,
                              "distinct": res.distinct, "depth": res.depth, "wall_s": round(res.wall, 2),
                              "ok": res.ok, "violated": res.violated, "workers": workers,
                              "simulate": simulate})
        self.states += res.distinct
        self.transitions += res.generated
        shutil.rmtree(meta, ignore_errors=True)
        if res.timed_out:
            raise Broken("TLC timed out after %ss on %s/%s" % (timeout, module, cfg))
        return res

    _re_states = re.compile(r"(\d+) states generated, (\d+) distinct states found")
    _re_inv = re.compile(r"Error: Invariant (\S+) is violated")
    _re_prop = re.compile(r"Error: (?:Action|Temporal) propert(?:y|ies) (\S+)? ?(?:is|were) violated")
    _re_depth = re.compile(r"The depth of the complete state graph search is (\d+)")
    _re_cov = re.compile(r"^<(\w+) line .*>: (\d+):(\d+)")

    def _parse_tlc_line(self, line, res):
        m = self._re_states.search(line)
        if m:
            res.generated = int(m.group(1))
            res.distinct = int(m.group(2))
        m = self._re_inv.search(line)
        if m:
            res.violated.append(m.group(1))
        elif "is violated" in line and line.startswith("Error:"):
            res.violated.append(line.strip())
        elif line.startswith("Error: Deadlock reached"):
            res.violated.append("Deadlock")
        elif "Temporal properties were violated" in line:
            res.violated.append("Temporal")
        m = self._re_depth.search(line)
        if m:
            res.depth = int(m.group(1))
        if "Model checking completed. No error has been found" in line:
            res.ok = True
        if "Finished computing initial states" in line and res.distinct == 0:
            pass
        m = self._re_cov.match(line)
        if m:
            res.coverage[m.group(1)] = (int(m.group(2)), int(m.group(3)))

    # ---------------------------------------------------------------- Go harness
    def go_test(self, pkg, overlay, run, tags="verif", env=None, timeout=600, extra=None, race=False,
                name=None):
        """go test with in-package harness files injected by -overlay.

        overlay: list of file names under harness/inpkg/<pkgdir>/ ; they appear in /repo/<pkg>/.
        Rebuilds from /repo's current working tree. Returns (rc, output_text).
        """
        pkgdir = pkg.strip("./")
        repl = {}
        for fn in overlay:
            src = os.path.join(ROOT, "harness", "inpkg", pkgdir, fn)
            if not os.path.exists(src):
                raise Broken("missing harness file " + src)
            repl[os.path.join(REPO, pkgdir, fn)] = src
        ov = os.path.join(self.scratch, "overlay-%s.json" % (name or pkgdir.replace("/", "_")))
        with open(ov, "w") as f:
            json.dump({"Replace": repl}, f)
        cmd = ["go", "test", "-overlay=" + ov, "-count=1", "-vet=off", "-run", run,
               "-timeout", "%ds" % timeout]
        if tags:
            cmd += ["-tags", tags]
        if race:
            cmd += ["-race"]
        cmd += (extra or [])
        cmd += ["./" + pkgdir]
        e = go_env()
        e["VERIF_SEED"] = str(self.seed)
        e["VERIF_TIER"] = self.tier
        e["VERIF_SCRATCH"] = self.scratch
        e.update(env or {})
        t0 = time.time()
        try:
            p = subprocess.run(cmd, cwd=REPO, env=e, stdout=subprocess.PIPE, stderr=subprocess.STDOUT,
                               text=True, timeout=timeout + 120)
        except subprocess.TimeoutExpired as ex:
            raise Broken("go test timed out: %s" % " ".join(cmd))
        out = p.stdout
        with open(os.path.join(self.scratch, "gotest-%s.out" % (name or pkgdir.replace("/", "_"))), "w") as f:
            f.write(out)
        log("go test %s -run %s: rc=%d %.1fs" % (pkgdir, run, p.returncode, time.time() - t0))
        return p.returncode, out

    def go_test_build(self, pkg, overlay, tags="verif", name=None):
        """Compile the package's test binary (with the overlay harness files) once; returns its path."""
        pkgdir = pkg.strip("./")
        repl = {}
        for fn in overlay:
            src = os.path.join(ROOT, "harness", "inpkg", pkgdir, fn)
            if not os.path.exists(src):
                raise Broken("missing harness file " + src)
            repl[os.path.join(REPO, pkgdir, fn)] = src
        name = name or pkgdir.replace("/", "_")
        ov = os.path.join(self.scratch, "overlay-%s.json" % name)
        with open(ov, "w") as f:
            json.dump({"Replace": repl}, f)
        binpath = os.path.join(self.scratch, name + ".test")
        cmd = ["go", "test", "-c", "-o", binpath, "-overlay=" + ov, "-vet=off"]
        if tags:
            cmd += ["-tags", tags]
        cmd += ["./" + pkgdir]
        t0 = time.time()
        p = subprocess.run(cmd, cwd=REPO, env=go_env(), stdout=subprocess.PIPE, stderr=subprocess.STDOUT, text=True,
                           timeout=900)
        if p.returncode != 0 or not os.path.exists(binpath):
            raise Broken("harness does not build against the current tree:\n" + p.stdout[-3000:])
        log("built %s in %.1fs" % (binpath, time.time() - t0))
        return binpath

    def run_shards(self, binpath, run, inputs, outprefix, timeout=600, env=None, cwd=None, maxpar=None):
        """Run the test binary once per input file in parallel. Returns list of (rc, output, outpath)."""
        maxpar = maxpar or NCPU
        procs = []
        results = [None] * len(inputs)
        pending = list(enumerate(inputs))
        running = []
        def start(i, inp):
            e = go_env()
            e["VERIF_SEED"] = str(self.seed + i)
            e["VERIF_TIER"] = self.tier
            e["VERIF_IN"] = inp
            outp = "%s-%d.ndjson" % (outprefix, i)
            e["VERIF_OUT"] = outp
            e.update(env or {})
            lf = open(outp + ".log", "w")
            p = subprocess.Popen([binpath, "-test.run", run, "-test.timeout", "%ds" % timeout, "-test.count", "1"],
                                 cwd=cwd or os.path.join(REPO, "proxy"), env=e, stdout=lf, stderr=subprocess.STDOUT)
            return (i, p, outp, lf, time.time())
        while pending or running:
            while pending and len(running) < maxpar:
                i, inp = pending.pop(0)
                running.append(start(i, inp))
            still = []
            for (i, p, outp, lf, t0) in running:
                rc = p.poll()
                if rc is None:
                    if time.time() - t0 > timeout + 60:
                        p.kill()
                        rc = -9
                    else:
                        still.append((i, p, outp, lf, t0))
                        continue
                lf.close()
                results[i] = (rc, open(outp + ".log").read()[-3000:], outp)
            running = still
            time.sleep(0.05)
        return results

    def crash_verdict(self, module, rc, outp):
        """A harness process that died of a Go panic / fatal error whose first stack runs through non-test code of the repository
        under test is a verdict (clause 'crash'), not a broken check. Returns True when it reported one."""
        if rc == 0:
            return False
        txt = repo_crash(outp + ".log")
        if not txt:
            return False
        self.violation({"module": module, "clause": "crash"}, "the process died in proxy code: " + txt[:600], {"kind": "crash", "log": txt[:4000]})
        return True

    # ---------------------------------------------------------------- verdicts
    def violation(self, signature, what, replay_obj=None):
        """Report a property violation observed on the real code. Matches against known findings."""
        for f in self.findings:
            if f.get("property") == self.pid and f.get("status") == "finding" and \
                    sig_match(f.get("signature", {}), signature):
                if f["id"] not in [k["id"] for k in self.known_hits]:
                    self.known_hits.append({"id": f["id"], "what": f.get("what", ""), "example": what})
                return False
        path = None
        if replay_obj is not None and len(self.violations) < 3:
            d = os.path.join(OUT, "replays", self.pid)
            os.makedirs(d, exist_ok=True)
            h = hashlib.sha1(json.dumps(replay_obj, sort_keys=True).encode()).hexdigest()[:12]
            path = os.path.join(d, "%s-%s.json" % (self.tier, h))
            with open(path, "w") as f:
                json.dump(replay_obj, f, indent=1)
        self.violations.append({"signature": signature, "what": what, "replay": path})
        return True

    def finish(self, samples, extra_cov=None, traces_validated=0):
        wall = time.time() - self.t0
        cov = dict(self.coverage)
        cov.setdefault("samples", samples[:6] if samples else ["(none)"])
        if self.level == "model_checking":
            cov.setdefault("states", max(self.states, 1))
            cov.setdefault("transitions", max(self.transitions, 1))
            cov.setdefault("traces_validated_against_impl", traces_validated)
        cov["tlc_runs"] = self.tlc_runs
        cov["known_findings_hit"] = self.known_hits
        if self.notes:
            cov["notes"] = self.notes
        cov.update(extra_cov or {})
        ev = {"property_id": self.pid, "tier": self.tier, "seed": self.seed, "level": self.level,
              "coverage": cov, "assumptions": self.assumptions, "wall_s": round(wall, 2),
              "violations": len(self.violations)}
        os.makedirs(os.path.join(OUT, "evidence"), exist_ok=True)
        with open(os.path.join(OUT, "evidence", self.pid + ".json"), "w") as f:
            json.dump(ev, f, indent=1, default=str)
        for k in self.known_hits:
            print("KNOWN-FINDING: property=%s %s [%s]" % (self.pid, k["what"], k["id"]), flush=True)
        if self.violations:
            for v in self.violations[:5]:
                log("violation:", v["what"])
            v = self.violations[0]
            print("VIOLATION property=%s replay=%s" % (self.pid, v["replay"] or "-"), flush=True)
            return 1
        log("%s %s: held on everything explored (%.1fs)" % (self.pid, self.tier, wall))
        return 0


def repo_crash(logpath):
    """Text of the panic if the process died of a Go panic / fatal error whose FIRST goroutine stack has a frame in the repository
    under test that is neither a harness file (zz_verif*) nor a test file nor a dependency; else ''."""
    try:
        text = open(logpath, errors="replace").read()
    except OSError:
        return ""
    ks = [k for k in (text.find("panic: "), text.find("fatal error: ")) if k >= 0]
    if not ks:
        return ""
    k = min(ks)
    if "out of memory" in text[k:k + 400] or "test timed out" in text[k:k + 200]:
        return ""
    blocks = text[k:].split("\n\n")
    first = "\n\n".join(blocks[:2])
    for line in first.split("\n"):
        line = line.strip()
        if ".go:" in line and "/pkg/mod/" not in line and "zz_verif" not in line and "_test.go" not in line \
                and "/src/runtime/" not in line and "/src/testing/" not in line and ("s2s-proxy" in line or REPO in line or "/seedrepo" in line):
            return text[k:k + 3000]
    return ""


def sig_match(pattern, sig):
    """Every key of the known-finding pattern must be present and equal in the violation signature."""
    if not pattern:
        return False
    for k, v in pattern.items():
        if sig.get(k) != v:
            return False
    return True


def load_known_findings():
    p = os.path.join(ROOT, "KNOWN_FINDINGS.json")
    if not os.path.exists(p):
        return []
    with open(p) as f:
        return json.load(f)


def main(run_fn, pid, level):
    """Common CLI: ./check Cxx --tier quick|thorough [--replay path] [--selftest]"""
    import argparse
    ap = argparse.ArgumentParser()
    ap.add_argument("--tier", default=os.environ.get("VERIF_TIER", "quick"))
    ap.add_argument("--replay", default=None)
    ap.add_argument("--selftest", action="store_true")
    a = ap.parse_args(sys.argv[2:])
    seed = int(os.environ.get("VERIF_SEED", "1") or 1)
    c = Check(pid, a.tier, seed, level)
    try:
        rc = run_fn(c, a)
    except Broken as ex:
        log("BROKEN:", ex)
        sys.exit(2)
    except subprocess.TimeoutExpired as ex:
        log("BROKEN (timeout):", ex)
        sys.exit(2)
    sys.exit(rc)
