"""C13, C15, C16 -- the assembled interceptor chain of a cluster connection (spec/Pipeline) plus the per-path clauses
(spec/SchemaWalk).

  C15  every method x policy class x side x bypass header: one real RPC each against a real ClusterConnection
  C16  every request type with a namespace field x name class x mapping x bypass on the assembled inbound server, and every
       structural path to a namespace leaf (from SchemaWalk) through translation + access control
  C13  direction / round trip on the assembled servers, "touches nothing else" on every path, start-up rejection of
       mappings that are not one-to-one
TLC enumerates the cases (PipelineCases / SchemaWalk) and judges every record (PipelineObs / SchemaObs).
"""
import json
import os
import re

import p_schema
from vlib import Broken, NCPU, log

PROPS = {"C13": "model_checking", "C15": "model_checking", "C16": "model_checking"}
HARNESS = ["zz_verif_routing_test.go", "zz_verif_pipeline_test.go"]
_TECH = ("TLA+ decision spec of the interceptor chain (Pipeline.tla: translation then access control, inverse mapping and policy on the "
         "inbound server only) whose case space TLC enumerates over the REAL method lists (generated module); every case is one real RPC "
         "against a real ClusterConnection with generic fake clusters; records judged by TLC (PipelineObs.tla); per-path clauses from "
         "SchemaWalk")
_NOTE = ("Trusted: TLC; generic fake clusters built on the real generated message types; TCP transport only (the mux transport uses the "
         "same makeServerOptions); policy classes none/methods/namespaces/both with one fixed allow-list (not every subset).")
MANIFEST = {
    "C15": dict(engine="Pipeline", category="model_checking", design_ref="3.10", technique=_TECH, note=_NOTE,
                text="Every method of AdminService and WorkflowService (from the descriptors) x side x policy class x bypass header is one "
                     "real RPC: refused with PermissionDenied and unseen by the local cluster exactly when the design says so (admin method "
                     "outside the allow-list, namespace registration/deprecation under any policy), forwarded exactly once otherwise; "
                     "streaming admin method included; the outbound server is never restricted."),
    "C16": dict(engine="Pipeline", category="model_checking", design_ref="3.10", technique=_TECH, note=_NOTE,
                text="Every request type with a namespace field x name class (allowed / forbidden, before and after translation) x mapping "
                     "on/off x bypass header on the assembled inbound server, plus every structural path to a namespace leaf (incl. history "
                     "blobs) through translation + access control with the other names of the message allowed: refused iff the name the "
                     "local cluster would see is not allowed. Empty names are not judged."),
    "C13": dict(engine="Pipeline", category="model_checking", design_ref="3.10", technique=_TECH, note=_NOTE,
                text="Direction and round trip on both assembled servers (the serving cluster sees the mapped name, the caller gets its own "
                     "name back, unmapped names pass unchanged, bypass header disables it), 'nothing else changes' on every structural path "
                     "(message compared with the leaf restored), and start-up rejection of mapping lists that are not one-to-one."),
}
OBS_RE = re.compile(r'<<(\d+), "(\w+)">>')
ALWAYS_DENIED = {"RegisterNamespace", "DeprecateNamespace"}


def gen_cases(c, methods_tla, cfg):
    cases = []

    def on_line(line):
        try:
            d = json.loads(line)
            if isinstance(d, str):
                d = json.loads(d)
        except ValueError:
            return
        d["id"] = len(cases) + 1
        cases.append(d)
    r = c.tlc("Pipeline", "PipelineCases", cfg, workers=1, timeout=300, line_cb=on_line, files={"MethodsGen.tla": methods_tla},
              name="cases-" + cfg[:-4])
    if not r.ok or not cases:
        raise Broken("case enumeration failed: " + r.error_text[-800:])
    return cases


def sa_direction(c):
    """C14: search-attribute names on the ASSEMBLED inbound / outbound servers follow the direction rules (Pipeline!SaWant)."""
    out = os.path.join(c.scratch, "MethodsGen.tla")
    rc, txt = c.go_test("proxy", HARNESS, "^TestVerifMethodsExport$", env={"VERIF_OUT": out}, timeout=300, name="methods")
    if rc != 0 or not os.path.exists(out):
        raise Broken("method export failed: " + txt[-1500:])
    methods_tla = open(out).read()
    cases = []

    def on_case(line):
        try:
            d = json.loads(line)
            if isinstance(d, str):
                d = json.loads(d)
            cases.append(d)
        except ValueError:
            pass
    c.tlc("Pipeline", "PipelineCases", "cases_sa.cfg", workers=1, timeout=300, line_cb=on_case, files={"MethodsGen.tla": methods_tla}, name="cases-sa")
    if len(cases) != 8:
        raise Broken("search-attribute case enumeration failed (%d)" % len(cases))
    cases.sort(key=lambda d: (d["transport"], d["side"], d["leg"]))
    for i, d in enumerate(cases):
        d["id"] = i + 1
    inp = os.path.join(c.scratch, "sa-in.ndjson")
    with open(inp, "w") as f:
        for d in cases:
            f.write(json.dumps(d) + "\n")
    outp = os.path.join(c.scratch, "sa-out.ndjson")
    rc, txt = c.go_test("proxy", HARNESS, "^TestVerifPipelineSA$", env={"VERIF_IN": inp, "VERIF_OUT": outp}, timeout=600, name="sadir")
    if rc != 0 or not os.path.exists(outp):
        raise Broken("search-attribute direction probe failed: " + txt[-1500:])
    recs = [json.loads(l) for l in open(outp)]
    if len(recs) != len(cases) or any(not r["ran"] for r in recs):
        raise Broken("search-attribute direction probe did not run every case: %s" % json.dumps([r for r in recs if not r["ran"]][:1]))
    ro = c.tlc("Pipeline", "PipelineObs", "obs.cfg", workers=1, timeout=600,
               files={"trace.ndjson": "\n".join(json.dumps(r) for r in recs) + "\n", "MethodsGen.tla": methods_tla}, name="obs-sa")
    t = open(ro.out).read()
    m = re.search(r'<<\s*"OBS_VIOLATIONS",\s*(\{.*?\})\s*>>\s*\n<<\s*"OBS_TRACE_LEN"', t, re.S)
    if not m or not ro.ok:
        raise Broken("PipelineObs (sa) did not report: " + ro.error_text[-800:])
    n = 0
    for g in OBS_RE.finditer(m.group(1)):
        r = recs[int(g.group(1)) - 1]
        n += 1
        cs = r["case"]
        c.violation({"module": "Pipeline", "clause": "sadir", "side": cs["side"], "leg": cs["leg"], "transport": cs["transport"]},
                    "search-attribute direction on the assembled %s server (%s, %s): keys %s" % (cs["side"], cs["leg"], cs["transport"], r["keys"]),
                    {"kind": "sa-direction", "record": r})
    return {"sa_direction_cases": len(recs), "sa_direction_violations": n}


def list_filter(c, methods_tla):
    """C16: ListNamespaces through the assembled inbound server returns only allowed namespaces (Pipeline!ListWant)."""
    cases = []

    def on_case(line):
        try:
            d = json.loads(line)
            if isinstance(d, str):
                d = json.loads(d)
            cases.append(d)
        except ValueError:
            pass
    c.tlc("Pipeline", "PipelineCases", "cases_list.cfg", workers=1, timeout=300, line_cb=on_case, files={"MethodsGen.tla": methods_tla}, name="cases-list")
    if len(cases) != 484:
        raise Broken("ListNamespaces case enumeration failed (%d)" % len(cases))
    cases.sort(key=lambda d: (d["transport"], d["mapping"], len(d["shape"]), d["shape"]))
    for i, d in enumerate(cases):
        d["id"] = i + 1
    inp = os.path.join(c.scratch, "list-in.ndjson")
    with open(inp, "w") as f:
        for d in cases:
            f.write(json.dumps(d) + "\n")
    outp = os.path.join(c.scratch, "list-out.ndjson")
    rc, txt = c.go_test("proxy", HARNESS, "^TestVerifPipelineList$", env={"VERIF_IN": inp, "VERIF_OUT": outp}, timeout=600, name="list")
    if rc != 0 or not os.path.exists(outp):
        raise Broken("ListNamespaces probe failed: " + txt[-1500:])
    recs = [json.loads(l) for l in open(outp)]
    if len(recs) != len(cases):
        raise Broken("ListNamespaces probe returned %d of %d records" % (len(recs), len(cases)))
    ro = c.tlc("Pipeline", "PipelineObs", "obs.cfg", workers=1, timeout=600,
               files={"trace.ndjson": "\n".join(json.dumps(r) for r in recs) + "\n", "MethodsGen.tla": methods_tla}, name="obs-list")
    t = open(ro.out).read()
    m = re.search(r'<<\s*"OBS_VIOLATIONS",\s*(\{.*?\})\s*>>\s*\n<<\s*"OBS_TRACE_LEN"', t, re.S)
    if not m or not ro.ok:
        raise Broken("PipelineObs (list) did not report: " + ro.error_text[-800:])
    n = 0
    for g in OBS_RE.finditer(m.group(1)):
        r = recs[int(g.group(1)) - 1]
        n += 1
        if n == 1:
            c.violation({"module": "Pipeline", "clause": "list"}, "ListNamespaces page %s -> caller got %s (%s)" % (r["case"]["shape"], r["names"], r["err"]),
                        {"kind": "list-filter", "record": r})
    return {"list_cases": len(recs), "list_violations": n}


def run(c, a):
    c.assumptions += [
        "the local and remote clusters are generic fakes (grpc.Server with an UnknownServiceHandler on the real generated types)",
        "C15 runs every case on TCP and on a mux session (paired proxies over loopback); C16/C13 cases on TCP",
    ]
    out = os.path.join(c.scratch, "MethodsGen.tla")
    rc, txt = c.go_test("proxy", HARNESS, "^TestVerifMethodsExport$", env={"VERIF_OUT": out}, timeout=300, name="methods")
    if rc != 0 or not os.path.exists(out):
        raise Broken("method export failed: " + txt[-1500:])
    methods_tla = open(out).read()
    cases = []
    if c.pid == "C15":
        cases = gen_cases(c, methods_tla, "cases_methods_t.cfg" if c.tier == "thorough" else "cases_methods.cfg")
        # the verdict for a method must not depend on what was called before: admin methods are called before AND after the
        # workflow methods on the same server (same-named methods exist in both services)
        admin = [x for x in cases if x["m"]["service"] == "admin"]
        wf = [x for x in cases if x["m"]["service"] != "admin"]
        again = []
        for x in admin:
            if x.get("fresh") or x["policy"].startswith("only:"):
                continue
            y = dict(x)
            y["id"] = len(cases) + len(again) + 1
            again.append(y)
        cases = admin + wf + again
    else:
        cases = gen_cases(c, methods_tla, "cases_names.cfg")
    binpath = c.go_test_build("proxy", HARNESS, name="pipeline")
    # shard by (policy, mapping) groups so that every shard builds few cluster connections
    groups = {}
    for cs in cases:
        groups.setdefault((cs["policy"], cs["mapping"], cs.get("transport", "tcp"), cs["id"] if cs.get("fresh") else 0), []).append(cs)
    # singleton policies: several cluster connections per process
    merged, single = {}, []
    for k in sorted(groups, key=str):
        if k[0].startswith("only:"):
            single.append(k)
        else:
            merged[k] = groups[k]
    for j in range(0, len(single), 6):
        merged[("only", True, "x", j)] = [cs for k in single[j:j + 6] for cs in groups[k]]
    fresh = [k for k in merged if k[3] and k[0] != "only"]
    for j in range(0, len(fresh), 4):
        merged[("fresh", True, "x", j)] = [cs for k in fresh[j:j + 4] for cs in merged.pop(k)]
    groups = merged
    files = []
    for i, k in enumerate(sorted(groups, key=str)):
        p = os.path.join(c.scratch, "pipe-in-%d.ndjson" % i)
        with open(p, "w") as f:
            for cs in groups[k]:
                f.write(json.dumps(cs) + "\n")
        files.append(p)
    res = c.run_shards(binpath, "^TestVerifPipelineCases$", files, os.path.join(c.scratch, "pipe-out"), timeout=900)
    recs = []
    for rc, out_, outp in res:
        if rc != 0 or not os.path.exists(outp):
            if c.crash_verdict("Pipeline", rc, outp):
                continue
            raise Broken("pipeline shard failed rc=%s: %s" % (rc, out_[-1500:]))
        for line in open(outp):
            recs.append(json.loads(line))
    notran = [r for r in recs if not r["ran"]]
    if len(notran) > 0.02 * len(recs):
        raise Broken("%d of %d cases did not run: %s" % (len(notran), len(recs), notran[0]["err"]))
    lines = [json.dumps(r) for r in recs]
    ro = c.tlc("Pipeline", "PipelineObs", "obs.cfg", workers=1, timeout=900,
               files={"trace.ndjson": "\n".join(lines) + "\n", "MethodsGen.tla": methods_tla}, name="obs")
    text = open(ro.out).read()
    m = re.search(r'<<\s*"OBS_VIOLATIONS",\s*(\{.*?\})\s*>>\s*\n<<\s*"OBS_TRACE_LEN"', text, re.S)
    if not m or not ro.ok:
        raise Broken("PipelineObs did not report: " + ro.error_text[-1200:])
    want = {"C15": {"c15"}, "C16": {"c16"}, "C13": {"c13"}}[c.pid]
    seen_sig = set()
    nviol = 0
    for g in OBS_RE.finditer(m.group(1)):
        ln, clause = int(g.group(1)), g.group(2)
        if clause not in want:
            continue
        r = recs[ln - 1]
        cs = r["case"]
        nviol += 1
        sig = {"module": "Pipeline", "clause": clause, "side": cs["side"], "service": cs["m"]["service"], "policy": cs["policy"],
               "transport": cs.get("transport", "tcp")}
        key = json.dumps(sig, sort_keys=True)
        if key in seen_sig:
            continue
        seen_sig.add(key)
        c.violation(sig, "%s: %s" % (clause, json.dumps(r)[:400]), {"kind": "pipeline-case", "record": r})
    extra = {}
    # ---- per-path clauses from SchemaWalk
    if c.pid in ("C16", "C13"):
        schema = p_schema.export_schema(c)
        obligs, r = p_schema.explore(c, schema, "walk_t.cfg" if c.tier == "thorough" else "walk.cfg")
        ns = [o for o in obligs if o["leaf"].startswith("ns")]
        if c.pid == "C16":
            acl = []
            for o in ns:
                if o["root"]["dir"] != "req" or o["root"]["stream"] or o["root"]["method"] in ALWAYS_DENIED:
                    continue
                for val in ("ns-allowed", "ns-forbidden", "ns-remote-ok", "ns-remote-bad", "Ns-Allowed", "ns-allowed "):
                    for bypass in (False, True):
                        for variant in (("", "tail") if "events" in o["path"] else ("",)) + (("json", "dirty2") if o["inblob"] else ()) + ("fillbad",):
                            d = dict(o)
                            d.update(mode="acl", value=val, bypass=bypass, variant=variant, id=len(acl) + 1)
                            acl.append(d)
            # the verdict must not depend on the size of the request: per request type, the shallowest namespace path with a forbidden
            # name next to a 1.5 MiB opaque payload in the request's first field that can hold one (the harness skips the others)
            seen_root = set()
            for o in sorted(ns, key=lambda x: len(x["path"])):
                rk = o["root"]["type"]
                if o["root"]["dir"] != "req" or o["root"]["stream"] or o["root"]["method"] in ALWAYS_DENIED or rk in seen_root:
                    continue
                seen_root.add(rk)
                for bypass in (False, True):
                    d = dict(o)
                    d.update(mode="acl", value="ns-forbidden", bypass=bypass, variant="big", id=len(acl) + 1)
                    acl.append(d)
            orecs = p_schema.run_obligations(c, acl, "acl")
            nbig = sum(1 for r_ in orecs if r_.get("variant") == "big" and not r_.get("scope"))
            orecs = [r_ for r_ in orecs if not r_.get("scope")]
            extra["big_request_obligations"] = nbig
            viols = p_schema.judge(c, orecs, "acl")
            causes = {}
            for ln, clause in viols:
                rec = orecs[ln - 1]
                cz, detail = p_schema.cause(rec)
                key = (cz, detail)
                causes[key] = causes.get(key, 0) + 1
                if causes[key] == 1:
                    c.violation({"module": "SchemaWalk", "clause": "acl", "cause": cz, "detail": detail},
                                "acl (%s: %s): %s" % (cz, detail, json.dumps(rec)[:400]), {"kind": "acl-obligation", "record": rec})
            extra.update({"acl_obligations": len(acl), "acl_violations_by_cause": {"%s/%s" % k: v for k, v in causes.items()}})
            extra.update(list_filter(c, methods_tla))
        else:
            orecs = p_schema.run_obligations(c, obligs, "tr")
            viols = p_schema.judge(c, orecs, "tr")
            n = 0
            for ln, clause in viols:
                if clause != "changedelse":
                    continue
                rec = orecs[ln - 1]
                n += 1
                if n == 1:
                    c.violation({"module": "SchemaWalk", "clause": "changedelse"}, "translation changed something else: %s" % json.dumps(rec)[:400],
                                {"kind": "obligation", "record": rec})
            # chained one-to-one mappings (a->b, b->c): exactly one step, nothing lost
            chain = []
            for o in obligs:
                if o["leaf"].startswith("ns"):
                    for val in ("ns-a", "ns-b"):
                        # also inside a blob that needs a UTF-8 repair first, and between neighbour events with content of their own
                        for variant in ("",) + (("dirty", "dirtyfirst", "rich") if o["inblob"] and val == "ns-a" else ()):
                            d = dict(o)
                            d.update(mode="chain", value=val, variant=variant, id=len(chain) + 1)
                            chain.append(d)
                elif o["root"]["service"] == "admin":
                    d = dict(o)
                    d.update(mode="chain", id=len(chain) + 1)
                    chain.append(d)
            crecs = p_schema.run_obligations(c, chain, "chain")
            nchain = 0
            for ln, clause in p_schema.judge(c, crecs, "chain"):
                if clause in ("chain", "changedelse", "error"):
                    nchain += 1
                    if nchain == 1:
                        rec = crecs[ln - 1]
                        c.violation({"module": "SchemaWalk", "clause": "chain", "leaf": rec["leaf"][:2]},
                                    "chained mapping mistranslated: %s" % json.dumps(rec)[:400], {"kind": "obligation", "record": rec})
            # start-up rejection of mapping lists that are not one-to-one: every list over 3 names of length <= 2 (+ part of 3)
            lists = []

            def on_list(line):
                try:
                    d = json.loads(line)
                    if isinstance(d, str):
                        d = json.loads(d)
                    lists.append(d)
                except ValueError:
                    pass
            c.tlc("Pipeline", "PipelineCases", "cases_maps.cfg", workers=1, timeout=300, line_cb=on_list,
                  files={"MethodsGen.tla": methods_tla}, name="cases-maps")
            if len(lists) < 80:
                raise Broken("mapping-list enumeration failed (%d)" % len(lists))
            inp = os.path.join(c.scratch, "maps-in.ndjson")
            with open(inp, "w") as f:
                for d in lists:
                    f.write(json.dumps(d) + "\n")
            outp = os.path.join(c.scratch, "badmap.ndjson")
            rc, txt = c.go_test("proxy", HARNESS, "^TestVerifPipelineBadMappings$", env={"VERIF_IN": inp, "VERIF_OUT": outp}, timeout=600, name="badmap")
            if rc != 0 or not os.path.exists(outp):
                raise Broken("bad-mapping probe failed: " + txt[-1500:])
            bm = [json.loads(l) for l in open(outp)]
            ro2 = c.tlc("Pipeline", "PipelineObs", "obs.cfg", workers=1, timeout=600,
                        files={"trace.ndjson": "\n".join(json.dumps(b) for b in bm) + "\n", "MethodsGen.tla": methods_tla}, name="obs-maps")
            t2 = open(ro2.out).read()
            m2 = re.search(r'<<\s*"OBS_VIOLATIONS",\s*(\{.*?\})\s*>>\s*\n<<\s*"OBS_TRACE_LEN"', t2, re.S)
            if not m2 or not ro2.ok:
                raise Broken("PipelineObs (maps) did not report: " + ro2.error_text[-800:])
            nbm = 0
            for g in OBS_RE.finditer(m2.group(1)):
                b = bm[int(g.group(1)) - 1]
                nbm += 1
                if nbm == 1:
                    c.violation({"module": "Pipeline", "clause": "badmap"}, "mapping list %s: rejected=%s" % (json.dumps(b["list"]), b["rejected"]),
                                {"kind": "badmap", "record": b})
            extra.update({"chain_obligations": len(chain), "chain_violations": nchain, "mapping_lists_tried": len(bm),
                          "mapping_lists_rejected": sum(1 for b in bm if b["rejected"]), "badmap_violations": nbm})
            extra.update({"path_obligations": len(obligs), "changedelse": n})
            # "points the right way" holds for search-attribute keys as for names: the direction probe on the ASSEMBLED servers
            # (request and response leg, inbound and outbound server, tcp and mux)
            extra.update(sa_direction(c))
    denied = sum(1 for r in recs if r["status"] == "PermissionDenied")
    c.coverage.update({
        "cases": len(cases), "executed": len(recs), "denied": denied, "forwarded": sum(1 for r in recs if r["status"] == "OK"),
        "violating_cases": nviol, "evaluations": len(recs) + extra.get("acl_obligations", 0) + extra.get("path_obligations", 0),
        "distinct_nontrivial": len(cases),
        "rule": "the cross product enumerated by TLC over the real method lists (every method / every request type with a namespace "
                "field x side x policy class x mapping x bypass header x name class); each case is one real RPC",
        "exhaustive": True,
    })
    c.coverage.update(extra)
    samples = [{"case": cases[0], "record": recs[0]}, {"case": cases[len(cases) // 2]}]
    return c.finish(samples, traces_validated=len(recs) - nviol)
