"""C05 -- the proxy-id table (spec/Ring).

1. TLC checks RefOK / AggOK / DiscardOK exhaustively on the bounded instance and dumps every explored
   transition; every transition is replayed on a real proxyIDRingBuffer (state injected in-package),
   the real outcome is compared with TLC's abstract expectation (property) and TLC's concrete
   expectation (conformance).
2. TLC -simulate produces long operation sequences (gapped ids, growth, wrap, discard); they are run on
   a fresh real ring and the recorded results are validated by TLC against the abstract log (RingObs).
"""
import json
import os

from vlib import Broken, log

PROPS = {"C05": "model_checking"}
HARNESS = ["zz_verif_ring_test.go"]


def classify(m):
    """Cause-level signature of an abstract mismatch (DESIGN 2.7)."""
    op = m["t"]["op"]["op"] if "t" in m else m.get("op", "?")
    return {"module": "Ring", "op": op, "kind": "abstract-mismatch"}


def run(c, a):
    thorough = c.tier == "thorough"
    c.assumptions += [
        "TLC explores the bounded instance completely; beyond it only simulated sequences",
        "state injection sets the unexported fields of proxyIDRingBuffer directly (in-package overlay test)",
    ]
    # ---- 1. exhaustive model check + transition dump
    dump_path = os.path.join(c.scratch, "ring-transitions.ndjson")
    # thorough: two bounded instances (capacity up to 8 with 4 proxy ids; capacity up to 4 with 5 proxy ids). Both bounds at
    # once (8, 5) do not finish: > 2.5e7 states generated after 15 min, measured
    cfgs = ["dump_thorough.cfg", "dump_thorough2.cfg"] if thorough else ["dump.cfg"]
    with open(dump_path, "w") as df:
        for cfg in cfgs:
            r = c.tlc("Ring", "Ring", cfg, workers=12, timeout=1500 if thorough else 600, line_cb=df.write,
                      coverage=False, name="design-" + cfg[:-4])
            if r.violated or not r.ok:
                break
    if r.violated:
        # a design-level counterexample on the current spec: must be reproduced on real code by the replay
        c.notes.append("TLC reports %s violated on the bounded design" % r.violated)
    elif not r.ok:
        raise Broken("TLC did not complete: " + r.error_text[-600:])
    out1 = os.path.join(c.scratch, "ring-replay.json")
    rc, out = c.go_test("proxy", HARNESS, "^TestVerifRingTransitions$",
                        env={"VERIF_IN": dump_path, "VERIF_OUT": out1}, timeout=900, name="ringA")
    os.remove(dump_path)
    if rc != 0 or not os.path.exists(out1):
        raise Broken("ring transition replay did not run: " + out[-1500:])
    rep = json.load(open(out1))
    if rep["total"] == 0:
        raise Broken("no transitions replayed")
    for m in (rep["mismatches"] or []):
        if m["kind"] == "abstract":
            c.violation(classify(m), "%s: %s" % (m["what"], json.dumps(m["t"]["op"])),
                        {"kind": "transition", "transition": m["t"], "got": m["got"]})
    if r.violated and rep["abstract_mismatches"] == 0:
        raise Broken("TLC counterexample (%s) not reproduced on the real ring: spec over-approximates" % r.violated)
    # ---- 2. simulated long sequences, validated by TLC against the abstract log
    seqs = []
    seen = set()

    def on_line(line):
        try:
            s = json.loads(line)
            if isinstance(s, str):
                s = json.loads(s)
        except ValueError:
            return
        key = json.dumps(s[:-1], sort_keys=True)   # one behaviour per simulated prefix
        if key in seen:
            return
        seen.add(key)
        seqs.append({"cap": s[0]["cap"], "ops": s[1:]})

    workers = 12
    num = 120 if thorough else 12
    depth = 60 if thorough else 30
    c.tlc("Ring", "RingSim", "sim_thorough.cfg" if thorough else "sim.cfg", workers=workers,
          simulate="num=%d" % num, depth=depth + 1, seed=c.seed, timeout=1200, line_cb=on_line,
          name="RingSim")
    if not seqs:
        raise Broken("simulation produced no sequences")
    seq_path = os.path.join(c.scratch, "ring-seqs.ndjson")
    with open(seq_path, "w") as f:
        for s in seqs:
            f.write(json.dumps(s) + "\n")
    trace_path = os.path.join(c.scratch, "ring-trace.ndjson")
    rc, out = c.go_test("proxy", HARNESS, "^TestVerifRingSequences$",
                        env={"VERIF_IN": seq_path, "VERIF_OUT": trace_path}, timeout=600, name="ringB")
    if rc != 0 or not os.path.exists(trace_path):
        raise Broken("ring sequence run failed: " + out[-1500:])
    trace = open(trace_path).read()
    nlines = trace.count("\n")
    ro = c.tlc("Ring", "RingObs", "obs.cfg", workers=1, timeout=900, files={"trace.ndjson": trace},
               name="RingObs")
    otext = open(ro.out).read()
    rejected = parse_rejected(otext)
    if rejected is None:
        raise Broken("RingObs did not report: " + ro.error_text[-800:])
    tl = trace.split("\n")
    for ln in rejected[:20]:
        ev = json.loads(tl[ln - 1])
        runno = ev["run"]
        c.violation({"module": "Ring", "op": ev["ev"], "kind": "abstract-mismatch"},
                    "real ring returned %s, which the abstract log does not allow (trace line %d)"
                    % (json.dumps(ev), ln),
                    {"kind": "sequence", "sequence": seqs[runno - 1], "line": ev})
    nontriv = sum(1 for s in seqs if any(o["op"] == "append" for o in s["ops"]))
    c.coverage.update({
        "transitions_replayed": rep["total"], "replayed_by_op": rep["by_op"],
        "abstract_mismatches": rep["abstract_mismatches"], "concrete_mismatches": rep["concrete_mismatches"],
        "nonconformant_transitions": rep["concrete_mismatches"],
        "sequences_run": len(seqs), "sequence_events_validated": nlines,
        "sequence_lines_rejected": len(rejected),
        "distinct_nontrivial": nontriv, "evaluations": rep["total"] + len(seqs),
        "rule": "every transition of the bounded Ring model (exhaustive, VIEW hides counters) replayed on the real "
                "struct; plus distinct TLC-simulated op sequences containing at least one append",
        "exhaustive": True,
        "constants": open(os.path.join(os.path.dirname(__file__), "..", "spec", "Ring", cfg)).read(),
    })
    if rep["concrete_mismatches"]:
        c.notes.append("%d transitions left the spec's concrete algorithm without violating the abstract "
                       "property (non-conformance)" % rep["concrete_mismatches"])
    samples = [{"transition": s} for s in rep["samples"][:2]] + [{"sequence": seqs[0]}]
    return c.finish(samples, traces_validated=len(seqs) - len(set(json.loads(tl[x - 1])["run"] for x in rejected)))


def parse_rejected(text):
    import re
    m = re.search(r'<<\s*"REJECTED_LINES",\s*\{([^}]*)\}\s*>>', text)
    if not m:
        return None
    body = m.group(1).strip()
    if not body:
        return []
    return sorted(int(x) for x in body.split(","))
